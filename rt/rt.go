// Package verifrt is injected into the avfs module through `go build -overlay`
// (virtual directory <repo>/verifrt).  The avfs sources that import "sync" are
// rewritten to import this package under the name sync, so every mutex of
// memfs, orefafs and memidm is one of the shim mutexes below.
//
// Three modes:
//
//	ModeFree   the shim only forwards to the real mutex (baseline behaviour).
//	ModeSeq    sequential exploration: one goroutine drives an instance; a lock
//	           request that could never be granted (the lock is already held by
//	           the only goroutine there is) panics with Deadlock instead of
//	           hanging, so self-deadlock is decided, not timed out.
//	ModeSched  controlled scheduler: exactly one registered thread runs at a
//	           time; before every lock request the running thread reaches a
//	           scheduling point where the explorer's choice sequence decides
//	           who runs next among the threads whose pending request can be
//	           granted according to the model state kept in the mutexes.
//
// Everything the scheduler touches is plain memory accessed from //go:norace
// functions and the hand-off is a spin on a plain word: the race detector sees
// none of it, so in a -race build it observes exactly the program's own
// synchronisation (the real mutexes, which are still taken) in the enumerated
// order.
package verifrt

import (
	"cmp"
	"runtime"
	"sort"
	gosync "sync"
)

// Aliases so that `sync.X` keeps compiling in rewritten files.
type (
	Locker    = gosync.Locker
	Pool      = gosync.Pool
	WaitGroup = gosync.WaitGroup
	Once      = gosync.Once
	Map       = gosync.Map
	Cond      = gosync.Cond
)

const (
	ModeFree  = 0
	ModeSeq   = 1
	ModeSched = 2
)

// mode is written only while no other goroutine uses the shim.
var mode int32

// SetMode selects the shim mode. Call it while quiescent.
//
//go:norace
func SetMode(m int) { mode = int32(m) }

// GetMode returns the current mode.
//
//go:norace
func GetMode() int { return int(mode) }

// Deadlock is the panic value raised in ModeSeq when a lock request can never
// be granted.
type Deadlock struct {
	Op string // "Lock", "RLock"
}

func (d Deadlock) Error() string { return "verifrt: DEADLOCK at " + d.Op }

// Keys returns the keys of m in ascending order (descending when ReverseKeys is
// set). `for k, v := range m` over maps in avfs is rewritten by mkoverlay into
// an iteration over Keys(m) that skips keys deleted meanwhile: a legal map
// iteration order, made deterministic.
func Keys[K cmp.Ordered, V any](m map[K]V) []K {
	ks := make([]K, 0, len(m))
	for k := range m {
		ks = append(ks, k)
	}

	if reverseKeys {
		sort.Slice(ks, func(i, j int) bool { return ks[i] > ks[j] })
	} else {
		sort.Slice(ks, func(i, j int) bool { return ks[i] < ks[j] })
	}

	return ks
}

var reverseKeys bool

// SetReverseKeys selects descending map iteration (the other extreme order).
func SetReverseKeys(b bool) { reverseKeys = b }

// ----------------------------------------------------------------------------
// Random seam (avfs.nextRandom).

// randomFn, when set, supplies the random part of temporary names.
var randomFn func() string

// SetRandom installs (or removes, with nil) the supplier of random strings.
func SetRandom(f func() string) { randomFn = f }

// Random returns the next harness-chosen random string, ok=false when no
// supplier is installed (the real os.nextRandom is then used).
//
//go:norace
func Random() (string, bool) {
	if seqRandom {
		// every value is handed out twice in a row: two callers collide on the
		// first try and must retry. Shared plain counter, touched only by the
		// thread holding the baton.
		v := seqRandomN / 2
		seqRandomN++

		return string(rune('0' + v%10)), true
	}

	if randomFn == nil {
		return "", false
	}

	return randomFn(), true
}

var (
	seqRandom  bool
	seqRandomN int
)

// SetSeqRandom installs the colliding counter-based supplier (0,0,1,1,2,2,...)
// and resets it.
//
//go:norace
func SetSeqRandom(on bool) { seqRandom, seqRandomN = on, 0 }

// ----------------------------------------------------------------------------
// Mutex shims.

// Mutex replaces sync.Mutex.
type Mutex struct {
	mu   gosync.Mutex
	held int32
	id   int32
}

// RWMutex replaces sync.RWMutex.
// Model state: ww = 1 while a writer has announced itself or holds the lock
// (new readers are blocked from the announcement on, as in sync.RWMutex);
// r = number of read holders.
type RWMutex struct {
	mu gosync.RWMutex
	ww int32
	wh int32 // writer actually holds (ww && readers drained)
	r  int32
	id int32
}

//go:norace
func (m *Mutex) Lock() {
	switch mode {
	case ModeSeq:
		if m.held != 0 {
			panic(Deadlock{Op: "Lock"})
		}

		m.held = 1
	case ModeSched:
		if !aborting {
			schedPoint(opMLock, nil, m)
		}
	}

	m.mu.Lock()
}

//go:norace
func (m *Mutex) TryLock() bool {
	ok := m.mu.TryLock()
	if ok && mode != ModeFree {
		m.held = 1
	}

	return ok
}

//go:norace
func (m *Mutex) Unlock() {
	if mode != ModeFree {
		m.held = 0
	}

	m.mu.Unlock()
}

//go:norace
func (m *RWMutex) Lock() {
	switch mode {
	case ModeSeq:
		if m.ww != 0 || m.r != 0 {
			panic(Deadlock{Op: "Lock"})
		}

		m.ww, m.wh = 1, 1
	case ModeSched:
		if !aborting {
			schedPoint(opWAnnounce, m, nil)

			if m.wh == 0 {
				schedPoint(opWAcquire, m, nil)
			}
		}
	}

	m.mu.Lock()
}

//go:norace
func (m *RWMutex) Unlock() {
	if mode != ModeFree {
		m.ww, m.wh = 0, 0
	}

	m.mu.Unlock()
}

//go:norace
func (m *RWMutex) RLock() {
	switch mode {
	case ModeSeq:
		if m.ww != 0 {
			panic(Deadlock{Op: "RLock"})
		}

		m.r++
	case ModeSched:
		if !aborting {
			schedPoint(opRLock, m, nil)
		}
	}

	m.mu.RLock()
}

//go:norace
func (m *RWMutex) RUnlock() {
	if mode != ModeFree {
		m.r--
	}

	m.mu.RUnlock()
}

// RLocker returns a Locker whose Lock/Unlock are RLock/RUnlock.
func (m *RWMutex) RLocker() Locker { return (*rlocker)(m) }

type rlocker RWMutex

func (r *rlocker) Lock()   { (*RWMutex)(r).RLock() }
func (r *rlocker) Unlock() { (*RWMutex)(r).RUnlock() }

// ----------------------------------------------------------------------------
// Scheduler.

const (
	MaxThreads = 4
	MaxPoints  = 4096

	opNone      = 0
	opCall      = 1 // start of a harness-level call (always enabled)
	opMLock     = 2
	opWAnnounce = 3
	opWAcquire  = 4
	opRLock     = 5
	opChoice    = 6 // environment choice (always enabled)

	turnMain = -1
)

// OpName returns a readable name of a scheduling-point kind.
func OpName(k int) string {
	switch k {
	case opCall:
		return "call"
	case opMLock:
		return "Lock"
	case opWAnnounce:
		return "WLock"
	case opWAcquire:
		return "WWait"
	case opRLock:
		return "RLock"
	case opChoice:
		return "choice"
	}

	return "?"
}

type threadRec struct {
	state  int32 // 0 unused, 1 live, 2 done
	opKind int32
	rw     *RWMutex
	mx     *Mutex
}

// PointRec describes one scheduling decision of an execution.
type PointRec struct {
	Running   int8  // thread that reached the point (-1: a thread finished)
	Kind      int8  // its pending operation
	MutexID   int32 // label of the mutex involved (0 for none)
	NEnabled  int8
	Enabled   [MaxThreads]int8 // canonical order: running thread first if enabled, then ascending
	Chosen    int8             // index into Enabled
	RunningOK bool             // the running thread was itself enabled
}

var (
	threads   [MaxThreads]threadRec
	nThreads  int32
	turn      int32 = turnMain
	aborting  bool
	deadlock  bool
	overflow  bool
	points    [MaxPoints]PointRec
	nPoints   int32
	choices   [MaxPoints]int8 // prescribed choice indexes (prefix)
	nChoices  int32
	badReplay bool
	mutexSeq  int32
	steps     int32
)

// Result of one scheduled execution.
type Result struct {
	Deadlock  bool
	Overflow  bool // more than MaxPoints scheduling points (horizon)
	BadReplay bool // prescribed choice out of range: harness error
	NPoints   int
}

// Step returns the number of scheduling points passed so far in the current
// execution; harnesses use it to timestamp call invocations and returns.
//
//go:norace
func Step() int { return int(steps) }

// Points returns a copy of the decisions of the last execution.
//
//go:norace
func Points() []PointRec {
	out := make([]PointRec, nPoints)
	for i := int32(0); i < nPoints; i++ {
		out[i] = points[i]
	}

	return out
}

// CallPoint is invoked by harness threads at the start of each call.
//
//go:norace
func CallPoint() {
	if mode == ModeSched && !aborting {
		schedPoint(opCall, nil, nil)
	}
}

//go:norace
func enabledOp(t *threadRec) bool {
	switch t.opKind {
	case opCall, opChoice:
		return true
	case opMLock:
		return t.mx.held == 0
	case opWAnnounce:
		return t.rw.ww == 0
	case opWAcquire:
		return t.rw.r == 0
	case opRLock:
		return t.rw.ww == 0
	}

	return false
}

// applyOp updates the model state for the operation thread t is about to do.
//
//go:norace
func applyOp(t *threadRec) {
	switch t.opKind {
	case opMLock:
		t.mx.held = 1
	case opWAnnounce:
		t.rw.ww = 1
		if t.rw.r == 0 {
			t.rw.wh = 1
		}
	case opWAcquire:
		t.rw.wh = 1
	case opRLock:
		t.rw.r++
	}

	t.opKind = opNone
	t.rw = nil
	t.mx = nil
}

//go:norace
func mutexLabel(rw *RWMutex, mx *Mutex) int32 {
	if rw != nil {
		if rw.id == 0 {
			mutexSeq++
			rw.id = mutexSeq
		}

		return rw.id
	}

	if mx != nil {
		if mx.id == 0 {
			mutexSeq++
			mx.id = mutexSeq
		}

		return mx.id
	}

	return 0
}

// decide records a scheduling point reached by thread self (or -1 when a
// thread just finished) and returns the thread to run next, or turnMain.
//
//go:norace
func decide(self int32) int32 {
	steps++

	var p PointRec

	p.Running = int8(self)
	n := int8(0)

	if self >= 0 {
		t := &threads[self]
		p.Kind = int8(t.opKind)
		p.MutexID = mutexLabel(t.rw, t.mx)

		if enabledOp(t) {
			p.Enabled[n] = int8(self)
			n++
			p.RunningOK = true
		}
	}

	live := false

	for i := int32(0); i < nThreads; i++ {
		t := &threads[i]
		if t.state != 1 {
			continue
		}

		live = true

		if i == self {
			continue
		}

		if enabledOp(t) {
			p.Enabled[n] = int8(i)
			n++
		}
	}

	p.NEnabled = n

	if n == 0 {
		if live {
			deadlock = true
		}

		return turnMain
	}

	idx := int8(0)

	if nPoints < nChoices {
		idx = choices[nPoints]
		if idx >= n || idx < 0 {
			badReplay = true
			idx = 0
		}
	}

	p.Chosen = idx

	if nPoints >= MaxPoints {
		overflow = true

		return turnMain
	}

	points[nPoints] = p
	nPoints++

	next := int32(p.Enabled[idx])
	applyOp(&threads[next])

	return next
}

//go:norace
func waitTurn(self int32) {
	for turn != self {
		if aborting {
			runtime.Goexit()
		}

		runtime.Gosched()
	}
}

//go:norace
func schedPoint(kind int32, rw *RWMutex, mx *Mutex) {
	self := turn
	if self < 0 {
		// Not a scheduled thread (setup or observation code running on the main
		// goroutine while no thread is running): behave like ModeSeq.
		seqFallback(kind, rw, mx)

		return
	}

	t := &threads[self]
	t.opKind = kind
	t.rw = rw
	t.mx = mx

	next := decide(self)
	if next != self {
		turn = next
		waitTurn(self)
	}
}

//go:norace
func seqFallback(kind int32, rw *RWMutex, mx *Mutex) {
	switch kind {
	case opMLock:
		if mx.held != 0 {
			panic(Deadlock{Op: "Lock"})
		}

		mx.held = 1
	case opWAnnounce:
		if rw.ww != 0 || rw.r != 0 {
			panic(Deadlock{Op: "Lock"})
		}

		rw.ww, rw.wh = 1, 1
	case opRLock:
		if rw.ww != 0 {
			panic(Deadlock{Op: "RLock"})
		}

		rw.r++
	}
}

// Choice is an environment choice among n alternatives made at a scheduling
// point of the running thread (alternative 0 is the default).
//
//go:norace
func Choice(n int) int {
	// Environment choices are encoded as a point whose "enabled" list is the
	// running thread repeated n times; only used from scheduled threads.
	if mode != ModeSched || turn < 0 || aborting {
		return 0
	}

	steps++

	var p PointRec

	p.Running = int8(turn)
	p.Kind = opChoice
	p.NEnabled = int8(n)
	p.RunningOK = true

	for i := 0; i < n && i < MaxThreads; i++ {
		p.Enabled[i] = int8(turn)
	}

	idx := int8(0)

	if nPoints < nChoices {
		idx = choices[nPoints]
		if int(idx) >= n || idx < 0 {
			badReplay = true
			idx = 0
		}
	}

	p.Chosen = idx

	if nPoints >= MaxPoints {
		overflow = true

		return 0
	}

	points[nPoints] = p
	nPoints++

	return int(idx)
}

//go:norace
func threadMain(self int32, body func(), wg *gosync.WaitGroup) {
	defer wg.Done()
	defer threadExit(self)

	waitTurn(self)
	body()
}

//go:norace
func threadExit(self int32) {
	threads[self].state = 2
	threads[self].opKind = opNone

	if aborting {
		return
	}

	next := decide(-1)
	turn = next
}

// Run executes bodies as threads 0..n-1 under the scheduler following the
// prescribed choice prefix (default choice 0 afterwards). It must be called
// from the harness' main goroutine in ModeSched with no other execution active.
//
//go:norace
func Run(prefix []int8, bodies []func()) Result {
	n := int32(len(bodies))
	if n > MaxThreads {
		panic("verifrt: too many threads")
	}

	for i := range threads {
		threads[i] = threadRec{}
	}

	nThreads = n
	aborting, deadlock, overflow, badReplay = false, false, false, false
	nPoints, steps, mutexSeq = 0, 0, 0

	nChoices = int32(len(prefix))
	for i, c := range prefix {
		choices[i] = c
	}

	var wg gosync.WaitGroup

	for i := int32(0); i < n; i++ {
		threads[i].state = 1
		threads[i].opKind = opCall // a thread start is always enabled
	}

	turn = turnMain
	wg.Add(int(n))

	for i := int32(0); i < n; i++ {
		go threadMain(i, bodies[i], &wg)
	}

	// First decision: which thread starts.
	first := decide(-1)
	turn = first

	if first != turnMain {
		for turn != turnMain {
			runtime.Gosched()
		}
	}

	res := Result{Deadlock: deadlock, Overflow: overflow, BadReplay: badReplay, NPoints: int(nPoints)}

	if deadlock || overflow {
		aborting = true
	}

	wg.Wait()

	aborting = false
	turn = turnMain

	return res
}
