// Package kf implements the known-findings protocol: violations are reported
// with a signature (map of fields); an instance is suppressed iff it matches a
// KNOWN-FINDING entry of /verif/known_findings.txt for the same property.
//
// File format, one entry per line:
//
//	KNOWN-FINDING: property=C01 id=KF-C01-001 <what fails> | match={"field":"regex",...}
//	fixed: property=C16 <commit> <what failed>
//
// match is a conjunction of anchored regular expressions over signature fields
// (a field absent from the signature is matched as the empty string). The
// special key "@sigs" names a file (relative to the known-findings file) that
// lists complete signatures in canonical form, one per line: the entry then
// matches exactly the listed (input, outcome) pairs and nothing else of the
// same family.
// `fixed:` lines suppress nothing.
package kf

import (
	"bufio"
	"crypto/sha1"
	"encoding/hex"
	"encoding/json"
	"fmt"
	"os"
	"path/filepath"
	"regexp"
	"sort"
	"strings"
	"sync"
)

// Entry is one KNOWN-FINDING line.
type Entry struct {
	Property string
	ID       string
	What     string
	Match    map[string]*regexp.Regexp
	Sigs     map[string]bool // canonical signatures of "@sigs" (nil: not used)
	Hits     int
}

// Sig is a violation signature.
type Sig map[string]string

func (s Sig) String() string {
	keys := make([]string, 0, len(s))
	for k := range s {
		keys = append(keys, k)
	}

	sort.Strings(keys)

	var b strings.Builder
	b.WriteByte('{')

	for i, k := range keys {
		if i > 0 {
			b.WriteByte(',')
		}

		kk, _ := json.Marshal(k)
		vv, _ := json.Marshal(s[k])
		b.Write(kk)
		b.WriteByte(':')
		b.Write(vv)
	}

	b.WriteByte('}')

	return b.String()
}

// Load parses the known-findings file, keeping entries of the given property.
func Load(path, property string) ([]*Entry, error) {
	f, err := os.Open(path)
	if err != nil {
		if os.IsNotExist(err) {
			return nil, nil
		}

		return nil, err
	}

	defer f.Close()

	var out []*Entry

	sc := bufio.NewScanner(f)
	sc.Buffer(make([]byte, 1<<20), 1<<20)

	ln := 0

	for sc.Scan() {
		ln++
		line := strings.TrimSpace(sc.Text())

		if !strings.HasPrefix(line, "KNOWN-FINDING:") {
			continue
		}

		rest := strings.TrimSpace(strings.TrimPrefix(line, "KNOWN-FINDING:"))
		parts := strings.SplitN(rest, "| match=", 2)

		if len(parts) != 2 {
			return nil, fmt.Errorf("%s:%d: missing `| match=`", path, ln)
		}

		head := strings.Fields(parts[0])
		e := &Entry{Match: map[string]*regexp.Regexp{}}

		var what []string

		for _, w := range head {
			switch {
			case strings.HasPrefix(w, "property=") && e.Property == "":
				e.Property = strings.TrimPrefix(w, "property=")
			case strings.HasPrefix(w, "id=") && e.ID == "":
				e.ID = strings.TrimPrefix(w, "id=")
			default:
				what = append(what, w)
			}
		}

		e.What = strings.Join(what, " ")

		if e.Property != property {
			continue
		}

		// curation aid: VERIF_KF_IGNORE=<id>,<id> drops entries so that what they
		// cover is printed by the discover mode (used to build the "@sigs" lists)
		if ign := os.Getenv("VERIF_KF_IGNORE"); ign != "" && strings.Contains(","+ign+",", ","+e.ID+",") {
			continue
		}

		var m map[string]string

		ms := strings.TrimSpace(parts[1])
		if i := strings.Index(ms, "} |"); i >= 0 {
			ms = ms[:i+1]
		}

		if err := json.Unmarshal([]byte(ms), &m); err != nil {
			return nil, fmt.Errorf("%s:%d: bad match JSON: %v", path, ln, err)
		}

		if sf, ok := m["@sigs"]; ok {
			delete(m, "@sigs")

			b, err := os.ReadFile(filepath.Join(filepath.Dir(path), sf))
			if err != nil {
				return nil, fmt.Errorf("%s:%d: signature list: %v", path, ln, err)
			}

			e.Sigs = map[string]bool{}

			for _, l := range strings.Split(string(b), "\n") {
				if l = strings.TrimSpace(l); l != "" && !strings.HasPrefix(l, "#") {
					e.Sigs[l] = true
				}
			}
		}

		for k, v := range m {
			re, err := regexp.Compile("^(?:" + v + ")$")
			if err != nil {
				return nil, fmt.Errorf("%s:%d: bad regexp for %s: %v", path, ln, k, err)
			}

			e.Match[k] = re
		}

		out = append(out, e)
	}

	return out, sc.Err()
}

// MatchAny reports whether one of the entries covers the signature (offline
// curation: tools/kfmatch checks saved DISCOVER output against the file).
func MatchAny(ents []*Entry, s Sig) bool {
	for _, e := range ents {
		if e.matches(s) {
			return true
		}
	}

	return false
}

func (e *Entry) matches(s Sig) bool {
	if e.Sigs != nil && !e.Sigs[s.String()] {
		return false
	}

	for k, re := range e.Match {
		if !re.MatchString(s[k]) {
			return false
		}
	}

	return true
}

// Reporter collects violation instances of one property.
type Reporter struct {
	Property  string
	ReplayDir string
	entries   []*Entry

	mu        sync.Mutex
	newSigs   map[string]*instance // unmatched, by signature string
	knownHits map[string]int
	Total     int // all instances (known + new)
	Discover  bool
}

type instance struct {
	Sig    Sig
	Replay any
	Count  int
}

// NewReporter loads the known findings for property.
func NewReporter(property, kfPath, replayDir string) (*Reporter, error) {
	es, err := Load(kfPath, property)
	if err != nil {
		return nil, err
	}

	return &Reporter{
		Property: property, ReplayDir: replayDir, entries: es,
		newSigs: map[string]*instance{}, knownHits: map[string]int{},
	}, nil
}

// Known reports whether sig matches a known finding (without recording).
func (r *Reporter) Known(sig Sig) bool {
	for _, e := range r.entries {
		if e.matches(sig) {
			return true
		}
	}

	return false
}

// Report records one violation instance; replay is any JSON-serialisable
// description sufficient to reproduce it. Returns true if it is a known finding.
func (r *Reporter) Report(sig Sig, replay any) bool {
	r.mu.Lock()
	defer r.mu.Unlock()

	r.Total++

	for _, e := range r.entries {
		if e.matches(sig) {
			e.Hits++
			r.knownHits[e.ID]++

			return true
		}
	}

	k := sig.String()
	if in, ok := r.newSigs[k]; ok {
		in.Count++

		return false
	}

	r.newSigs[k] = &instance{Sig: sig, Replay: replay, Count: 1}

	return false
}

// NewCount is the number of distinct unmatched signatures.
func (r *Reporter) NewCount() int {
	r.mu.Lock()
	defer r.mu.Unlock()

	return len(r.newSigs)
}

// KnownMatched returns the ids of known findings matched in this run.
func (r *Reporter) KnownMatched() []string {
	var ids []string
	for id := range r.knownHits {
		ids = append(ids, id)
	}

	sort.Strings(ids)

	return ids
}

// Finish prints KNOWN-FINDING / VIOLATION lines, writes replay files and
// returns the process exit code (0 or 1).
func (r *Reporter) Finish() int {
	r.mu.Lock()
	defer r.mu.Unlock()

	for _, e := range r.entries {
		if e.Hits > 0 {
			fmt.Printf("KNOWN-FINDING: property=%s %s %s (%d instances)\n", r.Property, e.ID, e.What, e.Hits)
		} else {
			fmt.Printf("NOTE: property=%s %s not reproduced in this run\n", r.Property, e.ID)
		}
	}

	if len(r.newSigs) == 0 {
		return 0
	}

	keys := make([]string, 0, len(r.newSigs))
	for k := range r.newSigs {
		keys = append(keys, k)
	}

	sort.Strings(keys)

	_ = os.MkdirAll(r.ReplayDir, 0o755)

	for i, k := range keys {
		in := r.newSigs[k]
		h := sha1.Sum([]byte(k))
		name := filepath.Join(r.ReplayDir, fmt.Sprintf("%s-%s.json", r.Property, hex.EncodeToString(h[:6])))

		b, _ := json.MarshalIndent(map[string]any{
			"property": r.Property, "signature": in.Sig, "instances": in.Count, "replay": in.Replay,
		}, "", " ")
		_ = os.WriteFile(name, append(b, '\n'), 0o644)

		if r.Discover {
			fmt.Printf("DISCOVER property=%s n=%d sig=%s\n", r.Property, in.Count, k)

			continue
		}

		if i < 40 {
			fmt.Printf("VIOLATION property=%s replay=%s\n", r.Property, name)
			fmt.Printf("  signature: %s (%d instances)\n", k, in.Count)
		}
	}

	if r.Discover {
		return 0
	}

	if len(keys) > 40 {
		fmt.Printf("  ... and %d more distinct violation signatures\n", len(keys)-40)
	}

	return 1
}
