// Package bfs is engine A: breadth-first explicit-state search over operation
// histories executed on the real implementation.
//
// A state is identified by the shortest history reaching it. Live objects
// cannot be cloned, so a worker expands a state by building a fresh system,
// replaying the history and applying each operation of the alphabet; after an
// operation that changed the state the system is rebuilt (fresh + replay).
// The canonical state key returned by the system deduplicates; the oracle runs
// inside System.Step on every transition.
//
// Workers are subprocesses (kernel oracles use process-global cwd, umask and
// per-thread credentials; a fatal runtime error kills only the worker and is
// attributed to the task it was executing).
package bfs

import (
	"bufio"
	"encoding/gob"
	"fmt"
	"io"
	"os"
	"os/exec"
	"path/filepath"
	"runtime"
	"sort"
	"sync"
	"time"
)

// Viol is one oracle failure observed on a transition.
type Viol struct {
	Sig    map[string]string
	Detail string // expected/observed, free text
}

// StepResult is what a system reports after applying one operation.
type StepResult struct {
	Changed bool   // the state key differs from the one before the operation
	Key     string // canonical key of the state reached
	Broken  bool   // state must not be expanded (sides diverged, instance poisoned)
	Rebuild bool   // the system must be rebuilt even though the key is unchanged
	Outcome string // outcome class of the transition (for vacuity statistics)
	Viols   []Viol
}

// System is one instance of the implementation under test plus its oracle.
type System interface {
	NumOps() int
	OpString(i int) string
	Reset() error // fresh instance(s) in the initial state
	Key() string
	Step(op int) StepResult
	Close()
}

// Task / reply exchanged with workers.
type task struct {
	History []int
	Quit    bool
}

type succ struct {
	Op     int
	Key    string
	Broken bool
}

type violOut struct {
	Viol
	History []string
	Op      string
}

type reply struct {
	Succ     []succ
	Viols    []violOut
	Trans    int
	Outcomes map[string]int
	Err      string
	InitKey  string
}

// WorkerArg is the command-line flag that turns the binary into a worker.
const WorkerArg = "-bfsworker"

// MaybeWorker must be called early in main: if the process was started as a
// worker it serves tasks for the named system and never returns.
func MaybeWorker(factory func(name string) System) {
	for i, a := range os.Args {
		if a == WorkerArg && i+1 < len(os.Args) {
			serve(factory(os.Args[i+1]))
			os.Exit(0)
		}
	}
}

func serve(sys System) {
	in := gob.NewDecoder(bufio.NewReader(os.Stdin))
	w := bufio.NewWriter(os.Stdout)
	out := gob.NewEncoder(w)

	defer sys.Close()

	for {
		var t task
		if err := in.Decode(&t); err != nil || t.Quit {
			return
		}

		r := expand(sys, t.History)
		if err := out.Encode(&r); err != nil {
			return
		}

		w.Flush()
	}
}

func replay(sys System, h []int) error {
	if err := sys.Reset(); err != nil {
		return err
	}

	for _, op := range h {
		sys.Step(op)
	}

	return nil
}

func expand(sys System, h []int) (r reply) {
	r.Outcomes = map[string]int{}

	if err := replay(sys, h); err != nil {
		r.Err = err.Error()

		return
	}

	base := sys.Key()
	r.InitKey = base

	hs := make([]string, len(h))
	for i, op := range h {
		hs[i] = sys.OpString(op)
	}

	n := sys.NumOps()
	for op := 0; op < n; op++ {
		sr := sys.Step(op)
		r.Trans++
		r.Outcomes[sr.Outcome]++

		for _, v := range sr.Viols {
			r.Viols = append(r.Viols, violOut{Viol: v, History: hs, Op: sys.OpString(op)})
		}

		if sr.Changed || sr.Broken || sr.Rebuild {
			if sr.Changed {
				r.Succ = append(r.Succ, succ{Op: op, Key: sr.Key, Broken: sr.Broken})
			}

			if err := replay(sys, h); err != nil {
				r.Err = err.Error()

				return
			}

			if k := sys.Key(); k != base {
				r.Err = fmt.Sprintf("replay divergence: history %v reached a different state on re-execution\n first: %s\n now:   %s", hs, base, k)

				return
			}
		}
	}

	return
}

// Config of one exploration.
type Config struct {
	System   string // name given to the factory
	MaxDepth int    // histories of length <= MaxDepth are executed
	Workers  int
	Deadline time.Time // zero: none
	Report   func(system string, history []string, op string, v Viol)
	// ExpandBroken: also expand states flagged Broken (default false).
	ExpandBroken bool
	// MaxStates caps the frontier (0 = none); reaching it sets Capped.
	MaxStates int
}

// Stats of one exploration.
type Stats struct {
	System        string         `json:"system"`
	States        int            `json:"states"`
	Transitions   int            `json:"transitions"`
	DepthDone     int            `json:"depth_completed"` // all histories of this length were executed
	Exhaustive    bool           `json:"exhaustive"`      // nothing was cut by a deadline or cap
	FrontierLeft  int            `json:"frontier_left"`
	Capped        bool           `json:"capped"`
	Outcomes      map[string]int `json:"outcomes"`
	PerDepth      []int          `json:"states_per_depth"`
	WorkerCrashes int            `json:"worker_crashes"`
	HarnessErr    string         `json:"harness_error,omitempty"`
	SampleStates  []string       `json:"-"`
	Samples       [][]string     `json:"-"`
}

type worker struct {
	cmd *exec.Cmd
	enc *gob.Encoder
	dec *gob.Decoder
	in  io.WriteCloser
	bw  *bufio.Writer
}

func startWorker(system string, extra []string) (*worker, error) {
	args := append([]string{}, os.Args[1:]...)
	args = append(args, extra...)
	args = append(args, WorkerArg, system)

	cmd := exec.Command(os.Args[0], args...)
	cmd.Stderr = os.Stderr
	cmd.Env = append(os.Environ(), "GOMAXPROCS=2")

	in, err := cmd.StdinPipe()
	if err != nil {
		return nil, err
	}

	out, err := cmd.StdoutPipe()
	if err != nil {
		return nil, err
	}

	if err := cmd.Start(); err != nil {
		return nil, err
	}

	bw := bufio.NewWriter(in)

	return &worker{cmd: cmd, enc: gob.NewEncoder(bw), dec: gob.NewDecoder(bufio.NewReader(out)), in: in, bw: bw}, nil
}

func (w *worker) do(t task) (reply, error) {
	var r reply

	if err := w.enc.Encode(&t); err != nil {
		return r, err
	}

	if err := w.bw.Flush(); err != nil {
		return r, err
	}

	err := w.dec.Decode(&r)

	return r, err
}

func (w *worker) stop() {
	_ = w.enc.Encode(&task{Quit: true})
	_ = w.bw.Flush()
	_ = w.in.Close()

	done := make(chan struct{})

	go func() { _ = w.cmd.Wait(); close(done) }()

	select {
	case <-done:
	case <-time.After(5 * time.Second):
		_ = w.cmd.Process.Kill()
		<-done
	}
}

// Run explores one system breadth-first.
func Run(cfg Config, opString func(int) string) Stats {
	if cfg.Workers <= 0 {
		cfg.Workers = runtime.NumCPU()
	}

	st := Stats{System: cfg.System, Outcomes: map[string]int{}, Exhaustive: true}

	type node struct {
		h      []int
		broken bool
	}

	seen := map[string]bool{}
	frontier := []node{{h: nil}}
	initSeen := false

	var mu sync.Mutex

	for depth := 0; depth < cfg.MaxDepth && len(frontier) > 0; depth++ {
		// expanding states at `depth` executes all histories of length depth+1
		var (
			next    []node
			idx     int
			wg      sync.WaitGroup
			aborted bool
		)

		nw := cfg.Workers
		if nw > len(frontier) {
			nw = len(frontier)
		}

		for wi := 0; wi < nw; wi++ {
			wg.Add(1)

			go func() {
				defer wg.Done()

				w, err := startWorker(cfg.System, nil)
				if err != nil {
					mu.Lock()
					st.HarnessErr = err.Error()
					mu.Unlock()

					return
				}

				defer func() { w.stop() }()

				for {
					mu.Lock()

					if idx >= len(frontier) || st.HarnessErr != "" ||
						(!cfg.Deadline.IsZero() && time.Now().After(cfg.Deadline)) {
						if idx < len(frontier) {
							aborted = true
						}

						mu.Unlock()

						return
					}

					nd := frontier[idx]
					idx++
					mu.Unlock()

					r, err := w.do(task{History: nd.h})
					if err != nil {
						// worker died: attribute to this task
						mu.Lock()
						st.WorkerCrashes++

						hs := make([]string, len(nd.h))
						for i, op := range nd.h {
							hs[i] = opString(op)
						}

						if cfg.Report != nil {
							cfg.Report(cfg.System, hs, "<some operation of the alphabet>", Viol{
								Sig:    map[string]string{"kind": "worker-crash", "system": cfg.System},
								Detail: "worker process died while expanding this state: " + err.Error(),
							})
						}

						mu.Unlock()

						_ = w.cmd.Process.Kill()
						_ = w.cmd.Wait()

						w, err = startWorker(cfg.System, nil)
						if err != nil {
							mu.Lock()
							st.HarnessErr = err.Error()
							mu.Unlock()

							return
						}

						continue
					}

					mu.Lock()

					if r.Err != "" {
						st.HarnessErr = r.Err
						mu.Unlock()

						return
					}

					if !initSeen {
						initSeen = true
						seen[r.InitKey] = true
						st.States++
					}

					st.Transitions += r.Trans

					for k, n := range r.Outcomes {
						st.Outcomes[k] += n
					}

					for _, v := range r.Viols {
						if cfg.Report != nil {
							cfg.Report(cfg.System, v.History, v.Op, v.Viol)
						}
					}

					for _, s := range r.Succ {
						// a state that will not be expanded must not shadow the same key
						// reached later through a transition that may be expanded
						sk := s.Key
						if s.Broken && !cfg.ExpandBroken {
							sk = "broken|" + sk
						}

						if seen[sk] {
							continue
						}

						seen[sk] = true
						st.States++

						h := append(append([]int{}, nd.h...), s.Op)

						if len(st.Samples) < 5 {
							hs := make([]string, len(h))
							for i, op := range h {
								hs[i] = opString(op)
							}

							st.Samples = append(st.Samples, hs)
						}

						if s.Broken && !cfg.ExpandBroken {
							continue
						}

						next = append(next, node{h: h})
					}

					mu.Unlock()
				}
			}()
		}

		wg.Wait()

		if st.HarnessErr != "" {
			st.Exhaustive = false

			return st
		}

		if aborted {
			st.Exhaustive = false
			st.FrontierLeft = len(frontier) - idx

			return st
		}

		st.DepthDone = depth + 1
		st.PerDepth = append(st.PerDepth, len(next))

		// deterministic order of the next frontier
		sort.Slice(next, func(i, j int) bool { return lessInts(next[i].h, next[j].h) })

		if cfg.MaxStates > 0 && len(next) > cfg.MaxStates {
			next = next[:cfg.MaxStates]
			st.Capped = true
			st.Exhaustive = false
		}

		frontier = next
	}

	dumpKeys(cfg.System, seen)

	return st
}

// dumpKeys writes the state keys of one exploration to $VERIF_BFS_DUMPKEYS.<system>
// (debugging aid: two runs over the same tree must produce identical files).
func dumpKeys(system string, seen map[string]bool) {
	f := os.Getenv("VERIF_BFS_DUMPKEYS")
	if f == "" {
		return
	}

	keys := make([]string, 0, len(seen))
	for k := range seen {
		keys = append(keys, k)
	}

	sort.Strings(keys)

	var b []byte
	for _, k := range keys {
		b = append(b, "=== state\n"+k+"\n"...)
	}

	_ = os.WriteFile(f+"."+filepath.Base(system), b, 0o644)
}

func lessInts(a, b []int) bool {
	for i := 0; i < len(a) && i < len(b); i++ {
		if a[i] != b[i] {
			return a[i] < b[i]
		}
	}

	return len(a) < len(b)
}
