// Package ev writes /verif/evidence/<id>.json (EVIDENCE.schema.json).
package ev

import (
	"encoding/json"
	"os"
	"path/filepath"
	"strconv"
	"time"
)

// Evidence mirrors the schema; Coverage carries the level's keys plus extras.
type Evidence struct {
	PropertyID  string         `json:"property_id"`
	Tier        string         `json:"tier"`
	Seed        int            `json:"seed"`
	Level       string         `json:"level"`
	Coverage    map[string]any `json:"coverage"`
	Assumptions []string       `json:"assumptions,omitempty"`
	WallS       float64        `json:"wall_s"`
	Violations  int            `json:"violations"`
}

var start = time.Now()

// Seed returns VERIF_SEED (0 if unset or malformed).
func Seed() int {
	n, _ := strconv.Atoi(os.Getenv("VERIF_SEED"))

	return n
}

// Write stores the evidence file atomically.
func Write(path string, e Evidence) error {
	if e.WallS == 0 {
		e.WallS = time.Since(start).Seconds()
	}

	if e.Coverage == nil {
		e.Coverage = map[string]any{}
	}

	b, err := json.MarshalIndent(e, "", " ")
	if err != nil {
		return err
	}

	if err := os.MkdirAll(filepath.Dir(path), 0o755); err != nil {
		return err
	}

	tmp := path + ".tmp"
	if err := os.WriteFile(tmp, append(b, '\n'), 0o644); err != nil {
		return err
	}

	return os.Rename(tmp, path)
}

// Elapsed returns the seconds since process start.
func Elapsed() float64 { return time.Since(start).Seconds() }
