// Package concfs builds and runs small concurrent programs (2-3 threads, 1-2
// calls each) on a real MemFS / OrefaFS under the controlled scheduler and
// provides the oracles shared by C05 (final-state invariants), C06
// (linearizability), C07 (deadlock / panic) and C08 (race detector).
package concfs

import (
	"fmt"
	"io/fs"
	"os"
	"sort"
	"strings"

	"github.com/avfs/avfs"
	"github.com/avfs/avfs/idm/memidm"
	"github.com/avfs/avfs/verifrt"
	"github.com/avfs/avfs/vfs/memfs"
	"github.com/avfs/avfs/vfs/orefafs"

	"verif/lib/fsx"
	"verif/lib/sched"
)

// Prog is a concurrent program: Threads[i] is the call list of thread i.
type Prog struct {
	FS      string       `json:"fs"`              // MemFS | OrefaFS
	Users   bool         `json:"users,omitempty"` // MemFS: per-thread views with different non-admin users
	Threads [][]fsx.Call `json:"threads"`
	// SharedOpen, when set, is an OpenFile performed by setup whose handle all
	// threads share through SH.* steps.
	SharedOpen *fsx.Call `json:"shared_open,omitempty"`
	// Bound, when > 0, is the preemption bound of this program (default: the plan's).
	Bound int `json:"bound,omitempty"`
}

func (p Prog) String() string {
	var ts []string

	for _, t := range p.Threads {
		var cs []string
		for _, c := range t {
			cs = append(cs, c.String())
		}

		ts = append(ts, strings.Join(cs, "; "))
	}

	u := ""
	if p.Users {
		u = "+users"
	}

	return p.FS + u + ": " + strings.Join(ts, " || ")
}

// Template returns the multiset of call kinds with operand strings, used in
// violation signatures (stable across runs).
func (p Prog) Template() string {
	var ts []string

	for _, t := range p.Threads {
		var cs []string
		for _, c := range t {
			cs = append(cs, c.String())
		}

		ts = append(ts, strings.Join(cs, ";"))
	}

	sort.Strings(ts)

	return strings.Join(ts, " || ")
}

type hooked interface {
	avfs.VFS
	VerifCheck() []string
	VerifDump() []string
}

// Inst is a fresh instance with one view per thread.
type Inst struct {
	Root   hooked
	Views  []avfs.VFS
	Shared avfs.File // handle shared by all threads (opened by setup when the program uses SH.* steps)
}

// threadCtx is the per-thread state: its view and its private handle slot.
type threadCtx struct {
	view   avfs.VFS
	h      avfs.File
	shared *avfs.File
}

// do executes one step. Steps named "H.*" act on the thread's private handle,
// "SH.*" on the handle shared by all threads; everything else is a VFS call.
func (cx *threadCtx) do(c fsx.Call) (res fsx.Res) {
	if c.Op == "SetUserSelf" { // per-view setter: set the view's user to itself
		return fsx.Res{Kind: fsx.ErrKind(cx.view.SetUser(cx.view.User()))}
	}

	if c.Op == "ChownSelf" || c.Op == "LchownSelf" { // the owner (or somebody else) asks for the ids of the calling view's user
		u := cx.view.User()
		if c.Op == "ChownSelf" {
			return fsx.Res{Kind: fsx.ErrKind(cx.view.Chown(c.A, u.Uid(), u.Gid()))}
		}

		return fsx.Res{Kind: fsx.ErrKind(cx.view.Lchown(c.A, u.Uid(), u.Gid()))}
	}

	if !strings.HasPrefix(c.Op, "H.") && !strings.HasPrefix(c.Op, "SH.") {
		return fsx.Do(cx.view, c)
	}

	k, msg := fsx.Guard(func() { res = cx.doHandle(c) })
	if k != "" {
		return fsx.Res{Kind: k, Msg: msg}
	}

	return res
}

func (cx *threadCtx) doHandle(c fsx.Call) fsx.Res {
	er := func(err error) fsx.Res {
		if err != nil {
			return fsx.Res{Kind: fsx.ErrKind(err), Msg: err.Error()}
		}

		return fsx.Res{Kind: "ok"}
	}

	op := c.Op
	hp := &cx.h

	if strings.HasPrefix(op, "SH.") {
		hp = cx.shared
		op = op[1:]
	}

	if op == "H.Open" {
		f, err := cx.view.OpenFile(c.A, c.Flag, fsx.UnixMode(c.Perm))
		if err != nil {
			*hp = nil

			return er(err)
		}

		*hp = f

		return er(nil)
	}

	h := *hp
	if h == nil {
		return fsx.Res{Kind: "nohandle"}
	}

	switch op {
	case "H.Write":
		data := []byte(c.Data)
		n, err := h.Write(data)
		fsx.Scribble(data)

		r := er(err)
		r.Val = fmt.Sprint(n)

		return r
	case "H.WriteBig": // N bytes, more than the 512-byte minimum buffer of ReadFile
		data := []byte(strings.Repeat("Z", int(c.N)))
		n, err := h.Write(data)
		fsx.Scribble(data)

		r := er(err)
		r.Val = fmt.Sprint(n)

		return r
	case "H.WriteAt":
		data := []byte(c.Data)
		n, err := h.WriteAt(data, c.N)
		fsx.Scribble(data)

		r := er(err)
		r.Val = fmt.Sprint(n)

		return r
	case "H.Read":
		buf := make([]byte, c.N)
		n, err := h.Read(buf)
		r := er(err)
		r.Val = fmt.Sprintf("%q", buf[:max(n, 0)])

		return r
	case "H.ReadAt":
		buf := make([]byte, c.N)
		n, err := h.ReadAt(buf, c.M)
		r := er(err)
		r.Val = fmt.Sprintf("%q", buf[:max(n, 0)])

		return r
	case "H.Seek":
		o, err := h.Seek(c.N, int(c.M))
		r := er(err)
		r.Val = fmt.Sprint(o)

		return r
	case "H.Truncate":
		return er(h.Truncate(c.N))
	case "H.Stat":
		fi, err := h.Stat()
		r := er(err)

		if err == nil {
			r.Val = fmt.Sprintf("%s sz%d", fsx.ModeString(fi.Mode()), fi.Size())
		}

		return r
	case "H.Sync":
		return er(h.Sync())
	case "H.Chmod":
		return er(h.Chmod(fsx.UnixMode(c.Perm)))
	case "H.ReadDir":
		es, err := h.ReadDir(int(c.N))
		r := er(err)

		var names []string
		for _, e := range es {
			names = append(names, e.Name()+fsx.TypeChar(e.Type()))
		}

		sort.Strings(names)
		r.Val = strings.Join(names, ",")

		return r
	case "H.Readdirnames":
		ns, err := h.Readdirnames(int(c.N))
		r := er(err)
		sort.Strings(ns)
		r.Val = strings.Join(ns, ",")

		return r
	case "H.Name":
		return fsx.Res{Kind: "ok", Val: h.Name()}
	case "H.Close":
		return er(h.Close())
	}

	panic("concfs: unknown handle op " + c.Op)
}

// SetupCalls builds the initial tree.
var SetupCalls = []fsx.Call{
	{Op: "Mkdir", A: "/d", Perm: 0o777},
	{Op: "WriteFile", A: "/d/x", Data: "xyz", Perm: 0o666}, // three bytes: offsets inside the file exist
	{Op: "Mkdir", A: "/d/e", Perm: 0o777},
	{Op: "WriteFile", A: "/d/e/z", Data: "z", Perm: 0o666},
	{Op: "Link", A: "/d/x", B: "/d/h"},
	{Op: "Mkdir", A: "/f", Perm: 0o777},
	{Op: "WriteFile", A: "/f/g", Data: "g", Perm: 0o666},
	{Op: "Chmod", A: "/d", Perm: 0o777},
	{Op: "Chmod", A: "/d/e", Perm: 0o777},
	{Op: "Chmod", A: "/f", Perm: 0o777},
	{Op: "Chmod", A: "/d/x", Perm: 0o666},
	{Op: "Chmod", A: "/d/e/z", Perm: 0o666},
}

// NewInst creates the instance for p. It runs on the calling goroutine
// (scheduler idle: lock requests fall back to sequential semantics).
func NewInst(p Prog) (*Inst, error) {
	in := &Inst{}
	dirs := []avfs.DirInfo{{Path: "/tmp", Perm: 0o777}}
	n := len(p.Threads)

	switch p.FS {
	case "MemFS":
		idm := memidm.New()
		m := memfs.NewWithOptions(&memfs.Options{Idm: idm, OSType: avfs.OsLinux, SystemDirs: dirs})
		_ = m.SetUMask(0o022)
		_ = m.Chdir("/")
		in.Root = m

		for _, c := range SetupCalls {
			if r := fsx.Do(m, c); r.Kind != "ok" {
				return nil, fmt.Errorf("setup %s: %s", c, r)
			}
		}

		// a symbolic link (MemFS only): /d/s -> x
		if err := m.Symlink("x", "/d/s"); err != nil {
			return nil, err
		}

		// /tmp is sticky, as it is on a real system: who owns an entry matters to Remove and Rename there
		if err := m.Chmod("/tmp", 0o777|fs.ModeSticky); err != nil {
			return nil, err
		}

		if p.Users {
			if _, err := idm.AddGroup("grp"); err != nil {
				return nil, err
			}
		}

		for i := 0; i < n; i++ {
			v, err := m.Sub("/")
			if err != nil {
				return nil, err
			}

			if p.Users {
				u, err := idm.AddUser(fmt.Sprintf("usr%d", i), "grp")
				if err != nil {
					return nil, err
				}

				// thread 0 owns /d/x (= /d/h) and /d/e, thread 1 owns /f: owner-only
				// calls (Chmod, Chtimes) are allowed to one thread and refused to the other
				if i < 2 {
					for _, name := range [][]string{{"/d/x", "/d/e"}, {"/f"}}[i] {
						if err := m.Chown(name, u.Uid(), u.Gid()); err != nil {
							return nil, err
						}
					}
				}

				if err := v.SetUser(u); err != nil {
					return nil, err
				}
			}

			in.Views = append(in.Views, v)
		}
	case "OrefaFS":
		o := orefafs.NewWithOptions(&orefafs.Options{OSType: avfs.OsLinux, SystemDirs: dirs})
		_ = o.SetUMask(0o022)
		in.Root = o

		for _, c := range SetupCalls {
			if r := fsx.Do(o, c); r.Kind != "ok" {
				return nil, fmt.Errorf("setup %s: %s", c, r)
			}
		}

		for i := 0; i < n; i++ {
			in.Views = append(in.Views, o)
		}
	default:
		return nil, fmt.Errorf("unknown fs %q", p.FS)
	}

	if p.SharedOpen != nil {
		f, err := in.Views[0].OpenFile(p.SharedOpen.A, p.SharedOpen.Flag, fsx.UnixMode(p.SharedOpen.Perm))
		if err != nil {
			return nil, fmt.Errorf("shared open %s: %v", p.SharedOpen, err)
		}

		in.Shared = f
	}

	return in, nil
}

// CallRec is one executed call.
type CallRec struct {
	Thread int     `json:"thread"`
	Idx    int     `json:"idx"`
	Call   string  `json:"call"`
	Res    fsx.Res `json:"res"`
	Inv    int     `json:"inv"`
	Ret    int     `json:"ret"` // -1: never returned
}

// Outcome of one execution.
type Outcome struct {
	Recs     []CallRec
	Dump     []string
	Bad      []string // VerifCheck failures on the final state
	Deadlock bool
	Horizon  bool
	Points   []verifrt.PointRec
}

// normRes hides the random part of temp names.
func normRes(c fsx.Call, r fsx.Res) fsx.Res {
	if (c.Op == "CreateTemp" || c.Op == "MkdirTemp") && r.Kind == "ok" {
		r.Val = "<tmp>"
	}

	r.Msg = ""

	return r
}

// Key is the observable outcome: normalised results in thread order + dump.
func (o *Outcome) Key(p Prog) string {
	var b strings.Builder

	for _, r := range o.Recs {
		b.WriteString(normRes(p.Threads[r.Thread][r.Idx], r.Res).String())
		b.WriteByte('|')
	}

	b.WriteString("\n")
	b.WriteString(strings.Join(o.Dump, "\n"))

	return b.String()
}

// RunScheduled executes p once under the scheduler following prefix.
func RunScheduled(p Prog, prefix []int8) (*Outcome, sched.Exec, error) {
	verifrt.SetSeqRandom(true)

	in, err := NewInst(p)
	if err != nil {
		return nil, sched.Exec{}, err
	}

	n := len(p.Threads)
	recs := make([][]CallRec, n)
	bodies := make([]func(), n)

	for t := 0; t < n; t++ {
		t := t
		calls := p.Threads[t]
		recs[t] = make([]CallRec, len(calls))

		for i, c := range calls {
			recs[t][i] = CallRec{Thread: t, Idx: i, Call: c.String(), Ret: -1, Inv: -1}
		}

		cx := &threadCtx{view: in.Views[t], shared: &in.Shared}

		bodies[t] = func() {
			for i, c := range calls {
				verifrt.CallPoint()
				recs[t][i].Inv = verifrt.Step()
				r := cx.do(c)
				recs[t][i].Res = r
				recs[t][i].Ret = verifrt.Step()
			}
		}
	}

	res := verifrt.Run(prefix, bodies)
	pts := verifrt.Points()

	o := &Outcome{Deadlock: res.Deadlock, Horizon: res.Overflow, Points: pts}
	for t := 0; t < n; t++ {
		o.Recs = append(o.Recs, recs[t]...)
	}

	if !res.Deadlock && !res.Overflow {
		k, msg := fsx.Guard(func() {
			o.Dump = in.Root.VerifDump()
			o.Bad = in.Root.VerifCheck()
		})
		if k != "" {
			o.Bad = append(o.Bad, "observer "+k+": "+msg)
		}
	}

	return o, sched.Exec{Res: res, Points: pts}, nil
}

// SeqEntry is the outcome of one sequential permutation.
type SeqEntry struct {
	Order []int // sequence of thread ids
	Key   string
	Recs  []CallRec
}

// SeqTable runs every interleaving of whole calls (respecting per-thread
// order) sequentially on fresh instances.
func SeqTable(p Prog) ([]SeqEntry, error) {
	var (
		out   []SeqEntry
		order []int
		left  = make([]int, len(p.Threads))
		total int
	)

	for i, t := range p.Threads {
		left[i] = len(t)
		total += len(t)
	}

	var rec func() error

	rec = func() error {
		if len(order) == total {
			e, err := runSeq(p, order)
			if err != nil {
				return err
			}

			out = append(out, e)

			return nil
		}

		for t := range p.Threads {
			if left[t] == 0 {
				continue
			}

			left[t]--
			order = append(order, t)

			if err := rec(); err != nil {
				return err
			}

			order = order[:len(order)-1]
			left[t]++
		}

		return nil
	}

	if err := rec(); err != nil {
		return nil, err
	}

	return out, nil
}

func runSeq(p Prog, order []int) (SeqEntry, error) {
	verifrt.SetSeqRandom(true)

	in, err := NewInst(p)
	if err != nil {
		return SeqEntry{}, err
	}

	next := make([]int, len(p.Threads))
	recs := make([][]CallRec, len(p.Threads))
	ctxs := make([]*threadCtx, len(p.Threads))

	for t := range recs {
		recs[t] = make([]CallRec, len(p.Threads[t]))
		ctxs[t] = &threadCtx{view: in.Views[t], shared: &in.Shared}
	}

	for _, t := range order {
		i := next[t]
		next[t]++
		c := p.Threads[t][i]
		recs[t][i] = CallRec{Thread: t, Idx: i, Call: c.String(), Res: ctxs[t].do(c)}
	}

	o := &Outcome{}
	for t := range recs {
		o.Recs = append(o.Recs, recs[t]...)
	}

	k, msg := fsx.Guard(func() { o.Dump = in.Root.VerifDump() })
	if k != "" {
		o.Dump = []string{"observer " + k + ": " + msg}
	}

	return SeqEntry{Order: append([]int{}, order...), Key: o.Key(p), Recs: o.Recs}, nil
}

// Linearizable reports whether the outcome equals that of some sequential
// order consistent with the real-time order of the execution (call X precedes
// call Y when X returned before Y was invoked).
func Linearizable(p Prog, o *Outcome, table []SeqEntry) (bool, []int) {
	key := o.Key(p)

	// index recs by thread
	byThread := make([][]CallRec, len(p.Threads))
	for _, r := range o.Recs {
		byThread[r.Thread] = append(byThread[r.Thread], r)
	}

	for _, e := range table {
		if e.Key != key {
			continue
		}

		// check real-time consistency of e.Order
		pos := map[[2]int]int{}
		next := make([]int, len(p.Threads))

		for i, t := range e.Order {
			pos[[2]int{t, next[t]}] = i
			next[t]++
		}

		ok := true

		for _, x := range o.Recs {
			for _, y := range o.Recs {
				if x.Ret >= 0 && y.Inv >= 0 && x.Ret <= y.Inv && (x.Thread != y.Thread || x.Idx != y.Idx) {
					if pos[[2]int{x.Thread, x.Idx}] > pos[[2]int{y.Thread, y.Idx}] {
						ok = false
					}
				}
			}
		}

		if ok {
			return true, e.Order
		}
	}

	return false, nil
}

// TempClash reports temp-name calls that succeeded with the same name.
func TempClash(p Prog, o *Outcome) bool {
	seen := map[string]bool{}

	for _, r := range o.Recs {
		c := p.Threads[r.Thread][r.Idx]
		if (c.Op == "CreateTemp" || c.Op == "MkdirTemp") && r.Res.Kind == "ok" {
			if seen[r.Res.Val] {
				return true
			}

			seen[r.Res.Val] = true
		}
	}

	return false
}

// Tmpl is one thread template: a list of primitive steps. Composite helpers of
// avfs (WriteFile, ReadFile, ReadDir, Create) are written out as the primitive
// calls they are made of, because only primitives are units of atomicity
// (os.WriteFile is not atomic on Linux either).
type Tmpl []fsx.Call

func writeFile(p, data string) Tmpl {
	return Tmpl{
		{Op: "H.Open", A: p, Flag: os.O_WRONLY | os.O_CREATE | os.O_TRUNC, Perm: 0o644},
		{Op: "H.Write", Data: data}, {Op: "H.Close"},
	}
}

func appendFile(p, data string) Tmpl {
	return Tmpl{{Op: "H.Open", A: p, Flag: os.O_WRONLY | os.O_APPEND}, {Op: "H.Write", Data: data}, {Op: "H.Close"}}
}

func readFile(p string) Tmpl {
	return Tmpl{{Op: "H.Open", A: p, Flag: os.O_RDONLY}, {Op: "H.Read", N: 16}, {Op: "H.Close"}}
}

func readDir(p string) Tmpl {
	return Tmpl{{Op: "H.Open", A: p, Flag: os.O_RDONLY}, {Op: "H.ReadDir", N: -1}, {Op: "H.Close"}}
}

func one(c fsx.Call) Tmpl { return Tmpl{c} }

// Templates is the alphabet of thread templates on colliding names of the
// initial tree (/d{x,h->x,e{z},s (MemFS: symbolic link to x)}, /f{g}, /tmp). removeAll adds RemoveAll, which is
// documented as "removes what it can" and is therefore not required to be
// atomic (used by the C07/C08 plans only).
func Templates(fs string, core, removeAll bool) []Tmpl {
	ex := os.O_RDWR | os.O_CREATE | os.O_EXCL
	t := []Tmpl{
		one(fsx.Call{Op: "Mkdir", A: "/d/y", Perm: 0o755}),
		one(fsx.Call{Op: "OpenFile", A: "/d/y", Flag: ex, Perm: 0o644}),
		writeFile("/d/y", "C"),
		one(fsx.Call{Op: "Remove", A: "/d/x"}),
		one(fsx.Call{Op: "Remove", A: "/d/e/z"}),
		one(fsx.Call{Op: "Remove", A: "/d/e"}),
		one(fsx.Call{Op: "Rename", A: "/d/x", B: "/d/y"}),
		one(fsx.Call{Op: "Rename", A: "/d/x", B: "/f/x"}),
		one(fsx.Call{Op: "Rename", A: "/d/e", B: "/f/e"}),
		one(fsx.Call{Op: "Rename", A: "/f", B: "/d/e/f"}),
		one(fsx.Call{Op: "Link", A: "/d/x", B: "/d/y"}),
		one(fsx.Call{Op: "Truncate", A: "/d/x", N: 0}),
		readDir("/d"),
		one(fsx.Call{Op: "CreateTemp", A: "/d", B: "t*"}),
	}

	if fs == "MemFS" {
		t = append(t, one(fsx.Call{Op: "Symlink", A: "x", B: "/d/y"}))
	}

	if removeAll {
		t = append(t, one(fsx.Call{Op: "RemoveAll", A: "/d/e"}))
	}

	if core {
		return t
	}

	t = append(t,
		one(fsx.Call{Op: "MkdirAll", A: "/d/y/y", Perm: 0o755}),
		one(fsx.Call{Op: "Mkdir", A: "/d/e/y", Perm: 0o755}),
		one(fsx.Call{Op: "OpenFile", A: "/d/y", Flag: os.O_RDWR | os.O_CREATE | os.O_TRUNC, Perm: 0o644}),
		writeFile("/d/x", "AB"),
		appendFile("/d/x", "Q"),
		one(fsx.Call{Op: "Remove", A: "/d/h"}),
		one(fsx.Call{Op: "Rename", A: "/d/h", B: "/d/x"}),
		one(fsx.Call{Op: "Rename", A: "/d/e", B: "/d/y"}),
		one(fsx.Call{Op: "Rename", A: "/d/e/z", B: "/d/z"}),
		one(fsx.Call{Op: "Rename", A: "/d", B: "/f/d"}),
		// replaces /d/x, whose file has a second name /d/h, from another directory
		one(fsx.Call{Op: "Rename", A: "/f/g", B: "/d/x"}),
		one(fsx.Call{Op: "Link", A: "/d/x", B: "/f/l"}),
		// two unrelated directories whose order by length (/f, /d/e) is not their
		// order as text (/d/e, /f): code that orders its locks compares paths
		one(fsx.Call{Op: "Link", A: "/d/e/z", B: "/f/l"}),
		one(fsx.Call{Op: "Rename", A: "/f/g", B: "/d/e/y"}),
		one(fsx.Call{Op: "Link", A: "/d/e/z", B: "/d/y"}),
		// from a directory into its own sub directory and back: the two directories locked by the move
		// are parent and child, the order a listing or a removal of the parent takes them in
		one(fsx.Call{Op: "Rename", A: "/d/x", B: "/d/e/x"}),
		// a name removed and created again by one thread: a call of the other thread
		// that looked the name up before and re-checks it afterwards must notice
		// that the entry is another node now, not only that there is an entry
		Tmpl{{Op: "Remove", A: "/d/x"}, {Op: "OpenFile", A: "/d/x", Flag: ex, Perm: 0o644}},
		Tmpl{{Op: "Remove", A: "/d/e/z"}, {Op: "Remove", A: "/d/e"}, {Op: "Mkdir", A: "/d/e", Perm: 0o755}},
		// an EMPTY directory (/tmp) is removed while entries are made in it from elsewhere: each
		// way of making an entry (create, link, move) has its own re-check of "the directory is still there"
		one(fsx.Call{Op: "Remove", A: "/tmp"}),
		one(fsx.Call{Op: "Link", A: "/d/x", B: "/tmp/l"}),
		one(fsx.Call{Op: "Rename", A: "/f/g", B: "/tmp/g"}),
		one(fsx.Call{Op: "Mkdir", A: "/tmp/y", Perm: 0o755}),
		one(fsx.Call{Op: "OpenFile", A: "/tmp/y", Flag: ex, Perm: 0o644}),
		// an entry made in a directory, from another directory, while that directory is removed with
		// its content (RemoveAll): the maker shares no lock with the remover but that of the directory itself
		one(fsx.Call{Op: "Link", A: "/f/g", B: "/d/e/l"}),
		// one file with names in two directories, linked once more in each of them by two threads:
		// the two calls share no directory lock, only the lock of the file orders their counter updates
		Tmpl{{Op: "Link", A: "/d/x", B: "/f/l"}, {Op: "Link", A: "/f/l", B: "/f/m"}},
		one(fsx.Call{Op: "Link", A: "/d/h", B: "/d/y"}),
		// truncation asked with a read-only access mode: still a write to the file
		one(fsx.Call{Op: "OpenFile", A: "/d/x", Flag: os.O_RDONLY | os.O_TRUNC}),
		// exclusive creation without an access mode (the lock-file idiom): still a creation
		one(fsx.Call{Op: "OpenFile", A: "/d/y", Flag: os.O_CREATE | os.O_EXCL, Perm: 0o644}),
		// the same missing directory made by two threads, each putting its own file into it:
		// the second creator must find the directory of the first, not make another one
		Tmpl{{Op: "MkdirAll", A: "/d/y/y", Perm: 0o755}, {Op: "OpenFile", A: "/d/y/y/f", Flag: ex, Perm: 0o644}},
		Tmpl{{Op: "MkdirAll", A: "/d/y/y", Perm: 0o755}, {Op: "OpenFile", A: "/d/y/y/g", Flag: ex, Perm: 0o644}},
		one(fsx.Call{Op: "Chmod", A: "/d/x", Perm: 0o600}),
		one(fsx.Call{Op: "Chmod", A: "/d/e", Perm: 0o700}),
		one(fsx.Call{Op: "Stat", A: "/d/x"}),
		one(fsx.Call{Op: "Stat", A: "/d/y"}),
		one(fsx.Call{Op: "Lstat", A: "/d/h"}),
		readFile("/d/x"),
		readDir("/d/e"),
		one(fsx.Call{Op: "MkdirTemp", A: "/d", B: "t*"}),
		one(fsx.Call{Op: "Chtimes", A: "/d/x", N: 5}),
		one(fsx.Call{Op: "Chdir", A: "/d/e"}),
	)

	if fs == "MemFS" {
		// the link /d/s -> x itself: its owner is the only attribute that changes
		t = append(t,
			one(fsx.Call{Op: "Lchown", A: "/d/s", N: 5, M: 6}),
			one(fsx.Call{Op: "Lstat", A: "/d/s"}),
			one(fsx.Call{Op: "Readlink", A: "/d/s"}),
			one(fsx.Call{Op: "Remove", A: "/d/s"}),
			one(fsx.Call{Op: "Rename", A: "/d/s", B: "/d/y"}),
		)
	}

	if removeAll {
		t = append(t, one(fsx.Call{Op: "RemoveAll", A: "/d"}))
	}

	return t
}

// Pairs returns all unordered pairs (with repetition) of templates as
// 2-thread programs.
func Pairs(fs string, users bool, t []Tmpl) []Prog {
	var out []Prog

	for i := range t {
		for j := i; j < len(t); j++ {
			out = append(out, Prog{FS: fs, Users: users, Threads: [][]fsx.Call{t[i], t[j]}})
		}
	}

	return out
}

// OrderedPairs returns all ordered pairs of templates as 2-thread programs (the
// threads of a users program act for different users and are not symmetric).
func OrderedPairs(fs string, users bool, t []Tmpl) []Prog {
	var out []Prog

	for i := range t {
		for j := range t {
			out = append(out, Prog{FS: fs, Users: users, Threads: [][]fsx.Call{t[i], t[j]}})
		}
	}

	return out
}

// UserTemplates is the alphabet of permission-sensitive thread templates for
// programs whose threads act for two different non-administrator users of one
// group (thread 0 owns /d/x, /d/h and /d/e, thread 1 owns /f, the rest belongs
// to root; everything is rwx for all before the program starts): creations with
// private modes, owner-only attribute changes, and calls whose permission to
// proceed such a change grants or withdraws.
func UserTemplates(core bool) []Tmpl {
	rw := os.O_RDWR
	t := []Tmpl{
		{{Op: "H.Open", A: "/d/y", Flag: rw | os.O_CREATE, Perm: 0o600}, {Op: "H.Write", Data: "A"}, {Op: "H.Close"}},
		one(fsx.Call{Op: "OpenFile", A: "/d/y", Flag: rw | os.O_CREATE | os.O_EXCL, Perm: 0o600}),
		one(fsx.Call{Op: "Mkdir", A: "/d/y", Perm: 0o700}),
		{{Op: "H.Open", A: "/d/x", Flag: rw}, {Op: "H.Write", Data: "B"}, {Op: "H.Close"}},
		one(fsx.Call{Op: "Chmod", A: "/d/x", Perm: 0o600}),
		one(fsx.Call{Op: "Chmod", A: "/d/e", Perm: 0o700}),
		one(fsx.Call{Op: "Remove", A: "/d/e/z"}),
		one(fsx.Call{Op: "Rename", A: "/d/e/z", B: "/d/z"}),
		one(fsx.Call{Op: "Truncate", A: "/d/x", N: 0}),
		one(fsx.Call{Op: "Mkdir", A: "/d/e/y", Perm: 0o755}),
		one(fsx.Call{Op: "Rename", A: "/d/x", B: "/f/x"}),
		one(fsx.Call{Op: "Chmod", A: "/f", Perm: 0o755}),
	}

	if core {
		return t
	}

	return append(t,
		one(fsx.Call{Op: "Mkdir", A: "/d/y/s", Perm: 0o755}),
		one(fsx.Call{Op: "Stat", A: "/d/e/z"}),
		readFile("/d/x"),
		readDir("/d/e"),
		one(fsx.Call{Op: "Link", A: "/d/x", B: "/d/e/l"}),
		one(fsx.Call{Op: "Link", A: "/f/g", B: "/d/y"}),
		one(fsx.Call{Op: "Symlink", A: "x", B: "/d/e/s"}),
		one(fsx.Call{Op: "Chmod", A: "/d/y", Perm: 0o666}),
		one(fsx.Call{Op: "Remove", A: "/d/y"}),
		one(fsx.Call{Op: "Remove", A: "/f/g"}),
		one(fsx.Call{Op: "Chtimes", A: "/d/x", N: 5}),
		one(fsx.Call{Op: "Chdir", A: "/d/e"}),
		one(fsx.Call{Op: "CreateTemp", A: "/f", B: "t*"}),
		one(fsx.Call{Op: "Rename", A: "/f/g", B: "/d/e/g"}),
	)
}

// Triples returns all unordered triples (with repetition) as 3-thread programs.
func Triples(fs string, t []Tmpl) []Prog {
	var out []Prog

	for i := range t {
		for j := i; j < len(t); j++ {
			for k := j; k < len(t); k++ {
				out = append(out, Prog{FS: fs, Threads: [][]fsx.Call{t[i], t[j], t[k]}})
			}
		}
	}

	return out
}

// TwoByTwo returns 2-thread programs of two templates each.
func TwoByTwo(fs string, t []Tmpl) []Prog {
	var out []Prog

	cat := func(a, b Tmpl) []fsx.Call { return append(append([]fsx.Call{}, a...), b...) }

	for a := range t {
		for b := range t {
			if b == a {
				continue
			}

			for c := a; c < len(t); c++ {
				for d := range t {
					if d == c {
						continue
					}

					out = append(out, Prog{FS: fs, Threads: [][]fsx.Call{cat(t[a], t[b]), cat(t[c], t[d])}})
				}
			}
		}
	}

	return out
}

// SingleStep keeps the templates made of exactly one primitive call.
func SingleStep(t []Tmpl) []Tmpl {
	var out []Tmpl

	for _, x := range t {
		if len(x) == 1 {
			out = append(out, x)
		}
	}

	return out
}
