package concfs

import (
	"os"

	"verif/lib/fsx"
)

// HandlePrograms are the 2-thread programs on open handles: every pair of File
// calls on one handle shared by the two threads, and on two handles of one file
// or directory; every path call against every File call on the same node; every
// call that changes a directory against every listing call on a handle of it.
func HandlePrograms(fs string) []Prog {
	var out []Prog

	// steps on a file handle / directory handle
	fileSteps := []fsx.Call{
		{Op: "H.Read", N: 2}, {Op: "H.ReadAt", N: 2, M: 1}, {Op: "H.Write", Data: "W"}, {Op: "H.WriteAt", Data: "V", N: 0},
		// a write that lands beyond the end: the gap and the new size are computed from the size read before
		{Op: "H.WriteAt", Data: "U", N: 5},
		{Op: "H.Seek", N: 0, M: 0}, {Op: "H.Truncate", N: 1}, {Op: "H.Stat"}, {Op: "H.Sync"}, {Op: "H.Name"}, {Op: "H.Close"},
		// the attribute setters of a handle: they reach the node through the handle (Close takes it away)
		// and write what every other call reads under the node's lock
		{Op: "H.Chmod", Perm: 0o600},
	}
	dirSteps := []fsx.Call{
		{Op: "H.ReadDir", N: 1}, {Op: "H.Readdirnames", N: 1}, {Op: "H.ReadDir", N: -1}, {Op: "H.Readdirnames", N: -1},
		{Op: "H.Readdirnames", N: 0}, {Op: "H.Stat"}, {Op: "H.Close"},
	}

	sh := func(c fsx.Call) fsx.Call { c.Op = "S" + c.Op; return c }

	openF := fsx.Call{Op: "H.Open", A: "/d/x", Flag: os.O_RDWR}
	openD := fsx.Call{Op: "H.Open", A: "/d", Flag: os.O_RDONLY}

	for i := range fileSteps {
		for j := i; j < len(fileSteps); j++ {
			// one shared handle
			out = append(out, Prog{FS: fs, SharedOpen: &openF, Threads: [][]fsx.Call{{sh(fileSteps[i])}, {sh(fileSteps[j])}}})
			// two distinct handles on the same file
			out = append(out, Prog{FS: fs, Threads: [][]fsx.Call{{openF, fileSteps[i], {Op: "H.Close"}}, {openF, fileSteps[j], {Op: "H.Close"}}}})
		}
	}

	for i := range dirSteps {
		for j := i; j < len(dirSteps); j++ {
			out = append(out, Prog{FS: fs, SharedOpen: &openD, Threads: [][]fsx.Call{{sh(dirSteps[i])}, {sh(dirSteps[j])}}})
			out = append(out, Prog{FS: fs, Threads: [][]fsx.Call{{openD, dirSteps[i], {Op: "H.Close"}}, {openD, dirSteps[j], {Op: "H.Close"}}}})
		}
	}

	// path call against handle call on the same node
	paths := []fsx.Call{
		{Op: "Truncate", A: "/d/x", N: 0}, {Op: "Chmod", A: "/d/x", Perm: 0o600}, {Op: "Remove", A: "/d/x"},
		{Op: "Rename", A: "/d/x", B: "/d/y"}, {Op: "Stat", A: "/d/x"}, {Op: "Link", A: "/d/x", B: "/d/y"}, {Op: "Chtimes", A: "/d/x", N: 3},
		// the open file loses its name to another file: what Rename does to the replaced node is
		// ordered with the calls on the handle by the lock of the node only, not by that of the directory
		{Op: "Rename", A: "/f/g", B: "/d/x"},
	}

	for _, pc := range paths {
		for _, hs := range fileSteps {
			out = append(out, Prog{FS: fs, SharedOpen: &openF, Threads: [][]fsx.Call{{pc}, {sh(hs)}}})
		}
	}

	// directory handle call against a path call that changes that directory
	dirMut := []fsx.Call{
		{Op: "Mkdir", A: "/d/y", Perm: 0o755}, {Op: "Remove", A: "/d/x"}, {Op: "Rename", A: "/d/x", B: "/d/y"},
		{Op: "OpenFile", A: "/d/y", Flag: os.O_RDWR | os.O_CREATE | os.O_EXCL, Perm: 0o644}, {Op: "Chmod", A: "/d/x", Perm: 0o600},
	}

	for _, pc := range dirMut {
		for _, hs := range dirSteps {
			out = append(out, Prog{FS: fs, SharedOpen: &openD, Threads: [][]fsx.Call{{pc}, {sh(hs)}}})
			out = append(out, Prog{FS: fs, Threads: [][]fsx.Call{{pc}, {openD, hs, {Op: "H.Close"}}}})
		}
	}

	return out
}
