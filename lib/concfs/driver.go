package concfs

import (
	"bufio"
	"encoding/json"
	"flag"
	"fmt"
	"os"
	"os/exec"
	"path/filepath"
	"regexp"
	"runtime"
	"sort"
	"strconv"
	"strings"
	"sync"
	"syscall"
	"time"

	"github.com/avfs/avfs/verifrt"

	"verif/lib/ev"
	"verif/lib/kf"
	"verif/lib/sched"
)

// Oracle selects which property the executions are judged by.
type Oracle string

const (
	OrLinear    Oracle = "C06"
	OrReturns   Oracle = "C07"
	OrRace      Oracle = "C08"
	OrInvariant Oracle = "C05"
)

type violation struct {
	Sig    map[string]string `json:"sig"`
	Replay any               `json:"replay"`
}

type shardOut struct {
	Programs    int            `json:"programs"`
	Executions  int            `json:"executions"`
	Deadlocks   int            `json:"deadlocks"`
	Horizon     int            `json:"horizon"`
	MaxPoints   int            `json:"max_points"`
	Unbounded   int            `json:"programs_fully_explored"`
	MinBound    int            `json:"min_bound_completed"`
	TimedOut    int            `json:"programs_timed_out"`
	Outcomes    map[string]int `json:"-"`
	DistinctOut int            `json:"distinct_outcomes"`
	MultiOut    int            `json:"programs_with_several_outcomes"`
	Viols       []violation    `json:"viols"`
	Samples     []any          `json:"samples"`
	HarnessErr  string         `json:"harness_err"`
}

// Plan describes what a driver explores.
type Plan struct {
	ID       string
	Oracle   Oracle
	Programs []Prog
	Bound    int
	PerProg  time.Duration // per-program time cap (0: none)
}

var raceFuncRe = regexp.MustCompile(`^\s+(github\.com/avfs/avfs[^\s(]*(?:\([^)]*\))?[^\s(]*)\(`)

// ParseRace is parseRace for drivers with their own race pass (C15).
func ParseRace(txt string) []string { return parseRace(txt) }

// parseRace extracts, for each report in txt, the first avfs function of each stack.
func parseRace(txt string) []string {
	var out []string

	for _, rep := range strings.Split(txt, "WARNING: DATA RACE") {
		if !strings.Contains(rep, " by goroutine ") && !strings.Contains(rep, " by main goroutine") {
			continue
		}

		var fns []string

		inStack, took := false, false

		for _, l := range strings.Split(rep, "\n") {
			switch {
			case strings.Contains(l, " by goroutine ") || strings.Contains(l, " by main goroutine"):
				if strings.HasPrefix(strings.TrimSpace(l), "Goroutine") {
					inStack = false

					continue
				}

				inStack, took = true, false
			case strings.TrimSpace(l) == "":
				inStack = false
			case inStack && !took:
				if strings.Contains(l, "/verifrt.") {
					continue
				}

				if m := raceFuncRe.FindStringSubmatch(l); m != nil {
					fn := strings.TrimPrefix(m[1], "github.com/avfs/avfs/")
					fns = append(fns, fn)
					took = true
				}
			}
		}

		sort.Strings(fns)
		out = append(out, strings.Join(fns, " <-> "))
	}

	return out
}

// runShard explores the programs of one shard.
func runShard(pl Plan, shard, nshard int, outPath, curPath string, deadline time.Time) {
	verifrt.SetMode(verifrt.ModeSched)

	// code under test that allocates without end must kill this shard ("fatal
	// error: out of memory", attributed to the current program), not the machine.
	// The race detector reserves terabytes of address space: no limit there, the
	// parent watches the resident size instead.
	if pl.Oracle != OrRace {
		lim := syscall.Rlimit{Cur: 6 << 30, Max: 6 << 30}
		_ = syscall.Setrlimit(syscall.RLIMIT_AS, &lim)
	}

	so := shardOut{Outcomes: map[string]int{}, MinBound: 1 << 30}

	raceLog := ""
	if pl.Oracle == OrRace {
		// GORACE log_path=<p> writes to <p>.<pid>
		for _, kv := range strings.Fields(os.Getenv("GORACE")) {
			if strings.HasPrefix(kv, "log_path=") {
				raceLog = strings.TrimPrefix(kv, "log_path=") + "." + strconv.Itoa(os.Getpid())
			}
		}
	}

	raceSize := int64(0)

	seenSig := map[string]bool{}
	report := func(sig map[string]string, replay any) {
		k := kf.Sig(sig).String()
		if seenSig[k] {
			return
		}

		seenSig[k] = true
		so.Viols = append(so.Viols, violation{Sig: sig, Replay: replay})
	}

	for pi, p := range pl.Programs {
		if pi%nshard != shard {
			continue
		}

		if !deadline.IsZero() && time.Now().After(deadline) {
			so.TimedOut++

			continue
		}

		_ = os.WriteFile(curPath, []byte(p.String()), 0o644)

		var (
			table []SeqEntry
			err   error
		)

		if pl.Oracle == OrLinear {
			verifrt.SetMode(verifrt.ModeSeq)
			table, err = SeqTable(p)
			verifrt.SetMode(verifrt.ModeSched)

			if err != nil {
				so.HarnessErr = err.Error()

				break
			}
		}

		outs := map[string]bool{}
		first := true

		var firstKey string

		run := func(prefix []int8) sched.Exec {
			o, x, err := RunScheduled(p, prefix)
			if err != nil {
				so.HarnessErr = err.Error()

				return sched.Exec{Res: verifrt.Result{BadReplay: true}}
			}

			if x.Res.BadReplay {
				so.HarnessErr = "replay divergence in " + p.String()

				return x
			}

			key := o.Key(p)
			if o.Deadlock {
				key = "DEADLOCK"
			}

			outs[key] = true

			replay := func() map[string]any {
				return map[string]any{
					"program": p, "program_text": p.String(), "choices": sched.Choices(o.Points),
					"schedule": sched.FormatSchedule(o.Points), "calls": o.Recs, "final_dump": o.Dump,
				}
			}

			results := func() string {
				var rs []string
				for _, r := range o.Recs {
					rs = append(rs, normRes(p.Threads[r.Thread][r.Idx], r.Res).Kind)
				}

				return strings.Join(rs, ",")
			}

			if first {
				// replay determinism: the default schedule must reproduce itself
				first = false
				firstKey = key

				o2, _, _ := RunScheduled(p, sched.Choices(o.Points))
				k2 := ""

				if o2 != nil {
					k2 = o2.Key(p)
					if o2.Deadlock {
						k2 = "DEADLOCK"
					}
				}

				if k2 != firstKey {
					so.HarnessErr = "nondeterministic replay of " + p.String()
				}
			}

			switch pl.Oracle {
			case OrLinear:
				if o.Deadlock || o.Horizon {
					break
				}

				hasPanic := false
				for _, r := range o.Recs {
					if r.Res.Kind == "PANIC" || r.Res.Kind == "DEADLOCK" {
						hasPanic = true
					}
				}

				if ok, _ := Linearizable(p, o, table); !ok {
					kind := "non-linearizable"
					if hasPanic {
						kind = "non-linearizable(panic)"
					}

					rp := replay()

					var seqs []string
					for _, e := range table {
						var rs []string
						for _, r := range e.Recs {
							rs = append(rs, r.Res.Kind)
						}

						seqs = append(seqs, fmt.Sprint(e.Order, " -> ", strings.Join(rs, ",")))
					}

					rp["sequential_outcomes"] = seqs
					report(map[string]string{"fs": p.FS, "prog": p.Template(), "kind": kind, "results": results()}, rp)
				}

				if TempClash(p, o) {
					report(map[string]string{"fs": p.FS, "prog": p.Template(), "kind": "temp-name-clash", "results": results()}, replay())
				}

				for _, b := range o.Bad {
					report(map[string]string{"fs": p.FS, "prog": p.Template(), "kind": "invariant", "what": StripDetail(b)}, replay())
				}
			case OrInvariant:
				for _, b := range o.Bad {
					report(map[string]string{"fs": p.FS, "prog": p.Template(), "kind": "conc-invariant", "what": StripDetail(b)}, replay())
				}
			case OrReturns:
				if o.Horizon {
					// a call still running after 4096 scheduling points while nothing
					// else can run: it loops (every iteration takes a lock)
					var running []string

					for _, r := range o.Recs {
						if r.Ret < 0 && r.Inv >= 0 {
							running = append(running, r.Call)
						}
					}

					sort.Strings(running)
					report(map[string]string{"fs": p.FS, "prog": p.Template(), "kind": "livelock", "blocked": strings.Join(running, " & ")}, replay())
				}

				if o.Deadlock {
					var blocked []string

					for _, r := range o.Recs {
						if r.Ret < 0 && r.Inv >= 0 {
							blocked = append(blocked, r.Call)
						}
					}

					sort.Strings(blocked)
					report(map[string]string{"fs": p.FS, "prog": p.Template(), "kind": "deadlock", "blocked": strings.Join(blocked, " & ")}, replay())
				}

				for _, r := range o.Recs {
					if r.Res.Kind == "PANIC" || r.Res.Kind == "DEADLOCK" {
						report(map[string]string{"fs": p.FS, "prog": p.Template(), "kind": strings.ToLower(r.Res.Kind), "call": r.Call, "msg": StripDetail(r.Res.Msg)}, replay())
					}
				}
			case OrRace:
				if raceLog != "" {
					if fi, err := os.Stat(raceLog); err == nil && fi.Size() > raceSize {
						f, _ := os.Open(raceLog)
						_, _ = f.Seek(raceSize, 0)
						buf := make([]byte, fi.Size()-raceSize)
						_, _ = f.Read(buf)
						f.Close()
						raceSize = fi.Size()

						for _, fns := range parseRace(string(buf)) {
							rp := replay()
							rp["report"] = string(buf)
							report(map[string]string{"fs": p.FS, "kind": "race", "funcs": fns}, rp)
						}
					}
				}
			}

			return x
		}

		var pdl time.Time
		if pl.PerProg > 0 {
			pdl = time.Now().Add(pl.PerProg)
		}

		if !deadline.IsZero() && (pdl.IsZero() || deadline.Before(pdl)) {
			pdl = deadline
		}

		bound := pl.Bound
		if p.Bound > 0 {
			bound = p.Bound
		}

		st := sched.Explore(run, bound, pdl, 0)

		so.Programs++
		so.Executions += st.Executions
		so.Deadlocks += st.Deadlocks
		so.Horizon += st.Horizon

		if st.MaxPoints > so.MaxPoints {
			so.MaxPoints = st.MaxPoints
		}

		if st.Unbounded {
			so.Unbounded++
		}

		if st.TimedOut {
			so.TimedOut++
		}

		b := st.BoundCompleted
		if st.Unbounded {
			b = bound
		}

		if b < so.MinBound {
			so.MinBound = b
		}

		if len(outs) > 1 {
			so.MultiOut++
		}

		for k := range outs {
			so.Outcomes[strconv.Itoa(pi)+":"+k] = 1
		}

		if len(so.Samples) < 2 {
			so.Samples = append(so.Samples, map[string]any{"program": p.String(), "executions": st.Executions, "distinct_outcomes": len(outs), "max_points": st.MaxPoints})
		}

		if so.HarnessErr != "" {
			break
		}
	}

	so.DistinctOut = len(so.Outcomes)
	_ = os.Remove(curPath)

	b, _ := json.Marshal(so)
	_ = os.WriteFile(outPath, b, 0o644)
}

// StripDetail turns a message into a class (quoted strings, numbers, lists and
// file positions removed).
func StripDetail(m string) string {
	m = regexp.MustCompile(`"[^"]*"`).ReplaceAllString(m, `""`)
	m = regexp.MustCompile(`\[[^\]]*\]`).ReplaceAllString(m, `[..]`)
	m = regexp.MustCompile(`0x[0-9a-f]+`).ReplaceAllString(m, `0xN`)
	m = regexp.MustCompile(`[0-9]+`).ReplaceAllString(m, `N`)

	if len(m) > 200 {
		m = m[:200]
	}

	return m
}

// argValue returns the value following flag name in os.Args ("" if absent).
func argValue(name string) string {
	for i, a := range os.Args {
		if a == name && i+1 < len(os.Args) {
			return os.Args[i+1]
		}

		if strings.HasPrefix(a, name+"=") {
			return strings.TrimPrefix(a, name+"=")
		}
	}

	return ""
}

// MaybeShard turns the process into a shard worker when it was started with
// -shard i/n (by RunPlan); it never returns in that case. Call it first in main.
func MaybeShard(build func(tier string) Plan) {
	sh := argValue("-shard")
	if sh == "" {
		return
	}

	tier := argValue("-tier")
	if tier == "" {
		tier = "quick"
	}

	pl := build(tier)

	if only := argValue("-only"); only != "" {
		var ps []Prog

		for _, p := range pl.Programs {
			if strings.Contains(p.String(), only) {
				ps = append(ps, p)
			}
		}

		pl.Programs = ps
	}

	var i, n int

	fmt.Sscanf(sh, "%d/%d", &i, &n)

	dl, _ := strconv.ParseInt(os.Getenv("VERIF_DEADLINE_UNIX"), 10, 64)

	var deadline time.Time
	if dl > 0 {
		deadline = time.Unix(dl, 0)
	}

	out := argValue("-out")
	runShard(pl, i, n, out, out+".cur", deadline)
	os.Exit(0)
}

// MaybeReplay handles "-replay <file>" for replay files written by the
// scheduler-based checks (a program plus the list of scheduler choices): the
// program is re-executed under exactly that schedule, twice, and every call
// record, the final node graph and the oracle's verdict are printed. It returns
// when the argument is absent or the file is of another kind (a driver's own
// sequential replay format); otherwise it exits: 1 = reproduced, 0 = not.
func MaybeReplay(oracle Oracle) {
	file := argValue("-replay")
	if file == "" {
		return
	}

	b, err := os.ReadFile(file)
	if err != nil {
		fmt.Fprintln(os.Stderr, err)
		os.Exit(2)
	}

	var doc struct {
		Signature map[string]string `json:"signature"`
		Replay    struct {
			Program *Prog  `json:"program"`
			Choices []int8 `json:"choices"`
		} `json:"replay"`
	}

	if err := json.Unmarshal(b, &doc); err != nil || doc.Replay.Program == nil {
		return
	}

	p := *doc.Replay.Program
	fmt.Printf("replay of %s\nsignature: %s\nprogram:   %s\n", file, kf.Sig(doc.Signature), p.String())

	verifrt.SetMode(verifrt.ModeSched)

	var keys []string

	code := 0

	for round := 0; round < 2; round++ {
		o, x, err := RunScheduled(p, doc.Replay.Choices)
		if err != nil || x.Res.BadReplay {
			fmt.Fprintln(os.Stderr, "replay: the schedule could not be followed (the code under test takes other locks now):", err)
			os.Exit(2)
		}

		keys = append(keys, o.Key(p))

		if round == 1 {
			break
		}

		for _, l := range sched.FormatSchedule(o.Points) {
			fmt.Println("  sched:", l)
		}

		for _, r := range o.Recs {
			fmt.Printf("  T%d %-40s -> %s %s  [steps %d..%d]\n", r.Thread, r.Call, r.Res, r.Res.Msg, r.Inv, r.Ret)
		}

		if o.Deadlock {
			fmt.Println("  DEADLOCK: no thread can run")

			code = 1
		}

		for _, l := range o.Dump {
			fmt.Println("  final:", l)
		}

		for _, bad := range o.Bad {
			fmt.Println("  invariant violated:", bad)

			code = 1
		}

		for _, r := range o.Recs {
			if r.Res.Kind == "PANIC" || r.Res.Kind == "DEADLOCK" {
				code = 1
			}
		}

		if oracle == OrLinear && !o.Deadlock && !o.Horizon {
			verifrt.SetMode(verifrt.ModeSeq)
			table, err := SeqTable(p)
			verifrt.SetMode(verifrt.ModeSched)

			if err != nil {
				fmt.Fprintln(os.Stderr, "replay:", err)
				os.Exit(2)
			}

			for _, e := range table {
				var rs []string
				for _, r := range e.Recs {
					rs = append(rs, r.Res.String())
				}

				fmt.Printf("  sequential order %v -> %s\n", e.Order, strings.Join(rs, " | "))
			}

			if ok, _ := Linearizable(p, o, table); !ok {
				fmt.Println("  NOT LINEARIZABLE: results and final tree match no sequential order that respects returned-before-invoked")

				code = 1
			}

			if TempClash(p, o) {
				fmt.Println("  the same temporary name was handed to two callers")

				code = 1
			}
		}
	}

	if keys[0] != keys[1] {
		fmt.Fprintln(os.Stderr, "replay: two executions of the same schedule differ (harness error)")
		os.Exit(2)
	}

	if code == 0 {
		fmt.Println("replay: no violation reproduced (a data race report, if any, is printed by the race detector above)")
	}

	os.Exit(code)
}

// Totals of a plan run.
type Totals = shardOut

// RunPlan explores the plan on all cores (one shard process each), feeds the
// violations to rep and returns the merged counters; herr != "" is a harness
// error.
func RunPlan(pl Plan, rep *kf.Reporter, budgetS int) (total Totals, herr string) {
	scratch := os.Getenv("VERIF_SCRATCH")
	if scratch == "" {
		scratch, _ = os.MkdirTemp("/dev/shm", "concfs")
		defer os.RemoveAll(scratch)
	}

	deadline := time.Now().Add(time.Duration(budgetS) * time.Second)
	n := runtime.NumCPU()

	if n > len(pl.Programs) {
		n = len(pl.Programs)
	}

	var (
		wg     sync.WaitGroup
		mu     sync.Mutex
		merged = map[string]bool{}
	)

	total.MinBound = 1 << 30

	for i := 0; i < n; i++ {
		wg.Add(1)

		go func(i int) {
			defer wg.Done()

			of := filepath.Join(scratch, fmt.Sprintf("%s-shard%d.json", pl.ID, i))
			args := append([]string{}, os.Args[1:]...)
			args = append(args, "-shard", fmt.Sprintf("%d/%d", i, n), "-out", of)
			cmd := exec.Command(os.Args[0], args...)
			cmd.Env = append(os.Environ(), "GOMAXPROCS=1", "VERIF_DEADLINE_UNIX="+strconv.FormatInt(deadline.Unix(), 10))

			if pl.Oracle == OrRace {
				cmd.Env = append(cmd.Env, "GORACE=log_path="+filepath.Join(scratch, fmt.Sprintf("race%d", i))+" halt_on_error=0 exitcode=0")
			}

			var stderr strings.Builder

			cmd.Stderr = &stderr
			cmd.Stdout = os.Stdout

			err := cmd.Start()
			memKilled := false

			if err == nil {
				done := make(chan error, 1)
				go func() { done <- cmd.Wait() }()

				tick := time.NewTicker(250 * time.Millisecond)

			wait:
				for {
					select {
					case err = <-done:
						break wait
					case <-tick.C:
						if rssBytes(cmd.Process.Pid) > 5<<30 {
							memKilled = true

							_ = cmd.Process.Kill()
						}
					}
				}

				tick.Stop()
			}

			mu.Lock()
			defer mu.Unlock()

			if err != nil {
				// worker died (fatal runtime error?): attribute to its current program
				cur, _ := os.ReadFile(of + ".cur")
				msg := tail(stderr.String(), 30)
				kind := "worker-crash"

				if strings.Contains(stderr.String(), "fatal error:") {
					kind = "fatal-error"
				}

				m := regexp.MustCompile(`fatal error: [^\n]*`).FindString(stderr.String())

				if memKilled {
					kind, m = "fatal-error", "fatal error: out of memory (resident size above 5 GiB, killed by the harness)"
				}
				rep.Report(kf.Sig{"kind": kind, "prog": string(cur), "msg": StripDetail(m)}, map[string]any{"program_text": string(cur), "stderr": msg})

				return
			}

			b, err := os.ReadFile(of)
			if err != nil {
				herr = "shard output missing: " + err.Error()

				return
			}

			var so shardOut
			if err := json.Unmarshal(b, &so); err != nil {
				herr = err.Error()

				return
			}

			if so.HarnessErr != "" {
				herr = so.HarnessErr
			}

			total.Programs += so.Programs
			total.Executions += so.Executions
			total.Deadlocks += so.Deadlocks
			total.Horizon += so.Horizon
			total.Unbounded += so.Unbounded
			total.TimedOut += so.TimedOut
			total.DistinctOut += so.DistinctOut
			total.MultiOut += so.MultiOut

			if so.MaxPoints > total.MaxPoints {
				total.MaxPoints = so.MaxPoints
			}

			if so.Programs > 0 && so.MinBound < total.MinBound {
				total.MinBound = so.MinBound
			}

			total.Samples = append(total.Samples, so.Samples...)

			for _, v := range so.Viols {
				k := kf.Sig(v.Sig).String()
				if merged[k] {
					continue
				}

				merged[k] = true
				rep.Report(kf.Sig(v.Sig), v.Replay)
			}
		}(i)
	}

	wg.Wait()

	if len(total.Samples) > 6 {
		total.Samples = total.Samples[:6]
	}

	if total.MinBound == 1<<30 {
		total.MinBound = -1
	}

	return total, herr
}

// Main is the entry point shared by the concurrent drivers. build returns the
// plan for a tier. extra, if not nil, runs additional (sequential) parts and
// merges into the reporter before evidence is written; it returns extra
// coverage keys.
func Main(id string, level string, build func(tier string) Plan, extra func(tier string, rep *kf.Reporter) (map[string]any, error)) {
	MaybeShard(build)
	MaybeReplay(build("quick").Oracle)

	tier := flag.String("tier", "quick", "")
	_ = flag.String("id", id, "")
	only := flag.String("only", "", "substring filter on program text")
	flag.Parse()

	pl := build(*tier)

	if *only != "" {
		var ps []Prog

		for _, p := range pl.Programs {
			if strings.Contains(p.String(), *only) {
				ps = append(ps, p)
			}
		}

		pl.Programs = ps
	}

	budget := 0
	if b, err := strconv.Atoi(os.Getenv("VERIF_BUDGET_S")); err == nil {
		budget = b
	} else if *tier == "thorough" {
		budget = 1200
	} else {
		budget = 240
	}

	verifDir := os.Getenv("VERIF_DIR")
	if verifDir == "" {
		verifDir = "."
	}

	rep, err := kf.NewReporter(id, filepath.Join(verifDir, "known_findings.txt"), filepath.Join(verifDir, "replays"))
	if err != nil {
		fmt.Fprintln(os.Stderr, err)
		os.Exit(2)
	}

	rep.Discover = os.Getenv("VERIF_DISCOVER") != ""

	total, herr := RunPlan(pl, rep, budget)

	cov := map[string]any{}

	if extra != nil {
		m, err := extra(*tier, rep)
		if err != nil {
			herr = err.Error()
		}

		for k, v := range m {
			cov[k] = v
		}
	}

	code := rep.Finish()

	if herr != "" {
		fmt.Fprintln(os.Stderr, "harness error:", herr)

		// The replay guard protects the verdicts of the SCHEDULED pass from nondeterminism the
		// scheduler does not own.  A data race reported by the free-running pass does not depend on
		// it — and an unsynchronised access is exactly what makes a controlled schedule diverge — so
		// under the race oracle such reports stand: the run is a violation, not merely undecided.
		if pl.Oracle == OrRace && code == 1 && strings.HasPrefix(herr, "nondeterministic replay") {
			fmt.Fprintln(os.Stderr, "the race reports above do not depend on the replay guard: reported as a violation")
			os.Exit(1)
		}

		os.Exit(2)
	}

	if len(total.Samples) == 0 {
		total.Samples = []any{"no program explored"}
	}

	exh := total.TimedOut == 0 && total.Horizon == 0

	states, _ := cov["states"].(int)
	trans, _ := cov["transitions"].(int)

	cov["states"] = states + total.DistinctOut
	cov["transitions"] = trans + total.Executions
	cov["traces_validated_against_impl"] = trans + total.Executions
	cov["evaluations"] = trans + total.Executions
	cov["distinct_nontrivial"] = total.MultiOut + 1
	cov["rule"] = CoverageRule
	cov["samples"] = total.Samples
	AddCoverage(cov, total, pl.Bound)
	cov["exhaustive"] = exh
	cov["known_findings_matched"] = rep.KnownMatched()

	e := ev.Evidence{
		PropertyID: id, Tier: *tier, Seed: ev.Seed(), Level: level, Coverage: cov,
		Assumptions: Assumptions,
		Violations:  rep.NewCount(),
	}

	_ = ev.Write(filepath.Join(verifDir, "evidence", id+".json"), e)

	fmt.Printf("%s: programs=%d schedules=%d deadlocked=%d fully-explored=%d timed-out=%d min-bound=%d max-points=%d schedule-dependent-programs=%d\n",
		id, total.Programs, total.Executions, total.Deadlocks, total.Unbounded, total.TimedOut, total.MinBound, total.MaxPoints, total.MultiOut)

	os.Exit(code)
}

// CoverageRule describes how schedules are enumerated and counted.
const CoverageRule = "every schedule (lock-acquisition granularity, plus call boundaries) of each program with at most `bound` preemptions, executed on the real code under the controlled scheduler; states = distinct (program, results+final tree) outcomes; distinct_nontrivial = 1 + number of programs whose outcome depends on the schedule (>1 distinct outcome: the calls really collided)"

// Assumptions of every scheduler-based check.
var Assumptions = []string{
	"scheduling points: before every Lock/RLock of memfs/orefafs/memidm mutexes (writer announcement and acquisition separately) and at call boundaries; complete for data-race-free executions (C08 checks race freedom on the same schedules)",
	"sync.RWMutex model: a writer that has announced itself blocks new readers; a parked thread has not yet called the lock operation",
	"map iteration order fixed to ascending keys; random part of temp names 0,0,1,1,... (forced collisions)",
	"atomic operations (umask, id counter) are not scheduling points",
}

// AddCoverage writes the schedule-exploration counters into cov.
func AddCoverage(cov map[string]any, total Totals, bound int) {
	cov["programs"] = total.Programs
	cov["schedules_executed"] = total.Executions
	cov["deadlocked_schedules"] = total.Deadlocks
	cov["horizon_cut"] = total.Horizon
	cov["programs_fully_explored_unbounded"] = total.Unbounded
	cov["programs_timed_out"] = total.TimedOut
	cov["preemption_bound"] = bound
	cov["min_bound_completed"] = total.MinBound
	cov["max_scheduling_points"] = total.MaxPoints
}

// rssBytes returns the resident set size of a process (0 if unknown).
func rssBytes(pid int) int64 {
	b, err := os.ReadFile(fmt.Sprintf("/proc/%d/statm", pid))
	if err != nil {
		return 0
	}

	f := strings.Fields(string(b))
	if len(f) < 2 {
		return 0
	}

	n, _ := strconv.ParseInt(f[1], 10, 64)

	return n * int64(os.Getpagesize())
}

func tail(s string, n int) string {
	sc := bufio.NewScanner(strings.NewReader(s))
	sc.Buffer(make([]byte, 1<<20), 1<<20)

	var lines []string
	for sc.Scan() {
		lines = append(lines, sc.Text())
	}

	if len(lines) > 3*n {
		// the cause is at the top (fatal error / panic line and the stack of the
		// goroutine that hit it), the rest is the dump of the other goroutines
		head := append([]string{}, lines[:2*n]...)
		lines = append(append(head, "[...]"), lines[len(lines)-n:]...)
	}

	return strings.Join(lines, "\n")
}
