// Package sched is engine B: stateless depth-first search over the thread
// interleavings (and environment choices) of a small multi-threaded program
// run on the real code under the controlled scheduler of verifrt, with
// iterative preemption bounding.
package sched

import (
	"fmt"
	"time"

	"github.com/avfs/avfs/verifrt"
)

// Exec is what one execution reports back to the explorer.
type Exec struct {
	Res    verifrt.Result
	Points []verifrt.PointRec
}

// RunFunc executes the program once following the choice prefix (default
// choice 0 afterwards), evaluates the oracle, and returns the decisions made.
type RunFunc func(prefix []int8) Exec

// Stats of an exploration.
type Stats struct {
	Executions     int
	Deadlocks      int
	Horizon        int // executions cut by the scheduling-point horizon
	MaxPoints      int
	BoundCompleted int  // largest preemption bound fully explored (-1: none)
	Unbounded      bool // the search at the last bound found no execution cut by the bound
	TimedOut       bool
	BadReplay      bool
}

// cost of the decision taken at point p.
func cost(p *verifrt.PointRec) int {
	if p.Chosen == 0 {
		return 0
	}

	if p.RunningOK {
		return 1 // switched away from a runnable thread, or deviated from the default environment answer
	}

	return 0
}

// Explore runs the program under every schedule with at most `bound`
// preemptions/deviations, iterating the bound from 0 upwards. It stops early
// when a bound cuts nothing (the search is then complete: Unbounded=true).
func Explore(run RunFunc, bound int, deadline time.Time, maxExec int) Stats {
	st := Stats{BoundCompleted: -1}

	for b := 0; b <= bound; b++ {
		cut := false
		ok := exploreBound(run, b, deadline, maxExec, &st, &cut)

		if !ok {
			st.TimedOut = true

			return st
		}

		st.BoundCompleted = b

		if !cut {
			st.Unbounded = true

			return st
		}
	}

	return st
}

func exploreBound(run RunFunc, bound int, deadline time.Time, maxExec int, st *Stats, cut *bool) bool {
	type frame struct {
		prefix []int8
	}

	stack := []frame{{prefix: nil}}

	for len(stack) > 0 {
		f := stack[len(stack)-1]
		stack = stack[:len(stack)-1]

		if (!deadline.IsZero() && time.Now().After(deadline)) || (maxExec > 0 && st.Executions >= maxExec) {
			return false
		}

		x := run(f.prefix)
		st.Executions++

		if x.Res.BadReplay {
			st.BadReplay = true

			return false
		}

		if x.Res.Deadlock {
			st.Deadlocks++
		}

		if x.Res.Overflow {
			st.Horizon++
		}

		if len(x.Points) > st.MaxPoints {
			st.MaxPoints = len(x.Points)
		}

		// cost of the prefix
		c := 0
		for i := 0; i < len(f.prefix) && i < len(x.Points); i++ {
			c += cost(&x.Points[i])
		}

		for i := len(f.prefix); i < len(x.Points); i++ {
			p := &x.Points[i]

			for alt := int8(1); alt < p.NEnabled; alt++ {
				ac := c
				if p.RunningOK {
					ac++
				}

				if ac > bound {
					*cut = true

					continue
				}

				np := make([]int8, i+1)
				for j := 0; j < i; j++ {
					np[j] = x.Points[j].Chosen
				}

				np[i] = alt
				stack = append(stack, frame{prefix: np})
			}

			c += cost(p)
		}
	}

	return true
}

// FormatSchedule renders the decisions of an execution for replay files.
func FormatSchedule(pts []verifrt.PointRec) []string {
	out := make([]string, 0, len(pts))

	for i := range pts {
		p := &pts[i]
		who := "T" + fmt.Sprint(p.Enabled[p.Chosen])

		if p.Kind == 6 {
			out = append(out, fmt.Sprintf("T%d choice=%d", p.Running, p.Chosen))

			continue
		}

		at := "start/finish"
		if p.Running >= 0 {
			at = fmt.Sprintf("T%d@%s(m%d)", p.Running, verifrt.OpName(int(p.Kind)), p.MutexID)
		}

		out = append(out, fmt.Sprintf("%s -> run %s", at, who))
	}

	return out
}

// Choices extracts the choice sequence of an execution.
func Choices(pts []verifrt.PointRec) []int8 {
	c := make([]int8, len(pts))
	for i := range pts {
		c[i] = pts[i].Chosen
	}

	return c
}
