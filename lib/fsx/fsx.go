// Package fsx holds what every driver needs to talk to an avfs.VFS: a
// serialisable call representation, outcome classification (errno kinds,
// PANIC, DEADLOCK) and canonical tree dumps through the public API.
package fsx

import (
	"errors"
	"fmt"
	"io"
	"io/fs"
	"os"
	"runtime/debug"
	"sort"
	"strings"
	"syscall"
	"time"

	"github.com/avfs/avfs"
	"github.com/avfs/avfs/verifrt"
)

// Call is one namespace-level call on a VFS.
type Call struct {
	Op   string `json:"op"`
	A    string `json:"a,omitempty"` // path (oldname for Rename/Link/Symlink; dir for CreateTemp/MkdirTemp)
	B    string `json:"b,omitempty"` // newname; pattern for CreateTemp/MkdirTemp
	Flag int    `json:"flag,omitempty"`
	Perm uint32 `json:"perm,omitempty"` // fs.FileMode bits as given to the call
	Mode uint32 `json:"mode,omitempty"` // further fs.FileMode bits (file type bits, ModeAppend ...) or'ed as they are into the mode argument: a caller may pass ANY FileMode, e.g. one copied from Stat of another node
	N    int64  `json:"n,omitempty"`    // size / uid / mtime seconds
	M    int64  `json:"m,omitempty"`    // gid
	Data string `json:"data,omitempty"`
}

func (c Call) String() string {
	if strings.HasPrefix(c.Op, "Sub/") {
		d := c
		d.Op = c.Op[len("Sub/"):]

		return "Sub/" + d.String()
	}

	switch c.Op {
	case "Mkdir", "MkdirAll", "Chmod", "FChmod":
		return fmt.Sprintf("%s(%q,%s)", c.Op, c.A, c.modeArg())
	case "OpenFile":
		return fmt.Sprintf("OpenFile(%q,%s,%s)", c.A, FlagString(c.Flag), c.modeArg())
	case "WriteFile":
		return fmt.Sprintf("WriteFile(%q,%q,%s)", c.A, c.Data, c.modeArg())
	case "Truncate":
		return fmt.Sprintf("Truncate(%q,%d)", c.A, c.N)
	case "Chown", "Lchown":
		return fmt.Sprintf("%s(%q,%d,%d)", c.Op, c.A, c.N, c.M)
	case "Chtimes":
		return fmt.Sprintf("Chtimes(%q,%d)", c.A, c.N)
	case "Rename", "Link", "Symlink", "CreateTemp", "MkdirTemp":
		return fmt.Sprintf("%s(%q,%q)", c.Op, c.A, c.B)
	case "SetUMask":
		return fmt.Sprintf("SetUMask(%#o)", c.Perm)
	}

	if strings.Contains(c.Op, ".") { // handle steps: print every non-zero field
		s := c.Op + "("
		if c.A != "" {
			s += fmt.Sprintf("%q,", c.A)
		}

		if c.Op == "H.Open" || c.Op == "SH.Open" {
			s += FlagString(c.Flag) + ","
		}

		if c.Data != "" {
			s += fmt.Sprintf("%q,", c.Data)
		}

		if c.N != 0 || c.M != 0 {
			s += fmt.Sprintf("%d,%d,", c.N, c.M)
		}

		if c.Perm != 0 {
			s += fmt.Sprintf("%#o,", c.Perm)
		}

		return strings.TrimSuffix(s, ",") + ")"
	}

	return fmt.Sprintf("%s(%q)", c.Op, c.A)
}

// modeArg renders the mode argument: permission and special bits in octal,
// preceded by the further bits (Mode) in the letters of fs.FileMode.String.
func (c Call) modeArg() string {
	if c.Mode == 0 {
		return fmt.Sprintf("%#o", c.Perm)
	}

	return fmt.Sprintf("%s|%#o", strings.TrimRight(fs.FileMode(c.Mode).String(), "-"), c.Perm)
}

// FlagString renders open flags.
func FlagString(f int) string {
	var s []string

	switch f & 3 {
	case os.O_RDONLY:
		s = append(s, "RDONLY")
	case os.O_WRONLY:
		s = append(s, "WRONLY")
	case os.O_RDWR:
		s = append(s, "RDWR")
	default:
		s = append(s, "ACC3")
	}

	for _, x := range []struct {
		f int
		n string
	}{{os.O_APPEND, "APPEND"}, {os.O_CREATE, "CREATE"}, {os.O_EXCL, "EXCL"}, {os.O_TRUNC, "TRUNC"}, {os.O_SYNC, "SYNC"}} {
		if f&x.f != 0 {
			s = append(s, x.n)
		}
	}

	return strings.Join(s, "|")
}

// Res is the outcome of a call: Kind is "ok", an errno name, an error class,
// "PANIC" or "DEADLOCK"; Val is the returned value rendered canonically.
type Res struct {
	Kind string `json:"kind"`
	Val  string `json:"val,omitempty"`
	Msg  string `json:"msg,omitempty"` // panic message / error text (not compared)
}

func (r Res) String() string {
	if r.Val == "" {
		return r.Kind
	}

	return r.Kind + ":" + r.Val
}

var errnoNames = map[uintptr]string{
	1: "EPERM", 2: "ENOENT", 9: "EBADF", 13: "EACCES", 17: "EEXIST", 18: "EXDEV", 20: "ENOTDIR",
	21: "EISDIR", 22: "EINVAL", 39: "ENOTEMPTY", 40: "ELOOP", 36: "ENAMETOOLONG", 16: "EBUSY", 26: "ETXTBSY",
	31: "EMLINK", 28: "ENOSPC", 27: "EFBIG", 29: "ESPIPE", 30: "EROFS", 95: "ENOTSUP", 11: "EAGAIN",
}

// ErrKind classifies an error by what the properties compare: the errno for
// Linux-style errors, a small class name for the others.
func ErrKind(err error) string {
	if err == nil {
		return "ok"
	}

	// unwrap the os-style wrappers
	for i := 0; i < 8; i++ {
		switch e := err.(type) {
		case *fs.PathError:
			err = e.Err

			continue
		case *os.LinkError:
			err = e.Err

			continue
		case *os.SyscallError:
			err = e.Err

			continue
		}

		break
	}

	if err == nil {
		return "nil-inner"
	}

	switch e := err.(type) {
	case avfs.LinuxError:
		if n, ok := errnoNames[uintptr(e)]; ok {
			return n
		}

		return fmt.Sprintf("errno%d", uintptr(e))
	case syscall.Errno:
		if n, ok := errnoNames[uintptr(e)]; ok {
			return n
		}

		return fmt.Sprintf("errno%d", uintptr(e))
	case avfs.WindowsError:
		return fmt.Sprintf("WIN%d", uintptr(e))
	case avfs.CustomError:
		switch e {
		case avfs.ErrNegativeOffset:
			return "negative-offset"
		case avfs.ErrFileClosing:
			return "closed"
		case avfs.ErrPatternHasSeparator:
			return "pattern-sep"
		}

		return "custom:" + e.Error()
	case avfs.UnknownUserError, avfs.UnknownGroupError, avfs.UnknownUserIdError, avfs.UnknownGroupIdError,
		avfs.AlreadyExistsUserError, avfs.AlreadyExistsGroupError:
		return fmt.Sprintf("%T", e)
	}

	switch {
	case err == io.EOF:
		return "EOF"
	case err == io.ErrUnexpectedEOF:
		return "UEOF"
	case errors.Is(err, fs.ErrClosed), errors.Is(err, os.ErrClosed):
		return "closed"
	case err == fs.ErrInvalid, err == os.ErrInvalid:
		return "invalid"
	case err == fs.ErrExist:
		return "EEXIST"
	case err == fs.ErrNotExist:
		return "ENOENT"
	case err == fs.ErrPermission:
		return "EACCES"
	}

	msg := err.Error()

	switch {
	case strings.Contains(msg, "negative offset"):
		return "negative-offset"
	case strings.Contains(msg, "pattern contains path separator"):
		return "pattern-sep"
	case strings.Contains(msg, "syntax error in pattern"):
		return "bad-pattern"
	case strings.Contains(msg, "file already closed"), strings.Contains(msg, "use of closed file"):
		return "closed"
	case strings.Contains(msg, "invalid argument"):
		return "invalid"
	case strings.Contains(msg, "too many links"):
		return "ELOOP"
	case strings.Contains(msg, "invalid whence"):
		return "EINVAL"
	}

	return "other:" + msg
}

// Scribble overwrites a buffer that was handed to, or received from, the code
// under test once the call has returned. Neither side may keep a reference to
// it (os.File never does): an implementation that stores the caller's slice,
// or returns its own, shows up as a change of content nobody asked for.
func Scribble(b []byte) {
	for i := range b {
		b[i] = 0xA5
	}
}

// Guard runs f and converts a panic into (kind, message): kind is "DEADLOCK"
// for the shim's decided self-deadlock, "PANIC" otherwise, "" when f returned.
func Guard(f func()) (kind, msg string) {
	defer func() {
		if r := recover(); r != nil {
			if d, ok := r.(verifrt.Deadlock); ok {
				kind, msg = "DEADLOCK", d.Error()

				return
			}

			kind = "PANIC"
			msg = fmt.Sprint(r)
			st := string(debug.Stack())
			// keep the first avfs frame for the signature
			for _, l := range strings.Split(st, "\n") {
				if strings.Contains(l, "github.com/avfs/avfs") && strings.Contains(l, "(") && !strings.Contains(l, "verif") {
					msg += " @ " + strings.TrimSpace(l)

					break
				}
			}
		}
	}()

	f()

	return "", ""
}

// FixedTime is the instant used by Chtimes calls (plus N seconds).
var FixedTime = time.Unix(1_500_000_000, 0)

// Do applies c to v and classifies the outcome. Panics and decided deadlocks
// are outcomes.
func Do(v avfs.VFS, c Call) (res Res) {
	k, msg := Guard(func() { res = do(v, c) })
	if k != "" {
		return Res{Kind: k, Msg: msg}
	}

	return res
}

func errRes(err error) Res {
	k := ErrKind(err)
	if err != nil {
		return Res{Kind: k, Msg: err.Error()}
	}

	return Res{Kind: k}
}

// InfoString renders a FileInfo for comparison: type, permission+special
// bits, owner, and for non-directories size and link count.
func InfoString(v avfs.VFS, fi fs.FileInfo) string {
	m := fi.Mode()
	t := "f"

	switch {
	case m.IsDir():
		t = "d"
	case m&fs.ModeSymlink != 0:
		t = "l"
	case m&fs.ModeType != 0:
		t = "o"
	}

	uid, gid, nl := -1, -1, uint64(0)

	func() {
		defer func() { _ = recover() }()

		st := v.ToSysStat(fi)
		uid, gid, nl = st.Uid(), st.Gid(), st.Nlink()
	}()

	s := fmt.Sprintf("%s %s %d:%d", t, ModeString(m), uid, gid)
	if t != "d" {
		s += fmt.Sprintf(" sz%d n%d", fi.Size(), nl)
	}

	return s
}

// ModeString renders permission and special bits in octal (Unix layout).
func ModeString(m fs.FileMode) string {
	p := uint32(m.Perm())

	if m&fs.ModeSetuid != 0 {
		p |= 0o4000
	}

	if m&fs.ModeSetgid != 0 {
		p |= 0o2000
	}

	if m&fs.ModeSticky != 0 {
		p |= 0o1000
	}

	return fmt.Sprintf("%04o", p)
}

// UnixMode converts Unix-layout bits (0o7777) to fs.FileMode.
func UnixMode(p uint32) fs.FileMode {
	m := fs.FileMode(p & 0o777)

	if p&0o4000 != 0 {
		m |= fs.ModeSetuid
	}

	if p&0o2000 != 0 {
		m |= fs.ModeSetgid
	}

	if p&0o1000 != 0 {
		m |= fs.ModeSticky
	}

	return m
}

func do(v avfs.VFS, c Call) Res {
	// "Sub/<op>": the call is issued through a fresh view of the root directory
	// (volume root) obtained with v.Sub, as a second goroutine's view would be
	if strings.HasPrefix(c.Op, "Sub/") {
		vol := avfs.VolumeName(v, c.A)
		if vol == "" && v.OSType() == avfs.OsWindows {
			vol = "C:"
		}

		sv, err := v.Sub(vol + string(v.PathSeparator()))
		if err != nil {
			return errRes(err)
		}

		c.Op = c.Op[len("Sub/"):]

		return do(sv, c)
	}

	perm := UnixMode(c.Perm) | fs.FileMode(c.Mode)

	switch c.Op {
	case "FChmod": // Open + File.Chmod + Close
		f, err := v.OpenFile(c.A, os.O_RDONLY, 0)
		if err != nil {
			return errRes(err)
		}

		err = f.Chmod(perm)
		_ = f.Close()

		return errRes(err)
	case "Mkdir":
		return errRes(v.Mkdir(c.A, perm))
	case "MkdirAll":
		return errRes(v.MkdirAll(c.A, perm))
	case "Remove":
		return errRes(v.Remove(c.A))
	case "RemoveAll":
		return errRes(v.RemoveAll(c.A))
	case "Create":
		f, err := v.Create(c.A)
		if err == nil {
			_ = f.Close()
		}

		return errRes(err)
	case "Open":
		f, err := v.Open(c.A)
		if err == nil {
			_ = f.Close()
		}

		return errRes(err)
	case "OpenFile":
		f, err := v.OpenFile(c.A, c.Flag, perm)
		if err == nil {
			_ = f.Close()
		}

		return errRes(err)
	case "WriteFile":
		data := []byte(c.Data)
		err := v.WriteFile(c.A, data, perm)
		Scribble(data)

		return errRes(err)
	case "AppendFile": // OpenFile(O_APPEND|O_WRONLY) + Write + Close
		f, err := v.OpenFile(c.A, os.O_WRONLY|os.O_APPEND, 0)
		if err != nil {
			return errRes(err)
		}

		data := []byte(c.Data)
		_, err = f.Write(data)
		Scribble(data)
		_ = f.Close()

		return errRes(err)
	case "Truncate":
		return errRes(v.Truncate(c.A, c.N))
	case "Chmod":
		return errRes(v.Chmod(c.A, perm))
	case "Chown":
		return errRes(v.Chown(c.A, int(c.N), int(c.M)))
	case "Lchown":
		return errRes(v.Lchown(c.A, int(c.N), int(c.M)))
	case "Chtimes":
		t := FixedTime.Add(time.Duration(c.N) * time.Second)

		return errRes(v.Chtimes(c.A, t, t))
	case "Chdir":
		return errRes(v.Chdir(c.A))
	case "Getwd":
		d, err := v.Getwd()
		r := errRes(err)
		r.Val = d

		return r
	case "CreateTemp":
		f, err := v.CreateTemp(c.A, c.B)
		r := errRes(err)

		if err == nil {
			r.Val = f.Name()
			_ = f.Close()
		}

		return r
	case "MkdirTemp":
		d, err := v.MkdirTemp(c.A, c.B)
		r := errRes(err)
		r.Val = d

		return r
	case "Stat", "Lstat":
		var (
			fi  fs.FileInfo
			err error
		)

		if c.Op == "Stat" {
			fi, err = v.Stat(c.A)
		} else {
			fi, err = v.Lstat(c.A)
		}

		r := errRes(err)
		if err == nil {
			r.Val = fi.Name() + " " + InfoString(v, fi)
		}

		return r
	case "ReadDir":
		es, err := v.ReadDir(c.A)
		r := errRes(err)

		var names []string
		for _, e := range es {
			names = append(names, e.Name()+TypeChar(e.Type()))
		}

		r.Val = strings.Join(names, ",")

		return r
	case "ReadFile":
		b, err := v.ReadFile(c.A)
		r := errRes(err)
		r.Val = fmt.Sprintf("%q", b)
		Scribble(b)

		return r
	case "Readlink":
		s, err := v.Readlink(c.A)
		r := errRes(err)
		r.Val = s

		return r
	case "EvalSymlinks":
		s, err := v.EvalSymlinks(c.A)
		r := errRes(err)
		r.Val = s

		return r
	case "Rename":
		return errRes(v.Rename(c.A, c.B))
	case "Link":
		return errRes(v.Link(c.A, c.B))
	case "Symlink":
		return errRes(v.Symlink(c.A, c.B))
	case "SetUMask":
		return errRes(v.SetUMask(perm))
	case "Glob":
		m, err := v.Glob(c.A)
		r := errRes(err)
		r.Val = strings.Join(m, ",")

		if m == nil {
			r.Val = "<nil>"
		}

		return r
	case "WalkDir":
		var out []string

		err := v.WalkDir(c.A, func(p string, d fs.DirEntry, err error) error {
			if len(out) > 4096 {
				return errors.New("walk-too-long")
			}

			if err != nil {
				out = append(out, p+"!"+ErrKind(err))

				return nil
			}

			out = append(out, p+TypeChar(d.Type()))

			return nil
		})

		r := errRes(err)
		r.Val = strings.Join(out, ",")

		return r
	case "Abs":
		s, err := v.Abs(c.A)
		r := errRes(err)
		r.Val = s

		return r
	case "Sub":
		_, err := v.Sub(c.A)

		return errRes(err)
	case "Exists":
		return Res{Kind: "ok", Val: fmt.Sprint(avfs.Exists(v, c.A))}
	case "IsDir":
		b, err := avfs.IsDir(v, c.A)
		r := errRes(err)
		r.Val = fmt.Sprint(b)

		return r
	case "DirExists":
		b, err := avfs.DirExists(v, c.A)
		r := errRes(err)
		r.Val = fmt.Sprint(b)

		return r
	case "IsEmpty":
		b, err := avfs.IsEmpty(v, c.A)
		r := errRes(err)
		r.Val = fmt.Sprint(b)

		return r
	}

	panic("fsx: unknown op " + c.Op)
}

// TypeChar is "/" for directories, "@" for symlinks, "" for regular files,
// "?" for anything else.
func TypeChar(m fs.FileMode) string {
	switch {
	case m.IsDir():
		return "/"
	case m&fs.ModeSymlink != 0:
		return "@"
	case m&fs.ModeType != 0:
		return "?"
	}

	return ""
}

// DumpOpts selects what a dump contains.
type DumpOpts struct {
	Mtime    bool   // include modification times
	NoOwner  bool   // omit uid:gid
	NoPerm   bool   // omit permission bits
	StripPfx string // prefix removed from printed paths
	MaxDepth int    // recursion guard (default 16): deeper => "!deep" line
}

// Dump returns a canonical description of the tree rooted at root, through the
// public API only (Lstat, ReadDir, ReadFile, Readlink, SameFile): one line per
// entry, sorted by path. Regular files carry their hard-link class (number of
// the first path, in order, that is SameFile) instead of inode numbers.
// Failures of the API are part of the dump ("!ERR" lines).
func Dump(v avfs.VFS, root string, o DumpOpts) []string {
	if o.MaxDepth == 0 {
		o.MaxDepth = 16
	}

	var (
		out   []string
		files []fs.FileInfo
	)

	sep := string(v.PathSeparator())

	var walk func(p string, depth int)

	walk = func(p string, depth int) {
		fi, err := v.Lstat(p)
		name := strings.TrimPrefix(p, o.StripPfx)

		if name == "" {
			name = "."
		}

		if err != nil {
			out = append(out, name+" !lstat:"+ErrKind(err))

			return
		}

		m := fi.Mode()
		attrs := ""

		if !o.NoPerm {
			attrs += " " + ModeString(m)
		} else {
			attrs += " ----"
		}

		if !o.NoOwner {
			st := v.ToSysStat(fi)
			attrs += fmt.Sprintf(" %d:%d", st.Uid(), st.Gid())
		} else {
			attrs += " -:-"
		}

		if o.Mtime {
			attrs += fmt.Sprintf(" t%d", fi.ModTime().UnixNano())
		}

		switch {
		case m.IsDir():
			out = append(out, name+" d"+attrs)

			if depth >= o.MaxDepth {
				out = append(out, name+" !deep")

				return
			}

			es, err := v.ReadDir(p)
			if err != nil {
				out = append(out, name+" !readdir:"+ErrKind(err))
			}

			names := make([]string, 0, len(es))
			for _, e := range es {
				names = append(names, e.Name())
			}

			if !sort.StringsAreSorted(names) {
				out = append(out, name+" !unsorted:"+strings.Join(names, ","))
				sort.Strings(names)
			}

			for i, n := range names {
				if i > 0 && names[i-1] == n {
					out = append(out, name+" !dup:"+n)

					continue
				}

				if strings.HasSuffix(p, sep) {
					walk(p+n, depth+1)
				} else {
					walk(p+sep+n, depth+1)
				}
			}
		case m&fs.ModeSymlink != 0:
			t, err := v.Readlink(p)
			if err != nil {
				t = "!readlink:" + ErrKind(err)
			}

			st := v.ToSysStat(fi)
			out = append(out, fmt.Sprintf("%s l%s sz%d n%d -> %s", name, attrs, fi.Size(), st.Nlink(), t))
		default:
			b, err := v.ReadFile(p)
			c := fmt.Sprintf("%q", b)

			if err != nil {
				c = "!readfile:" + ErrKind(err)
			}

			st := v.ToSysStat(fi)
			cls := -1

			for i, o := range files {
				if v.SameFile(o, fi) {
					cls = i

					break
				}
			}

			if cls < 0 {
				cls = len(files)
				files = append(files, fi)
			}

			out = append(out, fmt.Sprintf("%s f%s sz%d n%d #%d %s", name, attrs, fi.Size(), st.Nlink(), cls, c))
		}
	}

	walk(root, 0)

	return out
}

// DiffLines returns a compact description of the first differences between two
// dumps ("" when equal).
func DiffLines(a, b []string) string {
	am := map[string]bool{}
	for _, l := range a {
		am[l] = true
	}

	bm := map[string]bool{}
	for _, l := range b {
		bm[l] = true
	}

	var d []string

	for _, l := range a {
		if !bm[l] {
			d = append(d, "-"+l)
		}
	}

	for _, l := range b {
		if !am[l] {
			d = append(d, "+"+l)
		}
	}

	if len(d) > 8 {
		d = append(d[:8], "...")
	}

	return strings.Join(d, " | ")
}

// ResolveLoose follows symbolic links in p (absolute) as far as they can be
// followed and returns every intermediate spelling of the path, including the
// final one, even when the resolution ends at a missing component (dangling
// links are followed lexically). Used to decide which entries a call "names".
func ResolveLoose(v avfs.VFS, p string) []string {
	out := []string{p}
	sep := string(v.PathSeparator())
	cur := p

	for hops := 0; hops < 40; hops++ {
		vol := avfs.VolumeName(v, cur)
		parts := strings.Split(strings.TrimPrefix(cur[len(vol):], sep), sep)
		prefix := vol
		changed := false

		for i, part := range parts {
			if part == "" {
				continue
			}

			next := prefix + sep + part

			var (
				fi  fs.FileInfo
				err error
			)

			if k, _ := Guard(func() { fi, err = v.Lstat(next) }); k != "" || err != nil {
				return out
			}

			if fi.Mode()&fs.ModeSymlink == 0 {
				prefix = next

				continue
			}

			t, err := v.Readlink(next)
			if err != nil {
				return out
			}

			rest := strings.Join(parts[i+1:], sep)

			if v.IsAbs(t) {
				cur = v.Join(t, rest)
			} else {
				base := prefix
				if base == vol {
					base = vol + sep
				}

				cur = v.Join(base, t, rest)
			}

			out = append(out, cur)
			changed = true

			break
		}

		if !changed {
			return out
		}
	}

	return out
}

// TreeIndex maps the paths of a Dump to their type ("d", "f", "l") for operand
// classification. Only for '/'-separated (Linux-typed) trees.
type TreeIndex struct {
	Typ      map[string]string
	NonEmpty map[string]bool
	Nlink    map[string]string
	Target   map[string]string
	Root     string
}

// IndexDump builds a TreeIndex from Dump lines whose paths are relative to
// root (StripPfx = root) or absolute.
func IndexDump(lines []string, root string) *TreeIndex {
	ti := &TreeIndex{Typ: map[string]string{}, NonEmpty: map[string]bool{}, Nlink: map[string]string{}, Target: map[string]string{}, Root: root}

	for _, l := range lines {
		f := strings.Fields(l)
		if len(f) < 2 || strings.HasPrefix(f[1], "!") {
			continue
		}

		p := f[0]
		if p == "." {
			p = root
		} else if !strings.HasPrefix(p, "/") {
			p = root + "/" + p
		} else if !strings.HasPrefix(p, root) {
			p = root + p
		}

		ti.Typ[p] = f[1][:1]

		for _, x := range f {
			if len(x) > 1 && x[0] == 'n' && x[1] >= '0' && x[1] <= '9' {
				ti.Nlink[p] = x[1:]
			}
		}

		if i := strings.Index(l, " -> "); i >= 0 {
			ti.Target[p] = l[i+4:]
		}

		if i := strings.LastIndex(p, "/"); i > 0 {
			ti.NonEmpty[p[:i]] = true
		}
	}

	return ti
}

// Class describes path p in the tree: root | file[(links)] | dirEmpty |
// dirNonEmpty | symlink>file|dir|dangling|symlink | missing | missing(parent
// missing) | below-file | below-symlink | outside.
func (ti *TreeIndex) Class(p string) string {
	if p == "" {
		return "empty"
	}

	if p == ti.Root {
		return "root"
	}

	if !strings.HasPrefix(p, ti.Root+"/") {
		return "outside"
	}

	t, ok := ti.Typ[p]
	if !ok {
		par := p[:strings.LastIndex(p, "/")]
		pt, pok := ti.Typ[par]

		switch {
		case !pok:
			// an ancestor may be a symbolic link: classify what the path resolves to
			if rp, via := ti.resolveParents(p); via != "" {
				if rp == "" {
					return "via-link(" + via + ")"
				}

				if rp != p {
					return "via-link>" + ti.Class(rp)
				}
			}

			return "missing(parent missing)"
		case pt == "d":
			return "missing"
		case pt == "f":
			return "below-file"
		default:
			if rp, via := ti.resolveParents(p); via != "" && rp != "" && rp != p {
				return "via-link>" + ti.Class(rp)
			}

			return "below-symlink>" + ti.resolveType(par, 0)
		}
	}

	switch t {
	case "d":
		if ti.NonEmpty[p] {
			return "dirNonEmpty"
		}

		return "dirEmpty"
	case "f":
		if n := ti.Nlink[p]; n != "" && n != "1" {
			return "file(links)"
		}

		return "file"
	case "l":
		return "symlink>" + ti.resolveType(p, 0)
	}

	return t
}

func (ti *TreeIndex) resolveType(p string, depth int) string {
	if depth > 8 {
		return "loop"
	}

	t := ti.Target[p]
	if t == "" {
		return "?"
	}

	if !strings.HasPrefix(t, "/") {
		t = p[:strings.LastIndex(p, "/")] + "/" + t
	}

	t = cleanPath(t)

	switch ti.Typ[t] {
	case "d":
		return "dir"
	case "f":
		return "file"
	case "l":
		return ti.resolveType(t, depth+1)
	}

	return "dangling"
}

func cleanPath(p string) string {
	var out []string

	for _, s := range strings.Split(p, "/") {
		switch s {
		case "", ".":
		case "..":
			if len(out) > 0 {
				out = out[:len(out)-1]
			}
		default:
			out = append(out, s)
		}
	}

	return "/" + strings.Join(out, "/")
}

// Relation describes how two paths alias: same | a-ancestor-of-b |
// b-ancestor-of-a | hard-links | unrelated.
func (ti *TreeIndex) Relation(a, b string, sameFile func(a, b string) bool) string {
	switch {
	case a == b:
		return "same"
	case strings.HasPrefix(b, a+"/"):
		return "a-ancestor-of-b"
	case strings.HasPrefix(a, b+"/"):
		return "b-ancestor-of-a"
	}

	if sameFile != nil && ti.Typ[a] == "f" && ti.Typ[b] == "f" && sameFile(a, b) {
		return "hard-links"
	}

	return "unrelated"
}

// resolveParents follows symbolic links in every element of p but the last
// and returns the resulting spelling ("" when a parent dangles or loops) and a
// note saying whether a link was crossed ("", "link", "dangling", "loop").
func (ti *TreeIndex) resolveParents(p string) (string, string) {
	cur := p
	via := ""

	for hops := 0; hops < 16; hops++ {
		parts := strings.Split(strings.TrimPrefix(cur, "/"), "/")
		prefix := ""
		changed := false

		for i := 0; i < len(parts)-1; i++ {
			next := prefix + "/" + parts[i]

			switch ti.Typ[next] {
			case "d":
				prefix = next
			case "l":
				t := ti.Target[next]
				if !strings.HasPrefix(t, "/") {
					t = prefix + "/" + t
				}

				cur = cleanPath(t + "/" + strings.Join(parts[i+1:], "/"))
				via = "link"
				changed = true
			case "f":
				return cur, via
			default:
				if via != "" {
					return "", "dangling"
				}

				return cur, via
			}

			if changed {
				break
			}
		}

		if !changed {
			return cur, via
		}
	}

	return "", "loop"
}
