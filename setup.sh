#!/bin/bash
# Offline setup: build the overlay generator, generate what is generated, and
# warm the Go build cache (plain and -race) so that the first check is not slow.
set -eu
cd "$(dirname "$0")"
export GOFLAGS=-mod=mod GOPROXY=off GOSUMDB=off GOTOOLCHAIN=local
mkdir -p bin evidence replays
go build -o bin/mkoverlay ./cmd/mkoverlay

# generated Windows reference for C13 (from the installed toolchain's sources)
if [ -x ref/gen_winpath.sh ]; then ./ref/gen_winpath.sh; fi

REPO=$(readlink -f "${VERIF_REPO:-/repo}")
BASE=/dev/shm; [ -d "$BASE" ] && [ -w "$BASE" ] || BASE=${TMPDIR:-/tmp}
SCR=$(mktemp -d "$BASE/avfs-verif-setup.XXXXXX")
trap 'rm -rf "$SCR"' EXIT
( cd "$REPO" && "$OLDPWD/bin/mkoverlay" "$REPO" "$OLDPWD" "$SCR" ) 2>/dev/null
sed "s#=> /repo#=> $REPO#" go.mod > "$SCR/go.mod"; [ -f go.sum ] && cp go.sum "$SCR/go.sum"
for d in cmd/c*/; do
  n=$(basename "$d")
  case "$n" in
    c13|c17) tags=verif,avfs_setostype ;;
    *) tags=verif ;;
  esac
  race=; [ "$n" = c08 ] && race=-race
  go build -modfile="$SCR/go.mod" -overlay="$SCR/overlay.json" -tags "$tags" $race -o "$SCR/$n" "./$d" || echo "setup: warm-up build of $n failed (the check will report it)" >&2
done
echo "setup done"
