#!/bin/bash
# Offline setup: build the overlay generator and warm the build cache.
set -eu
cd "$(dirname "$0")"
export GOFLAGS=-mod=mod GOPROXY=off GOSUMDB=off GOTOOLCHAIN=local
mkdir -p bin evidence replays
go build -o bin/mkoverlay ./cmd/mkoverlay
echo "setup done"
