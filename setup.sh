#!/bin/bash
# Offline setup: build the overlay generator, generate what is generated, and
# warm the Go build cache (plain and -race) so that the first check is not slow.
set -eu
cd "$(dirname "$0")"
export GOFLAGS=-mod=mod GOPROXY=off GOSUMDB=off GOTOOLCHAIN=local
mkdir -p bin evidence replays
go build -o bin/mkoverlay ./cmd/mkoverlay

# generated Windows reference for C13 (from the installed toolchain's sources)
if [ -x ref/gen_winpath.sh ]; then ./ref/gen_winpath.sh; fi

REPO=$(readlink -f "${VERIF_REPO:-/repo}")
BASE=/dev/shm; [ -d "$BASE" ] && [ -w "$BASE" ] || BASE=${TMPDIR:-/tmp}
SCR=$(mktemp -d "$BASE/avfs-verif-setup.XXXXXX")
trap 'rm -rf "$SCR"' EXIT
( cd "$REPO" && "$OLDPWD/bin/mkoverlay" "$REPO" "$OLDPWD" "$SCR" ) 2>/dev/null
sed "s#=> /repo#=> $REPO#" go.mod > "$SCR/go.mod"; [ -f go.sum ] && cp go.sum "$SCR/go.sum"
for d in cmd/c[0-9]*/; do
  n=$(basename "$d")
  case "$n" in
    c13|c17) tags=verif,avfs_setostype ;;
    *) tags=verif ;;
  esac
  race=; [ "$n" = c08 ] && race=-race
  go build -modfile="$SCR/go.mod" -overlay="$SCR/overlay.json" -tags "$tags" $race -o "$SCR/$n" "./$d" || echo "setup: warm-up build of $n failed (the check will report it)" >&2
done
# scheduler self-test (lock model, preemption bounding, race-mode hand-off)
go build -modfile="$SCR/go.mod" -overlay="$SCR/overlay.json" -tags verif -o "$SCR/rtselftest" ./cmd/rtselftest && "$SCR/rtselftest"
go build -race -modfile="$SCR/go.mod" -overlay="$SCR/overlay.json" -tags verif -o "$SCR/rtselftest.race" ./cmd/rtselftest &&
  GORACE="log_path=$SCR/rtrace halt_on_error=0 exitcode=0" "$SCR/rtselftest.race"

# conformance of the transformed build: the repository's own tests must pass on
# the overlay (sync shim, ordered map ranges, nextRandom seam, hooks) with no
# explorer attached. osfs/osidm are not touched by the overlay and are skipped.
( cd "$REPO" && go test -vet=off -count=1 -overlay="$SCR/overlay.json" -tags verif . ./idm/memidm ./vfs/memfs ./vfs/orefafs ./vfs/rofs ./vfs/basepathfs ./vfs/failfs ) \
  || { echo "setup: the repository's tests fail on the overlay build" >&2; exit 1; }
echo "setup done"
