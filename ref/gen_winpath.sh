#!/bin/bash
# Generates ref/winpath (the Windows reference of property C13) from the
# sources of the installed toolchain, then runs the toolchain's own Windows
# test tables against it. Called by ../setup.sh. Fails loudly (non-zero exit,
# nothing written) if a transformation does not apply to this toolchain.
set -eu
cd "$(dirname "$0")/.."
export GOFLAGS=-mod=mod GOPROXY=off GOSUMDB=off GOTOOLCHAIN=local
go run ./cmd/genwinpath -out ref/winpath
go vet ./ref/winpath/...
go test -count=1 ./ref/winpath/...
