#!/usr/bin/env python3
"""Confirms a seeded change and runs checks against it.

usage: seedcheck.py <seed-out-dir> <property> <name> [check ids ...]

 <seed-out-dir>  directory written by a seeding sub-agent (patch.diff, demo_test.go, meta.json)
 <property>      property the change is meant to break (e.g. C06)
 <name>          name of the kept seed (directory under /verif/seeded)

Steps (all in a scratch worktree of /repo's HEAD under /tmp, removed afterwards):
  demo passes without the change; patch applies; tree builds; demo fails with the
  change; the repository's own tests still pass; then each listed check (default:
  the property's own) is run with VERIF_REPO pointing at the changed tree.
Writes /verif/seeded/<name>/{patch.diff,demo_test.go,meta.json}.
"""
import json, os, re, shutil, subprocess, sys, time

ENV = dict(os.environ, GOFLAGS="-mod=mod", GOPROXY="off", GOSUMDB="off", GOTOOLCHAIN="local")
PKGS = [".", "./idm/memidm", "./vfs/memfs", "./vfs/orefafs", "./vfs/rofs", "./vfs/basepathfs", "./vfs/failfs"]


def run(cmd, cwd, timeout=1800, env=None):
    p = subprocess.run(cmd, cwd=cwd, env=env or ENV, stdout=subprocess.PIPE, stderr=subprocess.STDOUT, text=True, timeout=timeout)
    return p.returncode, p.stdout


def main():
    out, prop, name = os.path.abspath(sys.argv[1]), sys.argv[2], sys.argv[3]
    checks = sys.argv[4:] or [prop]
    meta = json.load(open(os.path.join(out, "meta.json")))
    if "demo" in meta and os.path.exists(os.path.join(out, "seed_meta.json")):
        meta = json.load(open(os.path.join(out, "seed_meta.json")))  # a kept seed: the planter's own description
    elif "demo" in meta:  # a kept seed of the first rounds: rebuild the run line from what was recorded
        d = meta["demo"]
        meta = dict(meta, demo_how_to_run="cp demo_test.go %s && go test -run %s %s %s" % (
            d["file"], d["run"], ("-tags " + d["tags"]) if d.get("tags") else "", "-race" if d.get("race") else ""))
    how = meta.get("demo_how_to_run", "")
    m = re.findall(r"(\S*zz_\w*_test\.go)", how)
    dest = m[-1].strip("`'\"(),")
    dest = re.sub(r"^/tmp/seed\d*-C\d+/", "", dest)
    runname = re.search(r"-run\s+(\S+)", how).group(1).strip("'\"`")
    tags = re.search(r"-tags\s+([\w,]+)", how)
    race = ["-race"] if re.search(r"(^|\s)-race(\s|$)", how) and "[-race]" not in how else []
    pkg = "./" + os.path.dirname(dest) if os.path.dirname(dest) else "."
    scratch = f"/tmp/sc-{name}"
    subprocess.run(["git", "-C", "/repo", "worktree", "remove", "--force", scratch], stderr=subprocess.DEVNULL)
    shutil.rmtree(scratch, ignore_errors=True)
    subprocess.check_call(["git", "-C", "/repo", "worktree", "add", "-q", "--detach", scratch, "HEAD"])
    res = {"property": prop, "seed_source": out, "head": subprocess.check_output(["git", "-C", "/repo", "rev-parse", "--short", "HEAD"], text=True).strip(),
           "files_changed": meta.get("files_changed"), "what_it_breaks": meta.get("what_it_breaks"), "needs_to_manifest": meta.get("needs_to_manifest"),
           "demo": {"file": dest, "run": runname, "tags": tags.group(1) if tags else None, "race": bool(race)}, "ran": []}
    try:
        shutil.copy(os.path.join(out, "demo_test.go"), os.path.join(scratch, dest))
        test = ["go", "test", "-vet=off", "-count=1"] + race + ["-run", runname] + (["-tags", tags.group(1)] if tags else []) + [pkg]
        rc, o = run(test, scratch)
        res["demo_passes_without_change"] = rc == 0
        res["ran"].append(" ".join(test) + f"  (unchanged tree) -> rc {rc}")
        rc, o = run(["git", "apply", os.path.join(out, "patch.diff")], scratch)
        res["patch_applies"] = rc == 0
        if rc != 0:
            res["note"] = "patch does not apply to the current HEAD of /repo: " + o[-300:]
            return finish(res, out, name, scratch)
        rc, o = run(["go", "build", "./..."], scratch)
        res["builds"] = rc == 0
        rc, o = run(test, scratch)
        res["demo_fails_with_change"] = rc != 0
        res["ran"].append(" ".join(test) + f"  (with the change) -> rc {rc}")
        res["demo_failure_excerpt"] = "\n".join([l for l in o.split("\n") if "FAIL" in l or "fatal" in l or "panic" in l or "want" in l or "differ" in l][:6])
        os.remove(os.path.join(scratch, dest))
        rc, o = run(["go", "test", "-vet=off", "-count=1"] + PKGS, scratch)
        res["existing_tests_pass"] = rc == 0
        res["ran"].append("go test -vet=off -count=1 " + " ".join(PKGS) + f"  (with the change) -> rc {rc}")
        res["checks"] = {}
        for cid in checks:
            t0 = time.time()
            env = dict(ENV, VERIF_REPO=scratch)
            env.pop("VERIF_DISCOVER", None)
            rc, o = run(["./check", cid, "quick"], "/verif", env=env, timeout=3600)
            viol = [l for l in o.split("\n") if l.startswith("VIOLATION")]
            sigs = [l.strip() for l in o.split("\n") if l.strip().startswith("signature:")]
            res["checks"][cid] = {"exit": rc, "violations": len(viol), "first_signatures": sigs[:4], "wall_s": round(time.time() - t0, 1)}
            res["ran"].append(f"VERIF_REPO=<changed tree> ./check {cid} quick -> exit {rc}, {len(viol)} VIOLATION lines")
        res["detected_by"] = [c for c, v in res["checks"].items() if v["exit"] == 1 and v["violations"] > 0]
    finally:
        pass
    return finish(res, out, name, scratch)


def finish(res, out, name, scratch):
    subprocess.run(["git", "-C", "/repo", "worktree", "remove", "--force", scratch], stderr=subprocess.DEVNULL)
    shutil.rmtree(scratch, ignore_errors=True)
    d = f"/verif/seeded/{name}"
    os.makedirs(d, exist_ok=True)
    if res.get("patch_applies") is False and os.path.exists(os.path.join(d, "meta.json")):
        # the code the change was planted in has been repaired or rewritten since: the earlier record
        # (made against the HEAD named in it) is kept
        old = json.load(open(os.path.join(d, "meta.json")))
        old["later_heads_patch_no_longer_applies"] = sorted(set(old.get("later_heads_patch_no_longer_applies", []) + [res["head"]]))
        json.dump(old, open(os.path.join(d, "meta.json"), "w"), indent=1)
        print(name, "PATCH-NO-LONGER-APPLIES (earlier record kept: detected_by=%s at %s)" % (old.get("detected_by"), old.get("head")))
        return
    if os.path.realpath(out) != os.path.realpath(d):
        shutil.copy(os.path.join(out, "patch.diff"), d)
        shutil.copy(os.path.join(out, "demo_test.go"), d)
    json.dump(res, open(os.path.join(d, "meta.json"), "w"), indent=1)
    ok = res.get("demo_passes_without_change") and res.get("demo_fails_with_change") and res.get("existing_tests_pass")
    print(name, "confirmed" if ok else "NOT-CONFIRMED", "detected_by=", res.get("detected_by"), res.get("note", ""))
    # replays written by the check runs are not kept
    for f in os.listdir("/verif/replays"):
        if f.endswith(".json"):
            os.remove(os.path.join("/verif/replays", f))


main()
