#!/bin/bash
# Re-confirms every kept seeded change against the current HEAD of /repo and the
# current checks: tools/seedsweep.sh [name-prefix]   (log: seeded/SWEEP.log)
export GOFLAGS=-mod=mod GOPROXY=off GOSUMDB=off GOTOOLCHAIN=local
cd /verif || exit 2
: > seeded/SWEEP.log
for d in seeded/${1:-}*/; do
  n=$(basename "$d")
  [ -f "$d/patch.diff" ] || continue
  prop=${n%%-*}
  extra=$(python3 -c "
import json,sys
m=json.load(open('$d/meta.json'))
c=[x for x in (m.get('detected_by') or []) if x!='$prop']
print(' '.join(c))")
  python3 tools/seedcheck.py "$d" "$prop" "$n" "$prop" $extra 2>&1 | tail -1 | tee -a seeded/SWEEP.log
done
