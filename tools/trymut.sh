#!/bin/bash
# usage: tools/trymut.sh <patch.diff> <check id>...   runs quick checks against a scratch worktree with the patch applied
set -u
export GOFLAGS=-mod=mod GOPROXY=off GOSUMDB=off GOTOOLCHAIN=local
p=$1; shift
wt=/tmp/trymut-$$
git -C /repo worktree add -q --detach $wt HEAD || exit 2
if ! git -C $wt apply "$p"; then echo "patch does not apply"; git -C /repo worktree remove --force $wt; exit 2; fi
cd /verif
for id in "$@"; do
  VERIF_REPO=$wt ./check $id quick > /tmp/trymut-$id.out 2>&1; rc=$?
  echo "$id rc=$rc violations=$(grep -c '^VIOLATION' /tmp/trymut-$id.out)"
  grep -A1 '^VIOLATION' /tmp/trymut-$id.out | grep signature | cut -c1-260 | head -${TRYMUT_SHOW:-3}
done
git -C /repo worktree remove --force $wt
rm -f /verif/replays/*.json
