#!/usr/bin/env python3
"""Rewrites the `fixed:` lines of known_findings.txt from the fix commits of /repo
(hashes change when history is tidied).  KNOWN-FINDING lines are kept as they are."""
import subprocess, sys
T = [
("C17","fix: SetOSType","SetOSType refused a foreign OS type exactly when the avfs_setostype tag is set (Windows-typed MemFS/OrefaFS could not be constructed; the OrefaFS constructor panicked)"),
("C05","fix: OrefaFS.MkdirAll","OrefaFS.MkdirAll with two or more missing levels attached the directories in reverse order: children maps and path index diverged (ReadDir of the existing ancestor listed the deepest name)"),
("C16","fix: CopyFileHash","CopyFile/CopyFileHash returned a nil error (and a stale or empty digest, wrong bytes or permission bits) when reading the source, writing, syncing, stat-ing, chmod-ing or closing the destination failed: the deferred close handler overwrote the error with nil"),
("C15","fix: MemUser.IsAdmin","MemUser.IsAdmin was true for every user whose gid is 0 (AddUser(name, administrator group) yielded a non-administrator that IsAdmin reported as administrator)"),
("C15","fix: MemIdm.AddUser","AddUser(u,g) || DelGroup(g);DelUser(u) non-linearizable: the group was looked up before the users lock was taken, so AddUser could succeed after the group had been deleted"),
("C01","fix: MemFS Link, Symlink and Rename created","MemFS Link/Symlink/Rename with a missing directory in the new name succeeded and created the entry, under the name of the first missing element, in the last directory found (kernel: ENOENT)"),
("C05","fix: MemFS.Rename moved a directory below itself","MemFS.Rename(dir, dir/x) succeeded and detached the subtree from the root (directory became its own child; walking from inside never ends)"),
("C04","fix: MemFS.Chdir refused","MemFS.Chdir on a symbolic link to a directory failed with ENOTDIR (kernel follows the link)"),
("C04","fix: MemFS.Chtimes changed","MemFS.Chtimes acted on a symbolic link itself instead of its target (os.Chtimes follows; dangling link must give ENOENT)"),
("C01","fix: MemFS.Mkdir followed","MemFS.Mkdir on a dangling symbolic link created the link's target and returned nil (kernel: EEXIST)"),
("C01","fix: MemFS reported size 1","Lstat of a MemFS symbolic link reported size 1 and nlink 0 (kernel: length of the target, 1)"),
("C01","fix: Truncate with a negative size","MemFS/OrefaFS Truncate(name,-1) returned ENOENT/EISDIR/ELOOP depending on the name (kernel: EINVAL whatever the name)"),
("C01","fix: OpenFile with O_CREATE|O_EXCL","MemFS/OrefaFS OpenFile(O_CREATE|O_EXCL) on an existing directory returned EISDIR (kernel: EEXIST)"),
("C07","fix: a new MemFS had an empty current directory","a new MemFS had an empty current directory: relative paths resolved with the first byte dropped (Chmod(\"a\") changed the root) until the first Chdir"),
("C07","fix: MemFS.Remove and RemoveAll of the root","MemFS Remove(\"/\") and RemoveAll(\"/\") (and VolumeDelete of a non-empty volume) locked the root twice and never returned"),
("C07","fix: OrefaFS.Link never returned","OrefaFS.Link(dir, dir/x) and Link(file, file/x) locked the same node twice and never returned"),
("C05","fix: OrefaFS.Rename moved a directory below itself","OrefaFS.Rename(dir, dir/x) detached the directory and rewrote the path index onto itself, or panicked on a nil children map for an empty directory"),
("C07","fix: OrefaFS.Rename and Link accepted a regular file","OrefaFS.Rename(a, file/x) panicked (nil map) and Link(a, file/x) attached a link below a regular file (kernel: ENOTDIR)"),
("C07","fix: OrefaFile.Stat panicked","OrefaFile.Stat (hence ReadFile, Glob, WalkDir) panicked with slice bounds out of range for a file opened with a relative name"),
("C01","fix: MemFS.Rename of a symbolic link replaced","MemFS.Rename(symlink, existing directory) replaced the directory, dropping its tree (os.Rename: EEXIST), and Rename(symlink, existing file) left the replaced file's link counter untouched"),
("C05","fix: MemFS.Rename of a file onto one of its own hard links","MemFS.Rename(a, b) with a and b hard links to the same file removed a and left a stale link count (rename(2): no-op); Rename(file, symlink) failed with EEXIST (kernel replaces the link)"),
("C07","fix: OrefaFS.Rename into an empty directory","OrefaFS.Rename(x, emptydir/y) panicked: assignment to entry in nil map"),
("C05","fix: OrefaFS.Rename over an existing file left","OrefaFS.Rename over a multiply-linked file left a stale link counter; Rename(a,b) with a,b hard links of one file removed a (rename(2): no-op)"),
("C06","fix: concurrent MemFS.Symlink and Link","MemFS Symlink || Symlink, Link || Link (and either against Mkdir / exclusive create) on the same new name both returned nil; the later entry replaced the earlier one (stale link counter for Link)"),
("C08","fix: MemFS.RemoveAll and Rename modified removed nodes","data races between MemFS.RemoveAll / Rename (node cleared without its lock) and Stat, ReadDir, Read, Write, Mkdir, Link, Symlink, OpenFile on the same node"),
("C14","fix: WalkDir returned fs.SkipAll","WalkDir returned fs.SkipAll as the walk's error (filepath.WalkDir returns nil), and SkipDir returned from the error-report visit of an unreadable directory skipped the remaining siblings"),
("C03","fix: MemFS.Truncate did not check","MemFS.Truncate(path) checked no permission: a user without write permission on the file truncated or extended it (kernel: EACCES)"),
("C02","fix: Read and Write panicked","Read/Write/WriteString after Seek beyond the end of the file (MemFS and OrefaFS) panicked with slice bounds out of range, leaving the node locked (os.File: EOF, resp. zero-filled gap)"),
("C02","fix: O_APPEND writes landed","O_APPEND position computed once at open (MemFS and OrefaFS): two appenders overwrote each other, append after Truncate/another writer went to a stale offset, a fresh O_APPEND handle reported offset = size"),
("C02","fix: a file opened O_RDONLY together","a handle opened with O_RDONLY|O_APPEND (or |O_CREATE, |O_TRUNC) was not readable: Read/ReadAt returned EBADF (ToOpenMode never set the read mode for those flag sets)"),
("C02","fix: the data of a file was released","the content of a file vanished for already open handles when its last name was removed or replaced (MemFS and OrefaFS released the data when the link counter reached 0)"),
("C02","fix: zero-length Read, ReadAt and WriteAt","Read/ReadAt with an empty buffer returned io.EOF (even mid-file) or EBADF, WriteAt(\"\") returned EBADF on a read-only handle and extended the file when the offset was beyond the end (os.File: 0, nil, no effect)"),
("C09","fix: RoFS.Sub returned","RoFS.Sub returned the writable sub file system of the base: WriteFile, Remove, Chmod, OpenFile(O_TRUNC) ... through ro.Sub(dir) changed the base"),
("C07","fix: RoFS.Create and CreateTemp returned a zero","RoFS.Create and CreateTemp returned a zero RoFile together with the error; every method of that value panicked"),
("C07","fix: FromUnixPath panicked","avfs.FromUnixPath(vfs, \"\") on a Windows-typed file system panicked (index out of range)"),
("C12","fix: FailFS.Sub and CreateTemp handed out","FailFS.Sub and FailFS.CreateTemp returned unwrapped base objects: calls through them never consulted the failure function (failures not injected, read-only plan bypassed); CreateTemp returned a zero FailFile whose methods panic when refused"),
("C10","fix: BasePathFS let paths","BasePathFS: '/../x', '../../x' after Chdir and relative paths reached files above the base directory (read, create, rename onto, remove), and Getwd, Abs, and error-path translation panicked in FromBasePath"),
("C06","fix: concurrent MemFS.Rename calls deadlocked","concurrent MemFS.Rename: lock-order deadlocks (opposite renames; rename into the parent against Remove/RemoveAll/ReadDir of the parent), two winners for one source or destination (node under two names, stale link counter, replaced concurrent create), two directories renamed into each other (detached cycle)"),
("C05","fix: MemFS.RemoveAll left the entries of deleted nodes","MemFS.RemoveAll: a refused RemoveAll, or one running next to a Rename out of the tree, left directory entries naming nodes it had already deleted (size 0, link count 0; link counter of the survivors wrong)"),
("C08","fix: MemFS cleared the target of a removed symbolic link","data race between MemFS.searchNode (reads the target of a symbolic link without the node lock) and Remove/RemoveAll/Rename resetting the target of the link they remove or replace (3 threads: OpenFile || Rename onto the link || Symlink)"),
("C06","fix: MemFS.Link acted on a source that a concurrent Remove","MemFS.Link || Remove/Rename of its source (also with a third thread creating the new name): Link added a name for an already removed file, or answered EEXIST where every sequential order gives ENOENT (source never re-validated once the destination directory was locked)"),
("C06","fix: MemFS.OpenFile(O_CREATE) opened a symbolic link node as a file","MemFS OpenFile(O_CREATE) || Symlink/Rename putting a symbolic link at the same name: the open returned a handle on the link node itself (Write: EBADF) instead of following the link or failing"),
("C06","fix: MemFS.MkdirAll returned nil without creating anything","MemFS.MkdirAll || Mkdir/OpenFile(O_CREATE)/Link/Symlink/Rename creating its first missing element: MkdirAll returned nil and created nothing below the new entry (or below a non-directory)"),
("C08","fix: OrefaFile Read, Write, ReadDir and Readdirnames moved the offset","data races on one shared OrefaFile: Read, Write, ReadDir and Readdirnames advanced the offset / directory cursor and replaced the cached entries under the handle's READ lock"),
("C06","fix: OrefaFS Link, Rename and OpenFile(O_CREATE) looked names up under the read lock","OrefaFS Link, Rename, OpenFile(O_CREATE) acted on lookups made under the index read lock: two winners for one name, lost nodes, index and children maps diverging, stale link counters, directory cycles (RemoveAll out of memory), and lock-order deadlocks of Rename/Link against Mkdir, MkdirAll, Remove, OpenFile(O_CREATE), CreateTemp, MkdirTemp"),
("C07","fix: OrefaFS.Link locked the file before the directory","OrefaFS Link(/d/x,/d/y) || ReadDir on a handle of /d: Link locked the file then the directory, the listing the directory then the file (deadlock)"),
("C07","fix: OrefaFS.RemoveAll modified directories and files without their locks","OrefaFS RemoveAll || directory listing of the same tree: nil entry dereferenced in dirEntries, children maps and link counters written without the node locks (data races)"),
("C10","fix: BasePathFS.Sub returned the sub file system of the base","BasePathFS.Sub(dir) handed out the raw MemFS view of the base: s.Symlink(\"/outside/file\", \"/l\") through it, then ReadFile/WriteFile(dir/l) through the BasePathFS read and overwrote a file outside the base path"),
("C03","fix: MemFS.RemoveAll emptied directories on which the user had write permission only","MemFS.RemoveAll by a non-administrator removed the entries of a directory he can write but not search or read (os.RemoveAll: EACCES, content kept); found both as a wrong success and as content missing after a refused call"),
("C10","fix: BasePathFS Remove and RemoveAll of the root directory acted on the base path itself","BasePathFS Remove(\"/\") answered ENOTEMPTY / removed an empty base directory, RemoveAll(\"/\") (also spelled /..) deleted the base directory itself; same on the view returned by Sub"),
("C06","fix: MemFS created entries in directories that had been removed since they were looked up","MemFS Mkdir/MkdirAll/OpenFile(O_CREATE)/Symlink/Link/Rename into a directory that a concurrent Remove, RemoveAll or Rename removed after the lookup (3 threads: Remove(/d/e/z) || Remove(/d/e) || Rename(/f,/d/e/f)): every call returned nil and the new entry or the moved tree was lost"),
("C01","fix: MemFS.OpenFile(O_CREATE|O_EXCL) followed a symbolic link in the last element","MemFS OpenFile(O_CREATE|O_EXCL) on a name that is a symbolic link followed the link (created the target of a dangling link, or answered ELOOP/ENOENT/ENOTDIR/ok from the resolution) where open(2) answers EEXIST; concurrent form: exclusive create || Symlink || Rename all succeeding on one name"),
("C04","fix: MemFS followed up to 64 symbolic links in a path","MemFS resolved chains of 41 to 64 symbolic links (Stat, Lstat, Open, ReadFile, ReadDir ... succeeded) where Linux answers ELOOP after 40"),
("C07","fix: the methods of a nil BasePathFile dereferenced the nil pointer","every BasePathFile method on a typed nil handle (as returned by OpenFile together with its error) panicked with a nil pointer dereference"),
("C02","fix: MemFile.Truncate with a negative size on a closed handle answered invalid argument","MemFS File.Truncate(-1) on a closed handle: EINVAL instead of the closed-file error"),
("C03","fix: MemFile.Chmod by a user who does not own the file answered permission denied","MemFS File.Chmod by a non-owner: EACCES where fchmod(2) and MemFS.Chmod give EPERM"),
("C03","fix: MemFS.OpenFile(O_CREATE|O_EXCL) on an existing file the user cannot write answered permission denied","MemFS OpenFile(O_CREATE|O_EXCL) on an existing file the user cannot write: EACCES instead of EEXIST"),
("C01","fix: OrefaFS.Rename of a missing name onto itself returned nil","OrefaFS.Rename(missing, same missing name) returned nil (rename(2): ENOENT)"),
("C03","fix: MemFS Chown, Lchown and File.Chown did not follow the rules of chown(2)","MemFS ownership changes by a non-administrator: File.Chown tested write permission instead of ownership (any writer changed owner and group), Chown/Lchown answered EPERM before resolving the path and refused what chown(2) allows (-1,-1 by anyone; the owner naming his uid and his own or the current group), and -1 was stored as an id"),
("C03","fix: MemFS.Rename moved a directory to another directory without write permission on the moved directory","MemFS.Rename(dir, otherdir/dir) by a user without write permission on the moved directory succeeded (rename(2): EACCES)"),
("C03","fix: MemFS.MkdirAll checked the permissions of the first existing directory only","MemFS.MkdirAll with two or more missing levels and a perm that gives the owner no write or search bit created every level (os.MkdirAll: EACCES at the second level)"),
("C03","fix: MemFS ignored the sticky bit of directories","MemFS Remove, RemoveAll and Rename in a directory with the sticky bit: entries owned by somebody else were removed, moved away or replaced by any user who can write the directory (Linux: EPERM)"),
("C06","fix: MemFS.Remove and RemoveAll removed whatever the name referred to by then","MemFS Remove(/d/x) || Rename(/f/g,/d/x) (x has a second hard link): Remove deleted the entry the Rename had just put there and decremented the link counter of the file it had looked up before (stale counter, lost file)"),
("C05","fix: MemFS.RemoveAll released a directory between the removal of its content and its own removal","MemFS RemoveAll(/d/e) || Rename(/f,/d/e/f) || Rename(/d/x,/f/x): the Rename added the moved tree to the directory RemoveAll had just emptied and then unlinked; the tree was lost and the link counter of a file below it stayed too high"),
("C03","fix: MemFS.RemoveAll reported the error of the directory it was asked to empty before those found below it","MemFS.RemoveAll by a non-administrator of a directory he cannot write whose sub directory is sticky and holds entries of somebody else: EACCES (of the parent) instead of the EPERM met first below (os.RemoveAll goes depth first)"),
("C06","fix: Stat and Lstat read the node while its directory is read locked","Stat/Lstat || Remove of the same name (or a Rename that replaces it; also Remove followed by a re-creation of the name) returned an info with the link count already decremented: the node was read after the lock of its directory had been released (was KF-C06-004 and KF-C03-019)"),
("C07","fix: RoFile.Sync reported","Sync on a file opened through a BasePathFS built on a RoFS panicked (FromBasePath: the error of RoFile.Sync carried the text \"not implemented\" as its path)"),
("C07","fix: MkdirAll and Mkdir on a volume that does not exist","Windows-typed MemFS.MkdirAll on a volume that was not added dereferenced a nil root; Windows-typed OrefaFS Mkdir, MkdirAll and MkdirTemp on another volume walked up past the volume name and panicked in SplitAbs (were KF-C07-006 and KF-C07-007)"),
("C17","fix: the default identity manager of a MemFS","a Windows-typed MemFS built on a Linux host without an identity manager got a Linux-typed MemIdm: TempDir() and the administrator's home directory did not exist, CreateTemp(\"\", p) and MkdirTemp(\"\", p) failed where the Linux-typed twin succeeds"),
("C17","fix: Abs joined a rooted Windows path","on a Windows-typed file system a rooted path without volume (\\Users, as avfs.HomeDir(vfs, \"\") returns it) was joined to the current directory instead of the root of the current volume: Stat of it failed from any directory but the root, the Linux-typed twin succeeds"),
("C11","fix: a view returned by Sub of a Windows-typed MemFS","a Sub view of a Windows-typed MemFS was not confined: view.Stat(`C:\\data`) succeeded on a view rooted at `C:\\data\\view`, files outside the directory and on other volumes were read and written through the view (the volume table was shared with the parent and every path resolved from the parent's volume root)"),
("C11","fix: searchNode did not check search permission","a MemFS view never checked search permission on its own root directory: a non-administrator user of Sub(dir) read and wrote below dir although the parent refuses the same path prefixed with dir with EACCES; a refused RemoveAll through such a view had already emptied files (were KF-C11-001 and KF-C11-002)"),
("C12","fix: a file system returned by FailFS.Sub kept","a file system obtained with FailFS.Sub before SetFailFunc never consulted the function installed later (sub.Mkdir changed the base under ReadOnlyFunc), and one obtained under a function kept it after it was replaced: Sub copied the function instead of sharing it"),
("C03","fix: O_APPEND, O_CREATE and O_TRUNC were taken for write access","OpenFile(O_RDONLY|O_APPEND) and OpenFile(O_RDONLY|O_CREATE) of an existing file were refused (EACCES) to a user who may read but not write it, O_RDONLY|O_APPEND of a directory answered EISDIR, and a handle opened O_RDONLY together with O_APPEND, O_CREATE or O_TRUNC accepted Write, WriteAt and Truncate: ToOpenMode turned those flags into write access (were KF-C02-002 and KF-C01-011)"),
("C02","fix: a piece of a directory listing shared its spare capacity","ReadDir(n)/Readdirnames(n) with n > 0 (MemFS and OrefaFS handles) returned sub-slices of the listing kept for the next pieces, with spare capacity: appending to a returned piece overwrote the names delivered by the next call (os.File: a fresh slice per call)"),
("C07","fix: File.Chdir made the name the directory was opened with","File.Chdir on a directory handle opened with a relative name stored that relative name as the current directory (Getwd returned \"b\"); on OrefaFS the next Link, Rename, Stat ... on \".\" or \"..\" panicked in SplitAbs (slice bounds out of range)"),
("C03","fix: Rename of an entry onto itself asked for write permission","MemFS.Rename(x, x) — and Rename between two hard links of one file — by a user who may search but not write the directory answered EACCES (EPERM in a sticky directory of somebody else); rename(2) returns 0 before any permission check"),
]
log = subprocess.check_output(['git','-C','/repo','log','--format=%h %s','adfd2e3..HEAD']).decode().strip().split('\n')
subj = {}
for l in log:
    h, s = l.split(' ', 1); subj[s] = h
used = set()
out = []
for prop, pre, what in T:
    m = [s for s in subj if s.startswith(pre)]
    if len(m) != 1:
        sys.exit(f"mkfixed: {len(m)} commits match {pre!r}")
    used.add(m[0]); out.append(f"fixed: property={prop} {subj[m[0]]} {what}")
missing = [s for s in subj if s not in used]
if missing:
    sys.exit("mkfixed: fix commits without a fixed: line: %r" % missing)
p = '/verif/known_findings.txt'
lines = [l for l in open(p).read().split('\n') if l and not l.startswith('fixed:')]
head = [l for l in lines if l.startswith('#')]
rest = [l for l in lines if not l.startswith('#')]
open(p, 'w').write('\n'.join(head + out + rest) + '\n')
print(len(out), "fixed lines,", len(rest), "known findings")
