#!/usr/bin/env python3
"""Regenerates /verif/MANIFEST.json from the table below (run from /verif)."""
import json, os, sys

CHECKS = {
 "C01": dict(level="model_checking", design="§4 C01", technique="explicit-state BFS over call histories on the real MemFS/OrefaFS, Linux kernel (OsFS on tmpfs) as step-by-step oracle",
   text="Every history of <= 3 namespace calls from a ~490-call (quick) / ~1500-call (thorough: three names, all 48 open-flag sets) alphabet over a depth-2 universe whose names include a strict prefix pair (a, ab), from the empty directory and from a small tree, is executed on a fresh real MemFS / OrefaFS and in lock-step through OsFS on tmpfs; outcome (errno) of every call and the full tree after every call are compared; states are deduplicated on the kernel-side tree. Exhaustive within the bound, which is what the property's bounded clause asks for.",
   note="Trusts: Linux 6.x tmpfs as root, Go os package, the overlay transformations (sync shim, ordered map ranges, nextRandom seam). Directory size/nlink not compared. Long random histories (clause ii) not run."),
 "C03": dict(level="model_checking", design="§4 C03", technique="exhaustive enumeration of (owner, group, mode) configurations x acting users x umasks x calls on the real MemFS, Linux kernel under setfsuid/setfsgid as oracle",
   text="Every assignment from a covering set of owners, groups and permission bits (incl. sticky/setgid) to the <= 2 (quick) / <= 3 (thorough) nodes on the path(s) of a call, every acting user class, 5 umasks and all path-taking calls (plus File.Chmod/Chown/Truncate/Write/ReadDir) is built by an administrator history on a fresh MemFS and on tmpfs, and the one call under test is compared: allowed/refused, errno, and for created objects the statement's formula (calling uid/gid, perm &^ umask); after a RemoveAll refused on both sides every entry that is gone must have been removable by the caller. A concurrent part runs every ordered pair of permission-sensitive templates as two threads acting for two different users under every schedule with <= 2/3 preemptions (oracle: results and final node graph, owners and modes included, equal a sequential order).",
   note="Kernel decisions taken on a thread with unshare(CLONE_FS) and raw setfsuid/setfsgid, supplementary groups empty; fs.protected_hardlinks policy cases are skipped; created-object owner/mode judged by the statement's formula, not by setgid-directory kernel rules."),
 "C06": dict(level="model_checking", design="§3 Engine B, §4 C06", technique="stateless DFS over thread interleavings (controlled scheduler at lock-acquisition granularity, iterative preemption bounding) of the real MemFS/OrefaFS; oracle: some sequential order of the same primitive calls, respecting real-time order",
   text="All unordered pairs (quick) plus triples and 2x2 programs (thorough) of ~35 call templates on colliding names are run under every schedule with <= 2 (quick) / <= 3 (thorough) preemptions; results and final tree of every schedule must equal those of a sequential permutation of the same primitive steps consistent with the observed real-time order; final states also pass the node-graph invariants; temp names must be distinct.",
   note="Scheduling points only at Lock/RLock of the shimmed mutexes and call boundaries (complete for race-free executions; C08 checks races on the same schedules). Composite helpers (WriteFile, ReadFile, ReadDir) are decomposed into their primitive calls; RemoveAll is not required to be atomic."),
 "C08": dict(level="model_checking", design="§3 Engine B race mode, §4 C08", technique="the same schedule enumeration on a -race build with a scheduler hand-off invisible to the race detector (norace spin), so the detector judges the program's own synchronisation in every enumerated order",
   text="All pairs of call templates (MemFS views with and without distinct users, shared OrefaFS), per-view setters, two handles on one file, one shared handle, and path-vs-handle programs are executed under every schedule with <= 1 (quick) / <= 2 (thorough) preemptions in a -race binary; any report of the Go race detector, or a fatal runtime error, is a violation identified by the pair of functions.",
   note="Trusts the Go race detector; the claim is race freedom within the preemption bound completed, not for free-running 2-16 goroutine stress (sampling, not run)."),
 "C11": dict(level="model_checking", design="§4 C11", technique="explicit-state BFS over histories interleaving a parent MemFS and (nested) Sub views, twin parent driven with prefixed paths as oracle",
   text="All histories <= 2 (full alphabet) / <= 3 (core alphabet) (quick; thorough one deeper) of namespace calls and per-view setters through a parent, a view, a nested view (and a root view), compared call by call with a twin parent on Join(dir, Clean('/'+p)); tree equality after every call; nothing outside dir changes; per-view user/umask/cwd isolation.",
   note="The reference is the parent's own behaviour (shared MemFS defects are not flagged here). Removal/renaming of a view's own root is judged leniently (no panic, nothing outside dir changes)."),
 "C14": dict(level="model_checking", design="§4 C14", technique="exhaustive enumeration of all trees of a bounded universe x all patterns <= k segments x all WalkDir roots x callbacks skipping/failing at every visit index, against filepath.Glob / os.ReadDir / filepath.WalkDir on an identical tmpfs tree",
   text="Every tree over 2 names (quick, 1093 trees) / 3 top-level names (thorough), materialised in MemFS, OrefaFS, RoFS, FailFS, BasePathFS and on tmpfs; every pattern of <= 2/3 segments from a 10-segment alphabet (absolute and relative), every directory for ReadDir, every root and every callback behaviour (SkipDir/SkipAll/error at each visit index) for WalkDir, a non-administrator pass for unreadable directories, and the Exists/IsDir/IsEmpty/DirExists helpers against Stat/ReadDir of the same instance.",
   note="Spelling of Glob results (cleaned vs verbatim) is not compared; DirEntry.Info fields are not compared where the oracle's lazy Info fails."),
 "C02": dict(level="model_checking", design="§4 C02", technique="explicit-state BFS over handle/path operation histories on the real MemFS/OrefaFS in lock-step with *os.File on tmpfs (kernel oracle)",
   text="Every history of <= 3 (quick) / <= 4-5 (thorough) operations on up to 2-3 handle slots of one file (12 resp. all 48 flag sets; Read/ReadAt/Write/WriteAt/WriteString/Seek/Truncate/Stat/Sync/Chmod/Chown/Chdir/Close/Name with offsets straddling the current size) interleaved with path-level Truncate/Rename/Link/Remove, and of <= 4-6 ReadDir/Readdirnames calls on directory handles, is executed on both sides; byte counts, bytes, offsets, error kinds and the content/size/attributes seen through every handle and name are compared after every step; states deduplicated on the kernel side.",
   note="Kernel entry order of directories is unspecified: directory reads are compared on batch sizes, errors, no-duplicate and union. SEEK_DATA/SEEK_HOLE excluded (file-system specific). Name on a nil handle not compared."),
 "C04": dict(level="model_checking", design="§4 C04", technique="exhaustive enumeration of symlink graphs x query paths x calls on the real MemFS against the kernel / filepath.EvalSymlinks on an identical tmpfs tree",
   text="All link graphs with 2 (quick) / 3 (thorough) links over 18 target shapes and 2 placements, all query paths of <= 3 / <= 4 components (absolute, plus relative to two working directories), 18 calls (read-only ones on a shared configuration, mutating ones on a fresh copy followed by a whole-tree comparison), and chains of 1..70 links; each disagreement is additionally classified by asking the kernel the lexically normalised question.",
   note="Oracle = Linux 6.x tmpfs and filepath.EvalSymlinks of go1.23.5; Readlink compared after Clean, as the statement says."),
 "C07": dict(level="model_checking", design="§4 C07", technique="exhaustive enumeration of every exported method (by reflection) x adversarial argument domains x reachable states on every file-system type, plus deadlock/panic detection on every schedule of the concurrent programs under the controlled scheduler",
   text="Sequential: every method of avfs.VFS, File, IdentityMgr, VolumeManager and the generic helpers on 12 Linux-typed and 5 Windows-typed targets, argument tuples from per-type adversarial domains, 9 handle kinds incl. nil, closed and returned-with-error handles, pre-states of depth <= 1/2; outcome must not be PANIC, DEADLOCK (decided by the sync shim), HANG or FATAL. Concurrent: all schedules (bound 2/3) of all pairs of ~43 templates, lock-order programs, the shared-handle and two-handle programs of C08, and all pairs of MemIdm calls; a deadlock is 'no enabled thread', decided by the scheduler. Directory-listing protocol: every sequence of <= 4/5 ReadDir(n)/Readdirnames(n)/Create/Remove steps on one directory handle. The part of plan building that calls the code under test runs in a watched subprocess.",
   note="Caller's-fault inputs are excluded and listed in the evidence (nil callbacks, nil users, foreign FileInfo for ToSysStat, sizes > 1 MiB for Truncate/WriteAt on in-memory file systems). Name on a nil handle is the sanctioned panic."),
 "C09": dict(level="model_checking", design="§4 C09", technique="explicit-state BFS over histories of every VFS/File method (by reflection) through RoFS and every object it hands out; base snapshot around every call, twin base for read results",
   text="All histories <= 2 (quick) / <= 3 (thorough) of ~1700 / ~5300 calls (every method, all 48 open-flag sets, pooled files, pooled Sub file systems, DirEntry/FileInfo values) on RoFS over MemFS and OrefaFS: base tree, contents, modes, owners and mtimes identical before and after every call; mutating calls refused with a permission-class error; read-only calls equal to the same call on a twin base.",
   note="cwd/umask/user of the base (forwarded by RoFS) are recorded, not judged. O_RDONLY|O_EXCL is treated as unspecified."),
 "C12": dict(level="fault_enumeration", design="§4 C12", technique="explicit-state BFS in lock-step with a twin base (no failure function / always-nil / read-only function) + exhaustive single-fault enumeration over the recorded consultation trace of every history",
   text="(i) FailFS without failure function and with an always-nil one is compared call by call and tree by tree with a twin base over all histories <= 2/3 of ~760 calls incl. pooled files and Sub file systems; (ii) for every history <= 2/3 every plan 'consultation k returns E' (3 errors: a private sentinel, a permission error, an fs.ErrNotExist-kind error) is run, in lock-step with a twin base that skips the failed call, and handle programmes 'open; [pre]; F fails; G; Close' continue on the same handle after every injected File failure: primitives must return exactly E, composites a non-nil error, the base must be untouched by the failed call, every method must consult its own id before any effect, and every FnVFS id must occur in some trace; (iii) with ReadOnlyFunc the base (incl. mtimes) never changes, also for O_RDONLY combined with O_TRUNC/O_CREATE/O_APPEND; (iv) two threads on one FailFS with ReadOnlyFunc, entering the failure function being a scheduling point: every schedule with <= 2/3 preemptions of every ordered pair of 10 calls, each call answers what it answers alone and the base is unchanged.",
   note="FnWriteFile is unreachable from the API (WriteFile is built on OpenFile/Write/Close) and listed as such. Single fault per run."),
 "C13": dict(level="exploration", design="§4 C13", technique="exhaustive enumeration of all strings (and pairs/triples) up to a length bound over a 13-symbol alphabet, both OS types, against path/filepath (Linux) and a mechanically retargeted copy of the toolchain's Windows path/filepath (validated on the toolchain's own test tables)",
   text="Clean, Split, Dir, Base, IsAbs, FromSlash, ToSlash, VolumeName, Join, Rel, Abs (Linux), Match and PathIterator (Next/Part/Left/Right/ReplacePart) on every string <= 5 (quick) / <= 6 (thorough), pairs <= 3 / 4, Match patterns <= 4 / 5 x names <= 3, plus a dictionary of volume-shaped prefixes, all pairs of paths built from letters whose two cases fold together (incl. those of different UTF-8 length), and Match patterns over class syntax with U+FFFD, an invalid byte and 3-/4-byte runes; equality of results and of error-ness; a panic is a violation.",
   note="Built with -tags avfs_setostype. Abs for Windows not decided (Win32 API). Rel on argument pairs for which Go's own Windows Rel does not terminate is skipped (reference defect). Inputs longer than the bound are not covered (the fuzzing clause is sampling)."),
 "C10": dict(level="model_checking", design="§4 C10", technique="explicit-state BFS over histories whose alphabet is every path string up to a length over {a,f,secret,top,b,.,..} x every path-taking call, on the real BasePathFS in lock-step with a standalone reference file system holding the base directory's content; snapshot of everything outside the base directory around every call",
   text="Level 1: all strings of <= 3 (quick) / <= 4 (thorough) segments, absolute and relative, three spellings, x 23 calls (incl. handle and Chdir/Getwd compounds) plus a 30-string core squared for Rename/Link/Symlink; level 2 (3 in thorough): relative and dot-dot strings after a first call. The alphabet also moves the BASE's own working directory (inside B, B itself, a sibling whose name extends B's, unrelated directories), and issues every call and symbolic-link creations through the views returned by Sub. Oracle: nothing outside the base directory changes or is read, outcome and tree of the base directory equal those of the standalone reference, every returned or error-embedded path names the same virtual location as the reference's and never carries the base prefix.",
   note="Paths are compared after normalising both sides to the absolute cleaned virtual form (spelling-only differences are counted, not judged). OrefaFS's own inability to address its root is informational (the reference is wrong there, not the wrapper)."),
 "C05": dict(level="model_checking", design="§4 C05", technique="explicit-state BFS over call histories incl. invalid/aliased operands; injected node-graph invariant checker + public-API walk + frame conditions after every call",
   text="Every history of <= 3 calls from a ~500-call (quick) / ~800-call (thorough) alphabet that includes root, empty, relative, ancestor/descendant and identical operands, a strict prefix pair of names, a path in which a directory's path recurs, and creations through a fresh Sub view, on MemFS and OrefaFS (Linux- and Windows-typed), with structural invariants (single parent per directory, stored link counters = directory entries, OrefaFS index = reachable paths), unique file identities, ReadDir/Lstat agreement, Nlink/SameFile agreement and frame conditions checked after every call; the final state of every schedule (<= 2/3 preemptions) of the C06 pair programs must satisfy the same invariants.",
   note="Trusts the injected read-only checker (hooks/*/verif_hooks.go) and the generous definition of 'entries a call names' (operands, what they resolve to, their subtrees and hard-link classes)."),
 "C15": dict(level="model_checking", design="§4 C15", technique="explicit-state BFS of MemIdm call histories against a reference model + exhaustive schedule enumeration (controlled scheduler, preemption bound) with brute-force and porcupine linearizability judges",
   text="All histories of <= 5 (quick) / <= 7 (thorough) of the 8 MemIdm calls over 3+3 names are executed on the real MemIdm (twice: with the Linux and with the Windows names of the administrator) and compared step by step with a two-map reference model (by-name/by-id agreement, uniqueness, never-reassigned ids, error types, IsAdmin); all interleavings of 2-3 threads x 1-2 calls at lock granularity (bound 2/3) are checked for linearizability against the same model.",
   note="Trusts the reference model (cmd/c15/model.go), the scheduler's RWMutex model, porcupine v1.3.0."),
 "C16": dict(level="fault_enumeration", design="§4 C16", technique="exhaustive single-fault enumeration through FailFS on either side of CopyFile/CopyFileHash/HashFile",
   text="For sizes around the 32 KiB buffer boundary and all pairs of library file systems, the fault-free consultation trace is recorded and every single-fault plan 'consultation k fails' is re-run on fresh instances: a listed primitive failing must yield a non-nil error, and whenever nil is returned bytes, permission bits and digest must match.",
   note="Single fault per run; FailFS is the injection seam; closing the source is not required to be reported (not listed by the property)."),
 "C17": dict(level="model_checking", design="§4 C17", technique="explicit-state BFS over portable call histories in lock-step on a Linux-typed and a Windows-typed instance + exhaustive volume-call sequences against a set model",
   text="Static facts (OSType, separator, error families), all VolumeAdd/VolumeDelete/VolumeList sequences <= 3/4 against a set model, and all histories <= 2 (quick) / <= 3 (thorough) of portable calls executed pairwise on Linux- and Windows-typed MemFS/OrefaFS: agreement on success/failure and isomorphic trees.",
   note="Built with -tags avfs_setostype. Error-class correspondence is informational only (the property demands agreement on success or failure)."),
}

PENDING = {}

def main():
    here = os.path.dirname(os.path.abspath(__file__)) + "/.."
    props = [json.loads(l)["id"] for l in open(here + "/properties.jsonl")]
    checks = []
    for pid in props:
        if pid not in CHECKS:
            continue
        c = CHECKS[pid]
        checks.append({
            "property_id": pid,
            "quick_cmd": f"./check {pid} quick",
            "thorough_cmd": f"./check {pid} thorough",
            "evidence_file": f"evidence/{pid}.json",
            "replay_cmd_template": f"./check {pid} quick -replay {{path}}",
            "engine": c.get("engine", "avfs-mc"),
            "level_claimed": {"category": c["level"], "text": c["text"], "design_ref": c["design"]},
            "level_note": c["note"],
            "technique": c["technique"],
        })
    na = [{"property_id": p, "reason": PENDING.get(p, "not claimed yet: the driver for this property is still being built in this session (see DESIGN.md §4 for the planned check)")}
          for p in props if p not in CHECKS]
    m = {
        "version": 1,
        "setup_cmd": "./setup.sh",
        "hooks": {
            "guard": "verif",
            "enable": "go build -tags verif -overlay <generated per run by bin/mkoverlay from the working tree of /repo>: hook and shim sources live in /verif/hooks and /verif/rt and are injected through the overlay; nothing guarded is committed in /repo",
            "baseline_off_cmd": "cd /repo && GOFLAGS=-mod=mod go test -vet=off -count=1 ./...",
            "source_commits": [],
            "add_only": True,
        },
        "engines": [
            {"name": "avfs-mc", "path": "lib/", "serves_properties": [c["property_id"] for c in checks],
             "kind_free_text": "hand-written explicit-state BFS over operation histories on real objects (lib/bfs), stateless DFS over thread interleavings with preemption bounding under a controlled scheduler injected through a sync shim (rt/, lib/sched, lib/concfs), exhaustive input and single-fault enumeration"},
        ],
        "checks": checks,
        "not_applicable": na,
        "notes": "All checks rebuild an overlay of /repo's working tree (VERIF_REPO overrides) on every run. Known findings: known_findings.txt. Design: DESIGN.md.",
    }
    json.dump(m, open(here + "/MANIFEST.json", "w"), indent=1)
    print("checks:", [c["property_id"] for c in checks], "not_applicable:", [x["property_id"] for x in na])

main()
