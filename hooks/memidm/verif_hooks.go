//go:build verif

package memidm

import (
	"fmt"
	"reflect"
	"sort"
)

// VerifDump returns the four maps and the two counters in canonical form.
func (idm *MemIdm) VerifDump() []string {
	var out []string

	for n, g := range idm.groupsByName {
		out = append(out, fmt.Sprintf("gn %s=%s/%d", n, g.name, g.gid))
	}

	for i, g := range idm.groupsById {
		out = append(out, fmt.Sprintf("gi %d=%s/%d", i, g.name, g.gid))
	}

	for n, u := range idm.usersByName {
		out = append(out, fmt.Sprintf("un %s=%s/%d/%d", n, u.name, u.uid, u.gid))
	}

	for i, u := range idm.usersById {
		out = append(out, fmt.Sprintf("ui %d=%s/%d/%d", i, u.name, u.uid, u.gid))
	}

	sort.Strings(out)
	out = append(out, "max "+verifCounter(idm, "maxGid")+" "+verifCounter(idm, "maxUid"))

	return out
}

// verifCounter reads an id counter of the instance by name. An observer must
// not decide how the code under test keeps its books: where the counters live
// is an implementation choice, and a tree that keeps them elsewhere has to be
// judged by what its calls return, not rejected because this file no longer
// compiles (a build failure is a harness error, never a verdict). A counter
// that is not a field of the instance is dumped as "-".
func verifCounter(idm *MemIdm, field string) string {
	f := reflect.ValueOf(idm).Elem().FieldByName(field)
	if !f.IsValid() || !f.CanInt() {
		return "-"
	}

	return fmt.Sprint(f.Int())
}

// VerifCheck checks that the by-name and by-id maps describe the same sets.
func (idm *MemIdm) VerifCheck() []string {
	var bad []string

	for n, g := range idm.groupsByName {
		if g.name != n || idm.groupsById[g.gid] != g {
			bad = append(bad, "group "+n+" missing or different in by-id map")
		}
	}

	for i, g := range idm.groupsById {
		if g.gid != i || idm.groupsByName[g.name] != g {
			bad = append(bad, fmt.Sprintf("gid %d missing or different in by-name map", i))
		}
	}

	for n, u := range idm.usersByName {
		if u.name != n || idm.usersById[u.uid] != u {
			bad = append(bad, "user "+n+" missing or different in by-id map")
		}
	}

	for i, u := range idm.usersById {
		if u.uid != i || idm.usersByName[u.name] != u {
			bad = append(bad, fmt.Sprintf("uid %d missing or different in by-name map", i))
		}
	}

	sort.Strings(bad)

	return bad
}
