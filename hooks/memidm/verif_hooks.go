//go:build verif

package memidm

import (
	"fmt"
	"reflect"
	"sort"
)

// VerifDump returns the four maps and the two counters in canonical form.
func (idm *MemIdm) VerifDump() []string {
	var out []string

	for n, g := range idm.groupsByName {
		out = append(out, fmt.Sprintf("gn %s=%s/%d", n, g.name, g.gid))
	}

	for i, g := range idm.groupsById {
		out = append(out, fmt.Sprintf("gi %d=%s/%d", i, g.name, g.gid))
	}

	for n, u := range idm.usersByName {
		out = append(out, fmt.Sprintf("un %s=%s/%d/%d", n, u.name, u.uid, u.gid))
	}

	for i, u := range idm.usersById {
		out = append(out, fmt.Sprintf("ui %d=%s/%d/%d", i, u.name, u.uid, u.gid))
	}

	sort.Strings(out)
	out = append(out, "max "+verifCounter(idm, "maxGid")+" "+verifCounter(idm, "maxUid"))

	return out
}

// verifCounter reads an id counter of the instance by name. An observer must
// not decide how the code under test keeps its books: where the counters live
// is an implementation choice, and a tree that keeps them elsewhere has to be
// judged by what its calls return, not rejected because this file no longer
// compiles (a build failure is a harness error, never a verdict). A counter
// that is not a field of the instance is dumped as "-".
func verifCounter(idm *MemIdm, field string) string {
	f := reflect.ValueOf(idm).Elem().FieldByName(field)
	if !f.IsValid() || !f.CanInt() {
		return "-"
	}

	return fmt.Sprint(f.Int())
}

// verifAt returns the entry of a by-id map at id and verifKeys its keys, whatever
// integer type the map is keyed by (see verifCounter: the key type is an
// implementation choice; an id that the key type cannot hold is not in the map).
func verifAt(m any, id int) any {
	mv := reflect.ValueOf(m)
	k := reflect.ValueOf(id)

	if !k.CanConvert(mv.Type().Key()) {
		return nil
	}

	kc := k.Convert(mv.Type().Key())
	if kc.CanInt() && kc.Int() != int64(id) || kc.CanUint() && (id < 0 || kc.Uint() != uint64(id)) {
		return nil
	}

	v := mv.MapIndex(kc)
	if !v.IsValid() {
		return nil
	}

	return v.Interface()
}

func verifKeys(m any) []int {
	var out []int

	for _, k := range reflect.ValueOf(m).MapKeys() {
		switch {
		case k.CanInt():
			out = append(out, int(k.Int()))
		case k.CanUint():
			out = append(out, int(k.Uint()))
		}
	}

	sort.Ints(out)

	return out
}

// VerifCheck checks that the by-name and by-id maps describe the same sets.
func (idm *MemIdm) VerifCheck() []string {
	var bad []string

	for n, g := range idm.groupsByName {
		if x, _ := verifAt(idm.groupsById, g.gid).(*MemGroup); g.name != n || x != g {
			bad = append(bad, "group "+n+" missing or different in by-id map")
		}
	}

	for _, i := range verifKeys(idm.groupsById) {
		g, _ := verifAt(idm.groupsById, i).(*MemGroup)
		if g == nil || g.gid != i || idm.groupsByName[g.name] != g {
			bad = append(bad, fmt.Sprintf("gid %d missing or different in by-name map", i))
		}
	}

	for n, u := range idm.usersByName {
		if x, _ := verifAt(idm.usersById, u.uid).(*MemUser); u.name != n || x != u {
			bad = append(bad, "user "+n+" missing or different in by-id map")
		}
	}

	for _, i := range verifKeys(idm.usersById) {
		u, _ := verifAt(idm.usersById, i).(*MemUser)
		if u == nil || u.uid != i || idm.usersByName[u.name] != u {
			bad = append(bad, fmt.Sprintf("uid %d missing or different in by-name map", i))
		}
	}

	sort.Strings(bad)

	return bad
}
