//go:build verif

package orefafs

import (
	"fmt"
	"sort"
	"strings"
)

func (vfs *OrefaFS) verifRootKeys() []string {
	// Root entries are the index keys without a separator after the volume:
	// "" on Linux, "C:" style on Windows.
	var roots []string

	sep := string(vfs.PathSeparator())

	for k := range vfs.nodes {
		if !strings.Contains(k, sep) {
			roots = append(roots, k)
		}
	}

	sort.Strings(roots)

	return roots
}

// VerifCheck compares the path index with the paths reachable through the
// children maps and the stored link counters with the number of directory
// entries (no locks: call it while quiescent).
func (vfs *OrefaFS) VerifCheck() []string {
	var bad []string

	sep := string(vfs.PathSeparator())
	reach := map[string]*node{}
	refs := map[*node][]string{}

	var walk func(path string, nd *node, depth int)

	walk = func(path string, nd *node, depth int) {
		reach[path] = nd
		refs[nd] = append(refs[nd], path)

		if depth > 64 {
			bad = append(bad, "depth > 64 at "+path)

			return
		}

		if !nd.mode.IsDir() {
			if len(nd.children) != 0 {
				bad = append(bad, fmt.Sprintf("file node with children at %q", path))
			}

			return
		}

		if len(refs[nd]) > 1 {
			return
		}

		names := make([]string, 0, len(nd.children))
		for n := range nd.children {
			names = append(names, n)
		}

		sort.Strings(names)

		for _, n := range names {
			c := nd.children[n]
			if c == nil {
				bad = append(bad, fmt.Sprintf("nil child %q in %q", n, path))

				continue
			}

			if n == "" || n == "." || n == ".." || strings.Contains(n, sep) {
				bad = append(bad, fmt.Sprintf("illegal entry name %q in %q", n, path))
			}

			walk(path+sep+n, c, depth+1)
		}
	}

	for _, r := range vfs.verifRootKeys() {
		walk(r, vfs.nodes[r], 0)
	}

	for p, nd := range vfs.nodes {
		r, ok := reach[p]
		if !ok {
			bad = append(bad, fmt.Sprintf("index entry %q not reachable through children maps", p))

			continue
		}

		if r != nd {
			bad = append(bad, fmt.Sprintf("index entry %q refers to a different node than the children maps", p))
		}
	}

	for p := range reach {
		if _, ok := vfs.nodes[p]; !ok {
			bad = append(bad, fmt.Sprintf("path %q reachable through children maps but missing from the index", p))
		}
	}

	for nd, paths := range refs {
		sort.Strings(paths)

		if nd.mode.IsDir() {
			if len(paths) > 1 {
				bad = append(bad, fmt.Sprintf("directory node reachable by several paths %v", paths))
			}

			continue
		}

		if nd.nlink != len(paths) {
			bad = append(bad, fmt.Sprintf("link counter %d != %d directory entries %v", nd.nlink, len(paths), paths))
		}
	}

	sort.Strings(bad)

	return bad
}

// VerifDump returns a canonical dump of the path index (sorted by path,
// without mtimes, hard-link classes instead of ids).
func (vfs *OrefaFS) VerifDump() []string {
	keys := make([]string, 0, len(vfs.nodes))
	for k := range vfs.nodes {
		keys = append(keys, k)
	}

	sort.Strings(keys)

	class := map[*node]string{}
	out := make([]string, 0, len(keys))

	for _, k := range keys {
		nd := vfs.nodes[k]
		if nd == nil {
			out = append(out, k+" ?nil")

			continue
		}

		m := nd.mode&0o7777 | nd.mode&(1<<23|1<<22|1<<20)

		if nd.mode.IsDir() {
			out = append(out, fmt.Sprintf("%s%c d %04o %d:%d", k, vfs.PathSeparator(), m, nd.uid, nd.gid))

			continue
		}

		id, ok := class[nd]
		if !ok {
			id = k
			class[nd] = id
		}

		out = append(out, fmt.Sprintf("%s f %04o %d:%d n%d #%s %q", k, m, nd.uid, nd.gid, nd.nlink, id, nd.data))
	}

	return out
}
