//go:build verif

package memfs

import (
	"fmt"
	"sort"
	"strings"
)

// VerifRoots returns the root nodes (root + volumes) in a stable order.
func (vfs *MemFS) verifRoots() (names []string, roots []*dirNode) {
	if len(vfs.volumes) == 0 {
		return []string{""}, []*dirNode{vfs.rootNode}
	}

	for v := range vfs.volumes {
		names = append(names, v)
	}

	sort.Strings(names)

	for _, v := range names {
		roots = append(roots, vfs.volumes[v])
	}

	return names, roots
}

// VerifCheck walks the node graph directly (no locks: call it while quiescent)
// and returns one line per broken structural invariant.
func (vfs *MemFS) VerifCheck() []string {
	var bad []string

	seenDir := map[*dirNode]string{}
	refs := map[*fileNode][]string{}
	sep := string(vfs.PathSeparator())

	var walk func(path string, dn *dirNode, depth int)

	walk = func(path string, dn *dirNode, depth int) {
		if prev, ok := seenDir[dn]; ok {
			bad = append(bad, fmt.Sprintf("directory node reachable by two paths: %q and %q", prev, path))

			return
		}

		seenDir[dn] = path

		if depth > 64 {
			bad = append(bad, "directory depth > 64 at "+path)

			return
		}

		if !dn.mode.IsDir() {
			bad = append(bad, fmt.Sprintf("dirNode without ModeDir at %q", path))
		}

		names := make([]string, 0, len(dn.children))
		for n := range dn.children {
			names = append(names, n)
		}

		sort.Strings(names)

		for _, n := range names {
			p := path + sep + n

			if n == "" || n == "." || n == ".." || strings.Contains(n, sep) {
				bad = append(bad, fmt.Sprintf("illegal entry name %q in %q", n, path))
			}

			switch c := dn.children[n].(type) {
			case nil:
				bad = append(bad, fmt.Sprintf("nil child at %q", p))
			case *dirNode:
				if c == nil {
					bad = append(bad, fmt.Sprintf("nil dir child at %q", p))

					continue
				}

				walk(p, c, depth+1)
			case *fileNode:
				refs[c] = append(refs[c], p)

				if c.mode.IsDir() || c.mode&0o20000000000 != 0 {
					bad = append(bad, fmt.Sprintf("fileNode with directory mode at %q", p))
				}
			case *symlinkNode:
				if c.link == "" {
					bad = append(bad, fmt.Sprintf("entry %q refers to a deleted symlink node", p))
				}
			}
		}
	}

	vn, roots := vfs.verifRoots()
	for i, r := range roots {
		walk(vn[i], r, 0)
	}

	byID := map[uint64][]string{}

	for fn, paths := range refs {
		sort.Strings(paths)

		if fn.nlink != len(paths) {
			bad = append(bad, fmt.Sprintf("link counter %d != %d directory entries %v", fn.nlink, len(paths), paths))
		}

		// SameFile compares ids: two different nodes with one id are "the same file"
		byID[fn.id] = append(byID[fn.id], paths[0])
	}

	for id, firsts := range byID {
		if len(firsts) > 1 {
			sort.Strings(firsts)
			bad = append(bad, fmt.Sprintf("file id %d is shared by different files %v", id, firsts))
		}
	}

	sort.Strings(bad)

	return bad
}

// VerifDump returns a canonical dump of the node graph: one line per entry,
// sorted, without mtimes and with hard-link classes instead of ids.
func (vfs *MemFS) VerifDump() []string {
	var out []string

	class := map[*fileNode]string{}
	seen := map[*dirNode]bool{}
	sep := string(vfs.PathSeparator())

	var walk func(path string, dn *dirNode, depth int)

	walk = func(path string, dn *dirNode, depth int) {
		out = append(out, fmt.Sprintf("%s d %04o %d:%d", path+sep, dn.mode&0o7777|dn.mode&(1<<23|1<<22|1<<20), dn.uid, dn.gid))

		if seen[dn] || depth > 64 {
			out = append(out, path+sep+" !cycle")

			return
		}

		seen[dn] = true

		names := make([]string, 0, len(dn.children))
		for n := range dn.children {
			names = append(names, n)
		}

		sort.Strings(names)

		for _, n := range names {
			p := path + sep + n

			switch c := dn.children[n].(type) {
			case *dirNode:
				walk(p, c, depth+1)
			case *fileNode:
				id, ok := class[c]
				if !ok {
					id = p
					class[c] = id
				}

				out = append(out, fmt.Sprintf("%s f %04o %d:%d n%d #%s %q", p, c.mode&0o7777|c.mode&(1<<23|1<<22|1<<20), c.uid, c.gid, c.nlink, id, c.data))
			case *symlinkNode:
				out = append(out, fmt.Sprintf("%s l %d:%d -> %q", p, c.uid, c.gid, c.link))
			default:
				out = append(out, p+" ?nil")
			}
		}
	}

	vn, roots := vfs.verifRoots()
	for i, r := range roots {
		walk(vn[i], r, 0)
	}

	return out
}

// VerifRootIs reports whether the view is rooted at the same node as other
// (used to tell views of one tree apart from copies).
func (vfs *MemFS) VerifRootIs(other *MemFS) bool { return vfs.rootNode == other.rootNode }
