// c07: every call returns — no deadlock, hang or panic.
// Sequential part (seq*.go): every method x adversarial argument domain x
// reachable states, on every file-system type. Concurrent part (here): every
// schedule (preemption bound) of the C06 programs plus the lock-order programs;
// a deadlock is decided by the scheduler (no enabled thread), never by a timer.
package main

import (
	"os"
	"time"

	"verif/lib/concfs"
	"verif/lib/fsx"
	"verif/lib/kf"
)

func lockOrderPrograms(fs string) []concfs.Prog {
	one := func(c fsx.Call) []fsx.Call { return []fsx.Call{c} }

	ps := []concfs.Prog{
		// opposite cross-directory renames
		{FS: fs, Threads: [][]fsx.Call{one(fsx.Call{Op: "Rename", A: "/d/x", B: "/f/x"}), one(fsx.Call{Op: "Rename", A: "/f/g", B: "/d/g"})}},
		{FS: fs, Threads: [][]fsx.Call{one(fsx.Call{Op: "Rename", A: "/d/e", B: "/f/e"}), one(fsx.Call{Op: "Rename", A: "/f", B: "/d/e/f"})}},
		// removal of a directory against operations inside it
		{FS: fs, Threads: [][]fsx.Call{one(fsx.Call{Op: "Remove", A: "/d/e"}), one(fsx.Call{Op: "Mkdir", A: "/d/e/y", Perm: 0o755})}},
		{FS: fs, Threads: [][]fsx.Call{one(fsx.Call{Op: "RemoveAll", A: "/d"}), one(fsx.Call{Op: "Rename", A: "/d/e/z", B: "/d/z"})}},
		{FS: fs, Threads: [][]fsx.Call{one(fsx.Call{Op: "RemoveAll", A: "/d"}), one(fsx.Call{Op: "Link", A: "/d/x", B: "/d/e/l"})}},
		// listing against attribute changes of a child
		{FS: fs, Threads: [][]fsx.Call{one(fsx.Call{Op: "ReadDir", A: "/d"}), one(fsx.Call{Op: "Chmod", A: "/d/x", Perm: 0o600})}},
		{FS: fs, Threads: [][]fsx.Call{one(fsx.Call{Op: "ReadDir", A: "/d"}), one(fsx.Call{Op: "Remove", A: "/d/x"})}},
	}

	return ps
}

// compositePrograms run the composite helpers as the single calls they are for
// a caller (C06 decomposes them to judge atomicity; here they only have to
// return): ReadFile sizes its buffer from a Stat and reads until EOF, ReadDir,
// Glob and WalkDir list while the directory changes under them.
func compositePrograms(fs string) []concfs.Prog {
	big := func(flag int) []fsx.Call {
		return []fsx.Call{{Op: "H.Open", A: "/d/x", Flag: flag}, {Op: "H.WriteBig", N: 600}, {Op: "H.Close"}}
	}

	composites := []fsx.Call{
		{Op: "ReadFile", A: "/d/x"}, {Op: "ReadDir", A: "/d"}, {Op: "WriteFile", A: "/d/x", Data: "AB", Perm: 0o644},
		{Op: "Glob", A: "/d/*"}, {Op: "WalkDir", A: "/d"},
	}

	writers := [][]fsx.Call{
		big(os.O_WRONLY | os.O_TRUNC), big(os.O_WRONLY | os.O_APPEND),
		{{Op: "Remove", A: "/d/x"}}, {{Op: "Rename", A: "/d/x", B: "/d/y"}},
		{{Op: "Mkdir", A: "/d/y", Perm: 0o755}}, {{Op: "RemoveAll", A: "/d/e"}},
	}

	var out []concfs.Prog

	for _, c := range composites {
		for _, w := range writers {
			out = append(out, concfs.Prog{FS: fs, Threads: [][]fsx.Call{{c}, w}})
		}
	}

	return out
}

func buildPlan(tier string) concfs.Plan {
	pl := concfs.Plan{ID: "C07", Oracle: concfs.OrReturns, Bound: 2, PerProg: 20 * time.Second}

	for _, fs := range []string{"MemFS", "OrefaFS"} {
		pl.Programs = append(pl.Programs, concfs.Pairs(fs, false, concfs.Templates(fs, false, true))...)
		pl.Programs = append(pl.Programs, lockOrderPrograms(fs)...)
		pl.Programs = append(pl.Programs, concfs.HandlePrograms(fs)...)
		pl.Programs = append(pl.Programs, compositePrograms(fs)...)
	}

	if tier == "thorough" {
		pl.Bound = 3
		pl.PerProg = 60 * time.Second

		for _, fs := range []string{"MemFS", "OrefaFS"} {
			pl.Programs = append(pl.Programs, concfs.Triples(fs, concfs.SingleStep(concfs.Templates(fs, true, true)))...)
		}
	}

	return pl
}

func main() {
	maybeSeqOnly()
	concfs.Main("C07", "model_checking", buildPlan, func(tier string, rep *kf.Reporter) (map[string]any, error) {
		cov, err := runSeq(tier, rep)
		if err != nil {
			return cov, err
		}

		if cov == nil {
			cov = map[string]any{}
		}

		idl := time.Now().Add(60 * time.Second)
		if tier == "thorough" {
			idl = time.Now().Add(300 * time.Second)
		}

		ic := runIdmConc(tier, rep, idl)
		for k, v := range ic {
			cov[k] = v
		}

		for k, v := range runDirProto(tier, rep) {
			cov[k] = v
		}

		if n, _ := ic["idm_conc_programs_timed_out"].(int); n > 0 {
			cov["seq_exhaustive"] = false
		}

		return cov, nil
	})
}
