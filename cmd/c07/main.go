// c07 (temporary main for the sequential part; the concurrent plan is written elsewhere).
package main

import "verif/lib/concfs"

func buildPlanConc(tier string) concfs.Plan {
	return concfs.Plan{ID: "C07", Oracle: concfs.OrReturns, Bound: 1, Programs: concfs.Pairs("MemFS", false, concfs.Templates("MemFS", true, true))[:4]}
}

func main() {
	maybeSeqOnly()
	concfs.Main("C07", "model_checking", buildPlanConc, runSeq)
}
