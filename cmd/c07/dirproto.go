package main

import (
	"fmt"
	"os"
	"strings"

	"github.com/avfs/avfs"
	"github.com/avfs/avfs/verifrt"
	"github.com/avfs/avfs/vfs/memfs"
	"github.com/avfs/avfs/vfs/orefafs"

	"verif/lib/fsx"
	"verif/lib/kf"
)

// runDirProto enumerates the paged-listing protocol of a directory handle: every
// sequence of at most L calls (L = 4 quick, 5 thorough) over ReadDir(n) and
// Readdirnames(n), n in {-1, 0, 1, 2, 5}, interleaved with the creation of a new
// entry and the removal of an existing one in the listed directory, on one handle
// of a directory holding k in {0, 1, 2} entries, MemFS and OrefaFS, each sequence
// on a fresh instance. The two listing calls of a handle share a cursor and keep
// separate caches, the caches go stale when the directory changes: the oracle of
// C07 is that every call returns (no panic, no self-deadlock) and that a batch
// never holds more than n entries. What the batches contain is C02's concern.
func runDirProto(tier string, rep *kf.Reporter) map[string]any {
	verifrt.SetMode(verifrt.ModeSeq)

	type step struct {
		kind string
		n    int
	}

	var alpha []step

	for _, k := range []string{"ReadDir", "Readdirnames"} {
		for _, n := range []int{-1, 0, 1, 2, 5} {
			alpha = append(alpha, step{k, n})
		}
	}

	alpha = append(alpha, step{kind: "Create"}, step{kind: "Remove"})

	str := func(s step) string {
		if s.kind == "Create" || s.kind == "Remove" {
			return s.kind
		}

		return fmt.Sprintf("%s(%d)", s.kind, s.n)
	}

	maxLen := 4
	if tier == "thorough" {
		maxLen = 5
	}

	seqs, calls, outcomes := 0, 0, map[string]int{}

	for _, fsName := range []string{"MemFS", "OrefaFS"} {
		for k := 0; k <= 2; k++ {
			idx := make([]int, maxLen)

			for l := 1; l <= maxLen; l++ {
				for i := range idx[:l] {
					idx[i] = 0
				}

				for {
					// one sequence on a fresh instance
					var v avfs.VFS
					if fsName == "MemFS" {
						v = memfs.NewWithOptions(&memfs.Options{OSType: avfs.OsLinux})
					} else {
						v = orefafs.NewWithOptions(&orefafs.Options{OSType: avfs.OsLinux})
					}

					_ = v.MkdirAll("/d", 0o755)

					var names []string

					for i := 0; i < k; i++ {
						n := fmt.Sprintf("/d/e%d", i)
						_ = v.WriteFile(n, []byte("x"), 0o644)
						names = append(names, n)
					}

					h, err := v.OpenFile("/d", os.O_RDONLY, 0)
					if err != nil {
						panic("c07 dirproto: cannot open the directory: " + err.Error())
					}

					seqs++
					created := 0

					var hist []string

					for _, ai := range idx[:l] {
						s := alpha[ai]
						hist = append(hist, str(s))
						calls++

						var (
							batch int
							cerr  error
						)

						kind, msg := fsx.Guard(func() {
							switch s.kind {
							case "ReadDir":
								es, e := h.ReadDir(s.n)
								batch, cerr = len(es), e
							case "Readdirnames":
								ns, e := h.Readdirnames(s.n)
								batch, cerr = len(ns), e
							case "Create":
								n := fmt.Sprintf("/d/c%d", created)
								created++
								cerr = v.WriteFile(n, []byte("y"), 0o644)
								names = append(names, n)
							case "Remove":
								if len(names) > 0 {
									cerr = v.Remove(names[0])
									names = names[1:]
								}
							}
						})

						_ = cerr

						describe := func() map[string]any {
							return map[string]any{
								"part": "dirproto", "fs": fsName, "initial_entries": k, "history": hist, "outcome": kind, "message": msg,
								"what": "one handle opened on /d; Create adds /d/c<i>, Remove deletes the oldest remaining entry",
							}
						}

						if kind != "" {
							outcomes[s.kind+"/"+kind]++
							rep.Report(kf.Sig{"part": "dirproto", "fs": fsName, "kind": strings.ToLower(kind), "method": s.kind, "msg": concfsStrip(msg)}, describe())

							break // the instance may be poisoned
						}

						outcomes[s.kind+"/returned"]++

						if s.n > 0 && batch > s.n {
							rep.Report(kf.Sig{"part": "dirproto", "fs": fsName, "kind": "batch-too-large", "method": s.kind}, describe())
						}
					}

					fsx.Guard(func() { _ = h.Close() })

					// next sequence of this length
					p := l - 1
					for p >= 0 {
						idx[p]++
						if idx[p] < len(alpha) {
							break
						}

						idx[p] = 0
						p--
					}

					if p < 0 {
						break
					}
				}
			}
		}
	}

	fmt.Printf("C07 dir-protocol: sequences=%d calls=%d max-length=%d\n", seqs, calls, maxLen)

	return map[string]any{
		"dirproto_sequences": seqs, "dirproto_calls": calls, "dirproto_max_length": maxLen, "dirproto_outcomes": outcomes,
		"dirproto_rule": "every sequence of <= max_length calls over {ReadDir(n), Readdirnames(n): n in -1,0,1,2,5; Create; Remove} on one directory handle, 0..2 initial entries, MemFS and OrefaFS, fresh instance per sequence",
	}
}

func concfsStrip(m string) string {
	if i := strings.Index(m, "\n"); i >= 0 {
		m = m[:i]
	}

	// "... @ pkg.(*T).Method(0xc000..., 0x1)": the argument words are addresses
	if i := strings.LastIndex(m, "("); i > strings.Index(m, " @ ") && strings.Contains(m, " @ ") {
		m = m[:i]
	}

	var b strings.Builder

	for _, r := range m {
		if r >= '0' && r <= '9' {
			b.WriteByte('N')
		} else {
			b.WriteRune(r)
		}
	}

	return b.String()
}
