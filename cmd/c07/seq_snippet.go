package main

// Generation of a plain Go test that reproduces a case against the repository
// without any part of the harness.

import (
	"fmt"
	"strings"

	"verif/lib/fsx"
)

const snippetHeader = `package c07replay

// Reproduces a C07 finding with plain "go test" against github.com/avfs/avfs%s.
import (
	"crypto/sha512"
	"errors"
	"io"
	"io/fs"
	"math"
	"os"
	"strings"
	"testing"
	"time"

	"github.com/avfs/avfs"
	"github.com/avfs/avfs/idm/memidm"
	"github.com/avfs/avfs/vfs/basepathfs"
	"github.com/avfs/avfs/vfs/failfs"
	"github.com/avfs/avfs/vfs/memfs"
	"github.com/avfs/avfs/vfs/orefafs"
	"github.com/avfs/avfs/vfs/rofs"
)

var (
	_ = sha512.New
	_ = errors.New
	_ = io.SeekStart
	_ = fs.ModeDir
	_ = math.MinInt64
	_ = os.O_RDONLY
	_ = strings.Repeat
	_ = time.Unix
	_ avfs.VFS
	_ = memidm.New
	_ = basepathfs.New
	_ = failfs.New
	_ = memfs.New
	_ = orefafs.New
	_ = rofs.New
)

func mustStat(v avfs.VFS, p string) fs.FileInfo {
	fi, err := v.Stat(p)
	if err != nil {
		panic(err)
	}

	return fi
}

`

// snippet returns the Go test source reproducing the case, "" when some part
// of it cannot be expressed.
func (u *seqUnit) snippet(args []seqArg, kind, msg string) (src string) {
	k, _ := fsx.Guard(func() {
		defer func() {
			if r := recover(); r != nil {
				if _, ok := r.(notApplicable); ok {
					src = ""

					return
				}

				panic(r)
			}
		}()

		src = u.snippet1(args, kind, msg)
	})

	if k != "" {
		return ""
	}

	return src
}

func (u *seqUnit) snippet1(args []seqArg, kind, msg string) string {
	in := u.T.newInst()

	var body []string

	body = append(body, u.T.GoSetup...)

	if u.T.Kind == "vfs" {
		body = append(body, "_, _, _, _ = vfs, base, idm, usr")
	} else {
		body = append(body, "_, _ = idm, usr")
	}

	var call []string

	switch {
	case u.goCall != nil:
		for _, a := range args {
			if a.Go == "" {
				return ""
			}
		}

		call = u.goCall(args)
	default:
		var gs []string

		for i, a := range args {
			if a.Go == "" {
				if u.Variad && i == len(args)-1 {
					continue
				}

				return ""
			}

			gs = append(gs, a.Go)
		}

		recv := map[string]string{"vfs": "vfs", "idm": "idm", "file": "f"}[u.Sec]
		call = []string{fmt.Sprintf("%s.%s(%s)", recv, u.Method, strings.Join(gs, ", "))}
	}

	needOther := false

	for _, l := range call {
		if strings.Contains(l, "other") {
			needOther = true
		}
	}

	if needOther {
		if strings.Contains(u.T.Name, "MemFS") {
			body = append(body, fmt.Sprintf("other := orefafs.NewWithOptions(&orefafs.Options{OSType: %s})", osGo(u.T.d)))
			body = append(body, goTree(u.T.d, "other", "", false)...)
		} else {
			body = append(body, fmt.Sprintf("other := memfs.NewWithOptions(&memfs.Options{OSType: %s})", osGo(u.T.d)))
			body = append(body, goTree(u.T.d, "other", "", false)...)
		}
	}

	for _, m := range u.St.Muts {
		body = append(body, seqMutators[m].Go(in))
	}

	if u.HK != nil {
		body = append(body, u.HK.Go(in)...)
		body = append(body, u.HM.Go(in)...)
	}

	what := kind + ": " + msg

	switch kind {
	case "DEADLOCK":
		what = "the call never returns (it locks a mutex it already holds): run with -timeout 10s"
	case "HANG":
		what = "the call does not return: run with -timeout 30s"
	case "FATAL":
		what = "the process dies with a fatal runtime error: " + msg
	}

	after := strings.HasPrefix(msg, "after the call returned")
	if after {
		// aftermath oracle: the enumerated call returns, a later ordinary call does not
		what = kind + " " + msg
	}

	body = append(body, "// observed on the checked tree: "+what)
	body = append(body, call...)

	if after {
		body = append(body, u.followUpGo()...)
	}

	tag := ""
	if u.T.d.win {
		tag = " (build with -tags avfs_setostype)"
	}

	var b strings.Builder

	fmt.Fprintf(&b, snippetHeader, tag)
	b.WriteString("func TestC07Replay(t *testing.T) {\n")

	for _, l := range body {
		b.WriteString("\t" + l + "\n")
	}

	b.WriteString("}\n")

	return b.String()
}
