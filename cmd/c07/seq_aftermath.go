package main

// The aftermath oracle of the sequential part (round 10).
//
// General lesson: "every call returns ... after arbitrary histories" is not
// decided by the enumerated call alone. A call can return normally - with the
// right result or the right error - and still leave the object in a state in
// which the NEXT, perfectly ordinary call does not return:
//
//   - a REFUSAL path (permission denied, sticky rule, not empty, bad argument,
//     ...) that returns without releasing a lock it took: the refused call is
//     fine, every later call that needs the lock blocks for ever;
//   - an argument that is accepted although the state it produces is outside
//     what the other methods expect (an offset whose sum with the current one
//     overflows, a size, a count): the accepting call is fine, the next
//     Read/Write indexes a slice with it and panics.
//
// So every enumerated call that returned is followed, on the same instance,
// by a fixed sequence of ordinary calls, all of which must return as well:
// on the handle it was made on (file section), and on every entry of the
// harness tree, through the object under test as the current user and through
// the base file system as the administrator (every section that has a file
// system). The sequence is the same for every case - nothing in it depends on
// which call was enumerated or on how it answered - and a panic or decided
// deadlock in it is a violation of the enumerated case: its message names the
// follow-up call that did not return.

import (
	"fmt"
	"io"
	"reflect"

	"github.com/avfs/avfs"
)

// followUpAssumption is the description of the oracle in the evidence file.
const followUpAssumption = "aftermath oracle: every enumerated call that returned is followed on the same instance by ordinary calls that must all return too: " +
	"on the handle it was made on (file section, open or closed handles; typed nil handles have no state and are left out) " +
	"Seek(0, current), Read(1 byte), ReadAt(1 byte, 0), Write(\"z\") unless the handle's offset is further than 3 bytes beyond the original end (excluded input), Stat, Readdirnames(1), Sync, Close; " +
	"then (every section with a file system) through the object under test as the current user Getwd and - unless the object is its own base and the administrator is the current user - Lstat(/a), ReadDir(/a), " +
	"and as the administrator through the base file system a walk of /a and of the directory the view is rooted at (/b, /d): ReadDir of every directory, Lstat of every other entry, depth <= 4; identity-manager targets: LookupUser(usr), LookupGroup(grp), LookupUserId(0), LookupGroupId(0); a panic or decided deadlock there is reported for the enumerated case (message: \"after the call returned, in <follow-up call>: ...\")"

// probeStep names the follow-up call being made (formatted only when it is
// reported).
type probeStep struct{ op, path string }

func (p *probeStep) set(op, path string) { p.op, p.path = op, path }

func (p *probeStep) String() string {
	if p.path == "" {
		return p.op
	}

	return fmt.Sprintf("%s(%q)", p.op, p.path)
}

// walkAfter makes the ordinary calls of the tree probe on the directory p and
// below: every directory is listed (which takes its lock and visits every
// child), every other entry stat-ed. Errors are results like any other; only
// not returning counts.
func walkAfter(v avfs.VFS, p string, depth int, step *probeStep) {
	step.set("ReadDir", p)

	es, err := v.ReadDir(p)
	if err != nil {
		return
	}

	for _, e := range es {
		c := v.Join(p, e.Name())

		if e.IsDir() {
			if depth < 4 {
				walkAfter(v, c, depth+1, step)
			}

			continue
		}

		step.set("Lstat", c)
		_, _ = v.Lstat(c)
	}
}

// handleAfter makes the ordinary calls of the handle probe.
func handleAfter(f avfs.File, step *probeStep) {
	step.set("f.Seek(0, io.SeekCurrent)", "")
	pos, err := f.Seek(0, io.SeekCurrent)

	step.set("f.Read(1 byte)", "")
	_, _ = f.Read(make([]byte, 1))

	step.set("f.ReadAt(1 byte, 0)", "")
	_, _ = f.ReadAt(make([]byte, 1), 0)

	// a write far beyond the end legitimately needs that much memory (excluded
	// input, see excludedInputs): only where the handle says it stands near the
	// original end
	if err == nil && pos <= fileSize+3 {
		step.set(`f.Write("z")`, "")
		_, _ = f.Write([]byte("z"))
	}

	step.set("f.Stat()", "")
	_, _ = f.Stat()

	step.set("f.Readdirnames(1)", "")
	_, _ = f.Readdirnames(1)

	step.set("f.Sync()", "")
	_ = f.Sync()

	step.set("f.Close()", "")
	_ = f.Close()
}

// followUp runs the aftermath probe of a case of u; step names the call being
// made (read by the caller when the probe does not return).
func (u *seqUnit) followUp(in *seqInst, recv reflect.Value, step *probeStep) {
	if u.Sec == "file" && !u.HK.NilPtr && recv.IsValid() {
		if f, ok := recv.Interface().(avfs.File); ok && f != nil {
			handleAfter(f, step)
		}
	}

	if in.v == nil {
		if in.idm != nil {
			step.set(`idm.LookupUser("usr")`, "")
			_, _ = in.idm.LookupUser("usr")

			step.set(`idm.LookupGroup("grp")`, "")
			_, _ = in.idm.LookupGroup("grp")

			step.set("idm.LookupUserId(0)", "")
			_, _ = in.idm.LookupUserId(0)

			step.set("idm.LookupGroupId(0)", "")
			_, _ = in.idm.LookupGroupId(0)
		}

		return
	}

	d := in.t.d

	step.set("vfs.Getwd()", "")
	_, _ = in.v.Getwd()

	// as the current user through the object under test: the directory itself
	// (the walk below is the same thing when the object is its own base and the
	// administrator is the current user)
	if in.v != in.base || in.v.User() == nil || !in.v.User().IsAdmin() {
		step.set("vfs.Lstat", d.px("/a"))
		_, _ = in.v.Lstat(d.px("/a"))

		step.set("vfs.ReadDir", d.px("/a"))
		_, _ = in.v.ReadDir(d.px("/a"))
	}

	// as the administrator through the base: every node of the harness trees
	step.set("base.SetUser(administrator)", "")
	_ = in.base.SetUser(in.admin)

	walkAfter(in.base, d.px("/a"), 0, step)

	if in.pfx != "" {
		walkAfter(in.base, d.px(in.pfx), 0, step)
	}
}

// followUpGo is the probe as statements of a generated test (seq_snippet.go).
func (u *seqUnit) followUpGo() []string {
	var out []string

	out = append(out, "// ordinary calls after it: all of them must return as well")

	if u.Sec == "file" && !u.HK.NilPtr {
		out = append(out,
			"pos, perr := f.Seek(0, io.SeekCurrent)",
			"_, _ = f.Read(make([]byte, 1))",
			"_, _ = f.ReadAt(make([]byte, 1), 0)",
			fmt.Sprintf("if perr == nil && pos <= %d {\n\t\t_, _ = f.Write([]byte(\"z\"))\n\t}", fileSize+3),
			"_, _ = f.Stat()",
			"_, _ = f.Readdirnames(1)",
			"_ = f.Sync()",
			"_ = f.Close()")
	}

	if u.T.Kind != "vfs" {
		return append(out, `_, _ = idm.LookupUser("usr")`, `_, _ = idm.LookupGroup("grp")`, "_, _ = idm.LookupUserId(0)", "_, _ = idm.LookupGroupId(0)")
	}

	out = append(out,
		"var walk func(v avfs.VFS, p string, depth int)",
		"walk = func(v avfs.VFS, p string, depth int) {\n\t\tes, _ := v.ReadDir(p)\n\t\tfor _, e := range es {\n\t\t\tif !e.IsDir() {\n\t\t\t\t_, _ = v.Lstat(v.Join(p, e.Name()))\n\t\t\t} else if depth < 4 {\n\t\t\t\twalk(v, v.Join(p, e.Name()), depth+1)\n\t\t\t}\n\t\t}\n\t}",
		"_, _ = vfs.Getwd()",
		fmt.Sprintf("_, _ = vfs.Lstat(%q)", u.T.d.px("/a")),
		fmt.Sprintf("_, _ = vfs.ReadDir(%q)", u.T.d.px("/a")),
		"_ = base.SetUser(idm.AdminUser())")

	out = append(out, fmt.Sprintf("walk(base, %q, 0)", u.T.d.px("/a")), "// and of the directory the view is rooted at, if any (/b, /d)")

	return out
}
