package main

// Generic helpers of package avfs (functions over avfs.VFSBase) and the
// PathIterator, called with every file-system target as their vfs argument.

import (
	"fmt"
	"go/ast"
	"go/parser"
	"go/token"
	"hash"
	"io/fs"
	"os"
	"path/filepath"
	"sort"
	"strings"

	"github.com/avfs/avfs"

	"verif/lib/fsx"
)

type seqHelper struct {
	Name  string
	Roles []string
	Fn    func(in *seqInst, a []any) error
	Go    string // format of the call, one %s per role
}

func asStr(a any) string { return a.(string) }

type vfsPair struct{ dst, src avfs.VFS }

var seqHelpers = []seqHelper{
	{"Glob", []string{"glob"}, func(in *seqInst, a []any) error { _, err := avfs.Glob(in.v, asStr(a[0])); return err }, "avfs.Glob(vfs, %s)"},
	{"WalkDir", []string{"path", "walkfn"}, func(in *seqInst, a []any) error {
		return avfs.WalkDir(in.v, asStr(a[0]), a[1].(fs.WalkDirFunc))
	}, "avfs.WalkDir(vfs, %s, %s)"},
	{"ReadDir", []string{"path"}, func(in *seqInst, a []any) error { _, err := avfs.ReadDir(in.v, asStr(a[0])); return err }, "avfs.ReadDir(vfs, %s)"},
	{"ReadFile", []string{"path"}, func(in *seqInst, a []any) error { _, err := avfs.ReadFile(in.v, asStr(a[0])); return err }, "avfs.ReadFile(vfs, %s)"},
	{"WriteFile", []string{"path", "wdata", "perm"}, func(in *seqInst, a []any) error {
		return avfs.WriteFile(in.v, asStr(a[0]), a[1].([]byte), a[2].(fs.FileMode))
	}, "avfs.WriteFile(vfs, %s, %s, %s)"},
	{"Create", []string{"path"}, func(in *seqInst, a []any) error { _, err := avfs.Create(in.v, asStr(a[0])); return err }, "avfs.Create(vfs, %s)"},
	{"CreateTemp", []string{"path", "tmppat"}, func(in *seqInst, a []any) error {
		_, err := avfs.CreateTemp(in.v, asStr(a[0]), asStr(a[1]))

		return err
	}, "avfs.CreateTemp(vfs, %s, %s)"},
	{"MkdirTemp", []string{"path", "tmppat"}, func(in *seqInst, a []any) error {
		_, err := avfs.MkdirTemp(in.v, asStr(a[0]), asStr(a[1]))

		return err
	}, "avfs.MkdirTemp(vfs, %s, %s)"},
	{"CopyFile", []string{"pair", "corepath", "corepath"}, func(in *seqInst, a []any) error {
		p := a[0].(vfsPair)

		return avfs.CopyFile(p.dst, p.src, asStr(a[1]), asStr(a[2]))
	}, "avfs.CopyFile(%s, %s, %s)"},
	{"CopyFileHash", []string{"pair", "corepath", "corepath", "hashnil"}, func(in *seqInst, a []any) error {
		p := a[0].(vfsPair)

		var h hash.Hash
		if a[3] != nil {
			h = a[3].(hash.Hash)
		}

		_, err := avfs.CopyFileHash(p.dst, p.src, asStr(a[1]), asStr(a[2]), h)

		return err
	}, "avfs.CopyFileHash(%s, %s, %s, %s)"},
	{"HashFile", []string{"path", "hash"}, func(in *seqInst, a []any) error {
		_, err := avfs.HashFile(in.v, asStr(a[0]), a[1].(hash.Hash))

		return err
	}, "avfs.HashFile(vfs, %s, %s)"},
	{"FromUnixPath", []string{"unixpath"}, func(in *seqInst, a []any) error { _ = avfs.FromUnixPath(in.v, asStr(a[0])); return nil }, "avfs.FromUnixPath(vfs, %s)"},
	{"SplitAbs", []string{"abspath"}, func(in *seqInst, a []any) error { _, _ = avfs.SplitAbs(in.v, asStr(a[0])); return nil }, "avfs.SplitAbs(vfs, %s)"},
	{"VolumeName", []string{"path"}, func(in *seqInst, a []any) error { _ = avfs.VolumeName(in.v, asStr(a[0])); return nil }, "avfs.VolumeName(vfs, %s)"},
	{"VolumeNameLen", []string{"path"}, func(in *seqInst, a []any) error { _ = avfs.VolumeNameLen(in.v, asStr(a[0])); return nil }, "avfs.VolumeNameLen(vfs, %s)"},
	{"Exists", []string{"path"}, func(in *seqInst, a []any) error { _, err := avfs.Exists(in.v, asStr(a[0])); return err }, "avfs.Exists(vfs, %s)"},
	{"IsDir", []string{"path"}, func(in *seqInst, a []any) error { _, err := avfs.IsDir(in.v, asStr(a[0])); return err }, "avfs.IsDir(vfs, %s)"},
	{"IsEmpty", []string{"path"}, func(in *seqInst, a []any) error { _, err := avfs.IsEmpty(in.v, asStr(a[0])); return err }, "avfs.IsEmpty(vfs, %s)"},
	{"DirExists", []string{"path"}, func(in *seqInst, a []any) error { _, err := avfs.DirExists(in.v, asStr(a[0])); return err }, "avfs.DirExists(vfs, %s)"},
	{"ToOpenMode", []string{"flag"}, func(in *seqInst, a []any) error { _ = avfs.ToOpenMode(a[0].(int)); return nil }, "avfs.ToOpenMode(%s)"},
	{"Abs", []string{"path", "corepath"}, func(in *seqInst, a []any) error { _, err := avfs.Abs(in.v, asStr(a[0]), asStr(a[1])); return err }, "avfs.Abs(vfs, %s, %s)"},
	{"HomeDir", []string{"corepath"}, func(in *seqInst, a []any) error { _ = avfs.HomeDir(in.v, asStr(a[0])); return nil }, "avfs.HomeDir(vfs, %s)"},
	{"HomeDirUser", []string{"corepath", "user"}, func(in *seqInst, a []any) error {
		_ = avfs.HomeDirUser(in.v, asStr(a[0]), a[1].(avfs.UserReader))

		return nil
	}, "avfs.HomeDirUser(vfs, %s, %s)"},
	{"MkHomeDir", []string{"corepath", "user"}, func(in *seqInst, a []any) error {
		_, err := avfs.MkHomeDir(in.v, asStr(a[0]), a[1].(avfs.UserReader))

		return err
	}, "avfs.MkHomeDir(vfs, %s, %s)"},
	{"MkSystemDirs", []string{"dirinfos"}, func(in *seqInst, a []any) error { return avfs.MkSystemDirs(in.v, a[0].([]avfs.DirInfo)) }, "avfs.MkSystemDirs(vfs, %s)"},
	{"SystemDirs", []string{"corepath"}, func(in *seqInst, a []any) error { _ = avfs.SystemDirs(in.v, asStr(a[0])); return nil }, "avfs.SystemDirs(vfs, %s)"},
	{"TempDir", nil, func(in *seqInst, a []any) error { _ = avfs.TempDir(in.v); return nil }, "avfs.TempDir(vfs)"},
	{"TempDirUser", []string{"corepath", "name"}, func(in *seqInst, a []any) error { _ = avfs.TempDirUser(in.v, asStr(a[0]), asStr(a[1])); return nil }, "avfs.TempDirUser(vfs, %s, %s)"},
	{"SetUserByName", []string{"name"}, func(in *seqInst, a []any) error { return avfs.SetUserByName(in.v, asStr(a[0])) }, "avfs.SetUserByName(vfs, %s)"},
	{"Tree", []string{"path"}, func(in *seqInst, a []any) error { _ = avfs.Tree(in.v, asStr(a[0])); return nil }, "avfs.Tree(vfs, %s)"},
}

// Generic functions of package avfs that are reached through the VFS methods
// of MemFS / OrefaFS (which forward to them one to one) and are therefore not
// listed a second time as helpers.
var helpersViaMethods = []string{
	"Base", "Clean", "Dir", "FromSlash", "IsAbs", "IsPathSeparator", "Join", "Match", "Rel", "Split", "ToSlash",
}

// Exported functions of package avfs over a VFSBase that are deliberately not
// enumerated.
var helpersExcluded = map[string]string{
	"NewRndTree":      "random test-data generator",
	"NewPathIterator": "enumerated in the PathIterator section",
}

func (d *seqDom) absPaths(t *seqTarget) []seqArg {
	var out []seqArg

	in := t.newInst()

	for _, a := range d.paths {
		abs := false
		_, _ = fsx.Guard(func() { abs = in.v.IsAbs(a.V.(string)) })

		if abs {
			out = append(out, a)
		}
	}

	return out
}

func (d *seqDom) roleDomain(t *seqTarget, role string) []seqArg {
	switch role {
	case "path":
		return d.paths
	case "unixpath":
		var out []seqArg
		for _, e := range unixPaths {
			a := seqArg{Class: e.Class, Show: e.Show, Go: e.Go, V: e.P}
			if a.Show == "" {
				a.Show = fmt.Sprintf("%q", e.P)
			}

			if a.Go == "" {
				a.Go = fmt.Sprintf("%q", e.P)
			}

			out = append(out, a)
		}

		return out
	case "corepath":
		return d.core
	case "abspath":
		return d.absPaths(t)
	case "glob":
		return d.globPatterns()
	case "tmppat":
		return d.tmpPatterns()
	case "wdata":
		return writeData()
	case "perm":
		return modeDomain()
	case "walkfn":
		return walkFuncs()
	case "hash":
		return hashDomain(false)
	case "hashnil":
		return hashDomain(true)
	case "flag":
		return d.flags()
	case "user":
		return userDomain()
	case "name":
		return d.names()
	case "pair":
		return []seqArg{
			{Class: "same-fs", Show: "dst=vfs,src=vfs", Go: "vfs, vfs", Mk: func(in *seqInst) any { return vfsPair{in.v, in.v} }},
			{Class: "to-other-fs", Show: "dst=other,src=vfs", Go: "other, vfs", Mk: func(in *seqInst) any { return vfsPair{in.getOther(), in.v} }},
			{Class: "from-other-fs", Show: "dst=vfs,src=other", Go: "vfs, other", Mk: func(in *seqInst) any { return vfsPair{in.v, in.getOther()} }},
		}
	case "dirinfos":
		return []seqArg{
			{Class: "nil", Show: "nil", Go: "nil", V: []avfs.DirInfo(nil)},
			{Class: "one-dir", Show: "[{/x 0755}]", Go: fmt.Sprintf("[]avfs.DirInfo{{Path: %q, Perm: 0o755}}", d.px("/x")), V: []avfs.DirInfo{{Path: d.px("/x"), Perm: 0o755}}},
			{Class: "empty-path", Show: `[{"" 0}]`, Go: `[]avfs.DirInfo{{Path: "", Perm: 0}}`, V: []avfs.DirInfo{{Path: "", Perm: 0}}},
			{Class: "below-file", Show: "[{/a/f/x 0777}]", Go: fmt.Sprintf("[]avfs.DirInfo{{Path: %q, Perm: 0o777}}", d.px("/a/f/x")), V: []avfs.DirInfo{{Path: d.px("/a/f/x"), Perm: 0o777}}},
		}
	}

	panic(harnessError{"unknown helper role " + role})
}

func helperUnits(t *seqTarget, st seqState) []*seqUnit {
	var out []*seqUnit

	for _, h := range seqHelpers {
		h := h
		u := &seqUnit{T: t, St: st, Sec: "helper", Type: "helper", FS: t.Name, Method: h.Name}

		for _, r := range h.Roles {
			u.Doms = append(u.Doms, t.d.roleDomain(t, r))
		}

		u.custom = func(in *seqInst, vals []any) string { return foldKind(fsx.ErrKind(h.Fn(in, vals))) }
		u.goCall = func(args []seqArg) []string {
			var gs []any
			for _, a := range args {
				gs = append(gs, a.Go)
			}

			return []string{fmt.Sprintf(h.Go, gs...)}
		}

		u.finish()
		out = append(out, u)
	}

	return out
}

// ---------------------------------------------------------------------------
// PathIterator.

type piAccessor struct {
	Name string
	call func(pi *avfs.PathIterator[avfs.VFS])
}

var piAccessors = []piAccessor{
	{"End", func(pi *avfs.PathIterator[avfs.VFS]) { _ = pi.End() }},
	{"IsLast", func(pi *avfs.PathIterator[avfs.VFS]) { _ = pi.IsLast() }},
	{"Left", func(pi *avfs.PathIterator[avfs.VFS]) { _ = pi.Left() }},
	{"LeftPart", func(pi *avfs.PathIterator[avfs.VFS]) { _ = pi.LeftPart() }},
	{"Part", func(pi *avfs.PathIterator[avfs.VFS]) { _ = pi.Part() }},
	{"Path", func(pi *avfs.PathIterator[avfs.VFS]) { _ = pi.Path() }},
	{"Right", func(pi *avfs.PathIterator[avfs.VFS]) { _ = pi.Right() }},
	{"RightPart", func(pi *avfs.PathIterator[avfs.VFS]) { _ = pi.RightPart() }},
	{"Start", func(pi *avfs.PathIterator[avfs.VFS]) { _ = pi.Start() }},
	{"VolumeName", func(pi *avfs.PathIterator[avfs.VFS]) { _ = pi.VolumeName() }},
	{"VolumeNameLen", func(pi *avfs.PathIterator[avfs.VFS]) { _ = pi.VolumeNameLen() }},
}

// piMethodsCovered lists the exported methods of PathIterator that the units
// below call (checked against the source of the repository).
var piMethodsCovered = []string{
	"End", "IsLast", "Left", "LeftPart", "Next", "Part", "Path", "ReplacePart", "Reset", "Right", "RightPart", "Start",
	"VolumeName", "VolumeNameLen",
}

func stepDomain(from, to int) []seqArg {
	var out []seqArg

	for k := from; k <= to; k++ {
		c := "iterating"
		if k == 0 {
			c = "before-first-next"
		}

		out = append(out, seqArg{Class: c, Show: fmt.Sprintf("after %d Next()", k), Go: fmt.Sprint(k), V: k})
	}

	return out
}

// advance creates the iterator and calls Next k times; ok is false when Next
// returned false on the way (iterator exhausted: excluded protocol state).
func advance(in *seqInst, p string, k int) (pi *avfs.PathIterator[avfs.VFS], ok bool) {
	pi = avfs.NewPathIterator(in.v, p)

	for i := 0; i < k; i++ {
		if !pi.Next() {
			return pi, false
		}
	}

	return pi, true
}

func iterUnits(t *seqTarget, st seqState) []*seqUnit {
	// the iterator depends on the file system only through IsAbs, Join,
	// PathSeparator and the volume name length: states do not matter
	if len(st.Muts) > 0 {
		return nil
	}

	var out []*seqUnit

	abs := t.d.absPaths(t)
	goNew := func(args []seqArg, k string) []string {
		return []string{
			fmt.Sprintf("pi := avfs.NewPathIterator[avfs.VFS](vfs, %s)", args[0].Go),
			fmt.Sprintf("for i := 0; i < %s; i++ { pi.Next() }", k),
		}
	}

	for _, ac := range piAccessors {
		ac := ac
		u := &seqUnit{T: t, St: st, Sec: "iter", Type: "PathIterator", FS: t.Name, Method: ac.Name, Doms: [][]seqArg{abs, stepDomain(0, 5)}}
		u.custom = func(in *seqInst, vals []any) string {
			pi, ok := advance(in, asStr(vals[0]), vals[1].(int))
			if !ok {
				return "n/a"
			}

			ac.call(pi)

			return "ok"
		}
		u.goCall = func(args []seqArg) []string { return append(goNew(args, args[1].Go), "_ = pi."+ac.Name+"()") }
		u.finish()
		out = append(out, u)
	}

	// Next until exhausted (NewPathIterator included)
	u := &seqUnit{T: t, St: st, Sec: "iter", Type: "PathIterator", FS: t.Name, Method: "Next", Doms: [][]seqArg{abs}}
	u.custom = func(in *seqInst, vals []any) string {
		pi := avfs.NewPathIterator(in.v, asStr(vals[0]))
		for pi.Next() {
			_ = pi.Part()
		}

		return "ok"
	}
	u.goCall = func(args []seqArg) []string {
		return []string{fmt.Sprintf("pi := avfs.NewPathIterator[avfs.VFS](vfs, %s)", args[0].Go), "for pi.Next() { _ = pi.Part() }"}
	}
	u.finish()
	out = append(out, u)

	// Reset after k steps, then iterate again
	u = &seqUnit{T: t, St: st, Sec: "iter", Type: "PathIterator", FS: t.Name, Method: "Reset", Doms: [][]seqArg{abs, stepDomain(0, 4)}}
	u.custom = func(in *seqInst, vals []any) string {
		pi, ok := advance(in, asStr(vals[0]), vals[1].(int))
		if !ok {
			return "n/a"
		}

		pi.Reset()

		for pi.Next() {
			_ = pi.Part()
		}

		return "ok"
	}
	u.goCall = func(args []seqArg) []string {
		return append(goNew(args, args[1].Go), "pi.Reset()", "for pi.Next() { _ = pi.Part() }")
	}
	u.finish()
	out = append(out, u)

	// ReplacePart on the k-th part (as the symbolic-link resolution does), then
	// at most 8 further steps reading every part
	u = &seqUnit{T: t, St: st, Sec: "iter", Type: "PathIterator", FS: t.Name, Method: "ReplacePart", Doms: [][]seqArg{abs, stepDomain(1, 4), t.d.paths}}
	u.custom = func(in *seqInst, vals []any) string {
		pi, ok := advance(in, asStr(vals[0]), vals[1].(int))
		if !ok {
			return "n/a"
		}

		_ = pi.ReplacePart(asStr(vals[2]))

		for i := 0; i < 8 && pi.Next(); i++ {
			_, _, _, _ = pi.Part(), pi.Left(), pi.Right(), pi.IsLast()
		}

		return "ok"
	}
	u.goCall = func(args []seqArg) []string {
		return append(goNew(args, args[1].Go), fmt.Sprintf("_ = pi.ReplacePart(%s)", args[2].Go),
			"for i := 0; i < 8 && pi.Next(); i++ { _, _, _, _ = pi.Part(), pi.Left(), pi.Right(), pi.IsLast() }")
	}
	u.finish()
	out = append(out, u)

	return out
}

// ---------------------------------------------------------------------------
// Completeness of the hand-written tables against the source of the repository.

// checkHelperTable parses the non-test Go files of the root package of repo and
// verifies that every exported function whose first parameter is a VFSBase (or
// a type parameter constrained by it) and every exported PathIterator method is
// covered by a table above. A mismatch is a harness error: the tables must be
// extended (a new helper cannot be missed silently).
func checkHelperTable(repo string) (nfuncs int, err error) {
	files, err := filepath.Glob(filepath.Join(repo, "*.go"))
	if err != nil || len(files) == 0 {
		return 0, fmt.Errorf("no Go sources in %q", repo)
	}

	known := map[string]bool{}
	for _, h := range seqHelpers {
		known[h.Name] = true
	}

	for _, n := range helpersViaMethods {
		known[n] = true
	}

	for n := range helpersExcluded {
		known[n] = true
	}

	piKnown := map[string]bool{}
	for _, n := range piMethodsCovered {
		piKnown[n] = true
	}

	var missing []string

	fset := token.NewFileSet()

	for _, fn := range files {
		if strings.HasSuffix(fn, "_test.go") {
			continue
		}

		src, err := os.ReadFile(fn)
		if err != nil {
			return 0, err
		}

		f, err := parser.ParseFile(fset, fn, src, parser.SkipObjectResolution)
		if err != nil {
			return 0, fmt.Errorf("parse %s: %v", fn, err)
		}

		for _, d := range f.Decls {
			fd, ok := d.(*ast.FuncDecl)
			if !ok || !fd.Name.IsExported() {
				continue
			}

			if fd.Recv != nil {
				if len(fd.Recv.List) == 1 && strings.Contains(exprString(fd.Recv.List[0].Type), "PathIterator") {
					nfuncs++

					if !piKnown[fd.Name.Name] {
						missing = append(missing, "PathIterator."+fd.Name.Name)
					}
				}

				continue
			}

			if fd.Type.Params == nil || len(fd.Type.Params.List) == 0 {
				continue
			}

			first := exprString(fd.Type.Params.List[0].Type)
			isVFS := first == "VFSBase" || first == "VFS"

			if fd.Type.TypeParams != nil {
				for _, tp := range fd.Type.TypeParams.List {
					c := exprString(tp.Type)
					for _, n := range tp.Names {
						if n.Name == first && (c == "VFSBase" || c == "VFS") {
							isVFS = true
						}
					}
				}
			}

			if !isVFS {
				continue
			}

			nfuncs++

			if !known[fd.Name.Name] {
				missing = append(missing, fd.Name.Name)
			}
		}
	}

	if len(missing) > 0 {
		sort.Strings(missing)

		return nfuncs, fmt.Errorf("exported avfs helpers not covered by the C07 helper table: %s", strings.Join(missing, ", "))
	}

	return nfuncs, nil
}

func exprString(e ast.Expr) string {
	switch x := e.(type) {
	case *ast.Ident:
		return x.Name
	case *ast.StarExpr:
		return "*" + exprString(x.X)
	case *ast.IndexExpr:
		return exprString(x.X) + "[" + exprString(x.Index) + "]"
	case *ast.SelectorExpr:
		return exprString(x.X) + "." + x.Sel.Name
	}

	return ""
}
