package main

// The enumeration plan of the sequential part: units = (type, pre-state,
// method [, handle kind, handle mutator]) each with the cartesian product of
// its argument domains; cases are numbered globally so that parent and workers
// agree on them.

import (
	"fmt"
	"os"
	"reflect"
	"runtime/debug"
	"sort"
	"strings"

	"github.com/avfs/avfs"
	"github.com/avfs/avfs/verifrt"

	"verif/lib/fsx"
)

var (
	tVFS    = reflect.TypeOf((*avfs.VFS)(nil)).Elem()
	tAFile  = reflect.TypeOf((*avfs.File)(nil)).Elem()
	tIdmMgr = reflect.TypeOf((*avfs.IdentityMgr)(nil)).Elem()
	tVolMgr = reflect.TypeOf((*avfs.VolumeManager)(nil)).Elem()
)

// unit is one enumerated (type, state, method) with its argument domains.
type seqUnit struct {
	T      *seqTarget
	St     seqState
	Sec    string // vfs | idm | file | helper | iter
	Type   string // signature "type"
	FS     string // signature "fs" (helpers, iterators)
	Method string
	HK     *seqHandleKind
	HM     *seqHandleMut
	Doms   [][]seqArg
	PTypes []reflect.Type
	Variad bool
	N      int64
	Base   int64

	// custom executes helper / iterator units (reflect-based units leave it nil);
	// it returns the outcome kind.
	custom func(in *seqInst, vals []any) string
	goCall func(args []seqArg) []string
}

func (u *seqUnit) stateClass() string {
	s := u.St.class()

	if u.HM != nil && u.HM.Name != "none" {
		if s == "initial" {
			return "handle:" + u.HM.Name
		}

		return s + "+handle:" + u.HM.Name
	}

	return s
}

func (u *seqUnit) covKey() string { return u.Type + "." + u.Method }

func (u *seqUnit) seqStateKey() string {
	k := u.Type + "|" + u.T.OS + "|" + u.St.class()
	if u.HK != nil {
		k += "|" + u.HK.Name + "|" + u.HM.Name
	}

	return k
}

// tuple returns the argument tuple number j (last parameter varies fastest).
func (u *seqUnit) tuple(j int64) []seqArg {
	out := make([]seqArg, len(u.Doms))

	for i := len(u.Doms) - 1; i >= 0; i-- {
		n := int64(len(u.Doms[i]))
		out[i] = u.Doms[i][j%n]
		j /= n
	}

	return out
}

func (u *seqUnit) tupleIdx(j int64) []int {
	out := make([]int, len(u.Doms))

	for i := len(u.Doms) - 1; i >= 0; i-- {
		n := int64(len(u.Doms[i]))
		out[i] = int(j % n)
		j /= n
	}

	return out
}

func (u *seqUnit) finish() {
	u.N = 1
	for _, d := range u.Doms {
		u.N *= int64(len(d))
	}
}

// ---------------------------------------------------------------------------
// Handles.

// hkind is a kind of File handle.
type seqHandleKind struct {
	Name   string
	Open   bool // an open handle (handle mutators apply)
	NilPtr bool // typed nil pointer: Name() may panic, as in package os
	mk     func(in *seqInst) avfs.File
	Go     func(in *seqInst) []string
}

// hmut is a handle mutator applied after the handle was obtained.
type seqHandleMut struct {
	Name     string
	Show     string
	Thorough bool
	do       func(in *seqInst, f avfs.File) error
	Go       func(in *seqInst) []string
}

func notAppl(why string) { panic(notApplicable{why}) }

func openOr(in *seqInst, p string, flag int) avfs.File {
	f, err := in.v.OpenFile(p, flag, 0)
	if err != nil {
		notAppl("open failed: " + err.Error())
	}

	return f
}

func openAny(in *seqInst, p string) (avfs.File, string) {
	if f, err := in.v.OpenFile(p, os.O_RDWR, 0); err == nil {
		return f, "os.O_RDWR"
	}

	return openOr(in, p, os.O_RDONLY), "os.O_RDONLY"
}

func goOpen(p, flag string) string {
	return fmt.Sprintf("f, _ := vfs.OpenFile(%q, %s, 0)", p, flag)
}

func handleKinds(d *seqDom) []*seqHandleKind {
	pf, pa, pd := d.px("/a/f"), d.px("/a"), d.px("/a/d")

	anyFlag := func(in *seqInst) string {
		f, fl := openAny(in, pf)
		_ = f.Close()

		return fl
	}

	return []*seqHandleKind{
		{
			Name: "nil-typed", NilPtr: true,
			mk: func(in *seqInst) avfs.File {
				f := openOr(in, pf, os.O_RDONLY)
				t := reflect.TypeOf(f)
				_ = f.Close()

				if t.Kind() != reflect.Ptr {
					notAppl("file type is not a pointer")
				}

				return reflect.Zero(t).Interface().(avfs.File)
			},
			Go: func(in *seqInst) []string {
				f := openOr(in, pf, os.O_RDONLY)
				t := reflect.TypeOf(f).String()

				return []string{fmt.Sprintf("var f avfs.File = (%s)(nil)", t)}
			},
		},
		{
			Name: "closed",
			mk: func(in *seqInst) avfs.File {
				f, _ := openAny(in, pf)
				if err := f.Close(); err != nil {
					notAppl("close failed")
				}

				return f
			},
			Go: func(in *seqInst) []string { return []string{goOpen(pf, anyFlag(in)), "_ = f.Close()"} },
		},
		{
			Name: "open-rdwr", Open: true,
			mk: func(in *seqInst) avfs.File { return openOr(in, pf, os.O_RDWR) },
			Go: func(*seqInst) []string { return []string{goOpen(pf, "os.O_RDWR")} },
		},
		{
			Name: "open-rdonly", Open: true,
			mk: func(in *seqInst) avfs.File { return openOr(in, pf, os.O_RDONLY) },
			Go: func(*seqInst) []string { return []string{goOpen(pf, "os.O_RDONLY")} },
		},
		{
			Name: "open-wronly-append", Open: true,
			mk: func(in *seqInst) avfs.File { return openOr(in, pf, os.O_WRONLY|os.O_APPEND) },
			Go: func(*seqInst) []string { return []string{goOpen(pf, "os.O_WRONLY|os.O_APPEND")} },
		},
		{
			Name: "open-dir", Open: true,
			mk: func(in *seqInst) avfs.File { return openOr(in, pa, os.O_RDONLY) },
			Go: func(*seqInst) []string { return []string{goOpen(pa, "os.O_RDONLY")} },
		},
		{
			Name: "name-removed", Open: true,
			mk: func(in *seqInst) avfs.File {
				f, _ := openAny(in, pf)
				if err := in.base.Remove(in.bp("/a/f")); err != nil {
					notAppl("remove failed")
				}

				return f
			},
			Go: func(in *seqInst) []string {
				return []string{goOpen(pf, anyFlag(in)), fmt.Sprintf("_ = base.Remove(%q)", in.bp("/a/f"))}
			},
		},
		{
			Name: "name-renamed", Open: true,
			mk: func(in *seqInst) avfs.File {
				f, _ := openAny(in, pf)
				if err := in.base.Rename(in.bp("/a/f"), in.bp("/a/g")); err != nil {
					notAppl("rename failed")
				}

				return f
			},
			Go: func(in *seqInst) []string {
				return []string{goOpen(pf, anyFlag(in)), fmt.Sprintf("_ = base.Rename(%q, %q)", in.bp("/a/f"), in.bp("/a/g"))}
			},
		},
		{
			Name: "dir-removed", Open: true,
			mk: func(in *seqInst) avfs.File {
				f := openOr(in, pd, os.O_RDONLY)
				if err := in.base.Remove(in.bp("/a/d")); err != nil {
					notAppl("remove failed")
				}

				return f
			},
			Go: func(in *seqInst) []string {
				return []string{goOpen(pd, "os.O_RDONLY"), fmt.Sprintf("_ = base.Remove(%q)", in.bp("/a/d"))}
			},
		},
	}
}

var handleMutators = []*seqHandleMut{
	{Name: "none", do: func(*seqInst, avfs.File) error { return nil }, Go: func(*seqInst) []string { return nil }},
	{
		Name: "seek-beyond-eof", Show: "f.Seek(size+3, 0)",
		do: func(_ *seqInst, f avfs.File) error { _, err := f.Seek(fileSize+3, 0); return err },
		Go: func(*seqInst) []string { return []string{fmt.Sprintf("_, _ = f.Seek(%d, io.SeekStart)", fileSize+3)} },
	},
	{
		Name: "truncated-under-offset", Show: "f.Seek(0, 2); base.Truncate(/a/f, 0)",
		do: func(in *seqInst, f avfs.File) error {
			if _, err := f.Seek(0, 2); err != nil {
				return err
			}

			return in.base.Truncate(in.bp("/a/f"), 0)
		},
		Go: func(in *seqInst) []string {
			return []string{"_, _ = f.Seek(0, io.SeekEnd)", fmt.Sprintf("_ = base.Truncate(%q, 0)", in.bp("/a/f"))}
		},
	},
	{
		Name: "after-read1", Show: "f.Read(1 byte)", Thorough: true,
		do: func(_ *seqInst, f avfs.File) error { _, err := f.Read(make([]byte, 1)); return err },
		Go: func(*seqInst) []string { return []string{"_, _ = f.Read(make([]byte, 1))"} },
	},
	{
		Name: "after-write2", Show: `f.Write("ab")`, Thorough: true,
		do: func(_ *seqInst, f avfs.File) error { _, err := f.Write([]byte("ab")); return err },
		Go: func(*seqInst) []string { return []string{`_, _ = f.Write([]byte("ab"))`} },
	},
	{
		Name: "after-readdir1", Show: "f.ReadDir(1)", Thorough: true,
		do: func(_ *seqInst, f avfs.File) error { _, err := f.ReadDir(1); return err },
		Go: func(*seqInst) []string { return []string{"_, _ = f.ReadDir(1)"} },
	},
	{
		Name: "nonadmin-after-open", Show: "vfs.SetUser(usr)", Thorough: true,
		do: func(in *seqInst, _ avfs.File) error { return in.v.SetUser(in.usr) },
		Go: func(*seqInst) []string { return []string{"_ = vfs.SetUser(usr)"} },
	},
}

// errHandleKinds discovers the handles that Open, Create, OpenFile and
// CreateTemp of t return together with an error: one kind per distinct
// (constructor, dynamic type, nil / zero / other).
func errHandleKinds(t *seqTarget) []*seqHandleKind {
	type ctor struct {
		name string
		call func(in *seqInst, p string) (avfs.File, error)
		gof  string
	}

	ctors := []ctor{
		{"Open", func(in *seqInst, p string) (avfs.File, error) { return in.v.Open(p) }, "vfs.Open(%s)"},
		{"Create", func(in *seqInst, p string) (avfs.File, error) { return in.v.Create(p) }, "vfs.Create(%s)"},
		{"OpenFile(RDONLY)", func(in *seqInst, p string) (avfs.File, error) { return in.v.OpenFile(p, os.O_RDONLY, 0o644) }, "vfs.OpenFile(%s, os.O_RDONLY, 0o644)"},
		{"OpenFile(RDWR)", func(in *seqInst, p string) (avfs.File, error) { return in.v.OpenFile(p, os.O_RDWR, 0o644) }, "vfs.OpenFile(%s, os.O_RDWR, 0o644)"},
		{"OpenFile(CREATE|EXCL)", func(in *seqInst, p string) (avfs.File, error) {
			return in.v.OpenFile(p, os.O_RDWR|os.O_CREATE|os.O_EXCL, 0o644)
		}, "vfs.OpenFile(%s, os.O_RDWR|os.O_CREATE|os.O_EXCL, 0o644)"},
		{"OpenFile(WRONLY|TRUNC)", func(in *seqInst, p string) (avfs.File, error) {
			return in.v.OpenFile(p, os.O_WRONLY|os.O_TRUNC, 0o644)
		}, "vfs.OpenFile(%s, os.O_WRONLY|os.O_TRUNC, 0o644)"},
		{"CreateTemp", func(in *seqInst, p string) (avfs.File, error) { return in.v.CreateTemp(p, "x") }, `vfs.CreateTemp(%s, "x")`},
	}

	var out []*seqHandleKind

	seen := map[string]bool{}

	callNo := errHandleCalls
	errHandleCalls++

	mkKind := func(c ctor, pa seqArg, shape string, nilp bool) *seqHandleKind {
		p := pa.V.(string)

		return &seqHandleKind{
			Name: fmt.Sprintf("returned-with-error:%s:%s", c.name, shape), NilPtr: nilp,
			mk: func(in *seqInst) avfs.File {
				f, err := c.call(in, p)
				if err == nil || f == nil {
					notAppl("constructor did not fail")
				}

				return f
			},
			Go: func(*seqInst) []string {
				return []string{"f, _ := " + fmt.Sprintf(c.gof, pa.Go) + " // returns an error"}
			},
		}
	}

	if errHandleTableSet {
		// discovered by the watched subprocess (seq_discover.go)
		for _, e := range errHandleTable {
			if e.Call == callNo && e.Ctor < len(ctors) && e.Path < len(t.d.paths) {
				out = append(out, mkKind(ctors[e.Ctor], t.d.paths[e.Path], e.Shape, e.Nil))
			}
		}

		return out
	}

	for ci, c := range ctors {
		for pi, pa := range t.d.paths {
			c, pa := c, pa
			p := pa.V.(string)

			var (
				f   avfs.File
				err error
			)

			dkey := fmt.Sprintf("%d|%d|%d", callNo, ci, pi)
			if discoverSkip[dkey] {
				continue
			}

			discoverNote(dkey, t.Name+"|"+c.name+"|"+fmt.Sprintf(c.gof, pa.Go))

			in := t.newInst()
			if k, _ := fsx.Guard(func() { f, err = c.call(in, p) }); k != "" || err == nil || f == nil {
				continue
			}

			shape, nilp := "nonzero", false
			rv := reflect.ValueOf(f)

			switch {
			case rv.Kind() == reflect.Ptr && rv.IsNil():
				shape, nilp = "nil-typed", true
			case rv.Kind() == reflect.Ptr && rv.Elem().IsZero():
				shape = "zero"
			}

			key := c.name + "|" + rv.Type().String() + "|" + shape
			if seen[key] {
				continue
			}

			seen[key] = true

			discoverFound(errHandleEntry{Call: callNo, Ctor: ci, Path: pi, Shape: shape, Nil: nilp, Type: rv.Type().String()})

			out = append(out, mkKind(c, pa, shape, nilp))
		}
	}

	return out
}

// ---------------------------------------------------------------------------
// Plan.

// seqTier is the tier of the plan built last (case keys are tier-specific).
var seqTier = "quick"

type seqPlan struct {
	Tier    string
	Units   []*seqUnit
	Total   int64
	Targets []*seqTarget
}

func fileTypeName(t *seqTarget) string {
	switch {
	case t.Name == "MemFS.Sub(/d)":
		return t.FileType + "(Sub)"
	case strings.Contains(t.Name, "("):
		return t.FileType + t.Name[strings.Index(t.Name, "("):]
	}

	return t.FileType
}

// methodUnits builds the reflect-driven units of interface it for one
// (target, state).
func methodUnits(t *seqTarget, st seqState, sec, typ string, it reflect.Type, hk *seqHandleKind, hm *seqHandleMut) ([]*seqUnit, error) {
	var out []*seqUnit

	for i := 0; i < it.NumMethod(); i++ {
		m := it.Method(i)
		u := &seqUnit{T: t, St: st, Sec: sec, Type: typ, Method: m.Name, HK: hk, HM: hm, Variad: m.Type.IsVariadic()}

		dsec := sec
		if sec == "vfs" && it == tVolMgr {
			dsec = "vfs"
		}

		npaths := 0

		for p := 0; p < m.Type.NumIn(); p++ {
			if m.Type.In(p) == tString && isPathRole(dsec, m.Name, p) {
				npaths++
			}
		}

		for p := 0; p < m.Type.NumIn(); p++ {
			d, err := t.d.domainFor(dsec, m.Name, p, m.Type.In(p), npaths)
			if err != nil {
				return nil, fmt.Errorf("%s.%s: %v", typ, m.Name, err)
			}

			u.Doms = append(u.Doms, d)
			u.PTypes = append(u.PTypes, m.Type.In(p))
		}

		u.finish()
		out = append(out, u)
	}

	return out, nil
}

// buildPlan enumerates every unit of the tier. Order: pre-states of depth 0
// first, then depth 1, then depth 2, so that a budget cut keeps the widest
// part complete.
func buildSeqPlan(tier string) (pl *seqPlan, err error) {
	defer func() {
		if r := recover(); r != nil {
			if h, ok := r.(harnessError); ok {
				pl, err = nil, h

				return
			}

			panic(r)
		}
	}()

	verifrt.SetSeqRandom(true)
	loadErrHandleTable()

	seqTier = tier
	thorough := tier == "thorough"
	depth := 1

	if thorough {
		depth = 2
	}

	var doms []*seqDom

	doms = append(doms, newDom(false, thorough))
	if avfs.BuildFeatures()&avfs.FeatSetOSType != 0 {
		doms = append(doms, newDom(true, thorough))
	}

	pl = &seqPlan{Tier: tier}

	type tu struct {
		depth int
		us    []*seqUnit
	}

	var groups []tu

	for _, d := range doms {
		for _, t := range seqTargets(d) {
			pl.Targets = append(pl.Targets, t)

			states := t.states(depth, thorough)

			for _, st := range states {
				var us []*seqUnit

				switch t.Kind {
				case "idm":
					mu, err := methodUnits(t, st, "idm", t.Name, tIdmMgr, nil, nil)
					if err != nil {
						return nil, err
					}

					us = append(us, mu...)
				case "vfs":
					mu, err := methodUnits(t, st, "vfs", t.Name, tVFS, nil, nil)
					if err != nil {
						return nil, err
					}

					us = append(us, mu...)

					if _, ok := t.newInst().v.(avfs.VolumeManager); ok {
						mu, err := methodUnits(t, st, "vfs", t.Name, tVolMgr, nil, nil)
						if err != nil {
							return nil, err
						}

						us = append(us, mu...)
					}

					us = append(us, helperUnits(t, st)...)
					us = append(us, iterUnits(t, st)...)
				}

				groups = append(groups, tu{len(st.Muts), us})
			}

			if t.Kind != "vfs" {
				continue
			}

			// File handles: VFS pre-states of depth 0 (quick) / <= 1 (thorough).
			kinds := append(handleKinds(d), errHandleKinds(t)...)

			for _, st := range states {
				if len(st.Muts) > 0 && (!thorough || len(st.Muts) > 1) {
					continue
				}

				var us []*seqUnit

				for _, hk := range kinds {
					for _, hm := range handleMutators {
						if hm.Name != "none" && !hk.Open || hm.Thorough && !thorough {
							continue
						}

						// applicability of (state, kind, mutator) is decided once, here
						in := t.newInst()
						if !st.apply(in) {
							return nil, fmt.Errorf("state %s of %s not reproducible", st.class(), t.Name)
						}

						if _, ok := buildHandle(in, hk, hm); !ok {
							continue
						}

						mu, err := methodUnits(t, st, "file", fileTypeName(t), tAFile, hk, hm)
						if err != nil {
							return nil, err
						}

						us = append(us, mu...)
					}
				}

				groups = append(groups, tu{len(st.Muts), us})
			}
		}
	}

	sort.SliceStable(groups, func(i, j int) bool { return groups[i].depth < groups[j].depth })

	for _, g := range groups {
		for _, u := range g.us {
			u.Base = pl.Total
			pl.Total += u.N
			pl.Units = append(pl.Units, u)
		}
	}

	return pl, nil
}

// buildHandle obtains the handle of kind hk on in and applies hm; ok is false
// when that is not possible in this state (never a verdict: the calls used
// here are themselves enumerated in the vfs section).
func buildHandle(in *seqInst, hk *seqHandleKind, hm *seqHandleMut) (f avfs.File, ok bool) {
	k, _ := fsx.Guard(func() {
		defer func() {
			if r := recover(); r != nil {
				if _, isNA := r.(notApplicable); isNA {
					ok = false

					return
				}

				panic(r)
			}
		}()

		f = hk.mk(in)

		if err := hm.do(in, f); err != nil {
			return
		}

		ok = true
	})

	if k != "" {
		return nil, false
	}

	return f, ok
}

// unitAt returns the unit holding ordinal k.
func (pl *seqPlan) unitAt(k int64) *seqUnit {
	i := sort.Search(len(pl.Units), func(i int) bool { return pl.Units[i].Base+pl.Units[i].N > k })
	if i >= len(pl.Units) {
		return nil
	}

	return pl.Units[i]
}

// ---------------------------------------------------------------------------
// Execution of one case.

type seqCaseRes struct {
	Kind  string // outcome kind: ok / errno / ... / PANIC / DEADLOCK / n/a
	Msg   string
	Where string
	NA    bool
}

// firstAvfsFrame extracts the innermost avfs function (shim excluded) from a
// stack dump.
func firstAvfsFrame(st string) string {
	for _, l := range strings.Split(st, "\n") {
		if !strings.HasPrefix(l, "github.com/avfs/avfs") || strings.HasPrefix(l, "github.com/avfs/avfs/verifrt.") {
			continue
		}

		return frameFunc(l)
	}

	return ""
}

// frameFunc strips the argument list of a stack-trace function line and the
// module prefix.
func frameFunc(l string) string {
	l = strings.TrimSpace(l)

	if strings.HasSuffix(l, ")") {
		depth := 0

		for i := len(l) - 1; i >= 0; i-- {
			switch l[i] {
			case ')':
				depth++
			case '(':
				depth--
			}

			if depth == 0 {
				l = l[:i]

				break
			}
		}
	}

	l = strings.TrimPrefix(l, "github.com/avfs/avfs/")
	l = strings.TrimPrefix(l, "github.com/avfs/avfs.")

	// generic instantiations print as Name[...]: keep as is
	return l
}

// guardCall runs f under fsx.Guard and additionally records the innermost avfs
// frame of a panic or decided deadlock.
func guardCall(f func()) (kind, msg, where string) {
	kind, msg = fsx.Guard(func() {
		defer func() {
			if r := recover(); r != nil {
				where = firstAvfsFrame(string(debug.Stack()))

				panic(r)
			}
		}()

		f()
	})

	if i := strings.Index(msg, " @ "); i >= 0 {
		if where == "" {
			where = frameFunc(msg[i+3:])
		}

		msg = msg[:i]
	}

	return kind, msg, where
}

func foldKind(k string) string {
	for _, p := range []string{"other:", "custom:"} {
		if strings.HasPrefix(k, p) {
			return strings.TrimSuffix(p, ":")
		}
	}

	return k
}

// outcomeOf classifies the results of a reflect call.
func outcomeOf(outs []reflect.Value) string {
	kind := "ok"

	for _, o := range outs {
		if o.Type() == tError {
			if !o.IsNil() {
				kind = foldKind(fsx.ErrKind(o.Interface().(error)))
			}
		}
	}

	return kind
}

// prepare builds the pre-state of a case of u: fresh instance, mutators,
// receiver.
func (u *seqUnit) prepare() (in *seqInst, recv reflect.Value, ok bool) {
	verifrt.SetSeqRandom(true)

	in = u.T.newInst()
	if !u.St.apply(in) {
		panic(harnessError{fmt.Sprintf("state %s of %s not reproducible", u.St.class(), u.T.Name)})
	}

	switch u.Sec {
	case "vfs":
		recv = reflect.ValueOf(in.v)
	case "idm":
		recv = reflect.ValueOf(in.idm)
	case "file":
		f, ok := buildHandle(in, u.HK, u.HM)
		if !ok {
			panic(harnessError{fmt.Sprintf("handle %s/%s of %s not reproducible", u.HK.Name, u.HM.Name, u.T.Name)})
		}

		recv = reflect.ValueOf(f)
	}

	return in, recv, true
}

// runCase executes tuple j of u on a fresh instance.
func (u *seqUnit) runCase(j int64) (res seqCaseRes) {
	in, recv, _ := u.prepare()
	args := u.tuple(j)
	vals := make([]any, len(args))

	// lazy values may be not applicable in this state
	naWhy := ""

	func() {
		defer func() {
			if r := recover(); r != nil {
				if n, ok := r.(notApplicable); ok {
					naWhy = n.why

					return
				}

				panic(r)
			}
		}()

		for i, a := range args {
			vals[i] = a.value(in)
		}
	}()

	if naWhy != "" {
		return seqCaseRes{Kind: "n/a", NA: true, Msg: naWhy}
	}

	kind := ""

	k, msg, where := guardCall(func() {
		seqInject(u.Base + j)

		if u.custom != nil {
			kind = u.custom(in, vals)

			return
		}

		m := recv.MethodByName(u.Method)
		if !m.IsValid() {
			panic(harnessError{"no method " + u.Method + " on " + recv.Type().String()})
		}

		ins := make([]reflect.Value, len(vals))

		for i, v := range vals {
			if v == nil {
				ins[i] = reflect.Zero(u.PTypes[i])
			} else {
				ins[i] = reflect.ValueOf(v)
			}
		}

		var outs []reflect.Value
		if u.Variad {
			outs = m.CallSlice(ins)
		} else {
			outs = m.Call(ins)
		}

		kind = outcomeOf(outs)
	})

	if k != "" {
		if strings.Contains(msg, "c07 seq harness") {
			panic(harnessError{msg})
		}

		if where == "" {
			// no avfs function on the stack: the harness itself (reflection,
			// argument construction) failed - never a verdict about avfs
			panic(harnessError{fmt.Sprintf("%s outside avfs code in case %s: %s", k, u.caseKey(j), msg)})
		}

		return seqCaseRes{Kind: k, Msg: msg, Where: where}
	}

	if kind == "n/a" {
		return seqCaseRes{Kind: kind, NA: true}
	}

	// aftermath oracle (seq_aftermath.go): the call returned; the ordinary calls
	// that follow it on the same instance must return as well
	step := &probeStep{}

	if k, msg, where := guardCall(func() { u.followUp(in, recv, step) }); k != "" {
		if strings.Contains(msg, "c07 seq harness") {
			panic(harnessError{msg})
		}

		if where == "" {
			panic(harnessError{fmt.Sprintf("%s outside avfs code after case %s, in %s: %s", k, u.caseKey(j), step.String(), msg)})
		}

		return seqCaseRes{Kind: k, Msg: "after the call returned (" + kind + "), in " + step.String() + ": " + msg, Where: where}
	}

	return seqCaseRes{Kind: kind}
}

// sanctioned reports the one panic the property allows: File.Name on a nil
// handle (as in package os).
func (u *seqUnit) sanctioned(r seqCaseRes) bool {
	return u.Sec == "file" && u.Method == "Name" && u.HK.NilPtr && r.Kind == "PANIC"
}

func isViolation(kind string) bool { return kind == "PANIC" || kind == "DEADLOCK" }

// signature of a violating case (argument classes and message class given).
func (u *seqUnit) signature(argClasses, kind, msgClass, where string) map[string]string {
	sig := map[string]string{
		"part": "seq", "type": u.Type, "os": u.T.OS, "method": u.Method, "args": argClasses,
		"state": u.stateClass(), "kind": strings.ToLower(kind), "msg": msgClass, "where": where,
	}

	if u.FS != "" {
		sig["fs"] = u.FS
	}

	return sig
}

// replay object of a case.
func (u *seqUnit) replay(j int64, args []seqArg, kind, msg, where string) map[string]any {
	var shown []string
	for _, a := range args {
		shown = append(shown, a.Show)
	}

	r := map[string]any{
		"part": "seq", "type": u.Type, "target": u.T.Name, "os": u.T.OS, "section": u.Sec,
		"state_built_by": u.St.show(), "method": u.Method, "args": shown,
		"outcome": kind, "message": msg, "where": where,
		"case": u.caseKey(j), "tier": seqTier, "binary_has_setostype": avfs.BuildFeatures()&avfs.FeatSetOSType != 0,
	}

	cmd := fmt.Sprintf("./check C07 %s -seqcase '%s'", seqTier, u.caseKey(j))
	if u.T.d.win {
		cmd = "VERIF_TAGS=verif,avfs_setostype " + cmd
	}

	r["replay_cmd"] = cmd + "   # re-executes this single case in-process (no watchdog) and prints its outcome"

	if u.HK != nil {
		r["handle"] = u.HK.Name
		r["handle_mutator"] = u.HM.Name
	}

	if s := u.snippet(args, kind, msg); s != "" {
		r["go_test"] = s
	}

	return r
}

// caseKey identifies a case independently of the global numbering.
func (u *seqUnit) caseKey(j int64) string {
	k := fmt.Sprintf("%s|%s|%s|%s|%s", u.T.OS, u.T.Name, u.Sec, u.St.class(), u.Method)
	if u.HK != nil {
		k += "|" + u.HK.Name + "|" + u.HM.Name
	}

	var idx []string
	for _, i := range u.tupleIdx(j) {
		idx = append(idx, fmt.Sprint(i))
	}

	return k + "|" + strings.Join(idx, ",")
}

// inject is the self-test seam of the watchdog: C07_SEQ_INJECT lists
// "hang@<ordinal>", "stack@<ordinal>", "oom@<ordinal>" entries; the named case
// then spins forever, recurses without end or allocates without end inside the
// guarded call, exactly as a defective library call would. Unset in every
// registered check.
func seqInject(k int64) {
	spec := os.Getenv("C07_SEQ_INJECT")
	if spec == "" {
		return
	}

	for _, e := range strings.Split(spec, ",") {
		var (
			what string
			ord  int64
		)

		if i := strings.IndexByte(e, '@'); i > 0 {
			what = e[:i]
			fmt.Sscan(e[i+1:], &ord)
		}

		if ord != k {
			continue
		}

		switch what {
		case "hang":
			for x := 0; ; x++ {
				injectSink = x
			}
		case "stack":
			injectSink = seqRecurse(1)
		case "oom":
			var keep [][]byte
			for {
				b := make([]byte, 256<<20)
				b[len(b)-1] = 1

				keep = append(keep, b)
				injectSink = len(keep)
			}
		}
	}
}

var injectSink int

//go:noinline
func seqRecurse(n int) int {
	var pad [256]byte

	pad[n%256] = byte(n)

	return seqRecurse(n+1) + int(pad[0])
}
