package main

import (
	"encoding/json"
	"fmt"
	"os"
	"os/exec"
	"strings"
	"syscall"
	"time"
)

// Discovery of the handles that constructors return together with an error
// (errHandleKinds) calls the code under test while the plan is being built. A
// call that never returns there would hang the parent and every worker before
// the watchdog of the workers is in place. Discovery therefore runs once, in a
// watched subprocess (-seqdiscover); what it finds is written to a table that
// every plan builder (parent, workers, restarted workers) reads instead of
// calling the constructors again. A constructor call that hangs or kills the
// discovery process is reported as a violation of C07 and skipped.

type errHandleEntry struct {
	Call  int    `json:"call"` // ordinal of the errHandleKinds call within buildSeqPlan
	Ctor  int    `json:"ctor"`
	Path  int    `json:"path"`
	Shape string `json:"shape"`
	Nil   bool   `json:"nil"`
	Type  string `json:"type"`
}

const errHandleEnv = "C07_SEQ_ERRHANDLES"

var (
	errHandleTable    []errHandleEntry
	errHandleTableSet bool
	errHandleCalls    int

	discoverOut  string // discovery child: output file (progress in <out>.cur)
	discoverSkip = map[string]bool{}
	discovered   []errHandleEntry
)

// loadErrHandleTable is called at the start of buildSeqPlan.
func loadErrHandleTable() {
	errHandleCalls = 0

	if errHandleTableSet || discoverOut != "" {
		return
	}

	f := os.Getenv(errHandleEnv)
	if f == "" {
		return // in-process discovery (single-case replay)
	}

	b, err := os.ReadFile(f)
	if err != nil {
		panic(harnessError{"error-handle table: " + err.Error()})
	}

	if err := json.Unmarshal(b, &errHandleTable); err != nil {
		panic(harnessError{"error-handle table: " + err.Error()})
	}

	errHandleTableSet = true
}

func discoverNote(key, desc string) {
	if discoverOut != "" {
		_ = os.WriteFile(discoverOut+".cur", []byte(key+"\n"+desc), 0o644)
	}
}

func discoverFound(e errHandleEntry) {
	if discoverOut == "" {
		return
	}

	discovered = append(discovered, e)
	b, _ := json.Marshal(discovered)
	_ = os.WriteFile(discoverOut+".tmp", b, 0o644)
	_ = os.Rename(discoverOut+".tmp", discoverOut)
}

// seqDiscoverMain is the discovery child.
func seqDiscoverMain(tier, out, skip string) {
	_ = os.Unsetenv(errHandleEnv)
	discoverOut = out

	for _, k := range strings.Split(skip, ",") {
		if k != "" {
			discoverSkip[k] = true
		}
	}

	_ = os.WriteFile(out, []byte("[]"), 0o644)

	if _, err := buildSeqPlan(tier); err != nil {
		fmt.Fprintln(os.Stderr, "c07 discovery:", err)
		os.Exit(2)
	}

	_ = os.Remove(out + ".cur")
}

type discoverFailure struct {
	Key, Desc, Kind, Stderr string
}

// discoverErrHandles runs the discovery child until it completes, skipping the
// constructor calls that hang or kill it. It returns the table file.
func discoverErrHandles(self, tier, dir string) (file string, fails []discoverFailure, err error) {
	file = dir + "/errhandles.json"

	var skip []string

	const maxAttempts = 12

	for attempt := 0; ; attempt++ {
		_ = os.Remove(file + ".cur")

		args := []string{"-id", "C07", "-tier", tier, "-seqdiscover", file}
		if len(skip) > 0 {
			args = append(args, "-seqdskip", strings.Join(skip, ","))
		}

		cmd := exec.Command(self, args...)
		cmd.Env = append(os.Environ(), "GOMAXPROCS=1", "GOTRACEBACK=all")

		stderr := &cappedBuffer{}
		cmd.Stderr = stderr
		cmd.Stdout = stderr

		if err := cmd.Start(); err != nil {
			return "", fails, err
		}

		done := make(chan error, 1)
		go func() { done <- cmd.Wait() }()

		var (
			werr     error
			hung     bool
			lastCur  string
			lastWall = time.Now()
			lastCPU  time.Duration
		)

		tick := time.NewTicker(200 * time.Millisecond)

	watch:
		for {
			select {
			case werr = <-done:
				break watch
			case <-tick.C:
				b, _ := os.ReadFile(file + ".cur")
				cpu, ok := cpuTime(cmd.Process.Pid)

				if c := string(b); c != lastCur {
					lastCur, lastWall = c, time.Now()
					if ok {
						lastCPU = cpu
					}

					continue
				}

				if (ok && cpu-lastCPU >= hangCPU) || time.Since(lastWall) >= hangWall {
					hung = true

					_ = cmd.Process.Signal(syscall.SIGQUIT)

					select {
					case werr = <-done:
					case <-time.After(5 * time.Second):
						_ = cmd.Process.Kill()
						werr = <-done
					}

					break watch
				}
			}
		}

		tick.Stop()

		if werr == nil && !hung {
			return file, fails, nil
		}

		cur, _ := os.ReadFile(file + ".cur")
		key, desc, _ := strings.Cut(string(cur), "\n")

		if ee, ok := werr.(*exec.ExitError); ok && ee.ExitCode() == 2 && !hung {
			return "", fails, fmt.Errorf("discovery of error handles: %s", stderrTail(stderr.String(), 10))
		}

		if key == "" {
			return "", fails, fmt.Errorf("discovery of error handles died outside a constructor call: %v: %s", werr, stderrTail(stderr.String(), 20))
		}

		kind := "FATAL"
		if hung {
			kind = "HANG"
		}

		fails = append(fails, discoverFailure{Key: key, Desc: desc, Kind: kind, Stderr: stderrTail(stderr.String(), 40)})
		skip = append(skip, key)

		if attempt+1 >= maxAttempts {
			// what was found so far is used; the failures are violations anyway
			if _, e := os.Stat(file); e != nil {
				_ = os.WriteFile(file, []byte("[]"), 0o644)
			}

			return file, fails, nil
		}
	}
}
