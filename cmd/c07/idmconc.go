package main

import (
	"fmt"
	"sort"
	"strings"
	"time"

	"github.com/avfs/avfs/idm/memidm"
	"github.com/avfs/avfs/verifrt"

	"verif/lib/fsx"
	"verif/lib/kf"
	"verif/lib/sched"
)

// idmCall is one MemIdm call of the concurrent identity-manager programs.
type idmCall struct {
	M, A, B string
	ID      int
}

func (c idmCall) String() string {
	switch c.M {
	case "AddUser":
		return fmt.Sprintf("AddUser(%q,%q)", c.A, c.B)
	case "LookupGroupId", "LookupUserId":
		return fmt.Sprintf("%s(%d)", c.M, c.ID)
	}

	return fmt.Sprintf("%s(%q)", c.M, c.A)
}

func (c idmCall) do(idm *memidm.MemIdm) (kind, msg string) {
	var err error

	k, m := fsx.Guard(func() {
		switch c.M {
		case "AddGroup":
			_, err = idm.AddGroup(c.A)
		case "AddUser":
			_, err = idm.AddUser(c.A, c.B)
		case "DelGroup":
			err = idm.DelGroup(c.A)
		case "DelUser":
			err = idm.DelUser(c.A)
		case "LookupGroup":
			_, err = idm.LookupGroup(c.A)
		case "LookupUser":
			_, err = idm.LookupUser(c.A)
		case "LookupGroupId":
			_, err = idm.LookupGroupId(c.ID)
		case "LookupUserId":
			_, err = idm.LookupUserId(c.ID)
		default:
			panic("idmconc: unknown call " + c.M)
		}
	})
	if k != "" {
		return k, m
	}

	if err != nil {
		return "error", err.Error()
	}

	return "ok", ""
}

// runIdmConc is the identity-manager half of C07's concurrent clause: every
// interleaving (lock-acquisition granularity, preemption bound 2; 3 and triples
// for thorough) of every pair of MemIdm calls on colliding names, from the
// empty manager and from one holding g1/u1, on the real MemIdm under the
// controlled scheduler. Oracle: no schedule ends with every live thread waiting
// for a lock, no call panics. (Linearizability of the same programs is C15.)
func runIdmConc(tier string, rep *kf.Reporter, deadline time.Time) map[string]any {
	verifrt.SetMode(verifrt.ModeSched)
	defer verifrt.SetMode(verifrt.ModeSeq)

	setups := [][]idmCall{
		nil,
		{{M: "AddGroup", A: "g1"}, {M: "AddUser", A: "u1", B: "g1"}},
	}

	tm := []idmCall{
		{M: "AddGroup", A: "g1"}, {M: "DelGroup", A: "g1"}, {M: "AddUser", A: "u1", B: "g1"}, {M: "DelUser", A: "u1"},
		{M: "LookupGroup", A: "g1"}, {M: "LookupUser", A: "u1"}, {M: "LookupGroupId", ID: 1001}, {M: "LookupUserId", ID: 1001},
		{M: "AddGroup", A: "g2"}, {M: "AddUser", A: "u2", B: "g1"}, {M: "DelGroup", A: "g2"},
	}

	type prog struct {
		setup   []idmCall
		threads [][]idmCall
	}

	var progs []prog

	for _, su := range setups {
		for i := range tm {
			for j := i; j < len(tm); j++ {
				progs = append(progs, prog{su, [][]idmCall{{tm[i]}, {tm[j]}}})
			}
		}
	}

	bound := 2

	if tier == "thorough" {
		bound = 3

		for _, su := range setups {
			for i := range tm {
				for j := i; j < len(tm); j++ {
					for k := j; k < len(tm); k++ {
						progs = append(progs, prog{su, [][]idmCall{{tm[i]}, {tm[j]}, {tm[k]}}})
					}
				}
			}
		}
	}

	execs, deadlocks, timedOut, multi, minBound := 0, 0, 0, 0, 1<<30

	for _, p := range progs {
		if !deadline.IsZero() && time.Now().After(deadline) {
			timedOut++

			continue
		}

		tmpl := func() string {
			var ts []string

			for _, th := range p.threads {
				var cs []string
				for _, c := range th {
					cs = append(cs, c.String())
				}

				ts = append(ts, strings.Join(cs, ";"))
			}

			sort.Strings(ts)

			s := strings.Join(ts, " || ")
			if len(p.setup) > 0 {
				s = "[g1,u1 exist] " + s
			}

			return s
		}

		distinct := map[string]bool{}

		run := func(prefix []int8) sched.Exec {
			idm := memidm.New()
			for _, c := range p.setup {
				c.do(idm)
			}

			kinds := make([][]string, len(p.threads))
			msgs := make([][]string, len(p.threads))
			bodies := make([]func(), len(p.threads))

			for t := range p.threads {
				t := t
				kinds[t] = make([]string, len(p.threads[t]))
				msgs[t] = make([]string, len(p.threads[t]))

				for i := range kinds[t] {
					kinds[t][i] = "never-returned"
				}

				bodies[t] = func() {
					for i, c := range p.threads[t] {
						verifrt.CallPoint()
						kinds[t][i], msgs[t][i] = c.do(idm)
					}
				}
			}

			r := verifrt.Run(prefix, bodies)
			pts := verifrt.Points()
			execs++

			describe := func() map[string]any {
				var su, calls []string
				for _, c := range p.setup {
					su = append(su, c.String())
				}

				for t := range p.threads {
					for i, c := range p.threads[t] {
						calls = append(calls, fmt.Sprintf("T%d %s -> %s %s", t, c, kinds[t][i], msgs[t][i]))
					}
				}

				return map[string]any{"part": "idm-conc", "setup": su, "calls": calls, "choices": sched.Choices(pts), "schedule": sched.FormatSchedule(pts)}
			}

			var key []string
			for t := range kinds {
				key = append(key, strings.Join(kinds[t], ","))
			}

			distinct[strings.Join(key, "|")] = true

			if r.Deadlock {
				deadlocks++

				var blocked []string

				for t := range p.threads {
					for i, c := range p.threads[t] {
						if kinds[t][i] == "never-returned" {
							blocked = append(blocked, c.String())

							break
						}
					}
				}

				sort.Strings(blocked)
				rep.Report(kf.Sig{"fs": "MemIdm", "prog": tmpl(), "kind": "deadlock", "blocked": strings.Join(blocked, " & ")}, describe())
			}

			for t := range p.threads {
				for i, c := range p.threads[t] {
					if kinds[t][i] == "PANIC" || kinds[t][i] == "DEADLOCK" {
						rep.Report(kf.Sig{"fs": "MemIdm", "prog": tmpl(), "kind": strings.ToLower(kinds[t][i]), "call": c.String(), "msg": msgs[t][i]}, describe())
					}
				}
			}

			return sched.Exec{Res: r, Points: pts}
		}

		st := sched.Explore(run, bound, deadline, 0)

		b := st.BoundCompleted
		if st.Unbounded {
			b = bound
		}

		if b < minBound {
			minBound = b
		}

		if st.TimedOut {
			timedOut++
		}

		if len(distinct) > 1 {
			multi++
		}
	}

	if minBound == 1<<30 {
		minBound = -1
	}

	fmt.Printf("C07 idm-conc: programs=%d schedules=%d deadlocked=%d timed-out=%d min-bound=%d\n", len(progs), execs, deadlocks, timedOut, minBound)

	return map[string]any{
		"idm_conc_programs": len(progs), "idm_conc_schedules": execs, "idm_conc_deadlocked_schedules": deadlocks,
		"idm_conc_programs_timed_out": timedOut, "idm_conc_min_bound_completed": minBound, "idm_conc_preemption_bound": bound,
		"idm_conc_programs_with_schedule_dependent_outcome": multi,
	}
}
