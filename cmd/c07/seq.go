package main

// Sequential part of C07: bounded exhaustive enumeration of every exported
// method (found by reflection over avfs.VFS, avfs.File, avfs.IdentityMgr,
// avfs.VolumeManager) x every argument tuple of a small adversarial domain x
// every pre-state reachable by <= 1 (quick) / <= 2 (thorough) mutators, on every
// file-system type. Oracle: the call returns - no PANIC, no decided DEADLOCK
// (shim in sequential mode), no HANG (worker makes no progress while burning
// CPU), no FATAL runtime error - except File.Name on a nil handle - and so do
// the ordinary calls made after it on the same instance (seq_aftermath.go).
//
// Entry points: runSeq (hook of concfs.Main) and maybeSeqOnly (first statement
// of main: serves the -seqonly, -seqworker and -seqcase modes and exits).
//
// Process structure: runSeq plans (seq_plan.go), then runs <=16 worker
// processes of this binary (-seqworker i/n: cases with ordinal = i mod n) and,
// concurrently, `$VERIF_BIN.ost -seqonly` (the avfs_setostype build, which
// repeats everything for Linux-typed and adds Windows-typed file systems) when
// that file exists. A worker announces every case in <prefix>.cur before
// executing it, appends violating cases to <prefix>.viol and flushes its
// counters to <prefix>.sum; the parent watches CPU time against progress,
// turns a stuck worker into HANG and a dead one into FATAL of the announced
// case, and restarts the worker behind that case.
//
// Useful invocations (through ./check, which builds both binaries):
//
//	./check C07 quick                          whole property (concurrent part + this)
//	./check C07 quick -seqonly                 sequential part of the default build only, JSON on stdout
//	./check C07 quick -seqcase '<case key>'    one case in-process (field "case" of a replay)
//	C07_SEQ_INJECT=hang@1000,stack@2000,oom@3000 ./check C07 quick   watchdog self-test (see seqInject)

import (
	"bufio"
	"encoding/binary"
	"encoding/json"
	"flag"
	"fmt"
	"os"
	"os/exec"
	"path/filepath"
	"reflect"
	"regexp"
	"runtime"
	"runtime/debug"
	"sort"
	"strconv"
	"strings"
	"sync"
	"syscall"
	"time"

	"github.com/avfs/avfs"
	"github.com/avfs/avfs/verifrt"

	"verif/lib/concfs"
	"verif/lib/ev"
	"verif/lib/kf"
)

var (
	seqOnlyFlag   = flag.Bool("seqonly", false, "C07: run only the sequential part and write its result to -seqout (used for the avfs_setostype binary)")
	seqOutFlag    = flag.String("seqout", "", "C07: output file of -seqonly / output prefix of -seqworker")
	seqWorkerFlag = flag.String("seqworker", "", "C07: i/n, sequential worker mode")
	seqFromFlag   = flag.Int64("seqfrom", 0, "C07: first case ordinal of a (re)started worker")
	seqSkipFlag   = flag.String("seqskip", "", "C07: comma separated case ordinals a restarted worker must not execute")
	seqCaseFlag   = flag.String("seqcase", "", "C07: execute the single case with this key (field `case` of a replay) and print its outcome")
	seqDiscFlag   = flag.String("seqdiscover", "", "C07: discovery child: write the error-handle table to this file (seq_discover.go)")
	seqDSkipFlag  = flag.String("seqdskip", "", "C07: comma separated constructor calls the discovery child must not execute")
	seqNWorkers   = flag.Int("seqworkers", 0, "C07: number of sequential workers (default: number of CPUs, at most 16)")
)

const (
	hangCPU       = 20 * time.Second  // CPU time burnt by a worker without finishing its current case
	hangWall      = 300 * time.Second // fallback: wall time without progress
	workerMemLim  = 8 << 30
	maxRestarts   = 64
	harnessExit   = 3
	flushInterval = 300 * time.Millisecond
	replayTries   = 64 // fresh instances a violating case gets to fail identically again
)

// maybeSeqOnly serves the modes of the sequential part that bypass
// concfs.Main. It must be the first statement of main.
func maybeSeqOnly() {
	mode := ""

	for _, a := range os.Args[1:] {
		a = strings.TrimLeft(a, "-")

		for _, m := range []string{"seqonly", "seqworker", "seqcase", "seqdiscover"} {
			if a == m || strings.HasPrefix(a, m+"=") {
				mode = m
			}
		}
	}

	if mode == "" {
		return
	}

	tier := flag.String("tier", "quick", "")
	_ = flag.String("id", "C07", "")
	flag.Parse()

	switch {
	case *seqDiscFlag != "":
		verifrt.SetMode(verifrt.ModeSeq)
		seqDiscoverMain(*tier, *seqDiscFlag, *seqDSkipFlag)
	case *seqWorkerFlag != "":
		seqWorker(*tier)
	case *seqCaseFlag != "":
		seqOneCase(*tier, *seqCaseFlag)
	default:
		res, err := seqParent(*tier, seqDeadline(*tier), false)
		if err != nil {
			fmt.Fprintln(os.Stderr, "c07 seq harness error:", err)
			os.Exit(2)
		}

		b, _ := json.Marshal(res)

		if *seqOutFlag == "" {
			fmt.Println(string(b))
		} else if err := os.WriteFile(*seqOutFlag, b, 0o644); err != nil {
			fmt.Fprintln(os.Stderr, "c07 seq:", err)
			os.Exit(2)
		}
	}

	os.Exit(0)
}

// seqDeadline: what is left of the budget of the run, but never less than a
// quarter of it (the concurrent part ran first).
func seqDeadline(tier string) time.Time {
	budget := 240.0
	if tier == "thorough" {
		budget = 1200
	}

	if b, err := strconv.Atoi(os.Getenv("VERIF_BUDGET_S")); err == nil && b > 0 {
		budget = float64(b)
	}

	if dl, err := strconv.ParseInt(os.Getenv("VERIF_SEQ_DEADLINE_UNIX"), 10, 64); err == nil && dl > 0 {
		return time.Unix(dl, 0)
	}

	left := budget - ev.Elapsed()
	if left < budget/4 {
		left = budget / 4
	}

	return time.Now().Add(time.Duration(left * float64(time.Second)))
}

// ---------------------------------------------------------------------------
// Worker.

type seqViol struct {
	Ord    int64             `json:"ord"`
	Sig    map[string]string `json:"sig"`
	Replay map[string]any    `json:"replay"`
}

type seqSum struct {
	From       int64            `json:"from"`
	UpTo       int64            `json:"upto"` // every own case k with From <= k < UpTo was dealt with
	Done       bool             `json:"done"`
	Stopped    bool             `json:"stopped"` // budget reached
	Calls      int64            `json:"calls"`
	NA         int64            `json:"na"`
	Sanctioned int64            `json:"sanctioned"`
	PerCov     map[string]int64 `json:"per_cov"`
	PerType    map[string]int64 `json:"per_type"`
	Outcomes   map[string]int64 `json:"outcomes"` // type|method|kind
	States     map[string]int64 `json:"states"`
	Samples    []any            `json:"samples"`
	HarnessErr string           `json:"harness_err"`
}

func newSum(from int64) *seqSum {
	return &seqSum{From: from, UpTo: from, PerCov: map[string]int64{}, PerType: map[string]int64{}, Outcomes: map[string]int64{}, States: map[string]int64{}}
}

func (s *seqSum) add(o *seqSum) {
	s.Calls += o.Calls
	s.NA += o.NA
	s.Sanctioned += o.Sanctioned

	for k, v := range o.PerCov {
		s.PerCov[k] += v
	}

	for k, v := range o.PerType {
		s.PerType[k] += v
	}

	for k, v := range o.Outcomes {
		s.Outcomes[k] += v
	}

	for k, v := range o.States {
		s.States[k] += v
	}

	if len(s.Samples) < 8 {
		s.Samples = append(s.Samples, o.Samples...)
	}
}

func typeKey(u *seqUnit) string {
	if u.T.OS == "Windows" {
		return u.Type + "[Windows]"
	}

	return u.Type
}

func writeAtomic(path string, v any) {
	b, _ := json.Marshal(v)
	_ = os.WriteFile(path+".tmp", b, 0o644)
	_ = os.Rename(path+".tmp", path)
}

func seqWorker(tier string) {
	var wi, wn int

	if _, err := fmt.Sscanf(*seqWorkerFlag, "%d/%d", &wi, &wn); err != nil || wn <= 0 {
		fmt.Fprintln(os.Stderr, "HARNESS: bad -seqworker")
		os.Exit(harnessExit)
	}

	out := *seqOutFlag
	sum := newSum(*seqFromFlag)

	harness := func(msg string) {
		sum.HarnessErr = msg
		writeAtomic(out+".sum", sum)
		fmt.Fprintln(os.Stderr, "HARNESS:", msg)
		os.Exit(harnessExit)
	}

	cur, err := os.OpenFile(out+".cur", os.O_RDWR|os.O_CREATE, 0o644)
	if err != nil {
		harness(err.Error())
	}

	var cb [8]byte

	setCur := func(k int64) {
		binary.LittleEndian.PutUint64(cb[:], uint64(k))
		_, _ = cur.WriteAt(cb[:], 0)
	}

	setCur(-1)

	verifrt.SetMode(verifrt.ModeSeq)
	debug.SetMaxStack(64 << 20)

	lim := syscall.Rlimit{Cur: workerMemLim, Max: workerMemLim}
	_ = syscall.Setrlimit(syscall.RLIMIT_AS, &lim)

	skip := map[int64]bool{}

	for _, f := range strings.Split(*seqSkipFlag, ",") {
		if n, err := strconv.ParseInt(f, 10, 64); err == nil {
			skip[n] = true
		}
	}

	pl, err := buildSeqPlan(tier)
	if err != nil {
		harness(err.Error())
	}

	vf, err := os.OpenFile(out+".viol", os.O_WRONLY|os.O_CREATE|os.O_APPEND, 0o644)
	if err != nil {
		harness(err.Error())
	}

	var deadline time.Time
	if dl, err := strconv.ParseInt(os.Getenv("VERIF_SEQ_DEADLINE_UNIX"), 10, 64); err == nil && dl > 0 {
		deadline = time.Unix(dl, 0)
	}

	defer func() {
		if r := recover(); r != nil {
			if h, ok := r.(harnessError); ok {
				harness(h.msg)
			}

			panic(r)
		}
	}()

	lastFlush := time.Now()
	n64 := int64(wn)

units:
	for _, u := range pl.Units {
		if u.Base+u.N <= sum.From {
			continue
		}

		// first tuple of this unit that belongs to this worker
		j := ((int64(wi)-u.Base)%n64 + n64) % n64

		for ; j < u.N; j += n64 {
			k := u.Base + j
			if k < sum.From {
				continue
			}

			now := time.Now()

			if !deadline.IsZero() && now.After(deadline) {
				sum.Stopped = true
				sum.UpTo = k

				break units
			}

			if now.Sub(lastFlush) > flushInterval {
				sum.UpTo = k
				writeAtomic(out+".sum", sum)
				lastFlush = now
			}

			if skip[k] {
				continue
			}

			setCur(k)

			r := u.runCase(j)

			if r.NA {
				sum.NA++

				continue
			}

			sum.Calls++
			tk := typeKey(u)
			sum.PerCov[tk+"."+u.Method]++
			sum.PerType[tk]++
			sum.Outcomes[tk+"|"+u.Method+"|"+r.Kind]++
			sum.States[u.seqStateKey()]++

			if len(sum.Samples) < 2 && j%7 == 3 {
				args := u.tuple(j)
				sum.Samples = append(sum.Samples, map[string]any{"type": u.Type, "os": u.T.OS, "state": u.stateClass(), "call": showCall(u, args), "outcome": r.Kind})
			}

			if !isViolation(r.Kind) {
				continue
			}

			if u.sanctioned(r) {
				sum.Sanctioned++

				continue
			}

			// replay determinism: the same case on a fresh instance must fail
			// identically. The library walks Go maps (RemoveAll over the children
			// of a directory), whose order changes from run to run: which entry a
			// refused RemoveAll stops at - hence what it leaves behind - may
			// differ, so the case is given replayTries fresh instances to show
			// the same failure again before the harness declares itself unreliable.
			same := false

			var r2 seqCaseRes

			for try := 0; try < replayTries && !same; try++ {
				r2 = u.runCase(j)
				same = r2.Kind == r.Kind && concfs.StripDetail(r2.Msg) == concfs.StripDetail(r.Msg)
			}

			if !same {
				harness(fmt.Sprintf("case %s not deterministic: %s %q then %s %q", u.caseKey(j), r.Kind, r.Msg, r2.Kind, r2.Msg))
			}

			b, _ := json.Marshal(seqRawViol{Ord: k, Kind: r.Kind, Msg: r.Msg, Where: r.Where})
			_, _ = vf.Write(append(b, '\n'))
		}
	}

	if !sum.Stopped {
		sum.UpTo = pl.Total
		sum.Done = true
	}

	writeAtomic(out+".sum", sum)
	os.Exit(0)
}

func joinClasses(u *seqUnit, args []seqArg) string {
	var cs []string

	if u.HK != nil {
		cs = append(cs, "h:"+u.HK.Name)
	}

	for _, a := range args {
		cs = append(cs, a.Class)
	}

	return strings.Join(cs, ",")
}

func showCall(u *seqUnit, args []seqArg) string {
	var a []string

	if u.HK != nil {
		a = append(a, "handle="+u.HK.Name)
	}

	for _, x := range args {
		a = append(a, x.Show)
	}

	return u.Method + "(" + strings.Join(a, ", ") + ")"
}

// ---------------------------------------------------------------------------
// Parent.

// seqResult is what one binary contributes (also the -seqonly file format).
type seqResult struct {
	Viols []seqViol      `json:"viols"`
	Cov   map[string]any `json:"cov"`
}

type seqCrash struct {
	Ord    int64
	Kind   string // HANG | FATAL
	Msg    string
	Where  string
	Stderr string
}

func cpuTime(pid int) (time.Duration, bool) {
	b, err := os.ReadFile(fmt.Sprintf("/proc/%d/stat", pid))
	if err != nil {
		return 0, false
	}

	s := string(b)

	i := strings.LastIndexByte(s, ')')
	if i < 0 {
		return 0, false
	}

	f := strings.Fields(s[i+1:])
	if len(f) < 13 {
		return 0, false
	}

	ut, _ := strconv.ParseInt(f[11], 10, 64)
	st, _ := strconv.ParseInt(f[12], 10, 64)

	return time.Duration(ut+st) * (time.Second / 100), true
}

func readCur(path string) int64 {
	b, err := os.ReadFile(path)
	if err != nil || len(b) < 8 {
		return -1
	}

	return int64(binary.LittleEndian.Uint64(b[:8]))
}

var fatalFirstRe = regexp.MustCompile(`(?m)^fatal error: [^\n]*`)

var fatalRe = regexp.MustCompile(`(?m)^(fatal error: [^\n]*|runtime: [^\n]*exceeds[^\n]*|panic: [^\n]*|signal: [^\n]*)`)

func stderrTail(s string, n int) string {
	sc := bufio.NewScanner(strings.NewReader(s))
	sc.Buffer(make([]byte, 1<<20), 1<<20)

	var lines []string
	for sc.Scan() {
		lines = append(lines, sc.Text())
	}

	if len(lines) > n {
		lines = append(lines[:n/2:n/2], append([]string{"..."}, lines[len(lines)-n/2:]...)...)
	}

	return strings.Join(lines, "\n")
}

// cappedBuffer keeps the first 256 KiB written to it.
type cappedBuffer struct {
	mu sync.Mutex
	b  []byte
}

func (c *cappedBuffer) Write(p []byte) (int, error) {
	c.mu.Lock()
	defer c.mu.Unlock()

	if room := 256<<10 - len(c.b); room > 0 {
		if len(p) < room {
			room = len(p)
		}

		c.b = append(c.b, p[:room]...)
	}

	return len(p), nil
}

func (c *cappedBuffer) String() string {
	c.mu.Lock()
	defer c.mu.Unlock()

	return string(c.b)
}

// driveWorker runs worker i of n to completion, restarting it after every hang
// or fatal error.
func driveWorker(self, tier, dir string, i, n int, deadline time.Time) (total *seqSum, crashes []seqCrash, err error) {
	base := filepath.Join(dir, fmt.Sprintf("w%d", i))
	total = newSum(0)
	from := int64(0)

	var skip []string

	unexplained := map[int64]int{}

	for attempt := 0; ; attempt++ {
		_ = os.Remove(base + ".sum")
		_ = os.Remove(base + ".cur")

		args := []string{"-id", "C07", "-tier", tier, "-seqworker", fmt.Sprintf("%d/%d", i, n), "-seqout", base, "-seqfrom", fmt.Sprint(from)}
		if len(skip) > 0 {
			args = append(args, "-seqskip", strings.Join(skip, ","))
		}

		cmd := exec.Command(self, args...)
		cmd.Env = append(os.Environ(), "GOMAXPROCS=1", "GOTRACEBACK=all", "VERIF_SEQ_DEADLINE_UNIX="+strconv.FormatInt(deadline.Unix(), 10))

		stderr := &cappedBuffer{}
		cmd.Stderr = stderr
		cmd.Stdout = stderr

		if err := cmd.Start(); err != nil {
			return total, crashes, err
		}

		done := make(chan error, 1)
		go func() { done <- cmd.Wait() }()

		var (
			werr     error
			hung     bool
			lastCur  = int64(-2)
			lastWall = time.Now()
			lastCPU  time.Duration
		)

		tick := time.NewTicker(200 * time.Millisecond)

	watch:
		for {
			select {
			case werr = <-done:
				break watch
			case <-tick.C:
				c := readCur(base + ".cur")
				cpu, ok := cpuTime(cmd.Process.Pid)

				if c != lastCur {
					lastCur, lastWall = c, time.Now()
					if ok {
						lastCPU = cpu
					}

					continue
				}

				if (ok && cpu-lastCPU >= hangCPU) || time.Since(lastWall) >= hangWall {
					hung = true
					// goroutine dump first, then make sure it is gone
					_ = cmd.Process.Signal(syscall.SIGQUIT)

					select {
					case werr = <-done:
					case <-time.After(5 * time.Second):
						_ = cmd.Process.Kill()
						werr = <-done
					}

					break watch
				}
			}
		}

		tick.Stop()

		var s *seqSum

		if b, e := os.ReadFile(base + ".sum"); e == nil {
			s = &seqSum{}
			if json.Unmarshal(b, s) != nil {
				s = nil
			}
		}

		if s != nil {
			if s.HarnessErr != "" {
				return total, crashes, fmt.Errorf("worker %d: %s", i, s.HarnessErr)
			}

			total.add(s)
			total.UpTo = s.UpTo
			total.Stopped = total.Stopped || s.Stopped
			from = s.UpTo

			if werr == nil && !hung && (s.Done || s.Stopped) {
				total.Done = s.Done

				return total, crashes, nil
			}
		}

		if ee, ok := werr.(*exec.ExitError); ok && ee.ExitCode() == harnessExit {
			return total, crashes, fmt.Errorf("worker %d: %s", i, stderrTail(stderr.String(), 10))
		}

		k := readCur(base + ".cur")
		if k < 0 {
			return total, crashes, fmt.Errorf("worker %d died before its first case: %v\n%s", i, werr, stderrTail(stderr.String(), 30))
		}

		if k < from {
			return total, crashes, fmt.Errorf("worker %d: inconsistent progress files (cur %d < flushed %d)", i, k, from)
		}

		c := seqCrash{Ord: k, Kind: "FATAL", Stderr: stderrTail(stderr.String(), 60)}
		if hung {
			c.Kind = "HANG"
		} else {
			c.Msg = fatalFirstRe.FindString(stderr.String())
			if c.Msg == "" {
				c.Msg = fatalRe.FindString(stderr.String())
			}

			if c.Msg == "" {
				// the worker vanished without a word from the Go runtime (killed
				// from outside, e.g. by the kernel's OOM killer on a crowded
				// machine): that says nothing about the case. Run it again; only
				// a second silent death at the same case is reported.
				unexplained[k]++
				if unexplained[k] < 2 && attempt < maxRestarts {
					continue
				}

				c.Msg = fmt.Sprint("worker exited twice at this case: ", werr)
			}
		}

		// innermost avfs frame of the first goroutine of the dump
		for _, l := range strings.Split(stderr.String(), "\n") {
			if strings.HasPrefix(l, "github.com/avfs/avfs") && !strings.HasPrefix(l, "github.com/avfs/avfs/verifrt.") {
				c.Where = frameFunc(l)

				break
			}
		}

		crashes = append(crashes, c)
		skip = append(skip, fmt.Sprint(k))

		if attempt >= maxRestarts {
			total.Stopped = true

			return total, crashes, nil
		}
	}
}

// seqParent plans, runs the workers of this binary and assembles the result.
// withOst: also run the avfs_setostype binary ($VERIF_BIN.ost) if there is one.
func seqParent(tier string, deadline time.Time, withOst bool) (*seqResult, error) {
	t0 := time.Now()

	verifrt.SetMode(verifrt.ModeSeq)

	repo := os.Getenv("VERIF_REPO")
	if repo == "" {
		repo = "/repo"
	}

	nhelpers, err := checkHelperTable(repo)
	if err != nil {
		return nil, err
	}

	scratch := os.Getenv("VERIF_SCRATCH")
	if scratch == "" {
		scratch = "/dev/shm"
	}

	_ = os.MkdirAll(scratch, 0o755)

	dir, err := os.MkdirTemp(scratch, "c07seq")
	if err != nil {
		return nil, err
	}

	defer os.RemoveAll(dir)

	self, err := os.Executable()
	if err != nil {
		return nil, err
	}

	// the part of plan building that calls the code under test runs in a watched
	// subprocess; this process and the workers read its table (seq_discover.go)
	tabFile, discFails, err := discoverErrHandles(self, tier, dir)
	if err != nil {
		return nil, err
	}

	errHandleTableSet = false
	_ = os.Setenv(errHandleEnv, tabFile)

	pl, err := buildSeqPlan(tier)
	if err != nil {
		return nil, err
	}

	hasOst := avfs.BuildFeatures()&avfs.FeatSetOSType != 0
	ostBin := ""

	if withOst && !hasOst {
		if vb := os.Getenv("VERIF_BIN"); vb != "" {
			if _, err := os.Stat(vb + ".ost"); err == nil {
				ostBin = vb + ".ost"
			}
		}
	}

	n := runtime.NumCPU()
	if n > 16 {
		n = 16
	}

	nOst := 0

	if *seqNWorkers > 0 {
		n = *seqNWorkers
		nOst = n
	} else if ostBin != "" && n > 2 {
		// the ostype binary runs at the same time and has about 1.6 times the
		// work (it repeats the Linux-typed part and adds the Windows-typed one)
		nOst = n - n*3/8
		n = n * 3 / 8
	}

	// the avfs_setostype binary, concurrently
	var (
		ostRes  *seqResult
		ostErr  error
		ostDone = make(chan struct{})
	)

	go func() {
		defer close(ostDone)

		if ostBin == "" {
			return
		}

		of := filepath.Join(dir, "ost.json")
		cmd := exec.Command(ostBin, "-id", "C07", "-tier", tier, "-seqonly", "-seqout", of, "-seqworkers", fmt.Sprint(nOst))
		cmd.Env = append(os.Environ(), "VERIF_SEQ_DEADLINE_UNIX="+strconv.FormatInt(deadline.Unix(), 10))

		var eb strings.Builder

		cmd.Stderr = &eb
		cmd.Stdout = &eb

		if err := cmd.Run(); err != nil {
			ostErr = fmt.Errorf("avfs_setostype binary: %v: %s", err, stderrTail(eb.String(), 20))

			return
		}

		b, err := os.ReadFile(of)
		if err != nil {
			ostErr = err

			return
		}

		ostRes = &seqResult{}
		if err := json.Unmarshal(b, ostRes); err != nil {
			ostErr = err
		}
	}()

	var (
		wg      sync.WaitGroup
		mu      sync.Mutex
		total   = newSum(0)
		crashes []seqCrash
		herr    error
		minStop = pl.Total
		stopped bool
	)

	for i := 0; i < n; i++ {
		wg.Add(1)

		go func(i int) {
			defer wg.Done()

			s, cs, err := driveWorker(self, tier, dir, i, n, deadline)

			mu.Lock()
			defer mu.Unlock()

			if err != nil && herr == nil {
				herr = err
			}

			total.add(s)
			crashes = append(crashes, cs...)

			if s.Stopped || !s.Done {
				stopped = true

				if s.UpTo < minStop {
					minStop = s.UpTo
				}
			}
		}(i)
	}

	wg.Wait()
	<-ostDone

	if herr != nil {
		return nil, herr
	}

	if ostErr != nil {
		return nil, ostErr
	}

	res := &seqResult{}
	seen := map[int64]bool{}

	var raws []seqRawViol

	for i := 0; i < n; i++ {
		f, err := os.Open(filepath.Join(dir, fmt.Sprintf("w%d.viol", i)))
		if err != nil {
			continue
		}

		sc := bufio.NewScanner(f)
		sc.Buffer(make([]byte, 4<<20), 4<<20)

		for sc.Scan() {
			var v seqRawViol
			if json.Unmarshal(sc.Bytes(), &v) != nil || seen[v.Ord] {
				continue
			}

			seen[v.Ord] = true
			raws = append(raws, v)
		}

		f.Close()
	}

	// hangs and fatal errors, described from the plan
	crashErr := map[int64]string{}

	for _, c := range crashes {
		u := pl.unitAt(c.Ord)
		if u == nil {
			return nil, fmt.Errorf("crash at unknown case %d", c.Ord)
		}

		raws = append(raws, seqRawViol{Ord: c.Ord, Kind: c.Kind, Msg: c.Msg, Where: c.Where})
		crashErr[c.Ord] = c.Stderr

		tk := typeKey(u)
		total.Calls++
		total.PerCov[tk+"."+u.Method]++
		total.PerType[tk]++
		total.Outcomes[tk+"|"+u.Method+"|"+c.Kind]++
		total.States[u.seqStateKey()]++
	}

	sort.Slice(raws, func(i, j int) bool { return raws[i].Ord < raws[j].Ord })

	viols, rstats, err := reduceViols(pl, raws)
	if err != nil {
		return nil, err
	}

	for i := range viols {
		if e, ok := crashErr[viols[i].Ord]; ok {
			viols[i].Replay["worker_stderr"] = e
		}
	}

	res.Viols = viols

	for _, f := range discFails {
		parts := strings.SplitN(f.Desc, "|", 3)
		for len(parts) < 3 {
			parts = append(parts, "")
		}

		res.Viols = append(res.Viols, seqViol{
			Ord: -1,
			Sig: map[string]string{"part": "seq", "kind": strings.ToLower(f.Kind), "type": parts[0], "method": parts[1], "where": "constructor call while discovering handles returned with an error"},
			Replay: map[string]any{
				"call": parts[2], "target": parts[0], "outcome": f.Kind,
				"what":          "the constructor call did not return (HANG: no progress while burning CPU) or killed the process (FATAL) on a fresh instance of the target",
				"worker_stderr": f.Stderr,
			},
		})
	}

	// every method of the four interfaces must have been called on every
	// applicable type
	var (
		missing []string
		covered []string
	)

	required := map[string]bool{}
	for _, u := range pl.Units {
		if u.Sec == "vfs" || u.Sec == "idm" || u.Sec == "file" {
			required[typeKey(u)+"."+u.Method] = true
		}
	}

	// applicability is decided by the plan; what the plan must contain is checked here
	for _, t := range pl.Targets {
		need := map[string][]string{}

		tk := func(name string) string {
			if t.OS == "Windows" {
				return name + "[Windows]"
			}

			return name
		}

		switch t.Kind {
		case "idm":
			need[tk(t.Name)] = methodNames(tIdmMgr)
		case "vfs":
			need[tk(t.Name)] = methodNames(tVFS)
			if _, ok := t.newInst().v.(avfs.VolumeManager); ok {
				need[tk(t.Name)] = append(need[tk(t.Name)], methodNames(tVolMgr)...)
			}

			need[tk(fileTypeName(t))] = methodNames(tAFile)
		}

		for typ, ms := range need {
			for _, m := range ms {
				if !required[typ+"."+m] {
					return nil, fmt.Errorf("plan lacks %s.%s", typ, m)
				}
			}
		}
	}

	for k := range required {
		if total.PerCov[k] == 0 {
			missing = append(missing, k)
		}
	}

	for k := range total.PerCov {
		covered = append(covered, k)
	}

	sort.Strings(missing)
	sort.Strings(covered)

	if len(missing) > 0 && !stopped {
		return nil, fmt.Errorf("methods never called: %s", strings.Join(missing, ", "))
	}

	kinds := map[string]int64{}
	for k, v := range total.Outcomes {
		kinds[k[strings.LastIndexByte(k, '|')+1:]] += v
	}

	var full []string

	if stopped {
		// layers (OS type, section, pre-state depth) all of whose cases lie below
		// the lowest stop point of the workers
		complete := map[string]bool{}

		var order []string

		for _, u := range pl.Units {
			k := fmt.Sprintf("%s/%s/pre-states of %d mutators", u.T.OS, u.Sec, len(u.St.Muts))
			if _, ok := complete[k]; !ok {
				complete[k] = true
				order = append(order, k)
			}

			if u.Base+u.N > minStop {
				complete[k] = false
			}
		}

		for _, k := range order {
			if complete[k] {
				full = append(full, k)
			}
		}
	}

	var tnames []string
	for _, t := range pl.Targets {
		tnames = append(tnames, t.OS+":"+t.Name)
	}

	depth := 1
	if tier == "thorough" {
		depth = 2
	}

	cov := map[string]any{
		"states":                       len(total.States),
		"transitions":                  int(total.Calls),
		"seq_calls":                    int(total.Calls),
		"seq_cases_planned":            pl.Total,
		"seq_cases_not_applicable":     total.NA,
		"seq_units":                    len(pl.Units),
		"seq_methods_covered":          covered,
		"seq_methods_missing":          missing,
		"seq_distinct_outcomes":        len(total.Outcomes),
		"seq_outcome_kinds":            kinds,
		"seq_calls_per_type":           total.PerType,
		"seq_types":                    tnames,
		"seq_sanctioned_name_on_nil":   total.Sanctioned,
		"seq_hangs_and_fatal_errors":   len(crashes),
		"seq_violating_cases":          rstats,
		"seq_excluded_inputs":          excludedInputs,
		"seq_exhaustive":               !stopped,
		"seq_mutator_depth":            depth,
		"seq_helper_functions_checked": nhelpers,
		"seq_domain_sizes":             domainSizes(tier),
		"seq_workers":                  n,
		"seq_wall_s":                   time.Since(t0).Seconds(),
		"seq_samples":                  total.Samples,
		"seq_setostype_in_this_binary": hasOst,
		"seq_assumptions": []string{
			"sequential part: one goroutine; the shim mutexes run in sequential mode, so a lock request that can never be granted is decided as DEADLOCK instead of hanging",
			"a call is a HANG when its worker burns 20 s of CPU time (or 300 s of wall time) without finishing it; a worker killed by a fatal runtime error (stack overflow beyond 64 MiB, out of memory beyond 8 GiB of address space) is a FATAL of the case it had announced",
			"every case runs on a fresh instance: constructor, harness tree (dir /a, file /a/f \"xy\", dir /a/d; MemFS: symlink /a/s -> f, loop /a/l -> l; BasePathFS base /b with /b/f), then the mutators of the pre-state",
			"temporary names use the deterministic colliding supplier 0,0,1,1,... of the shim",
			followUpAssumption,
			"pre-state nonadmin-in-foreign-sticky-dir (round 10): /a 0777, /a/d 1777 of the administrator holding /a/d/o of a third user u3 (of the administrator where the identity manager cannot add users), current user usr: refusals met inside a recursive removal (sticky rule) instead of at the first permission test",
			"a violating case is re-executed on fresh instances (at most 64) until it fails identically again: the library iterates over Go maps, so what a refused RemoveAll leaves behind may differ between runs",
			"sizes above 1 MiB are excluded for Truncate/WriteAt (an in-memory file system legitimately needs that memory); 1<<40 and MaxInt64 are used for Seek and ReadAt only",
		},
	}

	if stopped {
		cov["seq_fully_covered_before_budget"] = full
		cov["seq_stopped_at_case"] = minStop
	}

	res.Cov = cov

	if ostRes != nil {
		res.Viols = append(res.Viols, ostRes.Viols...)
		cov["seq_setostype_binary"] = ostRes.Cov

		addInt := func(k string) {
			a, _ := cov[k].(int)
			b, _ := ostRes.Cov[k].(float64)
			cov[k] = a + int(b)
		}

		addInt("states")
		addInt("transitions")
		addInt("seq_calls")
		addInt("seq_distinct_outcomes")

		if ex, _ := ostRes.Cov["seq_exhaustive"].(bool); !ex {
			cov["seq_exhaustive"] = false
		}
	} else if withOst && !hasOst {
		cov["seq_setostype_binary"] = "absent ($VERIF_BIN.ost not found): Windows-typed file systems not covered in this run"
	}

	return res, nil
}

// domainSizes reports the sizes of the main argument domains of the tier.
func domainSizes(tier string) map[string]int {
	d := newDom(false, tier == "thorough")
	w := newDom(true, tier == "thorough")

	return map[string]int{
		"paths": len(d.paths), "paths_core_for_tuples": len(d.core), "paths_windows": len(w.paths), "open_flags": len(d.flags()),
		"file_modes": len(modeDomain()), "uid_gid": len(idDomain(tInt)), "sizes": len(sizeDomain(tInt64)), "offsets": len(offsetDomain(tInt64)),
		"whence": len(whenceDomain(tInt)), "glob_patterns": len(d.globPatterns()), "match_patterns": len(d.matchPatterns()),
		"temp_patterns": len(d.tmpPatterns()), "names": len(d.names()), "volume_names": len(d.volumes()), "join_tuples": len(d.joinElems()),
		"walk_funcs": len(walkFuncs()), "write_buffers": len(writeData()), "read_buffers": len(readBufs()),
		"handle_kinds_fixed": len(handleKinds(d)), "handle_mutators": len(handleMutators), "vfs_mutators": len(seqMutators),
	}
}

func methodNames(it reflect.Type) []string {
	var out []string
	for i := 0; i < it.NumMethod(); i++ {
		out = append(out, it.Method(i).Name)
	}

	return out
}

// runSeq is the hook given to concfs.Main.
func runSeq(tier string, rep *kf.Reporter) (map[string]any, error) {
	res, err := seqParent(tier, seqDeadline(tier), true)
	if err != nil {
		return nil, err
	}

	for _, v := range res.Viols {
		rep.Report(kf.Sig(v.Sig), v.Replay)
	}

	calls, _ := res.Cov["seq_calls"].(int)
	fmt.Printf("C07 seq: calls=%d states=%v distinct-outcomes=%v violating-cases=%d exhaustive=%v wall=%.1fs\n",
		calls, res.Cov["states"], res.Cov["seq_distinct_outcomes"], len(res.Viols), res.Cov["seq_exhaustive"], res.Cov["seq_wall_s"])

	return res.Cov, nil
}

// seqOneCase executes one case in this process (no watchdog) and prints it.
func seqOneCase(tier, key string) {
	verifrt.SetMode(verifrt.ModeSeq)

	pl, err := buildSeqPlan(tier)
	if err != nil {
		fmt.Fprintln(os.Stderr, err)
		os.Exit(2)
	}

	i := strings.LastIndexByte(key, '|')
	if i < 0 {
		fmt.Fprintln(os.Stderr, "bad case key")
		os.Exit(2)
	}

	for _, u := range pl.Units {
		if !strings.HasPrefix(u.caseKey(0), key[:i+1]) || strings.Count(u.caseKey(0), "|") != strings.Count(key, "|") {
			continue
		}

		for j := int64(0); j < u.N; j++ {
			if u.caseKey(j) != key {
				continue
			}

			args := u.tuple(j)
			r := u.runCase(j)
			b, _ := json.MarshalIndent(map[string]any{
				"call": showCall(u, args), "type": u.Type, "state": u.stateClass(), "outcome": r.Kind, "message": r.Msg, "where": r.Where,
				"signature": u.signature(joinClasses(u, args), r.Kind, msgClass(r.Msg, args), r.Where),
			}, "", " ")
			fmt.Println(string(b))

			if s := u.snippet(args, r.Kind, r.Msg); s != "" && os.Getenv("C07_SNIPPET") != "" {
				fmt.Println(s)
			}

			return
		}
	}

	fmt.Fprintln(os.Stderr, "case not found in the plan of tier", tier)
	os.Exit(2)
}
