package main

// Types under test, how a fresh instance is built, and the mutator alphabet
// that produces the pre-states of the enumerated calls.

import (
	"fmt"
	"io/fs"
	"strings"

	"github.com/avfs/avfs"
	"github.com/avfs/avfs/idm/memidm"
	"github.com/avfs/avfs/vfs/basepathfs"
	"github.com/avfs/avfs/vfs/failfs"
	"github.com/avfs/avfs/vfs/memfs"
	"github.com/avfs/avfs/vfs/orefafs"
	"github.com/avfs/avfs/vfs/rofs"

	"verif/lib/fsx"
)

// harnessError is panicked by harness code for conditions that are not
// verdicts (exit 2).
type harnessError struct{ msg string }

func (h harnessError) Error() string { return "c07 seq harness: " + h.msg }

// notApplicable is panicked by a lazy argument value that cannot be produced
// in the current state (e.g. a FileInfo of a file that cannot be stat-ed): the
// case is counted as not applicable, never as a verdict.
type notApplicable struct{ why string }

// inst is one fresh instance of a target.
type seqInst struct {
	t     *seqTarget
	v     avfs.VFS         // object under test (nil for identity-manager targets)
	base  avfs.VFS         // where the tree is mutated (the base of a wrapper)
	pfx   string           // prefix of the view's root inside base ("" | "/b" | "/d"), Unix form
	idm   avfs.IdentityMgr // identity manager under test / of the file system
	admin avfs.UserReader
	usr   avfs.UserReader
	infoF fs.FileInfo // v.Stat(/a/f) taken right after construction
	infoD fs.FileInfo // v.Stat(/a)
	other avfs.VFS    // lazily built file system of a different type
}

// bp maps a path of the view (Unix form) to the path on the base.
func (in *seqInst) bp(p string) string { return in.t.d.px(in.pfx + p) }

func (in *seqInst) getOther() avfs.VFS {
	if in.other != nil {
		return in.other
	}

	os := avfs.OsLinux
	if in.t.d.win {
		os = avfs.OsWindows
	}

	var o avfs.VFS
	if strings.Contains(in.t.Name, "MemFS") {
		o = orefafs.NewWithOptions(&orefafs.Options{OSType: os})
	} else {
		o = memfs.NewWithOptions(&memfs.Options{OSType: os})
	}

	buildTree(o, in.t.d, "", false)
	in.other = o

	return o
}

// target is one type under test.
type seqTarget struct {
	Name    string // "MemFS", "RoFS(MemFS)", ..., "MemIdm"
	OS      string // Linux | Windows
	Kind    string // "vfs" | "idm"
	d       *seqDom
	build   func(t *seqTarget) *seqInst
	GoSetup []string // Go statements producing vfs (and base, idm, usr)
	// FileType is the short name of the File type handed out ("MemFile").
	FileType string
}

// buildTree creates the harness tree below prefix pfx (Unix form) on v.
func buildTree(v avfs.VFS, d *seqDom, pfx string, symlinks bool) {
	must := func(err error, what string) {
		if err != nil {
			panic(harnessError{fmt.Sprintf("tree %s on %s: %v", what, v.Type(), err)})
		}
	}

	if pfx != "" {
		must(v.Mkdir(d.px(pfx), 0o755), "Mkdir "+pfx)
	}

	must(v.Mkdir(d.px(pfx+"/a"), 0o755), "Mkdir /a")
	must(v.WriteFile(d.px(pfx+"/a/f"), []byte("xy"), 0o644), "WriteFile /a/f")
	must(v.Mkdir(d.px(pfx+"/a/d"), 0o755), "Mkdir /a/d")

	if symlinks {
		must(v.Symlink("f", d.px(pfx+"/a/s")), "Symlink s")
		must(v.Symlink("l", d.px(pfx+"/a/l")), "Symlink l")
	}
}

func goTree(d *seqDom, recv, pfx string, symlinks bool) []string {
	var out []string
	if pfx != "" {
		out = append(out, fmt.Sprintf("_ = %s.Mkdir(%q, 0o755)", recv, d.px(pfx)))
	}

	out = append(out,
		fmt.Sprintf("_ = %s.Mkdir(%q, 0o755)", recv, d.px(pfx+"/a")),
		fmt.Sprintf("_ = %s.WriteFile(%q, []byte(\"xy\"), 0o644)", recv, d.px(pfx+"/a/f")),
		fmt.Sprintf("_ = %s.Mkdir(%q, 0o755)", recv, d.px(pfx+"/a/d")))

	if symlinks {
		out = append(out,
			fmt.Sprintf("_ = %s.Symlink(\"f\", %q)", recv, d.px(pfx+"/a/s")),
			fmt.Sprintf("_ = %s.Symlink(\"l\", %q)", recv, d.px(pfx+"/a/l")))
	}

	return out
}

func osType(d *seqDom) avfs.OSType {
	if d.win {
		return avfs.OsWindows
	}

	return avfs.OsLinux
}

func osGo(d *seqDom) string {
	if d.win {
		return "avfs.OsWindows"
	}

	return "avfs.OsLinux"
}

// newMem builds a MemFS with its own MemIdm (group grp, user usr), umask 022
// and the harness tree below each of prefixes. The current directory is left
// as the constructor leaves it.
func newMem(d *seqDom, prefixes ...string) (*memfs.MemFS, *memidm.MemIdm, avfs.UserReader) {
	idm := memidm.NewWithOptions(&memidm.Options{OSType: osType(d)})

	if _, err := idm.AddGroup("grp"); err != nil {
		panic(harnessError{"AddGroup: " + err.Error()})
	}

	usr, err := idm.AddUser("usr", "grp")
	if err != nil {
		panic(harnessError{"AddUser: " + err.Error()})
	}

	m := memfs.NewWithOptions(&memfs.Options{Idm: idm, OSType: osType(d)})
	_ = m.SetUMask(0o022)

	for _, p := range prefixes {
		buildTree(m, d, p, true)
	}

	return m, idm, usr
}

func goMem(d *seqDom, recv string, prefixes ...string) []string {
	out := []string{
		fmt.Sprintf("idm := memidm.NewWithOptions(&memidm.Options{OSType: %s})", osGo(d)),
		`_, _ = idm.AddGroup("grp")`,
		`usr, _ := idm.AddUser("usr", "grp")`,
		fmt.Sprintf("%s := memfs.NewWithOptions(&memfs.Options{Idm: idm, OSType: %s})", recv, osGo(d)),
		fmt.Sprintf("_ = %s.SetUMask(0o022)", recv),
	}

	for _, p := range prefixes {
		out = append(out, goTree(d, recv, p, true)...)
	}

	return out
}

func newOrefa(d *seqDom, prefixes ...string) (*orefafs.OrefaFS, avfs.UserReader) {
	o := orefafs.NewWithOptions(&orefafs.Options{OSType: osType(d)})
	_ = o.SetUMask(0o022)

	for _, p := range prefixes {
		buildTree(o, d, p, false)
	}

	return o, avfs.NewUser("usr", 1001, 1001)
}

func goOrefa(d *seqDom, recv string, prefixes ...string) []string {
	out := []string{
		fmt.Sprintf("%s := orefafs.NewWithOptions(&orefafs.Options{OSType: %s})", recv, osGo(d)),
		fmt.Sprintf("_ = %s.SetUMask(0o022)", recv),
		`usr := avfs.NewUser("usr", 1001, 1001)`,
		fmt.Sprintf("idm := %s.Idm()", recv),
	}

	for _, p := range prefixes {
		out = append(out, goTree(d, recv, p, false)...)
	}

	return out
}

var nilFailFunc = func(avfs.VFSBase, avfs.FnVFS, *failfs.FailParam) error { return nil }

// targets returns the types under test for one OS type.
func seqTargets(d *seqDom) []*seqTarget {
	osn := "Linux"
	if d.win {
		osn = "Windows"
	}

	memInst := func(t *seqTarget, wrap func(m *memfs.MemFS) avfs.VFS, pfx string, prefixes ...string) *seqInst {
		m, idm, usr := newMem(d, prefixes...)
		in := &seqInst{t: t, base: m, idm: idm, admin: idm.AdminUser(), usr: usr, pfx: pfx}
		in.v = wrap(m)

		return in
	}

	oreInst := func(t *seqTarget, wrap func(o *orefafs.OrefaFS) avfs.VFS, pfx string, prefixes ...string) *seqInst {
		o, usr := newOrefa(d, prefixes...)
		in := &seqInst{t: t, base: o, idm: o.Idm(), admin: o.Idm().AdminUser(), usr: usr, pfx: pfx}
		in.v = wrap(o)

		return in
	}

	ts := []*seqTarget{
		{
			Name: "MemFS", Kind: "vfs", FileType: "MemFile",
			build:   func(t *seqTarget) *seqInst { return memInst(t, func(m *memfs.MemFS) avfs.VFS { return m }, "", "") },
			GoSetup: append(goMem(d, "vfs", ""), "base := vfs"),
		},
		{
			Name: "OrefaFS", Kind: "vfs", FileType: "OrefaFile",
			build:   func(t *seqTarget) *seqInst { return oreInst(t, func(o *orefafs.OrefaFS) avfs.VFS { return o }, "", "") },
			GoSetup: append(goOrefa(d, "vfs", ""), "base := vfs"),
		},
	}

	if !d.win {
		ts = append(ts,
			&seqTarget{
				Name: "RoFS(MemFS)", Kind: "vfs", FileType: "RoFile",
				build: func(t *seqTarget) *seqInst {
					return memInst(t, func(m *memfs.MemFS) avfs.VFS { return rofs.New(m) }, "", "")
				},
				GoSetup: append(goMem(d, "base", ""), "vfs := rofs.New(base)"),
			},
			&seqTarget{
				Name: "RoFS(OrefaFS)", Kind: "vfs", FileType: "RoFile",
				build: func(t *seqTarget) *seqInst {
					return oreInst(t, func(o *orefafs.OrefaFS) avfs.VFS { return rofs.New(o) }, "", "")
				},
				GoSetup: append(goOrefa(d, "base", ""), "vfs := rofs.New(base)"),
			},
		)
	}

	bpGo := fmt.Sprintf("_ = base.WriteFile(%q, []byte(\"xy\"), 0o644)", d.px("/b/f"))

	ts = append(ts,
		&seqTarget{
			Name: "BasePathFS(MemFS)", Kind: "vfs", FileType: "BasePathFile",
			build: func(t *seqTarget) *seqInst {
				return memInst(t, func(m *memfs.MemFS) avfs.VFS {
					_ = m.WriteFile(d.px("/b/f"), []byte("xy"), 0o644)

					return basepathfs.New(m, d.px("/b"))
				}, "/b", "", "/b")
			},
			GoSetup: append(goMem(d, "base", "", "/b"), bpGo, fmt.Sprintf("vfs := basepathfs.New(base, %q)", d.px("/b"))),
		},
		&seqTarget{
			Name: "BasePathFS(OrefaFS)", Kind: "vfs", FileType: "BasePathFile",
			build: func(t *seqTarget) *seqInst {
				return oreInst(t, func(o *orefafs.OrefaFS) avfs.VFS {
					_ = o.WriteFile(d.px("/b/f"), []byte("xy"), 0o644)

					return basepathfs.New(o, d.px("/b"))
				}, "/b", "", "/b")
			},
			GoSetup: append(goOrefa(d, "base", "", "/b"), bpGo, fmt.Sprintf("vfs := basepathfs.New(base, %q)", d.px("/b"))),
		},
	)

	if !d.win {
		ts = append(ts,
			&seqTarget{
				Name: "FailFS(MemFS)", Kind: "vfs", FileType: "FailFile",
				build: func(t *seqTarget) *seqInst {
					return memInst(t, func(m *memfs.MemFS) avfs.VFS { return failfs.New(m) }, "", "")
				},
				GoSetup: append(goMem(d, "base", ""), "vfs := failfs.New(base)"),
			},
			&seqTarget{
				Name: "FailFS(MemFS,nilfunc)", Kind: "vfs", FileType: "FailFile",
				build: func(t *seqTarget) *seqInst {
					return memInst(t, func(m *memfs.MemFS) avfs.VFS {
						f := failfs.New(m)
						_ = f.SetFailFunc(nilFailFunc)

						return f
					}, "", "")
				},
				GoSetup: append(goMem(d, "base", ""), "vfs := failfs.New(base)",
					"_ = vfs.SetFailFunc(func(avfs.VFSBase, avfs.FnVFS, *failfs.FailParam) error { return nil })"),
			},
			&seqTarget{
				Name: "FailFS(MemFS,readonly)", Kind: "vfs", FileType: "FailFile",
				build: func(t *seqTarget) *seqInst {
					return memInst(t, func(m *memfs.MemFS) avfs.VFS {
						f := failfs.New(m)
						_ = f.SetFailFunc(failfs.ReadOnlyFunc)

						return f
					}, "", "")
				},
				GoSetup: append(goMem(d, "base", ""), "vfs := failfs.New(base)", "_ = vfs.SetFailFunc(failfs.ReadOnlyFunc)"),
			},
			// wrappers on wrappers: what one wrapper hands to the other (error values
			// with their paths, handles, FileInfo values) is not what a file system
			// of the tree would hand to it
			&seqTarget{
				Name: "BasePathFS(RoFS(MemFS))", Kind: "vfs", FileType: "BasePathFile",
				build: func(t *seqTarget) *seqInst {
					return memInst(t, func(m *memfs.MemFS) avfs.VFS {
						_ = m.WriteFile(d.px("/b/f"), []byte("xy"), 0o644)

						return basepathfs.New(rofs.New(m), d.px("/b"))
					}, "/b", "", "/b")
				},
				GoSetup: append(goMem(d, "base", "", "/b"), bpGo, fmt.Sprintf("vfs := basepathfs.New(rofs.New(base), %q)", d.px("/b"))),
			},
			&seqTarget{
				Name: "RoFS(BasePathFS(MemFS))", Kind: "vfs", FileType: "RoFile",
				build: func(t *seqTarget) *seqInst {
					return memInst(t, func(m *memfs.MemFS) avfs.VFS {
						_ = m.WriteFile(d.px("/b/f"), []byte("xy"), 0o644)

						return rofs.New(basepathfs.New(m, d.px("/b")))
					}, "/b", "", "/b")
				},
				GoSetup: append(goMem(d, "base", "", "/b"), bpGo, fmt.Sprintf("vfs := rofs.New(basepathfs.New(base, %q))", d.px("/b"))),
			},
			&seqTarget{
				Name: "FailFS(BasePathFS(MemFS))", Kind: "vfs", FileType: "FailFile",
				build: func(t *seqTarget) *seqInst {
					return memInst(t, func(m *memfs.MemFS) avfs.VFS {
						_ = m.WriteFile(d.px("/b/f"), []byte("xy"), 0o644)

						return failfs.New(basepathfs.New(m, d.px("/b")))
					}, "/b", "", "/b")
				},
				GoSetup: append(goMem(d, "base", "", "/b"), bpGo, fmt.Sprintf("vfs := failfs.New(basepathfs.New(base, %q))", d.px("/b"))),
			},
			// every consultation fails with an error of one of the kinds that
			// composite helpers inspect (MkdirTemp and CreateTemp retry on "exists",
			// MkdirAll and MkdirTemp look at "not exist"): a retry loop whose
			// counter never advances does not return
			&seqTarget{
				Name: "FailFS(MemFS,always-exist)", Kind: "vfs", FileType: "FailFile",
				build: func(t *seqTarget) *seqInst {
					return memInst(t, func(m *memfs.MemFS) avfs.VFS {
						f := failfs.New(m)
						_ = f.SetFailFunc(func(avfs.VFSBase, avfs.FnVFS, *failfs.FailParam) error { return fs.ErrExist })

						return f
					}, "", "")
				},
				GoSetup: append(goMem(d, "base", ""), "vfs := failfs.New(base)",
					"_ = vfs.SetFailFunc(func(avfs.VFSBase, avfs.FnVFS, *failfs.FailParam) error { return fs.ErrExist })"),
			},
			&seqTarget{
				Name: "FailFS(MemFS,always-notexist)", Kind: "vfs", FileType: "FailFile",
				build: func(t *seqTarget) *seqInst {
					return memInst(t, func(m *memfs.MemFS) avfs.VFS {
						f := failfs.New(m)
						_ = f.SetFailFunc(func(avfs.VFSBase, avfs.FnVFS, *failfs.FailParam) error { return fs.ErrNotExist })

						return f
					}, "", "")
				},
				GoSetup: append(goMem(d, "base", ""), "vfs := failfs.New(base)",
					"_ = vfs.SetFailFunc(func(avfs.VFSBase, avfs.FnVFS, *failfs.FailParam) error { return fs.ErrNotExist })"),
			},
			&seqTarget{
				Name: "MemFS.Sub(/d)", Kind: "vfs", FileType: "MemFile",
				build: func(t *seqTarget) *seqInst {
					return memInst(t, func(m *memfs.MemFS) avfs.VFS {
						s, err := m.Sub("/d")
						if err != nil {
							panic(harnessError{"Sub(/d): " + err.Error()})
						}

						return s
					}, "/d", "", "/d")
				},
				GoSetup: append(goMem(d, "base", "", "/d"), `vfs, _ := base.Sub("/d")`),
			},
		)
	}

	ts = append(ts,
		&seqTarget{
			Name: "MemIdm", Kind: "idm",
			build: func(t *seqTarget) *seqInst {
				idm := memidm.NewWithOptions(&memidm.Options{OSType: osType(d)})
				_, _ = idm.AddGroup("grp")
				usr, _ := idm.AddUser("usr", "grp")

				return &seqInst{t: t, idm: idm, admin: idm.AdminUser(), usr: usr}
			},
			GoSetup: []string{
				fmt.Sprintf("idm := memidm.NewWithOptions(&memidm.Options{OSType: %s})", osGo(d)),
				`_, _ = idm.AddGroup("grp")`, `usr, _ := idm.AddUser("usr", "grp")`,
			},
		},
	)

	if !d.win {
		ts = append(ts, &seqTarget{
			Name: "DummyIdm", Kind: "idm",
			build: func(t *seqTarget) *seqInst {
				idm := avfs.NotImplementedIdm

				return &seqInst{t: t, idm: idm, admin: idm.AdminUser(), usr: avfs.NewUser("usr", 1001, 1001)}
			},
			GoSetup: []string{"idm := avfs.NotImplementedIdm", `usr := avfs.NewUser("usr", 1001, 1001)`},
		})
	}

	for _, t := range ts {
		t.OS = osn
		t.d = d
	}

	return ts
}

// newInst builds a fresh instance of t (state "initial").
func (t *seqTarget) newInst() *seqInst {
	in := t.build(t)

	if in.v != nil {
		// FileInfo values of this instance, taken before any mutator runs. If
		// that panics the instance may hold locks: start over without them.
		k, _ := fsx.Guard(func() {
			if fi, err := in.v.Stat(t.d.px("/a/f")); err == nil {
				in.infoF = fi
			} else if fi, err := in.base.Stat(t.d.px("/a/f")); err == nil && strings.Contains(t.Name, "always-") {
				in.infoF = fi // a wrapper that refuses every call hands out its base's values
			}

			if fi, err := in.v.Stat(t.d.px("/a")); err == nil {
				in.infoD = fi
			} else if fi, err := in.base.Stat(t.d.px("/a")); err == nil && strings.Contains(t.Name, "always-") {
				in.infoD = fi
			}
		})

		if k != "" {
			in = t.build(t)
		}
	}

	return in
}

// mutator is one letter of the alphabet producing pre-states.
type seqMutator struct {
	Name     string // state class
	Show     string
	Thorough bool // used only in the thorough tier
	Idm      bool // applies to identity-manager targets (others: VFS targets)
	do       func(in *seqInst) error
	Go       func(in *seqInst) string
}

var seqMutators = []seqMutator{
	{
		Name: "after-chdir-root", Show: `vfs.Chdir("/")`,
		do: func(in *seqInst) error { return in.v.Chdir(in.t.d.px("/")) },
		Go: func(in *seqInst) string { return fmt.Sprintf("_ = vfs.Chdir(%q)", in.t.d.px("/")) },
	},
	{
		Name: "after-chdir-a", Show: `vfs.Chdir("/a")`,
		do: func(in *seqInst) error { return in.v.Chdir(in.t.d.px("/a")) },
		Go: func(in *seqInst) string { return fmt.Sprintf("_ = vfs.Chdir(%q)", in.t.d.px("/a")) },
	},
	{
		// the current directory set through a handle that was opened by a relative name:
		// what the handle remembers of its name must not become the current directory as it is
		Name: "after-fchdir-relative-handle", Show: `vfs.Chdir("/a"); f, _ := vfs.Open("d"); f.Chdir()`,
		do: func(in *seqInst) error {
			if err := in.v.Chdir(in.t.d.px("/a")); err != nil {
				return err
			}

			f, err := in.v.Open("d")
			if err != nil {
				return err
			}

			defer f.Close()

			return f.Chdir()
		},
		Go: func(in *seqInst) string {
			return fmt.Sprintf("_ = vfs.Chdir(%q)\n\tif fd, err := vfs.Open(\"d\"); err == nil {\n\t\t_ = fd.Chdir()\n\t\t_ = fd.Close()\n\t}", in.t.d.px("/a"))
		},
	},
	{
		Name: "after-remove-f", Show: `base.Remove("/a/f")`,
		do: func(in *seqInst) error { return in.base.Remove(in.bp("/a/f")) },
		Go: func(in *seqInst) string { return fmt.Sprintf("_ = base.Remove(%q)", in.bp("/a/f")) },
	},
	{
		Name: "a-mode-0", Show: `base.Chmod("/a", 0)`,
		do: func(in *seqInst) error { return in.base.Chmod(in.bp("/a"), 0) },
		Go: func(in *seqInst) string { return fmt.Sprintf("_ = base.Chmod(%q, 0)", in.bp("/a")) },
	},
	{
		Name: "nonadmin", Show: `vfs.SetUser(usr)`,
		do: func(in *seqInst) error { return in.v.SetUser(in.usr) },
		Go: func(*seqInst) string { return "_ = vfs.SetUser(usr)" },
	},
	{
		// Round 10. Every REFUSAL path of a call is code of its own, and the
		// deeper a refusal sits the later it was written: "permission denied" on
		// the directory named by the caller is tested by everybody, the sticky
		// rule (EPERM although the directory is writable) on an entry met half
		// way through a recursive removal is not. A state in which those paths
		// are reached needs three parties: a non-administrator caller, a
		// world-writable sticky directory that is not his, and in it an entry of
		// a third user (where the identity manager can make one) - below a
		// directory he may otherwise empty. With "nonadmin" alone every refusal
		// is the first permission test of the call.
		Name: "nonadmin-in-foreign-sticky-dir",
		Show: `base.Chmod("/a", 0o777); base.Chmod("/a/d", 0o1777); base.WriteFile("/a/d/o", "o", 0o666); u3 := idm.AddUser("u3","grp"); base.Chown("/a/d/o", u3); vfs.SetUser(usr)`,
		do: func(in *seqInst) error {
			if err := in.base.Chmod(in.bp("/a"), 0o777); err != nil {
				return err
			}

			if err := in.base.Chmod(in.bp("/a/d"), 0o777|fs.ModeSticky); err != nil {
				return err
			}

			if err := in.base.WriteFile(in.bp("/a/d/o"), []byte("o"), 0o666); err != nil {
				return err
			}

			// the third party, where users can be made (otherwise the entry stays the administrator's)
			if u3, err := in.idm.AddUser("u3", "grp"); err == nil {
				if err := in.base.Chown(in.bp("/a/d/o"), u3.Uid(), u3.Gid()); err != nil {
					return err
				}
			}

			return in.v.SetUser(in.usr)
		},
		Go: func(in *seqInst) string {
			return fmt.Sprintf("_ = base.Chmod(%q, 0o777)\n\t_ = base.Chmod(%q, 0o777|fs.ModeSticky)\n\t_ = base.WriteFile(%q, []byte(\"o\"), 0o666)\n\t"+
				"if u3, err := idm.AddUser(\"u3\", \"grp\"); err == nil {\n\t\t_ = base.Chown(%q, u3.Uid(), u3.Gid())\n\t}\n\t_ = vfs.SetUser(usr)",
				in.bp("/a"), in.bp("/a/d"), in.bp("/a/d/o"), in.bp("/a/d/o"))
		},
	},
	{
		Name: "dir-symlink-cycle", Show: `base.Symlink("/a", "/a/d/up")`,
		do: func(in *seqInst) error { return in.base.Symlink(in.bp("/a"), in.bp("/a/d/up")) },
		Go: func(in *seqInst) string {
			return fmt.Sprintf("_ = base.Symlink(%q, %q)", in.bp("/a"), in.bp("/a/d/up"))
		},
	},
	{
		Name: "after-chdir-d", Show: `vfs.Chdir("/a/d")`, Thorough: true,
		do: func(in *seqInst) error { return in.v.Chdir(in.t.d.px("/a/d")) },
		Go: func(in *seqInst) string { return fmt.Sprintf("_ = vfs.Chdir(%q)", in.t.d.px("/a/d")) },
	},
	{
		Name: "after-remove-d", Show: `base.Remove("/a/d")`, Thorough: true,
		do: func(in *seqInst) error { return in.base.Remove(in.bp("/a/d")) },
		Go: func(in *seqInst) string { return fmt.Sprintf("_ = base.Remove(%q)", in.bp("/a/d")) },
	},
	{
		Name: "umask-777", Show: `vfs.SetUMask(0o777)`, Thorough: true,
		do: func(in *seqInst) error { return in.v.SetUMask(0o777) },
		Go: func(*seqInst) string { return "_ = vfs.SetUMask(0o777)" },
	},
	{
		Name: "after-adduser", Show: `idm.AddUser("u2","grp")`, Idm: true,
		do: func(in *seqInst) error { _, err := in.idm.AddUser("u2", "grp"); return err },
		Go: func(*seqInst) string { return `_, _ = idm.AddUser("u2", "grp")` },
	},
	{
		Name: "after-deluser", Show: `idm.DelUser("usr")`, Idm: true,
		do: func(in *seqInst) error { return in.idm.DelUser("usr") },
		Go: func(*seqInst) string { return `_ = idm.DelUser("usr")` },
	},
	{
		Name: "after-delgroup", Show: `idm.DelGroup("grp")`, Idm: true,
		do: func(in *seqInst) error { return in.idm.DelGroup("grp") },
		Go: func(*seqInst) string { return `_ = idm.DelGroup("grp")` },
	},
}

// state is a sequence of mutator indices applied to a fresh instance.
type seqState struct {
	Muts []int
}

func (s seqState) class() string {
	if len(s.Muts) == 0 {
		return "initial"
	}

	var n []string
	for _, m := range s.Muts {
		n = append(n, seqMutators[m].Name)
	}

	return strings.Join(n, "+")
}

func (s seqState) show() []string {
	n := []string{}
	for _, m := range s.Muts {
		n = append(n, seqMutators[m].Show)
	}

	return n
}

// apply runs the mutators; ok is false when one of them fails, panics or
// deadlocks (the state is then not part of the plan).
func (s seqState) apply(in *seqInst) (ok bool) {
	for _, m := range s.Muts {
		var err error

		if k, _ := fsx.Guard(func() { err = seqMutators[m].do(in) }); k != "" || err != nil {
			return false
		}
	}

	return true
}

// key identifies the reached state: tree below the harness directories, cwd,
// user, umask - everything a later call can observe.
func seqStateKey(in *seqInst) string {
	var b strings.Builder

	if in.v == nil {
		for _, n := range []string{"root", "usr", "u2", "grp", "nope"} {
			_, _ = fsx.Guard(func() {
				_, e1 := in.idm.LookupUser(n)
				_, e2 := in.idm.LookupGroup(n)
				fmt.Fprintf(&b, "%s:%v:%v;", n, e1 == nil, e2 == nil)
			})
		}

		return b.String()
	}

	_, _ = fsx.Guard(func() {
		wd, _ := in.v.Getwd()
		fmt.Fprintf(&b, "cwd=%s;", wd)
	})

	_, _ = fsx.Guard(func() { fmt.Fprintf(&b, "user=%s;umask=%o;", in.v.User().Name(), in.v.UMask()) })

	// the tree is dumped through the base as the administrator
	_, _ = fsx.Guard(func() {
		cur := in.base.User()
		_ = in.base.SetUser(in.admin)

		for _, r := range []string{"/a", "/b", "/d"} {
			b.WriteString(strings.Join(fsx.Dump(in.base, in.t.d.px(r), fsx.DumpOpts{}), "\n"))
		}

		_ = in.base.SetUser(cur)
	})

	return b.String()
}

// states enumerates the distinct pre-states of t reachable by at most depth
// mutators (shortest sequence first).
func (t *seqTarget) states(depth int, thorough bool) []seqState {
	var alpha []int

	for i, m := range seqMutators {
		if m.Idm != (t.Kind == "idm") || (m.Thorough && !thorough) {
			continue
		}

		alpha = append(alpha, i)
	}

	out := []seqState{{}}
	seen := map[string]bool{}

	in := t.newInst()
	seen[seqStateKey(in)] = true

	frontier := []seqState{{}}

	for d := 1; d <= depth; d++ {
		var next []seqState

		for _, s := range frontier {
			for _, m := range alpha {
				ns := seqState{Muts: append(append([]int{}, s.Muts...), m)}

				in := t.newInst()
				if !ns.apply(in) {
					continue
				}

				k := seqStateKey(in)
				if seen[k] {
					continue
				}

				seen[k] = true

				next = append(next, ns)
				out = append(out, ns)
			}
		}

		frontier = next
	}

	return out
}
