package main

// Argument domains of the sequential part of C07: a small adversarial set of
// values per parameter type, refined by the role a parameter plays in a
// method. Every value carries a class (used in violation signatures), a
// printable form and, where possible, a Go expression (used in the generated
// test snippet of a replay).

import (
	"crypto/sha512"
	"errors"
	"fmt"
	"hash"
	"io/fs"
	"math"
	"os"
	"reflect"
	"strings"
	"time"

	"github.com/avfs/avfs"
	"github.com/avfs/avfs/idm/memidm"

	"verif/lib/fsx"
)

// argv is one value of an argument domain.
type seqArg struct {
	Class string
	Show  string
	Go    string                // Go expression ("" when not expressible)
	V     any                   // static value
	Mk    func(in *seqInst) any // value depending on the instance (overrides V)
}

func (a seqArg) value(in *seqInst) any {
	if a.Mk != nil {
		return a.Mk(in)
	}

	return a.V
}

// pathEnt is one entry of the path domain, written in Unix form.
type pathEnt struct {
	P     string
	Class string
	Core  bool // member of the core used for tuples of 2 and more paths in the quick tier
	Raw   bool // not translated for Windows-typed file systems
	Go    string
	Show  string
}

var longName = strings.Repeat("n", 300)

// unixPaths is the path domain for Linux-typed file systems (initial tree:
// dir /a, file /a/f, dir /a/d, MemFS: symlink /a/s -> f and loop /a/l -> l).
var unixPaths = []pathEnt{
	{P: "", Class: "empty", Core: true},
	{P: ".", Class: "dot", Core: true},
	{P: "..", Class: "dotdot"},
	{P: "/", Class: "root", Core: true},
	{P: "//", Class: "root-alias"},
	{P: "/..", Class: "root-alias"},
	{P: "/a", Class: "abs-existing-dir", Core: true},
	{P: "/a/", Class: "trailing-slash"},
	{P: "a", Class: "rel", Core: true},
	{P: "a/f", Class: "rel"},
	{P: "/a/a/..", Class: "abs-dotdot"},
	{P: "/a/f", Class: "abs-existing-file", Core: true},
	{P: "/a/f/x", Class: "below-file"},
	{P: "/a/d", Class: "abs-existing-dir", Core: true},
	{P: "/a/d/n", Class: "abs-missing-nested", Core: true},
	{P: "/nope", Class: "abs-missing", Core: true},
	{P: "/a/l", Class: "symlink-loop"},
	{P: `C:\`, Class: "volume", Raw: true},
	{P: `C:`, Class: "volume", Raw: true},
	{P: `\\`, Class: "volume", Raw: true},
	{P: "/" + longName, Class: "long", Go: `"/" + strings.Repeat("n", 300)`, Show: `"/"+300*"n"`},
}

// winExtra are added for Windows-typed file systems (not translated).
var winExtra = []pathEnt{
	{P: "/", Class: "win-slash-root", Raw: true},
	{P: "/a", Class: "win-slash-abs", Raw: true, Core: true},
	{P: `\`, Class: "win-novolume-root", Raw: true},
	{P: `\a`, Class: "win-novolume-abs", Raw: true},
	{P: `C:a`, Class: "win-volume-rel", Raw: true},
	{P: `c:\a`, Class: "win-lowercase-volume", Raw: true},
	{P: `D:\a`, Class: "win-other-volume", Raw: true},
	{P: `\\host\share\a`, Class: "win-unc", Raw: true},
}

// winPath translates a Unix-form domain path for a Windows-typed file system.
func winPath(p string) string {
	if strings.HasPrefix(p, "/") {
		return "C:" + strings.ReplaceAll(p, "/", `\`)
	}

	return strings.ReplaceAll(p, "/", `\`)
}

// dom holds the domains of one (tier, OS type).
type seqDom struct {
	win      bool
	thorough bool
	paths    []seqArg // full path domain
	core     []seqArg // core path domain
}

func newDom(win, thorough bool) *seqDom {
	d := &seqDom{win: win, thorough: thorough}

	ents := append([]pathEnt{}, unixPaths...)
	if win {
		ents = append(ents, winExtra...)
	}

	for _, e := range ents {
		p := e.P
		if win && !e.Raw {
			p = winPath(p)
		}

		a := seqArg{Class: e.Class, Show: e.Show, Go: e.Go, V: p}
		if a.Show == "" {
			a.Show = fmt.Sprintf("%q", p)
		}

		if a.Go == "" {
			a.Go = fmt.Sprintf("%q", p)
		} else if win {
			a.Go = fmt.Sprintf("%q + strings.Repeat(\"n\", 300)", `C:\`)
			a.Show = `"C:\\"+300*"n"`
		}

		d.paths = append(d.paths, a)

		if e.Core {
			d.core = append(d.core, a)
		}
	}

	return d
}

// px translates a Unix-form path of the harness tree for this OS type.
func (d *seqDom) px(p string) string {
	if d.win {
		return winPath(p)
	}

	return p
}

func strDomain(class func(string) string, vs ...string) []seqArg {
	var out []seqArg
	for _, v := range vs {
		a := seqArg{Class: class(v), Show: fmt.Sprintf("%q", v), Go: fmt.Sprintf("%q", v), V: v}
		if v == longName {
			a.Show, a.Go = `300*"n"`, `strings.Repeat("n", 300)`
		}

		out = append(out, a)
	}

	return out
}

func patClass(s string) string {
	switch {
	case s == "":
		return "empty"
	case len(s) > 100:
		return "long"
	case s == "[" || s == "[a-" || s == "[^" || s == "[]" || s == `\` || s == "/a/[" || s == `a[`:
		return "malformed"
	case strings.ContainsAny(s, "*?["):
		if strings.ContainsAny(s, `/\`) {
			return "meta-with-sep"
		}

		return "meta"
	case strings.ContainsAny(s, `/\`):
		return "with-sep"
	}

	return "plain"
}

func nameClass(s string) string {
	switch {
	case s == "":
		return "empty"
	case len(s) > 100:
		return "long"
	case s == "root" || s == "ContainerAdministrator" || s == "Administrators":
		return "admin"
	case s == "usr" || s == "grp":
		return "existing"
	case strings.ContainsAny(s, `/\:`):
		return "with-sep"
	}

	return "unknown"
}

func volClass(s string) string {
	switch {
	case s == "":
		return "empty"
	case s == "C:" || s == `C:\`:
		return "existing-volume"
	case s == "D:" || s == `D:\` || s == "d:":
		return "new-volume"
	case strings.HasPrefix(s, `\\`):
		return "unc"
	case len(s) > 100:
		return "long"
	}

	return "no-volume"
}

func (d *seqDom) globPatterns() []seqArg {
	ps := []string{"", "*", "/*", "/a/*", "/*/*", "[", "/a/[", `\`, "/a/f", "a*", "/a/l/*", "//*", "*/", "/a/*/", `/a/\f`, "/a/?", "/a/[a-z]", "/nope/*", "../*", `C:\*`}
	if !d.thorough {
		ps = []string{"", "*", "/*", "/a/*", "/*/*", "[", "/a/[", `\`, "/a/l/*", "*/", `/a/\f`, `C:\*`}
	}

	if d.win {
		for i, p := range ps {
			if strings.HasPrefix(p, "/") {
				ps[i] = winPath(p)
			}
		}

		ps = append(ps, "/*", `\*`, `C:*`, `\\host\share\*`)
	}

	return strDomain(patClass, ps...)
}

func (d *seqDom) matchPatterns() []seqArg {
	return strDomain(patClass, "", "*", "[", "[a-", "[^", "[]", `\`, "a*", "?", "[a-z]", `\\`, "*/f", "a[", "[!a]", "**")
}

func (d *seqDom) matchNames() []seqArg {
	return strDomain(func(s string) string {
		if s == "" {
			return "empty"
		}

		return "name"
	}, "", "a", "ab", "a/f", `\`, "[")
}

func (d *seqDom) tmpPatterns() []seqArg {
	return strDomain(patClass, "", "*", "x*y", "a/b", "/", `\`, "**", longName)
}

func (d *seqDom) names() []seqArg {
	return strDomain(nameClass, "", "root", "usr", "grp", "nope", "a/b", longName, "ContainerAdministrator")
}

func (d *seqDom) volumes() []seqArg {
	return strDomain(volClass, "", "C:", `C:\`, "D:", `D:\`, "d:", "/", `\\host\share`, `\\`, "x", longName)
}

type numv struct {
	v     int64
	class string
}

func numDomain(t reflect.Type, ns ...numv) []seqArg {
	var out []seqArg

	for _, n := range ns {
		v := reflect.New(t).Elem()
		v.SetInt(n.v)

		g := fmt.Sprintf("%d", n.v)
		if n.v == math.MinInt64 {
			g = "math.MinInt64"
		}

		out = append(out, seqArg{Class: n.class, Show: g, Go: g, V: v.Interface()})
	}

	return out
}

// The harness file /a/f holds "xy": size 2.
const fileSize = 2

// sizes is the domain of sizes that make an in-memory file system allocate
// proportionally (Truncate, WriteAt): nothing above 1 MiB.
func sizeDomain(t reflect.Type) []seqArg {
	return numDomain(t, numv{math.MinInt64, "min"}, numv{-1, "neg"}, numv{0, "zero"}, numv{1, "pos"},
		numv{fileSize, "eof"}, numv{fileSize + 1, "beyond"}, numv{1 << 20, "big"})
}

// offsets is the domain for calls that cannot allocate (Seek, ReadAt).
func offsetDomain(t reflect.Type) []seqArg {
	return append(sizeDomain(t), numDomain(t, numv{1 << 40, "huge"}, numv{math.MaxInt64, "max"})...)
}

func whenceDomain(t reflect.Type) []seqArg {
	return numDomain(t, numv{-1, "neg"}, numv{0, "start"}, numv{1, "cur"}, numv{2, "end"}, numv{3, "invalid"})
}

func countDomain(t reflect.Type) []seqArg {
	return numDomain(t, numv{-1, "neg"}, numv{0, "zero"}, numv{1, "pos"})
}

func idDomain(t reflect.Type) []seqArg {
	return numDomain(t, numv{-1, "neg"}, numv{0, "zero"}, numv{1001, "pos"}, numv{1 << 31, "huge"})
}

func flagClass(f int) string {
	if f == 0x7FFFFFFF {
		return "allbits"
	}

	c := [...]string{"rdonly", "wronly", "rdwr", "acc3"}[f&3]
	if f&os.O_CREATE != 0 {
		c += "+create"
	}

	return c
}

func flagGo(f int) string {
	if f == 0x7FFFFFFF {
		return "0x7FFFFFFF"
	}

	var s []string

	switch f & 3 {
	case os.O_RDONLY:
		s = append(s, "os.O_RDONLY")
	case os.O_WRONLY:
		s = append(s, "os.O_WRONLY")
	case os.O_RDWR:
		s = append(s, "os.O_RDWR")
	default:
		s = append(s, "os.O_WRONLY|os.O_RDWR")
	}

	for _, x := range []struct {
		f int
		n string
	}{{os.O_APPEND, "os.O_APPEND"}, {os.O_CREATE, "os.O_CREATE"}, {os.O_EXCL, "os.O_EXCL"}, {os.O_TRUNC, "os.O_TRUNC"}} {
		if f&x.f != 0 {
			s = append(s, x.n)
		}
	}

	return strings.Join(s, "|")
}

func (d *seqDom) flags() []seqArg {
	var fl []int

	if d.thorough {
		for _, acc := range []int{os.O_RDONLY, os.O_WRONLY, os.O_RDWR} {
			for m := 0; m < 16; m++ {
				f := acc
				if m&1 != 0 {
					f |= os.O_APPEND
				}

				if m&2 != 0 {
					f |= os.O_TRUNC
				}

				if m&4 != 0 {
					f |= os.O_CREATE
				}

				if m&8 != 0 {
					f |= os.O_EXCL
				}

				fl = append(fl, f)
			}
		}
	} else {
		fl = []int{
			os.O_RDONLY, os.O_WRONLY, os.O_RDWR, os.O_RDWR | os.O_CREATE, os.O_RDWR | os.O_CREATE | os.O_EXCL,
			os.O_WRONLY | os.O_TRUNC, os.O_RDONLY | os.O_TRUNC, os.O_WRONLY | os.O_APPEND,
			os.O_RDWR | os.O_CREATE | os.O_TRUNC, os.O_WRONLY | os.O_APPEND | os.O_CREATE | os.O_EXCL | os.O_TRUNC,
		}
	}

	fl = append(fl, os.O_WRONLY|os.O_RDWR, 0x7FFFFFFF)

	var out []seqArg
	for _, f := range fl {
		out = append(out, seqArg{Class: flagClass(f), Show: fsx.FlagString(f), Go: flagGo(f), V: f})
	}

	out[len(out)-1].Show = "0x7FFFFFFF"

	return out
}

func modeDomain() []seqArg {
	return []seqArg{
		{Class: "zero", Show: "0", Go: "fs.FileMode(0)", V: fs.FileMode(0)},
		{Class: "rwx", Show: "0o777", Go: "fs.FileMode(0o777)", V: fs.FileMode(0o777)},
		{Class: "dirbit", Show: "ModeDir|0o777", Go: "fs.ModeDir|0o777", V: fs.ModeDir | 0o777},
		{Class: "special", Show: "ModeSetuid|ModeSetgid|ModeSticky|0o777", Go: "fs.ModeSetuid|fs.ModeSetgid|fs.ModeSticky|0o777", V: fs.ModeSetuid | fs.ModeSetgid | fs.ModeSticky | 0o777},
		{Class: "allbits", Show: "0xFFFFFFFF", Go: "fs.FileMode(0xFFFFFFFF)", V: fs.FileMode(0xFFFFFFFF)},
	}
}

func sepDomain() []seqArg {
	var out []seqArg

	for _, c := range []struct {
		c     uint8
		class string
	}{{0, "zero"}, {'/', "slash"}, {'\\', "backslash"}, {'a', "letter"}, {255, "max"}} {
		out = append(out, seqArg{Class: c.class, Show: fmt.Sprintf("%q", rune(c.c)), Go: fmt.Sprintf("uint8(%d)", c.c), V: c.c})
	}

	return out
}

func timeDomain() []seqArg {
	return []seqArg{
		{Class: "zero", Show: "time.Time{}", Go: "time.Time{}", V: time.Time{}},
		{Class: "fixed", Show: "time.Unix(1500000000,0)", Go: "time.Unix(1500000000, 0)", V: time.Unix(1_500_000_000, 0)},
	}
}

// readBufs: buffers of length 0, 1, 4 (fresh per call).
func readBufs() []seqArg {
	var out []seqArg

	for _, n := range []int{0, 1, 4} {
		n := n
		out = append(out, seqArg{
			Class: fmt.Sprintf("buf%d", n), Show: fmt.Sprintf("make([]byte,%d)", n), Go: fmt.Sprintf("make([]byte, %d)", n),
			Mk: func(*seqInst) any { return make([]byte, n) },
		})
	}

	return out
}

func writeData() []seqArg {
	return []seqArg{
		{Class: "nil", Show: "nil", Go: "[]byte(nil)", V: []byte(nil)},
		{Class: "empty", Show: "[]byte{}", Go: "[]byte{}", V: []byte{}},
		{Class: "len1", Show: `[]byte("z")`, Go: `[]byte("z")`, V: []byte("z")},
		{Class: "len5", Show: `[]byte("hello")`, Go: `[]byte("hello")`, V: []byte("hello")},
	}
}

func writeStrings() []seqArg {
	return strDomain(func(s string) string { return fmt.Sprintf("len%d", len(s)) }, "", "z", "hello")
}

var errWalk = errors.New("c07: walk error")

func walkFuncs() []seqArg {
	mk := func(ret error) fs.WalkDirFunc {
		n := 0

		return func(string, fs.DirEntry, error) error {
			n++
			if n > 100000 {
				return errors.New("c07: walk visited more than 100000 entries")
			}

			return ret
		}
	}

	gof := func(r string) string { return "func(string, fs.DirEntry, error) error { return " + r + " }" }

	return []seqArg{
		{Class: "fn-nil", Show: "func→nil", Go: gof("nil"), Mk: func(*seqInst) any { return mk(nil) }},
		{Class: "fn-skipdir", Show: "func→SkipDir", Go: gof("fs.SkipDir"), Mk: func(*seqInst) any { return mk(fs.SkipDir) }},
		{Class: "fn-skipall", Show: "func→SkipAll", Go: gof("fs.SkipAll"), Mk: func(*seqInst) any { return mk(fs.SkipAll) }},
		{Class: "fn-error", Show: "func→error", Go: gof(`errors.New("stop")`), Mk: func(*seqInst) any { return mk(errWalk) }},
	}
}

func userDomain() []seqArg {
	return []seqArg{
		{Class: "admin", Show: "admin user of the idm", Go: "idm.AdminUser()", Mk: func(in *seqInst) any { return in.admin }},
		{Class: "nonadmin", Show: "non-admin user usr", Go: "usr", Mk: func(in *seqInst) any { return in.usr }},
	}
}

func idmDomain() []seqArg {
	return []seqArg{
		{Class: "nil", Show: "nil", Go: "nil", V: nil},
		{Class: "memidm", Show: "memidm.New()", Go: "memidm.New()", Mk: func(*seqInst) any { return memidm.New() }},
		{Class: "dummy", Show: "avfs.NotImplementedIdm", Go: "avfs.NotImplementedIdm", V: avfs.IdentityMgr(avfs.NotImplementedIdm)},
	}
}

func featureDomain() []seqArg {
	return []seqArg{
		{Class: "zero", Show: "0", Go: "avfs.Features(0)", V: avfs.Features(0)},
		{Class: "one", Show: "FeatHardlink", Go: "avfs.FeatHardlink", V: avfs.FeatHardlink},
		{Class: "allbits", Show: "^Features(0)", Go: "^avfs.Features(0)", V: ^avfs.Features(0)},
	}
}

// ownInfos: FileInfo values obtained from Stat on this very instance right
// after its construction (file, directory).
func (d *seqDom) ownInfos() []seqArg {
	f, a := d.px("/a/f"), d.px("/a")

	return []seqArg{
		{Class: "own-file", Show: fmt.Sprintf("vfs.Stat(%q)", f), Go: fmt.Sprintf("mustStat(vfs, %q)", f), Mk: func(in *seqInst) any {
			if in.infoF == nil {
				panic(notApplicable{"Stat of the harness file failed"})
			}

			return in.infoF
		}},
		{Class: "own-dir", Show: fmt.Sprintf("vfs.Stat(%q)", a), Go: fmt.Sprintf("mustStat(vfs, %q)", a), Mk: func(in *seqInst) any {
			if in.infoD == nil {
				panic(notApplicable{"Stat of the harness directory failed"})
			}

			return in.infoD
		}},
	}
}

// sameInfos adds an info from a file system of a different type.
func (d *seqDom) sameInfos() []seqArg {
	f := d.px("/a/f")

	return append(d.ownInfos(), seqArg{
		Class: "foreign", Show: fmt.Sprintf("other.Stat(%q) (file system of another type)", f), Go: fmt.Sprintf("mustStat(other, %q)", f),
		Mk: func(in *seqInst) any {
			fi, err := in.getOther().Stat(f)
			if err != nil {
				panic(harnessError{"Stat on the foreign file system: " + err.Error()})
			}

			return fi
		},
	})
}

func hashDomain(withNil bool) []seqArg {
	out := []seqArg{{Class: "sha512", Show: "sha512.New()", Go: "sha512.New()", Mk: func(*seqInst) any { return sha512.New() }}}
	if withNil {
		out = append(out, seqArg{Class: "nil", Show: "nil", Go: "nil", V: hash.Hash(nil)})
	}

	return out
}

// joinElems is the domain of the variadic parameter of Join: 0, 1, 2 and 3
// elements (1: full path domain; 2 and 3: core domain).
func (d *seqDom) joinElems() []seqArg {
	out := []seqArg{{Class: "none", Show: "", Go: "", V: []string{}}}

	for _, a := range d.paths {
		out = append(out, seqArg{Class: a.Class, Show: a.Show, Go: a.Go, V: []string{a.V.(string)}})
	}

	for _, a := range d.core {
		for _, b := range d.core {
			out = append(out, seqArg{Class: a.Class + "+" + b.Class, Show: a.Show + "," + b.Show, Go: a.Go + ", " + b.Go, V: []string{a.V.(string), b.V.(string)}})
		}
	}

	for _, a := range d.core {
		for _, b := range d.core {
			for _, c := range d.core {
				out = append(out, seqArg{
					Class: a.Class + "+" + b.Class + "+" + c.Class, Show: a.Show + "," + b.Show + "," + c.Show,
					Go: a.Go + ", " + b.Go + ", " + c.Go, V: []string{a.V.(string), b.V.(string), c.V.(string)},
				})
			}
		}
	}

	return out
}

var (
	tString   = reflect.TypeOf("")
	tInt      = reflect.TypeOf(int(0))
	tInt64    = reflect.TypeOf(int64(0))
	tUint8    = reflect.TypeOf(uint8(0))
	tBytes    = reflect.TypeOf([]byte(nil))
	tStrings  = reflect.TypeOf([]string(nil))
	tFileMode = reflect.TypeOf(fs.FileMode(0))
	tTime     = reflect.TypeOf(time.Time{})
	tWalkFn   = reflect.TypeOf(fs.WalkDirFunc(nil))
	tUser     = reflect.TypeOf((*avfs.UserReader)(nil)).Elem()
	tIdm      = reflect.TypeOf((*avfs.IdentityMgr)(nil)).Elem()
	tFileInfo = reflect.TypeOf((*fs.FileInfo)(nil)).Elem()
	tFeatures = reflect.TypeOf(avfs.Features(0))
	tError    = reflect.TypeOf((*error)(nil)).Elem()
	tFile     = reflect.TypeOf((*avfs.File)(nil)).Elem()
)

// Roles of string parameters that are not paths, keyed by "Method#pos" within
// a section ("vfs", "file", "idm").
var strRoles = map[string]string{
	"vfs.Glob#0": "glob", "vfs.Match#0": "matchpat", "vfs.Match#1": "matchname",
	"vfs.CreateTemp#1": "tmppat", "vfs.MkdirTemp#1": "tmppat", "vfs.SetUserByName#0": "name",
	"vfs.VolumeAdd#0": "volume", "vfs.VolumeDelete#0": "volume",
	"idm.AddGroup#0": "name", "idm.AddUser#0": "name", "idm.AddUser#1": "name", "idm.DelGroup#0": "name",
	"idm.DelUser#0": "name", "idm.LookupGroup#0": "name", "idm.LookupUser#0": "name",
	"file.WriteString#0": "wstring",
}

// Roles of int / int64 / []byte parameters (no default: an unknown numeric
// parameter is a harness error, so that a new method cannot be enumerated with
// a meaningless domain).
var numRoles = map[string]string{
	"vfs.OpenFile#1": "flag", "vfs.Chown#1": "id", "vfs.Chown#2": "id", "vfs.Lchown#1": "id", "vfs.Lchown#2": "id",
	"vfs.Truncate#1":      "size",
	"idm.LookupGroupId#0": "id", "idm.LookupUserId#0": "id",
	"file.Chown#0": "id", "file.Chown#1": "id", "file.ReadDir#0": "count", "file.Readdirnames#0": "count",
	"file.Seek#0": "offset", "file.Seek#1": "whence", "file.Truncate#0": "size", "file.ReadAt#1": "offset", "file.WriteAt#1": "size",
	"file.Read#0": "rbuf", "file.ReadAt#0": "rbuf", "file.Write#0": "wdata", "file.WriteAt#0": "wdata",
	"vfs.WriteFile#1": "wdata",
}

// domainFor returns the domain of parameter pos (type t) of method in section
// sec. npaths is the number of path-role string parameters of the method.
func (d *seqDom) domainFor(sec, method string, pos int, t reflect.Type, npaths int) ([]seqArg, error) {
	key := fmt.Sprintf("%s.%s#%d", sec, method, pos)

	switch t {
	case tString:
		switch strRoles[key] {
		case "glob":
			return d.globPatterns(), nil
		case "matchpat":
			return d.matchPatterns(), nil
		case "matchname":
			return d.matchNames(), nil
		case "tmppat":
			return d.tmpPatterns(), nil
		case "name":
			return d.names(), nil
		case "volume":
			return d.volumes(), nil
		case "wstring":
			return writeStrings(), nil
		}

		if sec != "vfs" {
			return nil, fmt.Errorf("no role for string parameter %s", key)
		}

		if npaths >= 2 && !d.thorough {
			return d.core, nil
		}

		return d.paths, nil
	case tInt, tInt64, tBytes:
		switch numRoles[key] {
		case "flag":
			return d.flags(), nil
		case "id":
			return idDomain(t), nil
		case "size":
			return sizeDomain(t), nil
		case "offset":
			return offsetDomain(t), nil
		case "whence":
			return whenceDomain(t), nil
		case "count":
			return countDomain(t), nil
		case "rbuf":
			return readBufs(), nil
		case "wdata":
			return writeData(), nil
		}

		return nil, fmt.Errorf("no role for %s parameter %s", t, key)
	case tStrings:
		if key == "vfs.Join#0" {
			return d.joinElems(), nil
		}
	case tFileMode:
		return modeDomain(), nil
	case tUint8:
		return sepDomain(), nil
	case tTime:
		return timeDomain(), nil
	case tWalkFn:
		return walkFuncs(), nil
	case tUser:
		return userDomain(), nil
	case tIdm:
		return idmDomain(), nil
	case tFeatures:
		return featureDomain(), nil
	case tFileInfo:
		switch method {
		case "SameFile":
			return d.sameInfos(), nil
		case "ToSysStat":
			return d.ownInfos(), nil
		}
	}

	return nil, fmt.Errorf("no argument domain for parameter %s of type %s", key, t)
}

// isPathRole reports whether string parameter pos of a vfs method is a path.
func isPathRole(sec, method string, pos int) bool {
	_, ok := strRoles[fmt.Sprintf("%s.%s#%d", sec, method, pos)]

	return !ok
}

// excludedInputs lists the inputs that are deliberately not enumerated because
// passing them is the caller's fault (or because serving them legitimately
// needs memory proportional to the argument).
var excludedInputs = []string{
	"nil fs.WalkDirFunc for WalkDir (caller's fault, as in path/filepath)",
	"nil avfs.UserReader for SetUser / HomeDirUser / MkHomeDir (caller's fault)",
	"nil fs.FileInfo for SameFile and ToSysStat",
	"fs.FileInfo of a foreign file system for ToSysStat (documented: takes a value of this file system); included for SameFile",
	"nil hash.Hash for HashFile (documented only for CopyFileHash, where it is included)",
	"nil avfs.File interface value and caller-constructed zero-value File structs (only handles actually returned by the library are used, including those returned together with an error)",
	"nil VFS / nil FailFunc (SetFailFunc(nil)) / constructor arguments (basepathfs.New panics by documented design; NewWithErr is the non-panicking variant)",
	"sizes and offsets above 1 MiB for Truncate, File.Truncate, File.WriteAt, and Write after a Seek further than 3 bytes beyond the end: an in-memory file system legitimately needs memory proportional to the size (1<<40 and MaxInt64 are used only for Seek and ReadAt)",
	"non-absolute paths for avfs.SplitAbs and avfs.NewPathIterator (documented to take an absolute path)",
	"PathIterator accessors after Next returned false (outside the documented for-Next loop idiom)",
	"avfs.NewRndTree and its methods (random test-data generator, not a file-system call)",
}
