package main

// Reduction of the violating cases to a readable set of signatures. Nothing
// is judged here: a case is only dropped when an identical violating case that
// differs in nothing but (a) a shorter pre-state or (b) the wrapper standing in
// front of the base file system is reported; argument classes that provably do
// not matter (the violation occurs for every class of that parameter) are
// written as "*".

import (
	"fmt"
	"sort"
	"strings"

	"verif/lib/concfs"
)

// rawViol is what a worker records for a violating case.
type seqRawViol struct {
	Ord   int64  `json:"ord"`
	Kind  string `json:"kind"`
	Msg   string `json:"msg"`
	Where string `json:"where"`
}

type seqVrec struct {
	seqRawViol
	u    *seqUnit
	j    int64
	idx  string   // concrete argument indices
	seq  []string // mutators of the pre-state (handle mutator last)
	msgc string   // message class
	args []seqArg
}

// baseOf maps a wrapper target to the target it forwards to.
func baseOf(name string) string {
	switch {
	case name == "MemFS.Sub(/d)":
		return "MemFS"
	case strings.HasPrefix(name, "FailFS(MemFS"):
		return "MemFS"
	case strings.HasSuffix(name, "(MemFS)"), strings.HasSuffix(name, "(MemFS))"):
		return "MemFS"
	case strings.HasSuffix(name, "(OrefaFS)"):
		return "OrefaFS"
	}

	return name
}

func isSubsequence(a, b []string) bool {
	i := 0

	for _, x := range b {
		if i < len(a) && a[i] == x {
			i++
		}
	}

	return i == len(a)
}

// msgClass strips what varies arbitrarily from a panic message: the concrete
// string arguments of the call, then numbers and quoted strings.
func msgClass(msg string, args []seqArg) string {
	// "what : operand" messages (basepathfs): the operand is a derived path
	if i := strings.Index(msg, " : "); i >= 0 {
		return concfs.StripDetail(msg[:i+3] + "PATH")
	}

	var ss []string

	for _, a := range args {
		switch v := a.V.(type) {
		case string:
			ss = append(ss, v)
		case []string:
			ss = append(ss, v...)
		}
	}

	sort.Slice(ss, func(i, j int) bool { return len(ss[i]) > len(ss[j]) })

	for _, s := range ss {
		switch {
		case len(s) >= 2:
			msg = strings.ReplaceAll(msg, s, "ARG")
		case len(s) == 1 && (strings.HasSuffix(msg, " "+s)):
			msg = msg[:len(msg)-1] + "ARG"
		}
	}

	return concfs.StripDetail(msg)
}

// reduceViols returns the records to report (with their final signatures) and
// statistics about what was folded.
func reduceViols(pl *seqPlan, raws []seqRawViol) (out []seqViol, stats map[string]int, err error) {
	stats = map[string]int{"violating_cases": len(raws)}

	var recs []*seqVrec

	for _, r := range raws {
		u := pl.unitAt(r.Ord)
		if u == nil {
			return nil, nil, fmt.Errorf("violation at unknown case %d", r.Ord)
		}

		v := &seqVrec{seqRawViol: r, u: u, j: r.Ord - u.Base}
		v.args = u.tuple(v.j)
		v.idx = fmt.Sprint(u.tupleIdx(v.j))
		v.msgc = msgClass(r.Msg, v.args)

		for _, m := range u.St.Muts {
			v.seq = append(v.seq, seqMutators[m].Name)
		}

		if u.HM != nil && u.HM.Name != "none" {
			v.seq = append(v.seq, "handle:"+u.HM.Name)
		}

		recs = append(recs, v)
	}

	hk := func(u *seqUnit) string {
		if u.HK == nil {
			return ""
		}

		return u.HK.Name
	}

	// 1. minimal pre-states
	groups := map[string][]*seqVrec{}

	for _, v := range recs {
		k := strings.Join([]string{v.u.T.OS, v.u.T.Name, v.u.Sec, v.u.Method, hk(v.u), v.idx, v.Kind, v.msgc, v.Where}, "\x00")
		groups[k] = append(groups[k], v)
	}

	var step1 []*seqVrec

	for _, v := range recs {
		k := strings.Join([]string{v.u.T.OS, v.u.T.Name, v.u.Sec, v.u.Method, hk(v.u), v.idx, v.Kind, v.msgc, v.Where}, "\x00")
		sub := false

		for _, o := range groups[k] {
			if o != v && len(o.seq) < len(v.seq) && isSubsequence(o.seq, v.seq) {
				sub = true

				break
			}
		}

		if sub {
			stats["folded_longer_pre_state"]++

			continue
		}

		step1 = append(step1, v)
	}

	// 2. wrappers that only forward a violation of their base
	baseKeys := map[string]bool{}
	k2 := func(v *seqVrec, seqTarget string) string {
		return strings.Join([]string{v.u.T.OS, seqTarget, v.u.Sec, v.u.Method, hk(v.u), v.idx, strings.Join(v.seq, "+"), v.Kind, v.msgc, v.Where}, "\x00")
	}

	for _, v := range step1 {
		if baseOf(v.u.T.Name) == v.u.T.Name {
			baseKeys[k2(v, v.u.T.Name)] = true
		}
	}

	var step2 []*seqVrec

	for _, v := range step1 {
		if b := baseOf(v.u.T.Name); b != v.u.T.Name && baseKeys[k2(v, b)] {
			stats["folded_wrapper_forwarding_base_violation"]++

			continue
		}

		step2 = append(step2, v)
	}

	// 2b. helpers that only forward a violation of a method of the same file
	// system (same pre-state, same innermost frame, same message)
	methKeys := map[string]bool{}
	k2b := func(v *seqVrec) string {
		return strings.Join([]string{v.u.T.OS, v.u.T.Name, strings.Join(v.seq, "+"), v.Kind, v.msgc, v.Where}, "\x00")
	}

	for _, v := range step2 {
		if v.u.Sec == "vfs" {
			methKeys[k2b(v)] = true
		}
	}

	step2b := step2[:0:0]

	for _, v := range step2 {
		if v.u.Sec == "helper" && !strings.HasPrefix(v.Where, "avfs.") && !strings.Contains(v.Where, "[") && strings.Contains(v.Where, "/") && methKeys[k2b(v)] {
			stats["folded_helper_forwarding_method_violation"]++

			continue
		}

		step2b = append(step2b, v)
	}

	step2 = step2b

	// 3. argument classes that do not matter: a position is written "*" when
	// the violation occurs for every class of that parameter (all other
	// positions as in this tuple, starred ones ranging over all their classes)
	type grp struct {
		recs   []*seqVrec
		tuples map[string]bool
	}

	g3 := map[string]*grp{}
	key3 := func(v *seqVrec) string {
		return strings.Join([]string{v.u.T.OS, v.u.Type, v.u.FS, v.u.Method, hk(v.u), v.u.stateClass(), v.Kind, v.msgc, v.Where}, "\x00")
	}

	classesOf := func(v *seqVrec) []string {
		var cs []string
		for _, a := range v.args {
			cs = append(cs, a.Class)
		}

		return cs
	}

	for _, v := range step2 {
		k := key3(v)
		if g3[k] == nil {
			g3[k] = &grp{tuples: map[string]bool{}}
		}

		g3[k].recs = append(g3[k].recs, v)
		g3[k].tuples[strings.Join(classesOf(v), ",")] = true
	}

	domClasses := func(u *seqUnit, p int) []string {
		seen := map[string]bool{}

		var out []string

		for _, a := range u.Doms[p] {
			if !seen[a.Class] {
				seen[a.Class] = true
				out = append(out, a.Class)
			}
		}

		return out
	}

	// allIn reports whether every tuple obtained from t by letting the
	// positions of star range over all their classes is in the group.
	var allIn func(g *grp, u *seqUnit, t []string, star []int) bool

	allIn = func(g *grp, u *seqUnit, t []string, star []int) bool {
		if len(star) == 0 {
			return g.tuples[strings.Join(t, ",")]
		}

		p := star[0]
		save := t[p]

		defer func() { t[p] = save }()

		for _, c := range domClasses(u, p) {
			t[p] = c
			if !allIn(g, u, t, star[1:]) {
				return false
			}
		}

		return true
	}

	starred := func(v *seqVrec) []string {
		g := g3[key3(v)]
		t := classesOf(v)

		var star []int

		for p := len(t) - 1; p >= 0; p-- {
			if len(domClasses(v.u, p)) < 2 {
				continue
			}

			if allIn(g, v.u, append([]string{}, t...), append([]int{p}, star...)) {
				star = append(star, p)
			}
		}

		for _, p := range star {
			t[p] = "*"
		}

		return t
	}

	sort.Slice(step2, func(i, j int) bool { return step2[i].Ord < step2[j].Ord })

	seenSig := map[string]bool{}

	for _, v := range step2 {
		var cs []string

		if v.u.HK != nil {
			cs = append(cs, "h:"+v.u.HK.Name)
		}

		cs = append(cs, starred(v)...)

		sig := v.u.signature(strings.Join(cs, ","), v.Kind, v.msgc, v.Where)
		sk := fmt.Sprint(sig)

		var rp map[string]any

		if !seenSig[sk] {
			seenSig[sk] = true
			rp = v.u.replay(v.j, v.args, v.Kind, v.Msg, v.Where)
		} else {
			rp = map[string]any{"case": v.u.caseKey(v.j), "call": showCall(v.u, v.args)}
		}

		out = append(out, seqViol{Ord: v.Ord, Sig: sig, Replay: rp})
	}

	stats["reported_cases"] = len(out)
	stats["distinct_signatures"] = len(seenSig)

	return out, stats, nil
}
