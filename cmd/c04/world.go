package main

import (
	"fmt"
	"io/fs"
	"os"
	"path/filepath"
	"sort"
	"strconv"
	"strings"
	"syscall"
	"time"

	"github.com/avfs/avfs"
	"github.com/avfs/avfs/idm/osidm"
	"github.com/avfs/avfs/vfs/memfs"
	"github.com/avfs/avfs/vfs/osfs"

	"verif/lib/fsx"
)

// world holds the two sides of one configuration: the kernel tree on tmpfs
// and a fresh MemFS holding the same tree at the same absolute path.
//
// Layout: base = $VERIF_SCRATCH/c04-<pid> ; R = base/u4/u3/u2/u1/r. Query
// paths have at most 4 components, each of which climbs at most one level, so
// nothing a call can reach or change lies outside base/u4; dumps start at
// base and therefore show every object a call can have touched.
//
// R0 is where the tree is made (skeleton, links, expansion of the absolute
// targets); R is the root the questions are asked from: R0, except after the
// move "root", which renames R0 to its sibling base/u4/u3/u2/u1/s.
type world struct {
	base, R0, R string
	k           *osfs.OsFS
	v           avfs.VFS
	links       []Link
	move        string // see allMoves; "" = the links stay where they were made
	mode        int    // 0 absolute queries (cwd "/"), 1 cwd = R, 2 cwd = the directory made as R/d

	pristineK, pristineV   []string
	pristineKs, pristineVs string
	pristineDiff           map[string]bool
	dirtyK, dirtyV         bool
	builds, undos          int

	// internal (hook) dump of the pristine MemFS: cheap change detection
	pristineVI string

	// alt: the kernel tree currently holds the links with lexically cleaned
	// targets (normalisation "target-cleaned"); altPristineK/altDiff belong to it
	alt          bool
	altPristineK []string
	altDiff      map[string]bool
}

var upDirs = []string{"u4", "u3", "u2", "u1", "r"}

func newWorld(scratch string) *world {
	base := filepath.Join(scratch, fmt.Sprintf("c04-%d", os.Getpid()))
	w := &world{base: base, R0: filepath.Join(append([]string{base}, upDirs...)...)}
	w.R = w.R0

	// os.Getwd must ask the kernel (it trusts $PWD when that names the cwd)
	_ = os.Unsetenv("PWD")

	w.k = osfs.NewWithOptions(&osfs.Options{Idm: osidm.New()})

	return w
}

func (w *world) close() {
	_ = os.Chdir("/")
	_ = os.RemoveAll(w.base)
}

func (w *world) expand(target string) string {
	if strings.HasPrefix(target, "R/") {
		return w.R0 + target[1:]
	}

	return target
}

// linkPath is where the link is made.
func (w *world) linkPath(l Link) string {
	if l.Place == "d" {
		return w.R0 + "/d/" + l.Name
	}

	return w.R0 + "/" + l.Name
}

// otherPath is the same name in the other placement.
func (w *world) otherPath(l Link) string {
	if l.Place == "d" {
		return w.R0 + "/" + l.Name
	}

	return w.R0 + "/d/" + l.Name
}

// setMove selects the move of the configuration and with it the root the
// questions are asked from.
func (w *world) setMove(move string) {
	w.move = move
	w.R = w.R0

	if move == "root" {
		w.R = filepath.Dir(w.R0) + "/s"
	}
}

// moveSteps is the move as a sequence of Rename(old, new) calls, applied to
// both sides after the last Symlink (see allMoves).
func (w *world) moveSteps() [][2]string {
	link := func(k int, back bool) [][2]string {
		if k >= len(w.links) {
			return nil
		}

		a, b := w.linkPath(w.links[k]), w.otherPath(w.links[k])
		if back {
			return [][2]string{{a, b}, {b, a}}
		}

		return [][2]string{{a, b}}
	}

	d, e, dd := w.R0+"/d", w.R0+"/e", w.R0+"/dd"

	switch w.move {
	case "link1":
		return link(0, false)
	case "link1-back":
		return link(0, true)
	case "link2":
		return link(1, false)
	case "dir":
		return [][2]string{{d, e}}
	case "dir-back":
		return [][2]string{{d, e}, {e, d}}
	case "swap":
		return [][2]string{{d, e}, {dd, d}}
	case "root":
		return [][2]string{{w.R0, w.R}}
	}

	return nil
}

// dName is the present name of the directory made as R/d.
func (w *world) dName() string {
	if w.move == "dir" || w.move == "swap" {
		return "e"
	}

	return "d"
}

func (w *world) cwd() string {
	switch w.mode {
	case 1:
		return w.R
	case 2:
		return w.R + "/" + w.dName()
	}

	return "/"
}

// buildK (re)creates the kernel tree; any failure is a harness error.
func (w *world) buildK() error {
	w.builds++

	if err := os.Chdir("/"); err != nil {
		return err
	}

	if err := os.RemoveAll(filepath.Join(w.base, upDirs[0])); err != nil {
		return err
	}

	if err := os.MkdirAll(w.R0, 0o755); err != nil {
		return err
	}

	if err := os.Mkdir(w.R0+"/d", 0o755); err != nil {
		return err
	}

	if err := os.WriteFile(w.R0+"/d/f", []byte("DF"), 0o644); err != nil {
		return err
	}

	if err := os.WriteFile(w.R0+"/f", []byte("F"), 0o644); err != nil {
		return err
	}

	if err := os.Mkdir(w.R0+"/dd", 0o755); err != nil {
		return err
	}

	if err := os.WriteFile(w.R0+"/dd/f", []byte("DDF"), 0o644); err != nil {
		return err
	}

	for _, l := range w.links {
		t := w.expand(l.Target)
		if w.alt {
			t = filepath.Clean(t)
		}

		if err := os.Symlink(t, w.linkPath(l)); err != nil {
			return err
		}
	}

	for _, st := range w.moveSteps() {
		if err := os.Rename(st[0], st[1]); err != nil {
			return err
		}
	}

	w.dirtyK = false

	return os.Chdir(w.cwd())
}

// buildV creates a fresh MemFS with the same tree. A failure is returned as
// an outcome (it is the code under test that failed).
func (w *world) buildV() (res fsx.Res) {
	w.dirtyV = false
	res = fsx.Res{Kind: "ok"}

	k, msg := fsx.Guard(func() {
		v := memfs.NewWithOptions(&memfs.Options{OSType: avfs.OsLinux, SystemDirs: []avfs.DirInfo{{Path: "/tmp", Perm: 0o777}}})
		w.v = v
		_ = v.SetUMask(0o022)

		step := func(what string, err error) bool {
			if err != nil {
				res = fsx.Res{Kind: fsx.ErrKind(err), Msg: what + ": " + err.Error()}

				return false
			}

			return true
		}

		if !step("MkdirAll(R)", v.MkdirAll(w.R0, 0o755)) ||
			!step("Mkdir(R/d)", v.Mkdir(w.R0+"/d", 0o755)) ||
			!step("WriteFile(R/d/f)", v.WriteFile(w.R0+"/d/f", []byte("DF"), 0o644)) ||
			!step("WriteFile(R/f)", v.WriteFile(w.R0+"/f", []byte("F"), 0o644)) ||
			!step("Mkdir(R/dd)", v.Mkdir(w.R0+"/dd", 0o755)) ||
			!step("WriteFile(R/dd/f)", v.WriteFile(w.R0+"/dd/f", []byte("DDF"), 0o644)) {
			return
		}

		for _, l := range w.links {
			if !step("Symlink("+l.String()+")", v.Symlink(w.expand(l.Target), w.linkPath(l))) {
				return
			}
		}

		// the kernel performed every step of the move (buildK)
		for _, st := range w.moveSteps() {
			if !step("move "+w.move+": Rename("+st[0]+", "+st[1]+")", v.Rename(st[0], st[1])) {
				return
			}
		}

		if w.mode != 0 {
			step("Chdir", v.Chdir(w.cwd()))
		}
	})
	if k != "" {
		return fsx.Res{Kind: k, Msg: msg}
	}

	return res
}

func (w *world) dumpK(mtime bool) []string {
	return fsx.Dump(w.k, w.base, fsx.DumpOpts{StripPfx: w.base + "/", Mtime: mtime})
}

func (w *world) dumpV(mtime bool) []string {
	var vd []string

	k, msg := fsx.Guard(func() { vd = fsx.Dump(w.v, w.base, fsx.DumpOpts{StripPfx: w.base + "/", Mtime: mtime}) })
	if k != "" {
		vd = []string{". !dump-" + k + " " + msg}
	}

	return vd
}

// setup builds both sides for a configuration and records the pristine dumps
// and the attribute-level differences present before any call.
func (w *world) setup(c config, mode int) (avfsSetup fsx.Res, structural []string, err error) {
	w.links = c.Links
	w.setMove(c.Move)
	w.mode = mode
	w.alt = false
	w.altPristineK, w.altDiff = nil, nil

	if err := w.buildK(); err != nil {
		return fsx.Res{}, nil, fmt.Errorf("kernel-side build: %v", err)
	}

	avfsSetup = w.buildV()
	if avfsSetup.Kind != "ok" {
		return avfsSetup, nil, nil
	}

	w.pristineK = w.dumpK(false)
	w.pristineV = w.dumpV(false)
	w.pristineKs = strings.Join(w.pristineK, "\n")
	w.pristineVs = strings.Join(w.pristineV, "\n")
	w.pristineVI = w.internalDump()
	w.pristineDiff = map[string]bool{}

	for _, d := range treeDiff(w.pristineK, w.pristineV, "") {
		w.pristineDiff[d] = true

		// the symlink attribute divergences (size, link count) are reported
		// through Lstat under "lstat-attr"; anything else in a freshly built
		// tree means the two sides do not hold the same configuration
		if !strings.HasPrefix(d, "l:size") && !strings.HasPrefix(d, "l:nlink") {
			structural = append(structural, d)
		}
	}

	return avfsSetup, structural, nil
}

// setMode switches the working directory of both sides (pristine tree assumed).
func (w *world) setMode(mode int) error {
	w.mode = mode

	if err := os.Chdir(w.cwd()); err != nil {
		return err
	}

	var err error

	if k, msg := fsx.Guard(func() { err = w.v.Chdir(w.cwd()) }); k != "" {
		return fmt.Errorf("avfs Chdir: %s %s", k, msg)
	}

	if err != nil {
		return fmt.Errorf("avfs Chdir(%s): %v", w.cwd(), err)
	}

	return nil
}

// internalDump is the injected hook's dump of the MemFS node graph (no
// mtimes): used only to detect that a failed call changed nothing.
func (w *world) internalDump() string {
	s := ""

	if k, msg := fsx.Guard(func() { s = strings.Join(w.v.(*memfs.MemFS).VerifDump(), "\n") }); k != "" {
		return "!" + k + " " + msg
	}

	return s
}

// hasUncleanTargets reports whether lexical cleaning changes a link target.
func (w *world) hasUncleanTargets() bool {
	for _, l := range w.links {
		if t := w.expand(l.Target); filepath.Clean(t) != t {
			return true
		}
	}

	return false
}

// useAlt switches the kernel tree between the verbatim and the cleaned link
// targets (pristine afterwards).
func (w *world) useAlt(alt bool) error {
	if w.alt == alt && !w.dirtyK {
		return nil
	}

	w.alt = alt

	if err := w.buildK(); err != nil {
		return fmt.Errorf("kernel-side rebuild: %v", err)
	}

	if alt && w.altPristineK == nil {
		w.altPristineK = w.dumpK(false)
		w.altDiff = map[string]bool{}

		for _, d := range treeDiff(w.altPristineK, w.pristineV, "") {
			w.altDiff[d] = true
		}
	}

	return nil
}

// restore brings both sides back to the pristine configuration.
func (w *world) restore() error {
	if w.alt {
		w.alt = false
		w.dirtyK = true
	}

	if w.dirtyK {
		if err := w.buildK(); err != nil {
			return fmt.Errorf("kernel-side rebuild: %v", err)
		}
	}

	if w.dirtyV {
		if r := w.buildV(); r.Kind != "ok" {
			return fmt.Errorf("avfs rebuild failed although the first build succeeded: %s %s", r.Kind, r.Msg)
		}
	}

	return nil
}

func (w *world) call(cs callSpec, q string) fsx.Call {
	switch cs.Name {
	case "Chmod":
		return fsx.Call{Op: "Chmod", A: q, Perm: 0o600}
	case "Chtimes":
		return fsx.Call{Op: "Chtimes", A: q, N: 7}
	case "Truncate":
		return fsx.Call{Op: "Truncate", A: q, N: 1}
	case "Mkdir-below":
		return fsx.Call{Op: "Mkdir", A: q + "/new", Perm: 0o755}
	case "Rename(q,zz)":
		return fsx.Call{Op: "Rename", A: q, B: w.R + "/zz"}
	case "Rename(f,q)":
		return fsx.Call{Op: "Rename", A: w.R + "/f", B: q}
	case "Rename(d,q/n)":
		return fsx.Call{Op: "Rename", A: w.R + "/" + w.dName(), B: q + "/n"}
	case "Lchown":
		return fsx.Call{Op: "Lchown", A: q, N: 1001, M: 1001}
	case "Chown":
		return fsx.Call{Op: "Chown", A: q, N: 1002, M: 1002}
	case "Link(q,hl)":
		return fsx.Call{Op: "Link", A: q, B: w.R + "/hl"}
	case "Link(f,q)":
		return fsx.Call{Op: "Link", A: w.R + "/f", B: q}
	}

	if cs.Open {
		return fsx.Call{Op: "OpenFile", A: q, Flag: cs.Flag, Perm: openPerm}
	}

	return fsx.Call{Op: cs.Name, A: q}
}

var fixedMtime = fmt.Sprint(fsx.FixedTime.UnixNano() + 7_000_000_000)

// run executes one call on one side.
func (w *world) run(v avfs.VFS, cs callSpec, q string) fsx.Res {
	if cs.Name == "Open+Read" {
		return openRead(v, q)
	}

	if cs.Enter != 0 {
		return w.enter(v, q, cs.Enter == 2)
	}

	r := fsx.Do(v, w.call(cs, q))

	if cs.Name == "EvalSymlinks" && strings.HasPrefix(r.Kind, "other:") && strings.Contains(r.Kind, "too many links") {
		// filepath.EvalSymlinks reports its own link budget with errors.New
		r.Kind = "ELOOP"
	}

	return r
}

// openRead opens p read-only and reads up to 8 bytes: value = bytes read and
// the error kind of Read (EISDIR for a directory on Linux).
func openRead(v avfs.VFS, p string) (r fsx.Res) {
	k, msg := fsx.Guard(func() {
		f, err := v.Open(p)
		if err != nil {
			r = fsx.Res{Kind: fsx.ErrKind(err), Msg: err.Error()}

			return
		}

		defer f.Close()

		buf := make([]byte, 8)
		n, err := f.Read(buf)

		if n < 0 || n > len(buf) {
			r = fsx.Res{Kind: "ok", Val: fmt.Sprintf("n=%d/%s", n, fsx.ErrKind(err))}

			return
		}

		r = fsx.Res{Kind: "ok", Val: fmt.Sprintf("%q/%s", buf[:n], fsx.ErrKind(err))}
	})
	if k != "" {
		return fsx.Res{Kind: k, Msg: msg}
	}

	return r
}

// enter makes what p resolves to the working directory of v - Chdir(p), or
// Open(p) and File.Chdir on the handle - and asks the questions of enterProbes
// from inside (see enterProbes). Outcome: the error of Chdir / Open, else ok
// with the answers to the probes as value (or the error of File.Chdir). The
// working directory of the mode is restored on v afterwards, whatever happened.
func (w *world) enter(v avfs.VFS, p string, viaHandle bool) (r fsx.Res) {
	k, msg := fsx.Guard(func() {
		if viaHandle {
			f, err := v.Open(p)
			if err != nil {
				r = fsx.Res{Kind: fsx.ErrKind(err), Msg: err.Error()}

				return
			}

			err = f.Chdir()
			_ = f.Close()

			if err != nil {
				r = fsx.Res{Kind: "ok", Val: "File.Chdir=" + fsx.ErrKind(err), Msg: err.Error()}

				return
			}
		} else if err := v.Chdir(p); err != nil {
			r = fsx.Res{Kind: fsx.ErrKind(err), Msg: err.Error()}

			return
		}

		var ans []string

		for _, c := range enterProbes {
			ans = append(ans, probeString(c)+"="+fsx.Do(v, c).String())
		}

		r = fsx.Res{Kind: "ok", Val: strings.Join(ans, " ")}
	})
	if k != "" {
		r = fsx.Res{Kind: k, Msg: msg}
	}

	var err error

	if k, msg := fsx.Guard(func() { err = v.Chdir(w.cwd()) }); k != "" {
		return fsx.Res{Kind: k, Msg: "Chdir back to the working directory: " + msg}
	}

	if err != nil {
		r.Val += " back=" + fsx.ErrKind(err)
	}

	return r
}

func probeString(c fsx.Call) string {
	if c.A == "" {
		return c.Op + "()"
	}

	return c.Op + "(" + c.A + ")"
}

// ---- classification of a query in the (pristine) kernel tree ----

var viaRank = map[string]int{"none": 0, "rel": 1, "dotdot": 2, "abs": 3, "tofile": 4, "dangling": 5, "loop": 6}

var ddRank = map[string]int{"none": 0, "after-dir": 1, "after-missing": 2, "after-file": 3, "after-link": 4}

// classifyPath walks the query component by component with lstat/stat on the
// kernel side (tree must be pristine). via = the strongest kind of symbolic
// link met in intermediate position; dd = what the worst ".." component
// follows (a ".." after anything but a real directory cannot be removed
// lexically).
func (w *world) classifyPath(mode int, comps []string) (via, dd string) {
	prefix := w.R

	if mode == 2 {
		prefix = w.R + "/" + w.dName()
	}

	return classifyFrom(prefix, comps)
}

// classifyAbs classifies an absolute path below BASE.
func (w *world) classifyAbs(p string) (via, dd, final string) {
	rel := strings.TrimPrefix(strings.TrimPrefix(p, w.base), "/")

	var comps []string
	if rel != "" {
		comps = strings.Split(rel, "/")
	}

	via, dd = classifyFrom(w.base, comps)

	return via, dd, finalClass(fsx.Do(w.k, fsx.Call{Op: "Lstat", A: p}), fsx.Do(w.k, fsx.Call{Op: "Stat", A: p}))
}

func classifyFrom(prefix string, comps []string) (via, dd string) {
	via, dd = "none", "none"
	prev := "dir"

	sawLink := false

	for i, c := range comps {
		if c == ".." {
			x := "after-" + prev
			if sawLink {
				// the path up to here went through a symbolic link: removing
				// ".." lexically may name another object
				x = "after-link"
			}

			if ddRank[x] > ddRank[dd] {
				dd = x
			}
		}

		prefix += "/" + c

		if i == len(comps)-1 {
			break
		}

		fi, err := os.Lstat(prefix)

		switch {
		case err != nil:
			prev = "missing"
		case fi.Mode()&fs.ModeSymlink != 0:
			prev = "link"
			sawLink = true

			if x := linkKind(prefix); viaRank[x] > viaRank[via] {
				via = x
			}
		case fi.IsDir():
			prev = "dir"
		default:
			prev = "file"
		}
	}

	return via, dd
}

func linkKind(p string) string {
	fi, err := os.Stat(p)

	switch {
	case err != nil && fsx.ErrKind(err) == "ELOOP":
		return "loop"
	case err != nil:
		return "dangling"
	case !fi.IsDir():
		return "tofile"
	}

	t, _ := os.Readlink(p)

	switch {
	case strings.HasPrefix(t, "/"):
		return "abs"
	case strings.HasPrefix(t, ".."):
		return "dotdot"
	}

	return "rel"
}

// finalClass derives the class of the query's final component from the
// kernel's answers to Lstat and Stat.
func finalClass(lk, sk fsx.Res) string {
	if lk.Kind != "ok" {
		return "missing"
	}

	f := strings.Fields(lk.Val)
	if len(f) < 2 {
		return "?"
	}

	switch f[1] {
	case "d":
		return "dir"
	case "f":
		return "file"
	case "l":
		switch sk.Kind {
		case "ok":
			if g := strings.Fields(sk.Val); len(g) > 1 && g[1] == "d" {
				return "link>dir"
			}

			return "link>file"
		case "ELOOP":
			return "link>loop"
		}

		return "link>dangling"
	}

	return "other"
}

func kernelVersion() string {
	var u syscall.Utsname
	if err := syscall.Uname(&u); err != nil {
		return "unknown"
	}

	b := make([]byte, 0, len(u.Release))

	for _, c := range u.Release {
		if c == 0 {
			break
		}

		b = append(b, byte(c))
	}

	return string(b)
}

// undoK reverts the effect of a successful kernel-side call from the dump kd
// taken right after it, when the effect is a change of attributes or content
// of existing entries (chmod, chown, truncate, utimes) and/or the creation of
// new entries (mkdir, link): cheaper than rebuilding the tree. It returns
// false when a full rebuild is needed (entries disappeared or changed type).
// The result is verified against the pristine dump once per configuration.
func (w *world) undoK(kd []string) bool {
	pr := w.pristineK
	if w.alt {
		pr = w.altPristineK
	}

	pm := make(map[string]lineInfo, len(pr))

	for _, l := range pr {
		p, li, ok := parseLine(l)
		if !ok || strings.HasPrefix(li.typ, "!") {
			return false
		}

		pm[p] = li
	}

	real := func(p string) string {
		if p == "." {
			return w.base
		}

		return w.base + "/" + p
	}

	var added []string

	type fix struct {
		p    string
		a, b lineInfo // after, before
	}

	var fixes []fix

	seen := 0

	for _, l := range kd {
		p, li, ok := parseLine(l)
		if !ok || strings.HasPrefix(li.typ, "!") {
			return false
		}

		b, ok := pm[p]
		if !ok {
			added = append(added, p)

			continue
		}

		seen++

		if b.typ != li.typ {
			return false
		}

		if li.typ == "l" && li.rest != b.rest {
			return false
		}

		fixes = append(fixes, fix{p, li, b})
	}

	if seen != len(pm) {
		return false // something disappeared
	}

	// new entries first, deepest first (restores link counts and classes)
	sort.Sort(sort.Reverse(sort.StringSlice(added)))

	for _, p := range added {
		if err := os.Remove(real(p)); err != nil {
			return false
		}
	}

	old := fsx.FixedTime.Add(-1000 * time.Second)

	for _, f := range fixes {
		rp := real(f.p)

		if (f.a.nlink != f.b.nlink || f.a.class != f.b.class) && len(added) == 0 {
			return false
		}

		if f.a.rest != f.b.rest || f.a.size != f.b.size {
			if f.a.typ != "f" {
				return false
			}

			c, err := strconv.Unquote(f.b.rest)
			if err != nil {
				return false
			}

			if err := os.WriteFile(rp, []byte(c), 0o644); err != nil {
				return false
			}
		}

		if f.a.owner != f.b.owner {
			var uid, gid int
			if _, err := fmt.Sscanf(f.b.owner, "%d:%d", &uid, &gid); err != nil {
				return false
			}

			if err := os.Lchown(rp, uid, gid); err != nil {
				return false
			}
		}

		if f.a.perm != f.b.perm {
			if f.a.typ == "l" {
				return false
			}

			m, err := strconv.ParseUint(f.b.perm, 8, 32)
			if err != nil {
				return false
			}

			if err := os.Chmod(rp, fsx.UnixMode(uint32(m))); err != nil {
				return false
			}
		}

		if f.a.mtime == fixedMtime {
			if f.a.typ == "l" {
				return false
			}

			if err := os.Chtimes(rp, old, old); err != nil {
				return false
			}
		}
	}

	w.dirtyK = false
	w.undos++

	return true
}
