package main

import (
	"fmt"
	"os"

	"github.com/avfs/avfs"
	"github.com/avfs/avfs/vfs/memfs"

	"verif/lib/fsx"
	"verif/lib/kf"
)

// Chain sweep: c1 -> c2 -> ... -> cN -> f (or -> d), N = 1..70, through
// relative and through absolute targets. The kernel gives up after 40 links
// per path walk, MemFS after 64 (slCountMax), filepath.EvalSymlinks after 255.

const chainMax = 70

func chainClass(n int) string {
	switch {
	case n <= 40:
		return "<=40"
	case n <= 64:
		return "41..64"
	}

	return ">64"
}

type chainCase struct {
	N      int    `json:"chain_length"`
	Abs    bool   `json:"absolute_targets"`
	Target string `json:"chain_end"` // "f" or "d"
	// Cross (round 12): the links alternate between R (odd) and R/d (even), so
	// that every target leaves the directory of its link ("d/c2", "../c3", or
	// the absolute spelling): code that splices a target into the path restarts
	// the walk there, and what it charges for a restart counts against the 40.
	Cross bool `json:"cross_directory,omitempty"`
}

func (w *world) buildChain(c chainCase) (fsx.Res, error) {
	name := func(i int) string { return fmt.Sprintf("c%d", i) }
	inD := func(i int) bool { return c.Cross && i%2 == 0 && i <= c.N } // link i lives in R/d
	loc := func(i int) string {
		if inD(i) {
			return w.R + "/d/" + name(i)
		}

		return w.R + "/" + name(i)
	}
	target := func(i int) string {
		t, tInD := c.Target, false
		if i < c.N {
			t, tInD = name(i+1), inD(i+1)
		}

		switch {
		case c.Abs && tInD:
			t = w.R + "/d/" + t
		case c.Abs:
			t = w.R + "/" + t
		case inD(i) && !tInD:
			t = "../" + t
		case !inD(i) && tInD:
			t = "d/" + t
		}

		return t
	}

	w.links = nil
	w.setMove("")
	w.mode = 0

	if err := w.buildK(); err != nil {
		return fsx.Res{}, err
	}

	for i := 1; i <= c.N; i++ {
		if err := os.Symlink(target(i), loc(i)); err != nil {
			return fsx.Res{}, err
		}
	}

	res := fsx.Res{Kind: "ok"}

	k, msg := fsx.Guard(func() {
		v := memfs.NewWithOptions(&memfs.Options{OSType: avfs.OsLinux, SystemDirs: []avfs.DirInfo{{Path: "/tmp", Perm: 0o777}}})
		w.v = v
		_ = v.SetUMask(0o022)

		errs := []error{
			v.MkdirAll(w.R, 0o755), v.Mkdir(w.R+"/d", 0o755),
			v.WriteFile(w.R+"/d/f", []byte("DF"), 0o644), v.WriteFile(w.R+"/f", []byte("F"), 0o644),
		}

		for i := 1; i <= c.N; i++ {
			errs = append(errs, v.Symlink(target(i), loc(i)))
		}

		for _, err := range errs {
			if err != nil {
				res = fsx.Res{Kind: fsx.ErrKind(err), Msg: err.Error()}

				return
			}
		}
	})
	if k != "" {
		res = fsx.Res{Kind: k, Msg: msg}
	}

	return res, nil
}

type chainQuery struct {
	pos, path string
	calls     []string
}

func chainQueries(c chainCase) []chainQuery {
	if c.Target == "f" {
		return []chainQuery{{"final", "c1", []string{"Lstat", "Stat", "Open+Read", "ReadFile", "EvalSymlinks", "Readlink"}}}
	}

	return []chainQuery{
		{"final", "c1", []string{"Lstat", "Stat", "Open+Read", "ReadDir", "EvalSymlinks", "Readlink"}},
		{"intermediate", "c1/f", []string{"Lstat", "Stat", "Open+Read", "ReadFile", "EvalSymlinks"}},
	}
}

func callByName(n string) callSpec {
	for _, c := range calls {
		if c.Name == n {
			return c
		}
	}

	panic("c04: unknown call " + n)
}

type chainStats struct {
	Configs int
	Evals   int
	Classes map[string]int
	Samples []map[string]any
	// measured limits: largest N for which the call on c1 (chain to f) succeeds
	KernelStatMax, AvfsStatMax, FilepathEvalMax, AvfsEvalMax int
}

// chainSweep runs the whole sweep serially; report is called per finding.
func chainSweep(w *world, e *evaluator, report func(sig kf.Sig, key [4]int, replay map[string]any)) (chainStats, error) {
	st := chainStats{Classes: map[string]int{}}
	ci := 0

	for _, shape := range [][2]bool{{false, false}, {true, false}, {false, true}, {true, true}} {
		abs, cross := shape[0], shape[1]

		for _, tgt := range []string{"f", "d"} {
			for n := 1; n <= chainMax; n++ {
				ci++
				c := chainCase{N: n, Abs: abs, Target: tgt, Cross: cross}

				setupRes, err := w.buildChain(c)
				if err != nil {
					return st, fmt.Errorf("chain %+v: kernel-side build: %v", c, err)
				}

				st.Configs++

				if setupRes.Kind != "ok" {
					report(kf.Sig{"call": "setup", "chain": chainClass(n), "pos": "-", "kernel": "ok", "avfs": setupRes.Kind, "kind": "chain"},
						[4]int{ci, 0, 0, 0}, map[string]any{"chain": c, "call": "setup", "avfs_msg": e.clean(setupRes.Msg)})

					continue
				}

				for qi, cq := range chainQueries(c) {
					q := w.R + "/" + cq.path

					for ki, cn := range cq.calls {
						cs := callByName(cn)
						rk := w.run(w.k, cs, q)
						rv := w.run(w.v, cs, q)
						st.Evals++
						st.Classes["chain:"+cn+"|"+rk.Kind+"|"+chainClass(n)+"|"+cq.pos]++

						if !abs && tgt == "f" {
							switch cn {
							case "Stat":
								if rk.Kind == "ok" {
									st.KernelStatMax = n
								}

								if rv.Kind == "ok" {
									st.AvfsStatMax = n
								}
							case "EvalSymlinks":
								if rk.Kind == "ok" {
									st.FilepathEvalMax = n
								}

								if rv.Kind == "ok" {
									st.AvfsEvalMax = n
								}
							}
						}

						if n == 40 || n == 41 || n == 65 {
							if len(st.Samples) < 8 && cn == "Stat" && !abs {
								st.Samples = append(st.Samples, map[string]any{"chain": c, "query": cq.path, "call": cn, "kernel": e.clean(rk.String()), "avfs": e.clean(rv.String())})
							}
						}

						for _, f := range e.compareRO(cs, q, rk, rv) {
							if f.kind == "lstat-attr" {
								continue // covered by the graph space
							}

							sig := kf.Sig{"call": cn, "chain": chainClass(n), "pos": cq.pos, "kernel": rk.Kind, "avfs": rv.Kind, "kind": "chain"}
							if f.kind != "outcome" {
								sig["what"] = f.kind + ":" + f.what
							}

							report(sig, [4]int{ci, 0, qi, ki}, map[string]any{
								"chain": c, "query": cq.path, "call": cn, "kernel": e.clean(rk.String()), "avfs": e.clean(rv.String()),
								"kernel_msg": e.clean(rk.Msg), "avfs_msg": e.clean(rv.Msg),
								"note": "links R/c1 -> c2 -> ... -> cN -> chain_end (f = file R/f, d = directory R/d); absolute_targets: every target spelled R/<name>; cross_directory: the even links live in R/d, targets d/cK, ../cK (absolute: R/d/cK, R/cK)",
							})
						}
					}
				}
			}
		}
	}

	return st, nil
}
