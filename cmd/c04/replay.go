package main

import (
	"encoding/json"
	"fmt"
	"os"
	"strings"

	"verif/lib/fsx"
)

// runReplay re-executes the single case stored in a replay file (written by
// kf.Reporter: {"property","signature","replay":{links|chain, cwd, query, call}})
// and prints both sides' answers. Exit 1 if the two sides still disagree.
func runReplay(path, scratch string) int {
	b, err := os.ReadFile(path)
	if err != nil {
		fmt.Fprintln(os.Stderr, "c04 replay:", err)

		return 2
	}

	var file struct {
		Signature map[string]string `json:"signature"`
		Replay    struct {
			Links []Link     `json:"links"`
			Move  string     `json:"move"`
			Chain *chainCase `json:"chain"`
			Cwd   string     `json:"cwd"`
			Query string     `json:"query"`
			Call  string     `json:"call"`
		} `json:"replay"`
	}

	if err := json.Unmarshal(b, &file); err != nil {
		fmt.Fprintln(os.Stderr, "c04 replay:", err)

		return 2
	}

	r := file.Replay
	w := newWorld(scratch)

	defer w.close()

	e := &evaluator{w: w, out: &workerOut{Classes: map[string]int{}, Viols: map[string]*violRec{}}}

	mode := 0

	for i, n := range modeNames {
		if n == r.Cwd {
			mode = i
		}
	}

	if r.Chain != nil {
		res, err := w.buildChain(*r.Chain)
		if err != nil || res.Kind != "ok" {
			fmt.Println("setup:", err, res)

			return 2
		}
	} else {
		res, structural, err := w.setup(config{Links: r.Links, Move: r.Move}, 0)
		if err != nil {
			fmt.Fprintln(os.Stderr, "c04 replay:", err)

			return 2
		}

		fmt.Printf("links: %v move: %q\nsetup on MemFS: %s %s %v\n", r.Links, r.Move, res.Kind, res.Msg, structural)

		if res.Kind != "ok" {
			return 1
		}

		if err := w.setMode(mode); err != nil {
			fmt.Fprintln(os.Stderr, "c04 replay:", err)

			return 2
		}
	}

	if r.Call == "" || strings.HasPrefix(r.Call, "setup") {
		return 0
	}

	cs := callByName(r.Call)
	q := r.Query

	if mode == 0 {
		q = w.R + "/" + r.Query
	}

	e.unclean = w.hasUncleanTargets()
	e.kcache = map[string]*kres{}
	e.clsCache = map[string]classes{}
	cls := e.classify(mode, q)

	var (
		rk, rv fsx.Res
		fs     []finding
	)

	var kd, vd []string

	if cs.Mut {
		rk, kd = e.mutK(cs, q)
		rv, vd = e.mutV(cs, q)
		fs = e.compareMut(cs, rk, kd, rv, vd)
	} else {
		rk, rv = w.run(w.k, cs, q), w.run(w.v, cs, q)
		fs = e.compareRO(cs, q, rk, rv)
	}

	fmt.Printf("cwd=%s query=%s via=%s final=%s\ncall: %s\nkernel: %s %s\navfs:   %s %s\n", modeNames[mode], r.Query, cls.via, cls.final,
		e.clean(w.callString(cs, q)), e.clean(rk.String()), e.clean(rk.Msg), e.clean(rv.String()), e.clean(rv.Msg))

	for _, f := range fs {
		fmt.Printf("finding: kind=%s what=%s\n  tree diff: %s\n", f.kind, f.what, f.treeDiff)
	}

	if len(fs) > 0 && r.Chain == nil {
		// the same question in normalised form (see evaluator.explain)
		_ = w.restore()

		for _, v := range e.variants(mode, q) {
			if err := w.useAlt(v.alt); err != nil {
				break
			}

			kr, err := e.kernel(cs, v.q)
			if err != nil {
				break
			}

			var vf []finding
			if cs.Mut {
				vf = e.compareMut(cs, kr.rk, kr.kd, rv, vd)
			} else {
				vf = e.compareRO(cs, v.q, kr.rk, rv)
			}

			fmt.Printf("normalised (%s): kernel on %s -> %s ; still differs from avfs: %v\n", v.name, e.clean(v.q), e.clean(kr.rk.String()), len(vf) > 0)
		}
	}

	if len(fs) > 0 {
		return 1
	}

	fmt.Println("no disagreement")

	return 0
}
