package main

import (
	"fmt"
	"os"
	"strings"

	"verif/lib/fsx"
)

// Link is one symbolic link of a configuration. Place is "R" (link path R/Name)
// or "d" (link path R/d/Name). Target is written symbolically: a leading
// "R/" stands for the absolute path of the scratch root.
type Link struct {
	Name   string `json:"name"`
	Place  string `json:"place"`
	Target string `json:"target"`
}

func (l Link) String() string { return fmt.Sprintf("%s/%s->%s", l.Place, l.Name, l.Target) }

// all target shapes of DESIGN §4 C04 (+ "../l1", "d/l1" asked for by the task).
var allTargets = []string{
	"f", "d", "d/f", "../f", "../d", ".", "..", "nope", "nope/x",
	"R/f", "R/d", "R/nope",
	"l1", "l2", "l3",
	"d/../l1", "../l1", "d/l1",
	// a sibling whose name has the name of the link's directory as a strict
	// prefix: substituting the link must not take "R/d" for a prefix of "R/dd"
	"../dd", "../dd/f",
}

var linkNames = []string{"l1", "l2", "l3"}

// Spellings of a target. General lesson: the value of a symbolic link is a
// STRING chosen by the caller, and the statement lets Readlink return it
// lexically cleaned - so what is stored (and measured by Lstat) is the result
// of a cleaning step, and code that cleans "only when needed" decides from
// the look of the string. The target shapes above are all clean except one;
// the unclean spellings that name the same thing are a dimension of their
// own: a separator after the last name (after a file, a directory, a missing
// name, a link name, "." and ".."), a doubled one, a trailing "/.", a leading
// "./" (a doubled separator after the root for an absolute target) and a
// doubled separator inside. Every one of them is rewritten by filepath.Clean;
// Readlink must return Clean of what was given and Lstat the length of that.
// (To the kernel a trailing separator also means "must be a directory": where
// MemFS resolves the cleaned target differently the normalisation
// "target-cleaned" of worker.go tells so, as for d/../l1.)
func spellings(t string) []string {
	root, rest := "", t
	if r, ok := strings.CutPrefix(t, "R/"); ok {
		root, rest = "R/", r
	}

	out := []string{t + "/", t + "//", t + "/."}

	if root != "" {
		out = append(out, "R//"+rest)
	} else if t != "." { // "./." is there already
		out = append(out, "./"+t)
	}

	if i := strings.Index(rest, "/"); i >= 0 {
		out = append(out, root+rest[:i]+"/"+rest[i:])
	}

	return out
}

// Moves: what happens to the tree BETWEEN the creation of the links and the
// questions. General lesson: the value of a relative symbolic link is
// interpreted at the time of every walk, from the directory the link sits in
// at that time, and an absolute one from the root as it is at that time - a
// link graph that is created and then only queried cannot tell an
// implementation that resolves (or caches) a target at creation from one that
// resolves it during the walk. So the links MOVE before they are followed:
// the link itself goes to the other directory (same name, other parent), the
// directory that holds the link (which is also an ancestor of the targets
// through d) gets another name, something else takes the old name, every
// ancestor changes at once (the root of the whole tree is renamed), and the
// there-and-back histories that end in the very place of creation (a cached
// resolution must be dropped twice). Each move is a fixed sequence of Rename
// calls applied to both sides after the last Symlink; the kernel's answers on
// the moved tmpfs tree are the oracle exactly as in the static stages.
//
//	link1, link2   Rename(P/lK, P'/lK): P the placement of link K (R or R/d), P' the other one
//	link1-back     link1, then back to where it was created
//	dir            Rename(R/d, R/e): links placed in d and targets through d
//	dir-back       dir, then Rename(R/e, R/d)
//	swap           Rename(R/d, R/e); Rename(R/dd, R/d): the old name now names another directory (with its own f)
//	root           Rename(R, R'): R' = sibling "s" of R; queries, cwd and call operands use R', absolute targets keep naming R
var allMoves = []string{"link1", "link1-back", "link2", "dir", "dir-back", "swap", "root"}

// config is one configuration: the link graph and the move applied to it
// ("" = none: the links are queried where they were created).
type config struct {
	Links []Link `json:"links"`
	Move  string `json:"move,omitempty"`
}

func (c config) String() string {
	s := make([]string, len(c.Links))
	for i, l := range c.Links {
		s[i] = l.String()
	}

	if c.Move != "" {
		s = append(s, "move="+c.Move)
	}

	return strings.Join(s, " ")
}

// space describes the configuration space for a number of links.
type space struct {
	nLinks  int
	targets []string
	moves   []string // "" only for the static stages
	spelled bool     // the targets are the unclean spellings of the target shapes
	alpha   []string // query component alphabet (without the name a move introduces)
}

// newSpace: with two links the name l3 does not exist in any tree, so the
// target "l3" and the query component "l3" are the same class as "nope"
// (a missing name) and are left out (likewise l2 with one link); with three
// links everything is in. moved: the configurations are the graphs crossed
// with every move of allMoves that applies to nLinks links. spelled: every
// target shape is replaced by its unclean spellings (see spellings).
func newSpace(nLinks int, moved, spelled bool) *space {
	s := &space{nLinks: nLinks, moves: []string{""}, spelled: spelled}

	for _, t := range allTargets {
		if (nLinks < 3 && t == "l3") || (nLinks < 2 && t == "l2") {
			continue
		}

		if spelled {
			s.targets = append(s.targets, spellings(t)...)

			continue
		}

		s.targets = append(s.targets, t)
	}

	if moved {
		s.moves = nil

		for _, m := range allMoves {
			if m == "link2" && nLinks < 2 {
				continue
			}

			s.moves = append(s.moves, m)
		}
	}

	for _, n := range linkNames[:nLinks] {
		s.alpha = append(s.alpha, n)
	}

	s.alpha = append(s.alpha, "d", "f", "..", "nope")

	return s
}

func (s *space) perLink() int { return 2 * len(s.targets) }

func (s *space) numConfigs() int {
	n := len(s.moves)
	for i := 0; i < s.nLinks; i++ {
		n *= s.perLink()
	}

	return n
}

// config decodes configuration index i (mixed radix: the move is the lowest
// digit, link k uses digit k+1).
func (s *space) config(i int) config {
	move := s.moves[i%len(s.moves)]
	i /= len(s.moves)

	out := make([]Link, s.nLinks)

	for k := 0; k < s.nLinks; k++ {
		c := i % s.perLink()
		i /= s.perLink()

		place := "R"
		if c%2 == 1 {
			place = "d"
		}

		out[k] = Link{Name: linkNames[k], Place: place, Target: s.targets[c/2]}
	}

	return config{Links: out, Move: move}
}

// alphaFor is the query alphabet after a move: the name "e" exists only after
// the moves that make it (anywhere else it is the class of "nope").
func (s *space) alphaFor(move string) []string {
	if move == "dir" || move == "swap" {
		return append(append([]string{}, s.alpha...), "e")
	}

	return s.alpha
}

// queries returns every sequence of exactly n components over the alphabet,
// in lexicographic order of alphabet indices.
func (s *space) queries(n int, move string) [][]string {
	alpha := s.alphaFor(move)

	total := 1
	for i := 0; i < n; i++ {
		total *= len(alpha)
	}

	out := make([][]string, 0, total)

	for i := 0; i < total; i++ {
		q := make([]string, n)
		x := i

		for k := n - 1; k >= 0; k-- {
			q[k] = alpha[x%len(alpha)]
			x /= len(alpha)
		}

		out = append(out, q)
	}

	return out
}

// callSpec is one call of the alphabet applied to a query path.
type callSpec struct {
	Name string
	Mut  bool
	Rel  bool // also run in the relative-path passes
	Open bool // a member of the open-flag product (run in the flag stages only)
	Flag int  // the flag argument of OpenFile
	// Enter: the call makes what the query resolves to the working directory
	// (1 = Chdir(q), 2 = Open(q) + File.Chdir) and questions it from inside
	Enter int
}

// Entering what a path resolves to. General lesson: a path is not only
// resolved to be looked at, it is also resolved to be ENTERED, and what is
// entered must be the object the walk reached, not the name that was walked:
// after chdir(2) or fchdir(2) through a symbolic link the working directory is
// the directory the link leads to - getcwd gives its link-free path and ".."
// is ITS parent, not the directory holding the link. An alphabet of calls that
// only look at the object (Stat, ReadDir ...) cannot tell an implementation
// that remembers the reached node from one that remembers the spelling. So on
// every query path: Chdir(q), and Open(q) followed by File.Chdir on the handle
// (the handle keeps what Open found), each followed by the questions of
// enterProbes asked from inside - Getwd, the listing of "." and of "..", and
// a file read through ".." - the results on both sides being compared as one
// value; the working directory of the mode is restored afterwards on both
// sides. The oracle is the kernel (os.Chdir, (*os.File).Chdir, os.Getwd and
// relative names in the worker process, which owns its cwd).
var enterProbes = []fsx.Call{
	{Op: "Getwd"},
	{Op: "ReadDir", A: "."},
	{Op: "ReadDir", A: ".."},
	{Op: "ReadFile", A: "../f"},
	{Op: "ReadFile", A: "../d/f"},
}

var calls = []callSpec{
	{Name: "Lstat", Mut: false, Rel: true},
	{Name: "Stat", Mut: false, Rel: true},
	{Name: "Open+Read", Mut: false, Rel: true},
	{Name: "ReadFile", Mut: false, Rel: true},
	{Name: "ReadDir", Mut: false, Rel: true},
	{Name: "Readlink", Mut: false, Rel: true},
	{Name: "EvalSymlinks", Mut: false, Rel: true},
	{Name: "Chdir+probes", Mut: false, Rel: true, Enter: 1},
	{Name: "Open+File.Chdir+probes", Mut: false, Rel: true, Enter: 2},
	{Name: "Chmod", Mut: true, Rel: true},
	{Name: "Chtimes", Mut: true, Rel: false},
	{Name: "Truncate", Mut: true, Rel: false},
	{Name: "Mkdir-below", Mut: true, Rel: true},
	{Name: "Remove", Mut: true, Rel: true},
	{Name: "Rename(q,zz)", Mut: true, Rel: true},
	{Name: "Rename(f,q)", Mut: true, Rel: false},
	// the directory R/d moved to a name reached through the query path: when the
	// query leads back below R/d (through a link) rename(2) answers EINVAL
	{Name: "Rename(d,q/n)", Mut: true, Rel: false},
	{Name: "Lchown", Mut: true, Rel: false},
	{Name: "Chown", Mut: true, Rel: false},
	{Name: "Link(q,hl)", Mut: true, Rel: false},
	{Name: "Link(f,q)", Mut: true, Rel: true},
}

// The open-flag product. General lesson: whether the LAST element of a name is
// followed when it is a symbolic link is not a property of the call but of the
// COMBINATION of its flags, and open(2) decides it from combinations, not from
// single bits: O_CREAT|O_EXCL does not follow (the name exists: EEXIST, also
// for a dangling link), O_EXCL without O_CREAT is ignored (the link is
// followed), O_CREAT alone follows and creates the target of a dangling link,
// O_TRUNC follows and truncates what the link leads to, and each of them with
// every access mode (a directory reached through the link opens read-only and
// is EISDIR for writing or creating). An alphabet with a few fixed flag sets
// (Open, ReadFile, WriteFile ...) cannot tell an implementation that tests one
// bit from one that tests the combination. So the flag argument is a dimension
// of its own: OpenFile + Close with every member of
// {O_RDONLY, O_WRONLY, O_RDWR} x {-, O_EXCL} x {-, O_CREATE} x {-, O_TRUNC}
// on every query path (final element a link to a file, to a directory,
// dangling, looping, a file, a directory, missing; links in intermediate
// position), each on a pristine tree and followed by the comparison of the
// whole trees (what was created or truncated, and where). The oracle is the
// kernel given the same flags through package os on tmpfs. These calls are
// appended to the alphabet and run in the flag stages (stage.Flags) only.
var (
	openAccess = []int{os.O_RDONLY, os.O_WRONLY, os.O_RDWR}
	openBits   = []int{os.O_EXCL, os.O_CREATE, os.O_TRUNC}
)

const openPerm = 0o644

func init() {
	for _, acc := range openAccess {
		for m := 0; m < 1<<len(openBits); m++ {
			fl := acc

			for b, bit := range openBits {
				if m&(1<<b) != 0 {
					fl |= bit
				}
			}

			calls = append(calls, callSpec{Name: "OpenFile(" + fsx.FlagString(fl) + ")", Mut: true, Rel: true, Open: true, Flag: fl})
		}
	}
}

// stage is one exhaustively enumerated sub-space: all configurations with
// nLinks links × all absolute queries with a length in absLens × all calls,
// plus all relative queries (cwd = R and cwd = R/d) with a length in relLens.
//
// Moved: the configurations are the graphs crossed with every move (see
// allMoves); the questions are asked of the moved tree.
//
// Flags: the calls are Lstat (for the class of the query's final component)
// and the open-flag product instead of the 21 calls of the other stages.
//
// Spelled: the targets are the unclean spellings of the target shapes (see
// spellings) instead of the shapes themselves.
type stage struct {
	Name    string
	NLinks  int
	AbsLens []int
	RelLens []int
	Moved   bool
	Flags   bool
	Spelled bool
}

// runs tells whether call i of the alphabet belongs to the stage.
func (st stage) runs(i int, cs callSpec) bool {
	if st.Flags {
		return cs.Open || i == 0
	}

	return !cs.Open
}

func (st stage) numCalls() int {
	n := 0

	for i, cs := range calls {
		if st.runs(i, cs) {
			n++
		}
	}

	return n
}

func (st stage) bound() string {
	graphs := fmt.Sprintf("all %d-link graphs (placement x target)", st.NLinks)

	if st.Spelled {
		sp := st.space()
		graphs = fmt.Sprintf("all %d-link graphs (placement x unclean spelling of a target shape: %d spellings - every shape with a trailing /, a trailing //, a trailing /., a leading ./ (// after the root R for an absolute target) and, where it has one, its inner separator doubled)", st.NLinks, len(sp.targets))
	}

	if st.Moved {
		sp := newSpace(st.NLinks, true, false)
		graphs += fmt.Sprintf(" x every move applied after the links are made {%s} (query alphabet + e after dir and swap)", strings.Join(sp.moves, ","))
	}

	what := fmt.Sprintf("%d calls", st.numCalls())
	if st.Flags {
		what = fmt.Sprintf("%d calls: Lstat + OpenFile(flags)+Close for every flag set of {RDONLY,WRONLY,RDWR} x {-,EXCL} x {-,CREATE} x {-,TRUNC}, trees compared after each", st.numCalls())
	}

	return fmt.Sprintf("%s: %s x absolute queries of length %s x %s + relative queries (cwd=R, cwd=the directory made as R/d) of length %s",
		st.Name, graphs, lensString(st.AbsLens), what, lensString(st.RelLens))
}

func (st stage) space() *space { return newSpace(st.NLinks, st.Moved, st.Spelled) }

func lensString(l []int) string {
	var s []string
	for _, x := range l {
		s = append(s, fmt.Sprint(x))
	}

	return "{" + strings.Join(s, ",") + "}"
}

func stagesFor(tier string) []stage {
	// M: the moved graphs, one link at the query depth of A; thorough adds one
	// link at the depth of B/E (M4) and two links of which one or none moves (N).
	// F: the open-flag product on all 1-link graphs at the query depth of A;
	// thorough adds one link at the depth of B/E (F4) and two links (F2).
	// S: every unclean spelling of every target shape, one link; what the
	// spelling changes is the value of the link, not the walk to it, so quick
	// asks the short queries and thorough the queries of A
	if tier != "thorough" {
		return []stage{
			{Name: "M", NLinks: 1, AbsLens: []int{1, 2, 3}, RelLens: []int{1, 2}, Moved: true},
			{Name: "F", NLinks: 1, AbsLens: []int{1, 2, 3}, RelLens: []int{1, 2}, Flags: true},
			{Name: "S", NLinks: 1, AbsLens: []int{1, 2}, RelLens: []int{1}, Spelled: true},
			{Name: "A", NLinks: 2, AbsLens: []int{1, 2, 3}, RelLens: []int{1, 2}},
		}
	}

	return []stage{
		{Name: "M", NLinks: 1, AbsLens: []int{1, 2, 3}, RelLens: []int{1, 2}, Moved: true},
		{Name: "F", NLinks: 1, AbsLens: []int{1, 2, 3}, RelLens: []int{1, 2}, Flags: true},
		{Name: "S", NLinks: 1, AbsLens: []int{1, 2, 3}, RelLens: []int{1, 2}, Spelled: true},
		{Name: "A", NLinks: 2, AbsLens: []int{1, 2, 3}, RelLens: []int{1, 2}},
		{Name: "N", NLinks: 2, AbsLens: []int{1, 2}, RelLens: []int{1}, Moved: true},
		{Name: "M4", NLinks: 1, AbsLens: []int{4}, RelLens: []int{3}, Moved: true},
		{Name: "F4", NLinks: 1, AbsLens: []int{4}, RelLens: []int{3}, Flags: true},
		{Name: "F2", NLinks: 2, AbsLens: []int{1, 2}, RelLens: []int{1}, Flags: true},
		{Name: "C", NLinks: 3, AbsLens: []int{1, 2}, RelLens: []int{1}},
		{Name: "B", NLinks: 2, AbsLens: []int{4}, RelLens: []int{3}},
		{Name: "D", NLinks: 3, AbsLens: []int{3}, RelLens: []int{2}},
		{Name: "E", NLinks: 3, AbsLens: []int{4}, RelLens: []int{3}},
	}
}

// stageByName: the stage as the tier defines it (S is shallower in the quick
// tier), any other stage as the thorough tier defines it.
func stageByName(tier, name string) (stage, bool) {
	for _, st := range append(stagesFor(tier), stagesFor("thorough")...) {
		if st.Name == name {
			return st, true
		}
	}

	return stage{}, false
}

var modeNames = []string{"abs", "relR", "reld"}
