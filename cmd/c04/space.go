package main

import (
	"fmt"
	"strings"
)

// Link is one symbolic link of a configuration. Place is "R" (link path R/Name)
// or "d" (link path R/d/Name). Target is written symbolically: a leading
// "R/" stands for the absolute path of the scratch root.
type Link struct {
	Name   string `json:"name"`
	Place  string `json:"place"`
	Target string `json:"target"`
}

func (l Link) String() string { return fmt.Sprintf("%s/%s->%s", l.Place, l.Name, l.Target) }

// all target shapes of DESIGN §4 C04 (+ "../l1", "d/l1" asked for by the task).
var allTargets = []string{
	"f", "d", "d/f", "../f", "../d", ".", "..", "nope", "nope/x",
	"R/f", "R/d", "R/nope",
	"l1", "l2", "l3",
	"d/../l1", "../l1", "d/l1",
	// a sibling whose name has the name of the link's directory as a strict
	// prefix: substituting the link must not take "R/d" for a prefix of "R/dd"
	"../dd", "../dd/f",
}

var linkNames = []string{"l1", "l2", "l3"}

// space describes the configuration space for a number of links.
type space struct {
	nLinks  int
	targets []string
	alpha   []string // query component alphabet
}

// newSpace: with two links the name l3 does not exist in any tree, so the
// target "l3" and the query component "l3" are the same class as "nope"
// (a missing name) and are left out; with three links everything is in.
func newSpace(nLinks int) *space {
	s := &space{nLinks: nLinks}

	for _, t := range allTargets {
		if nLinks < 3 && t == "l3" {
			continue
		}

		s.targets = append(s.targets, t)
	}

	for _, n := range linkNames[:nLinks] {
		s.alpha = append(s.alpha, n)
	}

	s.alpha = append(s.alpha, "d", "f", "..", "nope")

	return s
}

func (s *space) perLink() int { return 2 * len(s.targets) }

func (s *space) numConfigs() int {
	n := 1
	for i := 0; i < s.nLinks; i++ {
		n *= s.perLink()
	}

	return n
}

// config decodes configuration index i (mixed radix: link k uses digit k).
func (s *space) config(i int) []Link {
	out := make([]Link, s.nLinks)

	for k := 0; k < s.nLinks; k++ {
		c := i % s.perLink()
		i /= s.perLink()

		place := "R"
		if c%2 == 1 {
			place = "d"
		}

		out[k] = Link{Name: linkNames[k], Place: place, Target: s.targets[c/2]}
	}

	return out
}

// queries returns every sequence of exactly n components over the alphabet,
// in lexicographic order of alphabet indices.
func (s *space) queries(n int) [][]string {
	total := 1
	for i := 0; i < n; i++ {
		total *= len(s.alpha)
	}

	out := make([][]string, 0, total)

	for i := 0; i < total; i++ {
		q := make([]string, n)
		x := i

		for k := n - 1; k >= 0; k-- {
			q[k] = s.alpha[x%len(s.alpha)]
			x /= len(s.alpha)
		}

		out = append(out, q)
	}

	return out
}

// callSpec is one call of the alphabet applied to a query path.
type callSpec struct {
	Name string
	Mut  bool
	Rel  bool // also run in the relative-path passes
}

var calls = []callSpec{
	{"Lstat", false, true},
	{"Stat", false, true},
	{"Open+Read", false, true},
	{"ReadFile", false, true},
	{"ReadDir", false, true},
	{"Readlink", false, true},
	{"EvalSymlinks", false, true},
	{"Chmod", true, true},
	{"Chtimes", true, false},
	{"Truncate", true, false},
	{"Mkdir-below", true, true},
	{"Remove", true, true},
	{"Rename(q,zz)", true, true},
	{"Rename(f,q)", true, false},
	// the directory R/d moved to a name reached through the query path: when the
	// query leads back below R/d (through a link) rename(2) answers EINVAL
	{"Rename(d,q/n)", true, false},
	{"Lchown", true, false},
	{"Chown", true, false},
	{"Link(q,hl)", true, false},
	{"Link(f,q)", true, true},
}

// stage is one exhaustively enumerated sub-space: all configurations with
// nLinks links × all absolute queries with a length in absLens × all calls,
// plus all relative queries (cwd = R and cwd = R/d) with a length in relLens.
type stage struct {
	Name    string
	NLinks  int
	AbsLens []int
	RelLens []int
}

func (st stage) bound() string {
	return fmt.Sprintf("%s: all %d-link graphs (placement x target) x absolute queries of length %s x %d calls + relative queries (cwd=R, cwd=R/d) of length %s",
		st.Name, st.NLinks, lensString(st.AbsLens), len(calls), lensString(st.RelLens))
}

func lensString(l []int) string {
	var s []string
	for _, x := range l {
		s = append(s, fmt.Sprint(x))
	}

	return "{" + strings.Join(s, ",") + "}"
}

func stagesFor(tier string) []stage {
	if tier != "thorough" {
		return []stage{{Name: "A", NLinks: 2, AbsLens: []int{1, 2, 3}, RelLens: []int{1, 2}}}
	}

	return []stage{
		{Name: "A", NLinks: 2, AbsLens: []int{1, 2, 3}, RelLens: []int{1, 2}},
		{Name: "C", NLinks: 3, AbsLens: []int{1, 2}, RelLens: []int{1}},
		{Name: "B", NLinks: 2, AbsLens: []int{4}, RelLens: []int{3}},
		{Name: "D", NLinks: 3, AbsLens: []int{3}, RelLens: []int{2}},
		{Name: "E", NLinks: 3, AbsLens: []int{4}, RelLens: []int{3}},
	}
}

func stageByName(tier, name string) (stage, bool) {
	for _, st := range stagesFor("thorough") {
		if st.Name == name {
			return st, true
		}
	}

	return stage{}, false
}

var modeNames = []string{"abs", "relR", "reld"}
