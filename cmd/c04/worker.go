package main

import (
	"encoding/json"
	"fmt"
	"hash/fnv"
	"os"
	"path/filepath"
	"regexp"
	"runtime/debug"
	"runtime/pprof"
	"strings"
	"sync/atomic"
	"syscall"
	"time"

	"verif/lib/fsx"
	"verif/lib/kf"
)

// violRec is one distinct violation signature met by a worker, with the
// first instance in enumeration order.
type violRec struct {
	Sig    kf.Sig         `json:"sig"`
	Count  int            `json:"count"`
	Key    [4]int         `json:"key"` // config, mode, query rank, call: enumeration order
	ByCall map[string]int `json:"by_call,omitempty"`
	Replay map[string]any `json:"replay"`
}

// workerOut is what a worker hands back to the parent.
type workerOut struct {
	Stage         string              `json:"stage"`
	Shard         int                 `json:"shard"`
	Done          bool                `json:"done"` // whole shard evaluated
	Configs       int                 `json:"configs"`
	Evals         int                 `json:"evals"`
	KernelDumps   int                 `json:"kernel_dumps"`
	AvfsDumps     int                 `json:"avfs_dumps"`
	VariantEvals  int                 `json:"variant_evals"`
	Disagreements int                 `json:"disagreements"`
	Builds        int                 `json:"builds"`
	CacheHits     int                 `json:"kernel_cache_hits"`
	Undos         int                 `json:"kernel_undos"`
	Classes       map[string]int      `json:"classes"` // call|kernel outcome|final class -> evaluations
	Viols         map[string]*violRec `json:"viols"`
	Samples       []map[string]any    `json:"samples"`
	HarnessErr    string              `json:"harness_err,omitempty"`
	Nondeterm     string              `json:"nondeterminism,omitempty"`
}

type evaluator struct {
	w       *world
	sp      *space
	st      stage
	out     *workerOut
	cur     atomic.Pointer[string]
	nEvals  atomic.Int64
	hash    uint64 // hash of the results of the configuration being evaluated
	cfgIdx  int
	sampleN int
	unclean bool // the configuration has a link target that lexical cleaning changes

	// per configuration: the kernel's answers on pristine trees, by
	// (alt, call, path) - the normalised questions of many queries coincide
	kcache   map[string]*kres
	clsCache map[string]classes
}

func (e *evaluator) clean(s string) string {
	if e.w.R != e.w.R0 {
		// after the move "root": R0 is where the tree was made (the absolute
		// targets still name it), R where it is now
		s = strings.ReplaceAll(s, e.w.R0, "R0")
	}

	s = strings.ReplaceAll(s, e.w.R, "R")

	return strings.ReplaceAll(s, e.w.base, "BASE")
}

func (e *evaluator) report(sig kf.Sig, key [4]int, replay func() map[string]any) {
	k := sig.String()
	call := ""

	if key[3] >= 0 && key[3] < len(calls) && sig["call"] == "" {
		call = calls[key[3]].Name
	}

	if v, ok := e.out.Viols[k]; ok {
		v.Count++

		if call != "" {
			v.ByCall[call]++
		}

		if keyLess(key, v.Key) {
			v.Key = key
			v.Replay = replay()
		}

		return
	}

	v := &violRec{Sig: sig, Count: 1, Key: key, Replay: replay()}
	if call != "" {
		v.ByCall = map[string]int{call: 1}
	}

	e.out.Viols[k] = v
}

func keyLess(a, b [4]int) bool {
	for i := range a {
		if a[i] != b[i] {
			return a[i] < b[i]
		}
	}

	return false
}

type finding struct {
	kind, what, treeDiff string
}

// kres is the kernel's answer to one call on a pristine tree.
type kres struct {
	rk fsx.Res
	kd []string
}

func sameFindings(a, b []finding) bool {
	if len(a) != len(b) {
		return false
	}

	for i := range a {
		if a[i].kind != b[i].kind || a[i].what != b[i].what {
			return false
		}
	}

	return true
}

// statDiff compares two "name type perm uid:gid [sz n]" values.
func statDiff(k, v string, skipName bool) []string {
	kf, vf := strings.Fields(k), strings.Fields(v)
	if len(kf) != len(vf) {
		return []string{"shape"}
	}

	names := []string{"name", "type", "perm", "owner", "size", "nlink"}

	var d []string

	for i := range kf {
		if kf[i] != vf[i] && i < len(names) {
			if i == 0 && skipName {
				continue
			}

			d = append(d, names[i])
		}
	}

	return d
}

// compareRO compares the outcome of a read-only call. q is the path given to
// the kernel side.
func (e *evaluator) compareRO(cs callSpec, q string, rk, rv fsx.Res) []finding {
	if rk.Kind != rv.Kind {
		return []finding{{kind: "outcome"}}
	}

	if rk.Kind != "ok" {
		return nil
	}

	switch cs.Name {
	case "Stat", "Lstat":
		// FileInfo.Name is the base name of the argument; when the argument
		// ends in ".." no particular name is demanded.
		d := statDiff(rk.Val, rv.Val, filepath.Base(q) == ".." || q == "..")
		if len(d) == 0 {
			return nil
		}

		attrOnly := cs.Name == "Lstat" && strings.Fields(rk.Val)[1] == "l"

		for _, x := range d {
			if x != "size" && x != "nlink" {
				attrOnly = false
			}
		}

		if attrOnly {
			return []finding{{kind: "lstat-attr", what: strings.Join(d, "+")}}
		}

		return []finding{{kind: "value", what: strings.Join(d, "+")}}
	case "Readlink":
		if rv.Val != filepath.Clean(rk.Val) {
			return []finding{{kind: "value", what: "target"}}
		}
	case "EvalSymlinks":
		if rk.Val != rv.Val {
			return []finding{{kind: "value", what: "path"}}
		}
	default:
		if rk.Val != rv.Val {
			return []finding{{kind: "value", what: map[string]string{"Open+Read": "read", "ReadFile": "content", "ReadDir": "names", "Chdir+probes": "inside", "Open+File.Chdir+probes": "inside"}[cs.Name]}}
		}
	}

	return nil
}

var mtimeTok = regexp.MustCompile(` t(\d{16,})`)

// showDump makes dumps taken with and without mtimes comparable for display:
// the instant set by Chtimes becomes "tSET", every other mtime disappears.
func showDump(lines []string) []string {
	out := make([]string, len(lines))

	for i, l := range lines {
		out[i] = mtimeTok.ReplaceAllStringFunc(l, func(m string) string {
			if m[2:] == fixedMtime {
				return " tSET"
			}

			return ""
		})
	}

	return out
}

// mutK executes a mutating call on the kernel side (pristine tree) and
// returns the outcome and the resulting tree.
func (e *evaluator) mutK(cs callSpec, q string) (rk fsx.Res, kd []string) {
	w := e.w
	rk = w.run(w.k, cs, q)
	mt := cs.Name == "Chtimes"

	// A failed system call changes nothing (every kernel-side call here is a
	// single system call, os.Remove two that both failed), so the kernel dump
	// is taken only after a success.
	kd, ps := w.pristineK, w.pristineKs
	if w.alt {
		kd, ps = w.altPristineK, strings.Join(w.altPristineK, "\n")
	}

	if rk.Kind == "ok" {
		kd = w.dumpK(mt)
		e.out.KernelDumps++
		w.dirtyK = mt || strings.Join(kd, "\n") != ps
	}

	return rk, kd
}

func (e *evaluator) ckey(cs callSpec, q string) string {
	k := cs.Name + "|" + q
	if e.w.alt {
		return "A|" + k
	}

	return k
}

// kernel answers call cs on path q in the current (pristine) kernel tree,
// from the cache if the same question was asked before in this
// configuration; the tree is pristine again afterwards.
func (e *evaluator) kernel(cs callSpec, q string) (*kres, error) {
	// relative paths mean different things in different modes
	cacheable := filepath.IsAbs(q)
	key := ""

	if cacheable {
		key = e.ckey(cs, q)

		if r, ok := e.kcache[key]; ok {
			e.out.CacheHits++

			return r, nil
		}
	}

	r := &kres{}

	if cs.Mut {
		r.rk, r.kd = e.mutK(cs, q)

		if e.w.dirtyK && !e.w.undoK(r.kd) {
			alt := e.w.alt

			if err := e.w.buildK(); err != nil {
				return nil, fmt.Errorf("kernel-side rebuild: %v", err)
			}

			e.w.alt = alt
		}
	} else {
		r.rk = e.w.run(e.w.k, cs, q)
	}

	if cacheable {
		e.kcache[key] = r
	}

	return r, nil
}

// mutV executes a mutating call on MemFS (pristine tree). The tree is dumped
// through the public API after a success, and after a failure only if the
// node graph changed (hook dump).
func (e *evaluator) mutV(cs callSpec, q string) (rv fsx.Res, vd []string) {
	w := e.w
	rv = w.run(w.v, cs, q)
	mt := cs.Name == "Chtimes" && rv.Kind == "ok"

	switch {
	case rv.Kind == "PANIC" || rv.Kind == "DEADLOCK":
		w.dirtyV = true
		vd = w.dumpV(false)
	case rv.Kind != "ok" && w.internalDump() == w.pristineVI:
		vd = w.pristineV
	default:
		vd = w.dumpV(mt)
		e.out.AvfsDumps++
		w.dirtyV = mt || strings.Join(vd, "\n") != w.pristineVs
	}

	return rv, vd
}

// compareMut compares outcome and resulting trees of a mutating call.
func (e *evaluator) compareMut(cs callSpec, rk fsx.Res, kd []string, rv fsx.Res, vd []string) []finding {
	w := e.w
	masked := w.pristineDiff

	if w.alt {
		masked = w.altDiff
	}

	fm := ""
	if cs.Name == "Chtimes" {
		fm = fixedMtime
	}

	var nd []string

	// both trees untouched (the pristine slices themselves): nothing new
	pk := w.pristineK
	if w.alt {
		pk = w.altPristineK
	}

	untouched := len(kd) > 0 && len(vd) > 0 && len(pk) > 0 && &kd[0] == &pk[0] && &vd[0] == &w.pristineV[0]

	if !untouched {
		for _, d := range treeDiff(kd, vd, fm) {
			if !masked[d] {
				nd = append(nd, d)
			}
		}
	}

	td := ""
	if len(nd) > 0 {
		td = e.clean(fsx.DiffLines(showDump(kd), showDump(vd)))
	}

	if rk.Kind != rv.Kind {
		return []finding{{kind: "outcome", treeDiff: td}}
	}

	if len(nd) > 0 {
		return []finding{{kind: "tree", what: strings.Join(nd, ","), treeDiff: td}}
	}

	return nil
}

func (e *evaluator) mix(s string) {
	h := fnv.New64a()
	_, _ = h.Write([]byte(s))
	e.hash = e.hash*1099511628211 ^ h.Sum64()
}

// evalConfig evaluates one configuration completely.
func (e *evaluator) evalConfig(ci int) error {
	w := e.w
	cfg := e.sp.config(ci)
	links := cfg.Links
	e.cfgIdx = ci
	e.hash = 0

	desc := cfg.String()
	e.cur.Store(&desc)

	setupRes, structural, err := w.setup(cfg, 0)
	if err != nil {
		return err
	}

	if setupRes.Kind != "ok" || len(structural) > 0 {
		sig := kf.Sig{"call": "setup", "final": "-", "via": "-", "kernel": "ok", "avfs": setupRes.Kind, "kind": "setup"}
		if len(structural) > 0 {
			sig["what"] = strings.Join(structural, ",")
		}

		e.report(sig, [4]int{ci, 0, 0, 0}, func() map[string]any {
			return map[string]any{"links": links, "move": w.move, "call": "setup (MkdirAll, Mkdir, WriteFile, Symlink, then the Renames of the move)", "avfs": setupRes.Kind, "avfs_msg": e.clean(setupRes.Msg),
				"tree_diff": e.clean(fsx.DiffLines(w.pristineK, w.pristineV))}
		})

		e.out.Configs++

		return nil
	}

	e.unclean = w.hasUncleanTargets()
	e.kcache = map[string]*kres{}
	e.clsCache = map[string]classes{}

	for mode := 0; mode < 3; mode++ {
		lens := e.st.AbsLens
		if mode > 0 {
			lens = e.st.RelLens
		}

		if len(lens) == 0 {
			continue
		}

		if err := w.restore(); err != nil {
			return err
		}

		if err := w.setMode(mode); err != nil {
			return err
		}

		qrank := 0

		for _, n := range lens {
			for _, comps := range e.sp.queries(n, cfg.Move) {
				qrank++

				if err := e.evalQuery(ci, mode, n*100000+qrank, comps, links); err != nil {
					return err
				}
			}
		}
	}

	if err := w.restore(); err != nil {
		return err
	}

	if err := w.setMode(0); err != nil {
		return err
	}

	// the kernel tree must be pristine again (checks undoK and the rebuilds)
	if kd := strings.Join(w.dumpK(false), "\n"); kd != w.pristineKs {
		return fmt.Errorf("kernel tree not pristine at the end of the configuration: %s", e.clean(fsx.DiffLines(w.pristineK, strings.Split(kd, "\n"))))
	}

	e.out.Configs++

	return nil
}

// variant is a normalisation of the oracle's input: MemFS makes every path
// absolute and cleans it lexically before resolving it, and stores link
// targets lexically cleaned. Asking the kernel the normalised question tells
// whether a disagreement is explained by that (and what remains if not).
type variant struct {
	name string
	q    string
	alt  bool
}

func (e *evaluator) variants(mode int, q string) []variant {
	var qs []variant

	abs := q
	if mode != 0 {
		abs = e.w.cwd() + "/" + q
		qs = append(qs, variant{name: "query-absolute", q: abs})
	}

	if c := filepath.Clean(abs); c != abs {
		n := "query-cleaned"
		if mode != 0 {
			n = "query-absolute-cleaned"
		}

		qs = append(qs, variant{name: n, q: c})
	}

	out := append([]variant{}, qs...)

	if e.unclean {
		out = append(out, variant{name: "target-cleaned", q: q, alt: true})

		for _, v := range qs {
			out = append(out, variant{name: v.name + "+target-cleaned", q: v.q, alt: true})
		}
	}

	return out
}

type classes struct{ via, final string }

// classify gives the signature classes of path q (as given to the kernel,
// relative paths relative to the cwd of the mode) in the current, pristine
// kernel tree.
func (e *evaluator) classify(mode int, q string) classes {
	if !filepath.IsAbs(q) {
		q = e.w.cwd() + "/" + q
	}

	key := q
	if e.w.alt {
		key = "A|" + q
	}

	if c, ok := e.clsCache[key]; ok {
		return c
	}

	via, _, final := e.w.classifyAbs(q)
	c := classes{via: via, final: final}
	e.clsCache[key] = c

	return c
}

type evalRes struct {
	rk, rv fsx.Res
	kd, vd []string // trees after a mutating call
	fs     []finding
}

// explain is called for an evaluation with findings (both sides pristine
// again). It asks the kernel the normalised questions and reports.
func (e *evaluator) explain(ci, mode, qrank, callIdx int, cs callSpec, comps []string, q, dd string, r evalRes, links []Link) error {
	w := e.w
	key := [4]int{ci, mode, qrank, callIdx}

	type tried struct {
		v   variant
		rk  fsx.Res
		fs  []finding
		cls classes
	}

	var (
		tries     []tried
		explained *tried
	)

	for _, v := range e.variants(mode, q) {
		if err := w.useAlt(v.alt); err != nil {
			return err
		}

		t := tried{v: v, cls: e.classify(mode, v.q)}

		kr, err := e.kernel(cs, v.q)
		if err != nil {
			return err
		}

		t.rk = kr.rk

		if cs.Mut {
			t.fs = e.compareMut(cs, kr.rk, kr.kd, r.rv, r.vd)
		} else {
			t.fs = e.compareRO(cs, v.q, kr.rk, r.rv)
		}

		e.out.VariantEvals++
		tries = append(tries, t)

		if len(t.fs) == 0 {
			explained = &tries[len(tries)-1]

			break
		}
	}

	if err := w.restore(); err != nil {
		return err
	}

	replay := func(norm string, rk fsx.Res, f finding) func() map[string]any {
		return func() map[string]any {
			m := map[string]any{
				"links": links, "cwd": modeNames[mode], "query": strings.Join(comps, "/"), "call": cs.Name, "operation": e.clean(w.callString(cs, q)),
				"kernel": e.clean(r.rk.String()), "avfs": e.clean(r.rv.String()),
				"note": "tree under R: dir d, file d/f (\"DF\"), dir dd, file dd/f (\"DDF\"), file f (\"F\") + links; place R = link made in R, place d = link made in R/d; target R/x = absolute; cwd abs = query is R/<query>, relR = cwd R, reld = cwd R/d (the directory made as R/d under its present name)",
			}
			if w.move != "" {
				var st []string
				for _, x := range w.moveSteps() {
					st = append(st, e.clean(fmt.Sprintf("Rename(%s, %s)", x[0], x[1])))
				}

				m["move"] = w.move
				m["move_steps"] = "after the links were made and before the call: " + strings.Join(st, "; ")
			}
			if r.rk.Msg != "" {
				m["kernel_msg"] = e.clean(r.rk.Msg)
			}

			if r.rv.Msg != "" {
				m["avfs_msg"] = e.clean(r.rv.Msg)
			}

			if len(r.fs) > 0 && r.fs[0].treeDiff != "" {
				m["tree_diff"] = r.fs[0].treeDiff + "   (- kernel, + avfs; paths relative to BASE = R/../../../../..)"
			}

			if norm != "" {
				var tr []string
				for _, t := range tries {
					tr = append(tr, fmt.Sprintf("%s: kernel on %s -> %s", t.v.name, e.clean(t.v.q), e.clean(t.rk.String())))
				}

				m["normalisations_tried"] = tr
			}

			if f.treeDiff != "" && norm != "" {
				m["tree_diff_after_normalisation"] = f.treeDiff
			}

			return m
		}
	}

	full := func(cls classes, rk fsx.Res, f finding) kf.Sig {
		sig := kf.Sig{"call": cs.Name, "final": cls.final, "via": cls.via, "kernel": rk.Kind, "avfs": r.rv.Kind, "kind": f.kind}
		if f.what != "" {
			sig["what"] = f.what
		}

		return sig
	}

	// dd (what the worst ".." follows) qualifies the lexical cleaning of the
	// query only
	normSig := func(norm string) kf.Sig {
		d := "-"
		if strings.Contains(norm, "query-cleaned") || strings.Contains(norm, "query-absolute-cleaned") {
			d = dd
		}

		return kf.Sig{"kind": "normalised", "norm": norm, "dd": d}
	}

	switch {
	case explained != nil:
		e.report(normSig(explained.v.name), key, replay(explained.v.name, explained.rk, finding{}))
	case len(tries) == 0:
		cls := e.classify(mode, q)
		for _, f := range r.fs {
			e.report(full(cls, r.rk, f), key, replay("", r.rk, f))
		}
	default:
		last := tries[len(tries)-1]

		if sameFindings(last.fs, r.fs) && last.rk.Kind == r.rk.Kind {
			// the normalisations do not matter for this disagreement: report it
			// with the classes of the normalised (canonical) query
			for _, f := range r.fs {
				e.report(full(last.cls, r.rk, f), key, replay("", r.rk, f))
			}

			break
		}

		// normalising changes the comparison without settling it: two causes
		for _, t := range tries {
			if !sameFindings(t.fs, r.fs) || t.rk.Kind != r.rk.Kind {
				e.report(normSig(t.v.name), key, replay(t.v.name, t.rk, finding{}))

				break
			}
		}

		for _, f := range last.fs {
			e.report(full(last.cls, last.rk, f), key, replay(last.v.name, last.rk, f))
		}
	}

	return nil
}

func (e *evaluator) evalQuery(ci, mode, qrank int, comps []string, links []Link) error {
	w := e.w
	rel := strings.Join(comps, "/")
	q := rel

	if mode == 0 {
		q = w.R + "/" + rel
	}

	var (
		lk       fsx.Res
		final    string
		dd       string // what the worst ".." of the query follows (lazily computed)
		pathDesc = modeNames[mode] + ":" + rel
	)

	book := func(cs callSpec, r evalRes) {
		e.nEvals.Add(1)
		e.out.Evals++
		e.out.Classes[cs.Name+"|"+r.rk.Kind+"|"+final]++
		e.mix(r.rk.String())
		e.mix(r.rv.String())

		if len(r.fs) > 0 {
			e.out.Disagreements++
		}

		if e.sampleN < 6 && e.out.Shard == 0 && (e.out.Evals%977 == 1) {
			e.sampleN++
			e.out.Samples = append(e.out.Samples, map[string]any{
				"links": links, "move": w.move, "cwd": modeNames[mode], "query": rel, "call": cs.Name, "kernel": e.clean(r.rk.String()), "avfs": e.clean(r.rv.String()),
			})
		}
	}

	for i, cs := range calls {
		if (mode > 0 && !cs.Rel) || !e.st.runs(i, cs) {
			continue
		}

		d := pathDesc + " " + cs.Name
		e.cur.Store(&d)

		var r evalRes

		kr, err := e.kernel(cs, q)
		if err != nil {
			return err
		}

		r.rk, r.kd = kr.rk, kr.kd

		if !cs.Mut {
			r.rv = w.run(w.v, cs, q)

			if cs.Name == "Lstat" {
				// the class of the final component needs the kernel's Stat too
				lk = r.rk
				sk, err := e.kernel(calls[1], q)
				if err != nil {
					return err
				}

				final = finalClass(lk, sk.rk)
			}

			if r.rv.Kind == "PANIC" || r.rv.Kind == "DEADLOCK" {
				w.dirtyV = true
			}

			r.fs = e.compareRO(cs, q, r.rk, r.rv)
		} else {
			r.rv, r.vd = e.mutV(cs, q)
			r.fs = e.compareMut(cs, r.rk, r.kd, r.rv, r.vd)
		}

		if w.dirtyK || w.dirtyV {
			if err := w.restore(); err != nil {
				return err
			}
		}

		book(cs, r)

		if len(r.fs) > 0 {
			if dd == "" {
				// both sides are pristine here
				_, dd = w.classifyPath(mode, comps)
			}

			if err := e.explain(ci, mode, qrank, i, cs, comps, q, dd, r, links); err != nil {
				return err
			}
		}
	}

	return nil
}

func (w *world) callString(cs callSpec, q string) string {
	if cs.Name == "Open+Read" {
		return fmt.Sprintf("Open(%q)+Read(8)", q)
	}

	if cs.Enter != 0 {
		var ps []string
		for _, c := range enterProbes {
			ps = append(ps, probeString(c))
		}

		how := fmt.Sprintf("Chdir(%q)", q)
		if cs.Enter == 2 {
			how = fmt.Sprintf("f = Open(%q); f.Chdir(); f.Close()", q)
		}

		return how + "; then " + strings.Join(ps, ", ") + "; then Chdir back"
	}

	return w.call(cs, q).String()
}

// runWorker evaluates the configurations ci with (ci+rot) % n == shard.
func runWorker(tier, stageName string, shard, n, rot, onlyConfig int, deadline time.Time, outPath string) int {
	syscall.Umask(0o022)

	// the live heap is a few MB and every evaluation allocates: collect less often
	debug.SetGCPercent(1600)

	if p := os.Getenv("VERIF_C04_CPUPROFILE"); p != "" { // development aid
		if f, err := os.Create(fmt.Sprintf("%s.%d", p, shard)); err == nil {
			_ = pprof.StartCPUProfile(f)

			defer pprof.StopCPUProfile()
		}
	}

	st, ok := stageByName(tier, stageName)
	if !ok {
		fmt.Fprintln(os.Stderr, "c04 worker: unknown stage", stageName)

		return 2
	}

	scratch := os.Getenv("VERIF_SCRATCH")
	if scratch == "" {
		scratch = "/dev/shm"
	}

	w := newWorld(scratch)
	defer w.close()

	out := &workerOut{Stage: stageName, Shard: shard, Classes: map[string]int{}, Viols: map[string]*violRec{}}
	e := &evaluator{w: w, sp: st.space(), st: st, out: out}

	// watchdog: a single evaluation that does not finish within 120 s is a hang
	// (four orders of magnitude above a legitimate evaluation)
	go func() {
		last, since := int64(-1), time.Now()

		for {
			time.Sleep(2 * time.Second)

			if n := e.nEvals.Load(); n != last {
				last, since = n, time.Now()

				continue
			}

			if time.Since(since) > 120*time.Second {
				cur := ""
				if p := e.cur.Load(); p != nil {
					cur = *p
				}

				b, _ := json.Marshal(map[string]any{"config": e.sp.config(e.cfgIdx), "case": cur})
				_ = os.WriteFile(outPath+".hang", b, 0o644)
				_ = os.RemoveAll(w.base)

				os.Exit(3)
			}
		}
	}()

	write := func() {
		out.Builds = w.builds
		out.Undos = w.undos
		b, _ := json.Marshal(out)
		_ = os.WriteFile(outPath+".tmp", b, 0o644)
		_ = os.Rename(outPath+".tmp", outPath)
	}

	total := e.sp.numConfigs()
	first, firstHash := -1, uint64(0)
	done := true

	// VERIF_SEED rotates where the enumeration starts (matters only when the
	// budget cuts a stage short); shard s takes every n-th configuration
	if rot < 0 {
		rot = -rot
	}

	off := (rot * 7919) % total

	for i := 0; i < total; i++ {
		ci := (off + i) % total

		if onlyConfig >= 0 {
			// confirmation run of one configuration after a worker died or hung
			if ci != onlyConfig {
				continue
			}
		} else if i%n != shard {
			continue
		}

		if time.Now().After(deadline) {
			done = false

			break
		}

		_ = os.WriteFile(outPath+".cur", []byte(fmt.Sprint(ci)), 0o644)

		if err := e.evalConfig(ci); err != nil {
			out.HarnessErr = fmt.Sprintf("config %d %v: %v", ci, e.sp.config(ci), err)
			write()

			return 2
		}

		if first < 0 {
			first, firstHash = ci, e.hash
		}
	}

	// replay determinism: the first configuration of the shard is evaluated a
	// second time on a scratch result and must give the same results
	if first >= 0 {
		saved := *out
		tmp := &workerOut{Classes: map[string]int{}, Viols: map[string]*violRec{}, Shard: -1}
		e.out = tmp

		if err := e.evalConfig(first); err != nil {
			saved.HarnessErr = "re-evaluation: " + err.Error()
		} else if e.hash != firstHash {
			saved.Nondeterm = fmt.Sprintf("configuration %d %v gave different results when evaluated twice", first, e.sp.config(first))
		}

		*out = saved
		e.out = out
	}

	out.Done = done
	write()

	_ = os.Remove(outPath + ".cur")

	return 0
}
