package main

import (
	"encoding/json"
	"fmt"
	"hash/fnv"
	"os"
	"path/filepath"
	"strings"
	"sync/atomic"
	"syscall"
	"time"

	"verif/lib/fsx"
	"verif/lib/kf"
)

// violRec is one distinct violation signature met by a worker, with the
// first instance in enumeration order.
type violRec struct {
	Sig    kf.Sig         `json:"sig"`
	Count  int            `json:"count"`
	Key    [4]int         `json:"key"` // config, mode, query rank, call: enumeration order
	Replay map[string]any `json:"replay"`
}

// workerOut is what a worker hands back to the parent.
type workerOut struct {
	Stage       string              `json:"stage"`
	Shard       int                 `json:"shard"`
	Done        bool                `json:"done"` // whole shard evaluated
	Configs     int                 `json:"configs"`
	Evals       int                 `json:"evals"`
	KernelDumps int                 `json:"kernel_dumps"`
	Builds      int                 `json:"builds"`
	Classes     map[string]int      `json:"classes"` // call|kernel outcome|final class -> evaluations
	Viols       map[string]*violRec `json:"viols"`
	Samples     []map[string]any    `json:"samples"`
	HarnessErr  string              `json:"harness_err,omitempty"`
	Nondeterm   string              `json:"nondeterminism,omitempty"`
}

type evaluator struct {
	w       *world
	sp      *space
	st      stage
	out     *workerOut
	cur     atomic.Pointer[string]
	nEvals  atomic.Int64
	hash    uint64 // hash of the results of the configuration being evaluated
	cfgIdx  int
	sampleN int
}

func (e *evaluator) clean(s string) string {
	s = strings.ReplaceAll(s, e.w.R, "R")

	return strings.ReplaceAll(s, e.w.base, "BASE")
}

func (e *evaluator) report(sig kf.Sig, key [4]int, replay func() map[string]any) {
	k := sig.String()

	if v, ok := e.out.Viols[k]; ok {
		v.Count++

		if keyLess(key, v.Key) {
			v.Key = key
			v.Replay = replay()
		}

		return
	}

	e.out.Viols[k] = &violRec{Sig: sig, Count: 1, Key: key, Replay: replay()}
}

func keyLess(a, b [4]int) bool {
	for i := range a {
		if a[i] != b[i] {
			return a[i] < b[i]
		}
	}

	return false
}

type finding struct {
	kind, what, treeDiff string
}

// statDiff compares two "name type perm uid:gid [sz n]" values.
func statDiff(k, v string, skipName bool) []string {
	kf, vf := strings.Fields(k), strings.Fields(v)
	if len(kf) != len(vf) {
		return []string{"shape"}
	}

	names := []string{"name", "type", "perm", "owner", "size", "nlink"}

	var d []string

	for i := range kf {
		if kf[i] != vf[i] && i < len(names) {
			if i == 0 && skipName {
				continue
			}

			d = append(d, names[i])
		}
	}

	return d
}

// compareRO compares the outcome of a read-only call.
func (e *evaluator) compareRO(cs callSpec, comps []string, rk, rv fsx.Res) []finding {
	if rk.Kind != rv.Kind {
		return []finding{{kind: "outcome"}}
	}

	if rk.Kind != "ok" {
		return nil
	}

	switch cs.Name {
	case "Stat", "Lstat":
		// FileInfo.Name is the base name of the argument; when the argument
		// ends in ".." no particular name is demanded.
		d := statDiff(rk.Val, rv.Val, comps[len(comps)-1] == "..")
		if len(d) == 0 {
			return nil
		}

		attrOnly := cs.Name == "Lstat" && strings.Fields(rk.Val)[1] == "l"

		for _, x := range d {
			if x != "size" && x != "nlink" {
				attrOnly = false
			}
		}

		if attrOnly {
			return []finding{{kind: "lstat-attr", what: strings.Join(d, "+")}}
		}

		return []finding{{kind: "value", what: strings.Join(d, "+")}}
	case "Readlink":
		if rv.Val != filepath.Clean(rk.Val) {
			return []finding{{kind: "value", what: "target"}}
		}
	case "EvalSymlinks":
		if rk.Val != rv.Val {
			what := "path"

			if !filepath.IsAbs(rk.Val) && filepath.IsAbs(rv.Val) && filepath.Join(e.w.cwd(), rk.Val) == rv.Val {
				what = "absolute-for-relative-input"
			}

			return []finding{{kind: "value", what: what}}
		}
	default:
		if rk.Val != rv.Val {
			return []finding{{kind: "value", what: map[string]string{"Open+Read": "read", "ReadFile": "content", "ReadDir": "names"}[cs.Name]}}
		}
	}

	return nil
}

// evalMut executes a mutating call on both sides (pristine trees), compares
// outcome and resulting trees, and leaves the dirty flags set.
func (e *evaluator) evalMut(cs callSpec, q string) (rk, rv fsx.Res, fs []finding) {
	w := e.w
	rk = w.run(w.k, cs, q)
	rv = w.run(w.v, cs, q)

	mt := cs.Name == "Chtimes"

	// A failed system call changes nothing (every kernel-side call here is a
	// single system call, os.Remove two that both failed), so the kernel dump
	// is taken only after a success.
	kd := w.pristineK
	if rk.Kind == "ok" {
		kd = w.dumpK(mt)
		e.out.KernelDumps++
		w.dirtyK = mt || strings.Join(kd, "\n") != w.pristineKs
	}

	vd := w.dumpV(mt && rv.Kind == "ok")
	w.dirtyV = (mt && rv.Kind == "ok") || rv.Kind == "PANIC" || rv.Kind == "DEADLOCK" || strings.Join(vd, "\n") != w.pristineVs

	fm := ""
	if mt {
		fm = fixedMtime
	}

	var nd []string

	for _, d := range treeDiff(kd, vd, fm) {
		if !w.pristineDiff[d] {
			nd = append(nd, d)
		}
	}

	td := ""
	if len(nd) > 0 {
		td = e.clean(fsx.DiffLines(kd, vd))
	}

	if rk.Kind != rv.Kind {
		return rk, rv, []finding{{kind: "outcome", treeDiff: td}}
	}

	if len(nd) > 0 {
		return rk, rv, []finding{{kind: "tree", what: strings.Join(nd, ","), treeDiff: td}}
	}

	return rk, rv, nil
}

func (e *evaluator) mix(s string) {
	h := fnv.New64a()
	_, _ = h.Write([]byte(s))
	e.hash = e.hash*1099511628211 ^ h.Sum64()
}

// evalConfig evaluates one configuration completely.
func (e *evaluator) evalConfig(ci int) error {
	w := e.w
	links := e.sp.config(ci)
	e.cfgIdx = ci
	e.hash = 0

	linkStr := make([]string, len(links))
	for i, l := range links {
		linkStr[i] = l.String()
	}

	desc := strings.Join(linkStr, " ")
	e.cur.Store(&desc)

	setupRes, structural, err := w.setup(links, 0)
	if err != nil {
		return err
	}

	if setupRes.Kind != "ok" || len(structural) > 0 {
		sig := kf.Sig{"call": "setup", "final": "-", "via": "-", "dd": "-", "form": "abs", "kernel": "ok", "avfs": setupRes.Kind, "kind": "setup"}
		if len(structural) > 0 {
			sig["what"] = strings.Join(structural, ",")
		}

		e.report(sig, [4]int{ci, 0, 0, 0}, func() map[string]any {
			return map[string]any{"links": links, "call": "setup (MkdirAll, Mkdir, WriteFile, Symlink)", "avfs": setupRes.Kind, "avfs_msg": e.clean(setupRes.Msg),
				"tree_diff": e.clean(fsx.DiffLines(w.pristineK, w.pristineV))}
		})

		e.out.Configs++

		return nil
	}

	for mode := 0; mode < 3; mode++ {
		lens := e.st.AbsLens
		if mode > 0 {
			lens = e.st.RelLens
		}

		if len(lens) == 0 {
			continue
		}

		if err := w.restore(); err != nil {
			return err
		}

		if err := w.setMode(mode); err != nil {
			return err
		}

		qrank := 0

		for _, n := range lens {
			for _, comps := range e.sp.queries(n) {
				qrank++

				if err := e.evalQuery(ci, mode, n*100000+qrank, comps, links); err != nil {
					return err
				}
			}
		}
	}

	if err := w.restore(); err != nil {
		return err
	}

	if err := w.setMode(0); err != nil {
		return err
	}

	e.out.Configs++

	return nil
}

func (e *evaluator) evalQuery(ci, mode, qrank int, comps []string, links []Link) error {
	w := e.w
	rel := strings.Join(comps, "/")
	q := rel

	if mode == 0 {
		q = w.R + "/" + rel
	}

	var (
		lk, sk   fsx.Res
		final    string
		via, dd  string
		classed  bool
		pathDesc = modeNames[mode] + ":" + rel
	)

	classify := func() {
		if !classed {
			via, dd = w.classifyPath(mode, comps)
			classed = true
		}
	}

	handle := func(callIdx int, cs callSpec, rk, rv fsx.Res, fs []finding) {
		e.nEvals.Add(1)
		e.out.Evals++
		e.out.Classes[cs.Name+"|"+rk.Kind+"|"+final]++
		e.mix(rk.String())
		e.mix(rv.String())

		if e.sampleN < 6 && e.out.Shard == 0 && (e.out.Evals%977 == 1) {
			e.sampleN++
			e.out.Samples = append(e.out.Samples, map[string]any{
				"links": links, "cwd": modeNames[mode], "query": rel, "call": cs.Name, "kernel": e.clean(rk.String()), "avfs": e.clean(rv.String()),
			})
		}

		if len(fs) == 0 {
			return
		}

		classify()

		for _, f := range fs {
			sig := kf.Sig{
				"call": cs.Name, "final": final, "via": via, "dd": dd, "form": map[bool]string{true: "abs", false: "rel"}[mode == 0],
				"kernel": rk.Kind, "avfs": rv.Kind, "kind": f.kind,
			}
			if f.what != "" {
				sig["what"] = f.what
			}

			f := f

			e.report(sig, [4]int{ci, mode, qrank, callIdx}, func() map[string]any {
				m := map[string]any{
					"links": links, "cwd": modeNames[mode], "query": rel, "call": cs.Name, "operation": e.clean(w.callString(cs, q)),
					"kernel": e.clean(rk.String()), "avfs": e.clean(rv.String()),
					"note": "tree under R: dir d, file d/f (\"DF\"), file f (\"F\") + links; place R = link in R, place d = link in R/d; target R/x = absolute; cwd abs = query is R/<query>, relR = cwd R, reld = cwd R/d",
				}
				if rk.Msg != "" {
					m["kernel_msg"] = e.clean(rk.Msg)
				}

				if rv.Msg != "" {
					m["avfs_msg"] = e.clean(rv.Msg)
				}

				if f.treeDiff != "" {
					m["tree_diff"] = f.treeDiff + "   (- kernel, + avfs; paths relative to BASE = R/../../../../..)"
				}

				return m
			})
		}
	}

	for i, cs := range calls {
		if mode > 0 && !cs.Rel {
			continue
		}

		d := pathDesc + " " + cs.Name
		e.cur.Store(&d)

		if !cs.Mut {
			rk := w.run(w.k, cs, q)
			rv := w.run(w.v, cs, q)

			switch cs.Name {
			case "Lstat":
				lk = rk
			case "Stat":
				sk = rk
				final = finalClass(lk, sk)
			}

			if rv.Kind == "PANIC" || rv.Kind == "DEADLOCK" {
				w.dirtyV = true
			}

			fs := e.compareRO(cs, comps, rk, rv)

			if cs.Name == "Lstat" {
				// final class needs Stat too: postpone the bookkeeping of Lstat
				// by evaluating Stat's kernel side now (read-only, idempotent)
				sk0 := w.run(w.k, calls[1], q)
				final = finalClass(lk, sk0)
			}

			handle(i, cs, rk, rv, fs)

			if w.dirtyV {
				if err := w.restore(); err != nil {
					return err
				}
			}

			continue
		}

		rk, rv, fs := e.evalMut(cs, q)

		if w.dirtyK || w.dirtyV {
			if err := w.restore(); err != nil {
				return err
			}
		}

		handle(i, cs, rk, rv, fs)
	}

	return nil
}

func (w *world) callString(cs callSpec, q string) string {
	if cs.Name == "Open+Read" {
		return fmt.Sprintf("Open(%q)+Read(8)", q)
	}

	return w.call(cs, q).String()
}

// runWorker evaluates the configurations ci with (ci+rot) % n == shard.
func runWorker(tier, stageName string, shard, n, rot int, deadline time.Time, outPath string) int {
	syscall.Umask(0o022)

	st, ok := stageByName(tier, stageName)
	if !ok {
		fmt.Fprintln(os.Stderr, "c04 worker: unknown stage", stageName)

		return 2
	}

	scratch := os.Getenv("VERIF_SCRATCH")
	if scratch == "" {
		scratch = "/dev/shm"
	}

	w := newWorld(scratch)
	defer w.close()

	out := &workerOut{Stage: stageName, Shard: shard, Classes: map[string]int{}, Viols: map[string]*violRec{}}
	e := &evaluator{w: w, sp: newSpace(st.NLinks), st: st, out: out}

	// watchdog: a single evaluation that does not finish within 60 s is a hang
	// (four orders of magnitude above a legitimate evaluation)
	go func() {
		last, since := int64(-1), time.Now()

		for {
			time.Sleep(2 * time.Second)

			if n := e.nEvals.Load(); n != last {
				last, since = n, time.Now()

				continue
			}

			if time.Since(since) > 60*time.Second {
				cur := ""
				if p := e.cur.Load(); p != nil {
					cur = *p
				}

				b, _ := json.Marshal(map[string]any{"config": e.sp.config(e.cfgIdx), "case": cur})
				_ = os.WriteFile(outPath+".hang", b, 0o644)
				_ = os.RemoveAll(w.base)

				os.Exit(3)
			}
		}
	}()

	write := func() {
		out.Builds = w.builds
		b, _ := json.Marshal(out)
		_ = os.WriteFile(outPath+".tmp", b, 0o644)
		_ = os.Rename(outPath+".tmp", outPath)
	}

	total := e.sp.numConfigs()
	first, firstHash := -1, uint64(0)
	done := true

	for ci := 0; ci < total; ci++ {
		if (ci+rot)%n != shard {
			continue
		}

		if time.Now().After(deadline) {
			done = false

			break
		}

		_ = os.WriteFile(outPath+".cur", []byte(fmt.Sprint(ci)), 0o644)

		if err := e.evalConfig(ci); err != nil {
			out.HarnessErr = fmt.Sprintf("config %d %v: %v", ci, e.sp.config(ci), err)
			write()

			return 2
		}

		if first < 0 {
			first, firstHash = ci, e.hash
		}
	}

	// replay determinism: the first configuration of the shard is evaluated a
	// second time on a scratch result and must give the same results
	if first >= 0 {
		saved := *out
		tmp := &workerOut{Classes: map[string]int{}, Viols: map[string]*violRec{}, Shard: -1}
		e.out = tmp

		if err := e.evalConfig(first); err != nil {
			saved.HarnessErr = "re-evaluation: " + err.Error()
		} else if e.hash != firstHash {
			saved.Nondeterm = fmt.Sprintf("configuration %d %v gave different results when evaluated twice", first, e.sp.config(first))
		}

		*out = saved
		e.out = out
	}

	out.Done = done
	write()

	_ = os.Remove(outPath + ".cur")

	return 0
}
