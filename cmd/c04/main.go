// c04: symbolic links resolve as the kernel resolves them.
//
// Model checking by bounded exhaustive enumeration of a configuration space:
// every link graph over the link names l1 l2 (l3) x 2 placements x 18 target
// shapes, on a skeleton {d/, d/f, f}; every query path up to a length over
// {l1,l2,l3,d,f,..,nope}, absolute and relative to R and to R/d; every call of
// a 21-call alphabet (which includes entering what the query resolves to:
// Chdir, and Open + File.Chdir, each questioned from inside with Getwd and
// names through ".."). Each configuration is built on a fresh MemFS and
// identically on a tmpfs directory at the same absolute path; each call runs
// on both; the Linux kernel (through osfs.OsFS, i.e. package os) and
// path/filepath.EvalSymlinks are the oracle. Mutating calls run on a pristine
// copy of the configuration and are followed by a comparison of the whole
// trees, which shows which object was reached. The moved stages (M, M4, N)
// cross the graphs with every move of space.go/allMoves - Rename calls applied
// to both sides between the last Symlink and the questions (the link to the
// other directory, its directory renamed, another directory taking the old
// name, the root renamed, there and back): a link is followed from where it
// is, not from where it was made. The flag stages (F, F4, F2) replace the
// alphabet by the open-flag product of space.go: OpenFile+Close with every
// flag set of {RDONLY,WRONLY,RDWR} x {-,EXCL} x {-,CREATE} x {-,TRUNC} on
// every query path - whether a final link is followed is decided by the
// combination of the flags. The spelling stage (S) replaces the target shapes
// by their unclean spellings (trailing /, //, /., leading ./, a doubled inner
// separator): Readlink returns Clean of what was given. A separate sweep
// covers chains of 1..70 links.
// Worker subprocesses each own a scratch tree and a cwd.
package main

import (
	"encoding/json"
	"flag"
	"fmt"
	"os"
	"os/exec"
	"path/filepath"
	"runtime"
	"sort"
	"strconv"
	"strings"
	"sync"
	"syscall"
	"time"

	"github.com/avfs/avfs/verifrt"

	"verif/lib/ev"
	"verif/lib/kf"
)

type stageResult struct {
	Stage       string  `json:"stage"`
	Bound       string  `json:"bound"`
	Configs     int     `json:"configurations_total"`
	ConfigsDone int     `json:"configurations_evaluated"`
	Evals       int     `json:"evaluations"`
	KernelDumps int     `json:"kernel_tree_dumps"`
	AvfsDumps   int     `json:"avfs_tree_dumps"`
	Variants    int     `json:"normalised_oracle_evaluations"`
	Disagree    int     `json:"disagreeing_evaluations"`
	Builds      int     `json:"kernel_tree_builds"`
	Undos       int     `json:"kernel_tree_undos"`
	CacheHits   int     `json:"kernel_answer_cache_hits"`
	Complete    bool    `json:"complete"`
	WallS       float64 `json:"wall_s"`
}

func main() {
	id := flag.String("id", "C04", "")
	tier := flag.String("tier", "quick", "")
	replay := flag.String("replay", "", "replay file to re-execute")
	worker := flag.Bool("worker", false, "")
	stageName := flag.String("stage", "", "")
	shard := flag.Int("shard", 0, "")
	nshards := flag.Int("nshards", 1, "")
	rot := flag.Int("rot", 0, "")
	deadlineUnix := flag.Int64("deadline", 0, "")
	outPath := flag.String("out", "", "")
	only := flag.String("stages", "", "comma-separated stage names (default: all of the tier)")
	onlyConfig := flag.Int("config", -1, "worker: evaluate only this configuration")
	flag.Parse()

	verifrt.SetMode(verifrt.ModeSeq)

	if *worker {
		code := runWorker(*tier, *stageName, *shard, *nshards, *rot, *onlyConfig, time.Unix(*deadlineUnix, 0), *outPath)
		os.Exit(code)
	}

	syscall.Umask(0o022)

	self, err := os.Executable()
	if err != nil {
		self = os.Args[0]
	}

	if os.Geteuid() != 0 {
		fmt.Fprintln(os.Stderr, "c04: needs root (chown on the kernel side); harness precondition")
		os.Exit(2)
	}

	verifDir := os.Getenv("VERIF_DIR")
	if verifDir == "" {
		verifDir = "."
	}

	scratch := os.Getenv("VERIF_SCRATCH")
	if scratch == "" {
		d, err := os.MkdirTemp("/dev/shm", "c04-scratch-")
		if err != nil {
			fmt.Fprintln(os.Stderr, "c04: no scratch directory:", err)
			os.Exit(2)
		}

		scratch = d
		os.Setenv("VERIF_SCRATCH", d)

	}

	if err := os.MkdirAll(scratch, 0o755); err != nil {
		fmt.Fprintln(os.Stderr, "c04: scratch:", err)
		os.Exit(2)
	}

	if *replay != "" {
		code := runReplay(*replay, scratch)
		if d := os.Getenv("VERIF_SCRATCH"); strings.HasPrefix(filepath.Base(d), "c04-scratch-") {
			_ = os.RemoveAll(d)
		}

		os.Exit(code)
	}

	rep, err := kf.NewReporter(*id, filepath.Join(verifDir, "known_findings.txt"), filepath.Join(verifDir, "replays"))
	if err != nil {
		fmt.Fprintln(os.Stderr, err)
		os.Exit(2)
	}

	rep.Discover = os.Getenv("VERIF_DISCOVER") != ""

	budget := 150
	if *tier == "thorough" {
		budget = 1200
	}

	if b, err := strconv.Atoi(os.Getenv("VERIF_BUDGET_S")); err == nil && b > 0 {
		budget = b
	}

	start := time.Now()
	deadline := start.Add(time.Duration(budget) * time.Second)
	seed := ev.Seed()

	fail := func(msg string) {
		fmt.Fprintln(os.Stderr, "c04: harness error:", msg)

		if strings.HasPrefix(filepath.Base(scratch), "c04-scratch-") {
			_ = os.RemoveAll(scratch)
		}

		os.Exit(2)
	}

	// ---- merged results ----
	type merged struct {
		rec   *violRec
		stage int
	}

	all := map[string]*merged{}
	classes := map[string]int{}

	var samples []any

	mergeViol := func(stageIdx int, v *violRec) {
		k := v.Sig.String()

		m, ok := all[k]
		if !ok {
			all[k] = &merged{rec: v, stage: stageIdx}

			return
		}

		n := m.rec.Count + v.Count
		by := map[string]int{}

		for c, x := range m.rec.ByCall {
			by[c] += x
		}

		for c, x := range v.ByCall {
			by[c] += x
		}

		if stageIdx < m.stage || (stageIdx == m.stage && keyLess(v.Key, m.rec.Key)) {
			m.rec, m.stage = v, stageIdx
		}

		m.rec.Count = n
		m.rec.ByCall = by
	}

	// ---- chain sweep (serial, in this process) ----
	w := newWorld(scratch)
	e := &evaluator{w: w, out: &workerOut{Classes: map[string]int{}, Viols: map[string]*violRec{}}}

	cst, err := chainSweep(w, e, func(sig kf.Sig, key [4]int, replay map[string]any) {
		mergeViol(-1, &violRec{Sig: sig, Count: 1, Key: key, Replay: replay})
	})

	w.close()

	if err != nil {
		fail(err.Error())
	}

	for k, n := range cst.Classes {
		classes[k] += n
	}

	for _, s := range cst.Samples {
		samples = append(samples, s)
	}

	fmt.Printf("C04 chain sweep: %d chains (N=1..%d x rel/abs x same-directory/cross-directory x file/dir), %d evaluations; Stat(c1) succeeds up to N=%d on the kernel, N=%d on MemFS; EvalSymlinks up to N=%d (filepath), N=%d (MemFS)\n",
		cst.Configs, chainMax, cst.Evals, cst.KernelStatMax, cst.AvfsStatMax, cst.FilepathEvalMax, cst.AvfsEvalMax)

	// ---- graph stages ----
	stages := stagesFor(*tier)

	if *only != "" {
		var sel []stage

		for _, n := range strings.Split(*only, ",") {
			if st, ok := stageByName(*tier, n); ok {
				sel = append(sel, st)
			}
		}

		stages = sel
	}

	nw := runtime.NumCPU()
	if x, err := strconv.Atoi(os.Getenv("VERIF_WORKERS")); err == nil && x > 0 {
		nw = x
	}

	var (
		results  []stageResult
		exh      = true
		graphs   = map[string]int{} // distinct configurations: stages over the same graphs (and moves) differ in the queries only
		evalsAll = cst.Evals
		harness  string
	)

	for si, st := range stages {
		sp := st.space()
		sr := stageResult{Stage: st.Name, Bound: st.bound(), Configs: sp.numConfigs()}
		t0 := time.Now()

		if !time.Now().Before(deadline) {
			exh = false
			results = append(results, sr)

			fmt.Printf("C04 stage %s: not started (budget of %d s used up)\n", st.Name, budget)

			continue
		}

		outs := make([]*workerOut, nw)
		exits := make([]int, nw)

		var wg sync.WaitGroup

		for i := 0; i < nw; i++ {
			wg.Add(1)

			go func(i int) {
				defer wg.Done()

				out := filepath.Join(scratch, fmt.Sprintf("c04-out-%s-%d.json", st.Name, i))
				cmd := exec.Command(self, "-id", *id, "-tier", *tier, "-worker", "-stage", st.Name,
					"-shard", strconv.Itoa(i), "-nshards", strconv.Itoa(nw), "-rot", strconv.Itoa(seed),
					"-deadline", strconv.FormatInt(deadline.Unix(), 10), "-out", out)
				cmd.Stderr = os.Stderr
				cmd.Env = append(os.Environ(), "GOMAXPROCS=2")

				err := cmd.Run()
				if err != nil {
					exits[i] = -1

					if ee, ok := err.(*exec.ExitError); ok {
						exits[i] = ee.ExitCode()
					}
				}

				if b, err := os.ReadFile(out); err == nil {
					var o workerOut
					if json.Unmarshal(b, &o) == nil {
						outs[i] = &o
					}

					_ = os.Remove(out)
				}
			}(i)
		}

		wg.Wait()

		complete := true

		for i := 0; i < nw; i++ {
			out := filepath.Join(scratch, fmt.Sprintf("c04-out-%s-%d.json", st.Name, i))
			o := outs[i]

			if exits[i] != 0 && exits[i] != 2 {
				// the worker hung (exit 3, watchdog) or died (fatal runtime error:
				// stack overflow, out of memory...). The configuration it was
				// evaluating is run once more on its own: only if that fails the
				// same way it is attributed to the configuration.
				cur, _ := os.ReadFile(out + ".cur")
				ci, _ := strconv.Atoi(strings.TrimSpace(string(cur)))
				out2 := out + ".confirm"
				cmd := exec.Command(self, "-id", *id, "-tier", *tier, "-worker", "-stage", st.Name, "-config", strconv.Itoa(ci),
					"-rot", strconv.Itoa(seed), "-deadline", strconv.FormatInt(time.Now().Add(time.Hour).Unix(), 10), "-out", out2)
				cmd.Stderr = os.Stderr
				cmd.Env = append(os.Environ(), "GOMAXPROCS=2")
				ex2 := 0

				if err := cmd.Run(); err != nil {
					ex2 = -1

					if ee, ok := err.(*exec.ExitError); ok {
						ex2 = ee.ExitCode()
					}
				}

				complete = false

				switch {
				case ex2 == 3:
					b, _ := os.ReadFile(out2 + ".hang")

					var h map[string]any
					_ = json.Unmarshal(b, &h)

					mergeViol(si, &violRec{Sig: kf.Sig{"call": "-", "kind": "hang", "kernel": "returns", "avfs": "HANG"}, Count: 1, Replay: h})
				case ex2 != 0 && ex2 != 2:
					mergeViol(si, &violRec{Sig: kf.Sig{"call": "-", "kind": "crash", "kernel": "returns", "avfs": "worker-died"}, Count: 1,
						Replay: map[string]any{"links": sp.config(ci).Links, "move": sp.config(ci).Move, "stage": st.Name, "exit": ex2, "note": "the worker process died twice while evaluating this configuration"}})
				default:
					harness = fmt.Sprintf("worker %d of stage %s exited %d at configuration %d, which passes when evaluated alone", i, st.Name, exits[i], ci)
				}
			}

			if exits[i] == 2 {
				if o != nil {
					harness = o.HarnessErr
				} else {
					harness = fmt.Sprintf("worker %d of stage %s exited 2", i, st.Name)
				}
			}

			if o == nil {
				complete = false

				continue
			}

			if o.Nondeterm != "" {
				harness = "replay determinism check failed: " + o.Nondeterm
			}

			if !o.Done {
				complete = false
			}

			sr.ConfigsDone += o.Configs
			sr.Evals += o.Evals
			sr.KernelDumps += o.KernelDumps
			sr.AvfsDumps += o.AvfsDumps
			sr.Variants += o.VariantEvals
			sr.Disagree += o.Disagreements
			sr.Builds += o.Builds
			sr.Undos += o.Undos
			sr.CacheHits += o.CacheHits

			for k, n := range o.Classes {
				classes[k] += n
			}

			for _, v := range o.Viols {
				mergeViol(si, v)
			}

			for _, s := range o.Samples {
				if len(samples) < 20 {
					samples = append(samples, s)
				}
			}
		}

		sr.Complete = complete && sr.ConfigsDone == sr.Configs
		sr.WallS = time.Since(t0).Seconds()

		if !sr.Complete {
			exh = false
		}

		if gk := fmt.Sprint(st.NLinks, st.Moved, st.Spelled); sr.ConfigsDone > graphs[gk] {
			graphs[gk] = sr.ConfigsDone
		}

		evalsAll += sr.Evals
		results = append(results, sr)

		fmt.Printf("C04 stage %s: configurations=%d/%d evaluations=%d disagreeing=%d kernel_dumps=%d avfs_dumps=%d rebuilds=%d undos=%d cache_hits=%d normalised_oracle_evals=%d complete=%v wall=%.1fs\n",
			st.Name, sr.ConfigsDone, sr.Configs, sr.Evals, sr.Disagree, sr.KernelDumps, sr.AvfsDumps, sr.Builds, sr.Undos, sr.CacheHits, sr.Variants, sr.Complete, sr.WallS)

		if harness != "" {
			break
		}
	}

	if harness != "" {
		fail(harness)
	}

	// ---- report ----
	keys := make([]string, 0, len(all))
	for k := range all {
		keys = append(keys, k)
	}

	sort.Strings(keys)

	instances := 0

	for _, k := range keys {
		m := all[k]
		instances += m.rec.Count

		r := map[string]any{"instances": m.rec.Count}
		if len(m.rec.ByCall) > 0 {
			r["instances_by_call"] = m.rec.ByCall
		}
		for kk, vv := range m.rec.Replay {
			r[kk] = vv
		}

		rep.Report(m.rec.Sig, r)
	}

	if rep.Discover {
		// kf prints one DISCOVER line per signature with n = number of reports
		// (1 here); the instance counts are these
		for _, k := range keys {
			fmt.Printf("DISCOVER-INSTANCES property=%s instances=%d known=%v sig=%s\n", *id, all[k].rec.Count, rep.Known(all[k].rec.Sig), k)
		}
	}

	code := rep.Finish()

	matched := rep.KnownMatched()
	if matched == nil {
		matched = []string{}
	}

	states := cst.Configs
	for _, n := range graphs {
		states += n
	}

	var bounds, done []string

	for _, r := range results {
		bounds = append(bounds, r.Bound)

		if r.Complete {
			done = append(done, r.Stage)
		}
	}

	if len(samples) == 0 {
		samples = append(samples, "no evaluation ran")
	}

	_ = ev.Write(filepath.Join(verifDir, "evidence", *id+".json"), ev.Evidence{
		PropertyID: *id, Tier: *tier, Seed: seed, Level: "model_checking",
		Coverage: map[string]any{
			"states": states, "transitions": evalsAll, "traces_validated_against_impl": evalsAll,
			"evaluations": evalsAll, "distinct_nontrivial": len(classes),
			"rule": "states = distinct configurations built on both sides (link graphs: every assignment of placement {R, R/d} x target shape to the link names; moved graphs: a graph x one move - a fixed sequence of Rename calls applied to both sides after the last Symlink: the link to the other directory, there and back, the directory R/d renamed, there and back, R/dd taking the old name of R/d, the root R renamed; spelled graphs (stage S): the target of the link is an unclean spelling of a target shape - the shape with a trailing /, a trailing //, a trailing /., a leading ./ (// after the root for an absolute target) or its inner separator doubled; plus link chains of length 1..70, all in one directory or alternating between R and R/d so that every target leaves the directory of its link); " +
				"transitions = evaluations = one call on one query path in one configuration, executed on MemFS and on tmpfs and compared (outcome kind, returned value, and for mutating calls the whole trees); the calls Chdir+probes and Open+File.Chdir+probes make what the query resolves to the working directory (Chdir(q); f = Open(q), f.Chdir(), f.Close()) and then ask " + enterProbeList() + " from inside - the answers are one compared value - and change the working directory back; in the flag stages (F, F4, F2) the calls are Lstat and OpenFile(path, flags, 0644)+Close for each of the 24 flag sets {O_RDONLY,O_WRONLY,O_RDWR} x {-,O_EXCL} x {-,O_CREATE} x {-,O_TRUNC}, every one treated as mutating (pristine trees, whole trees compared afterwards: what was created or truncated, and where); " +
				"distinct_nontrivial = distinct (call, kernel outcome, class of the query's final component: file|dir|link>file|link>dir|link>dangling|link>loop|missing; chain-length class for the sweep) classes observed",
			"samples": samples, "exhaustive": exh,
			"bound":  fmt.Sprintf("chain sweep N=1..%d (complete); stages %s; completed: {%s}", chainMax, strings.Join(bounds, " || "), strings.Join(done, ",")),
			"stages": results, "chain_sweep": map[string]any{
				"chains": cst.Configs, "evaluations": cst.Evals, "kernel_stat_max_chain": cst.KernelStatMax, "memfs_stat_max_chain": cst.AvfsStatMax,
				"filepath_evalsymlinks_max_chain": cst.FilepathEvalMax, "memfs_evalsymlinks_max_chain": cst.AvfsEvalMax,
			},
			"violation_instances": instances, "violation_signatures": len(keys),
			"known_findings_matched": matched, "workers": nw, "budget_s": budget,
		},
		Assumptions: []string{
			"oracle = Linux kernel " + kernelVersion() + ", tmpfs, root, through package os (osfs.OsFS) and path/filepath.EvalSymlinks; what this kernel answers on tmpfs defines 'as on Linux' (hard link to a symlink, rename onto itself, error precedence)",
			"a failed kernel-side call leaves the tmpfs tree unchanged (single system calls), so the kernel tree is dumped only after a successful call; the MemFS tree is dumped through the public API after every successful mutating call and after a failed one whenever the node graph (injected VerifDump hook) changed",
			"the kernel tree is restored after a mutating call by undoing attribute changes and new entries, by a full rebuild otherwise, and is verified against the pristine dump at the end of every configuration (mismatch = harness error)",
			"a disagreement is additionally put to the kernel in normalised form (query made absolute and lexically cleaned, link targets lexically cleaned - what MemFS does before resolving); if the kernel's answer to the normalised question equals MemFS's answer the instance is reported under kind=normalised with the normalisation's name, and what still differs is reported separately with the classes of the normalised query",
			"Readlink is compared with filepath.Clean of the kernel's answer (the statement allows the cleaned target); link targets in tree dumps likewise",
			"FileInfo.Name is not compared for a query ending in '..'; directory size and link count are not compared; mtimes only for the instant set by Chtimes",
			"with 2 links the name l3 does not exist: target l3 and query component l3 are the class of 'nope' and are left out of the 2-link stages (likewise l2 in the 1-link stages)",
			"moved stages (M, M4, N): the moves are Rename calls that the kernel performs without error on every graph (a failure on the kernel side is a harness error, a failure or a different tree on MemFS is reported under kind=setup); the oracle is the kernel's answer on the tmpfs tree that went through the same renames; after the move 'root' queries, cwd and call operands use the new name of R while absolute targets keep the old one; a Sub view as a second route to a link is not covered (no kernel counterpart short of chroot)",
			"flag stages (F, F4, F2): the oracle for OpenFile(path, flags, 0644) is open(2) on tmpfs given the same flags through os.OpenFile (which adds O_CLOEXEC only), as root, umask 022; the handle is closed at once, so what is compared is the outcome of the open (ok or errno) and the trees afterwards (a file created at the end of a dangling link, a file truncated through a link, nothing touched after a failure); O_APPEND, O_SYNC and the access mode 3 are not in the product; the flag product is crossed with the unmoved graphs only (moves x the 21-call alphabet are the stages M, M4, N)",
			"entering calls (Chdir+probes, Open+File.Chdir+probes): the oracle is chdir(2) / fchdir(2) on the worker process (os.Chdir, (*os.File).Chdir), os.Getwd with $PWD unset (getcwd(2): the link-free path of the directory) and the relative probe names resolved by the kernel from that directory; both sides go back to the working directory of the mode (/, R, the directory made as R/d) after the probes, and a failure to go back on MemFS is part of the compared value; every worker process owns its working directory",
			"spelling stage (S): symlink(2) stores the target as written, MemFS its lexically cleaned form - Readlink is compared with filepath.Clean of the kernel's answer, the Lstat size of a link with the kernel's for the cleaned target (normalisation target-cleaned), and the dumps of freshly built trees must agree on the cleaned targets (else kind=setup); where the kernel resolves the written target differently from the cleaned one (a trailing separator demands a directory) the disagreement is reported under kind=normalised norm=target-cleaned like for the shape d/../l1; the spellings are crossed with 1-link graphs and no moves",
			"random larger trees (last clause of the quantifier) are sampling and are not run",
		},
		Violations: rep.NewCount(),
	})

	fmt.Printf("C04 %s: configurations=%d evaluations=%d outcome_classes=%d violation_signatures=%d (instances=%d) stages_completed={%s} exhaustive=%v wall=%.1fs\n",
		*tier, states, evalsAll, len(classes), len(keys), instances, strings.Join(done, ","), exh, time.Since(start).Seconds())

	if strings.HasPrefix(filepath.Base(scratch), "c04-scratch-") {
		_ = os.RemoveAll(scratch)
	}

	os.Exit(code)
}

// enterProbeList names the questions asked from inside an entered directory.
func enterProbeList() string {
	var ps []string
	for _, c := range enterProbes {
		ps = append(ps, probeString(c))
	}

	return strings.Join(ps, ", ")
}
