package main

import (
	"fmt"
	"path/filepath"
	"sort"
	"strings"
)

// lineInfo is one parsed line of fsx.Dump.
type lineInfo struct {
	typ, perm, owner, mtime, size, nlink, class, rest string
}

func isDigits(s string) bool {
	if s == "" {
		return false
	}

	for i := 0; i < len(s); i++ {
		if s[i] < '0' || s[i] > '9' {
			return false
		}
	}

	return true
}

func parseLine(l string) (path string, li lineInfo, ok bool) {
	f := strings.Fields(l)
	if len(f) < 2 {
		return "", li, false
	}

	path = f[0]
	li.typ = f[1]

	if strings.HasPrefix(f[1], "!") {
		return path, li, true
	}

	if len(f) > 2 {
		li.perm = f[2]
	}

	if len(f) > 3 {
		li.owner = f[3]
	}

	for i := 4; i < len(f); i++ {
		switch {
		case f[i][0] == 't' && isDigits(f[i][1:]):
			li.mtime = f[i][1:]
		case strings.HasPrefix(f[i], "sz") && isDigits(f[i][2:]):
			li.size = f[i]
		case f[i][0] == 'n' && isDigits(f[i][1:]):
			li.nlink = f[i]
		case f[i][0] == '#' && isDigits(f[i][1:]):
			li.class = f[i]
		default:
			li.rest = strings.Join(f[i:], " ")
			i = len(f)
		}
	}

	return path, li, true
}

// treeDiff classifies the differences between the kernel dump and the avfs
// dump as a sorted set of "type:attribute[:k!=v]" strings (no path names).
// Link targets are compared after filepath.Clean of the kernel's target: the
// property allows MemFS to store the lexically cleaned target. fixedMtime, if
// non-empty, is the mtime (UnixNano, decimal) whose presence is compared
// (entries carrying it on one side only give "<type>:mtime").
func treeDiff(kd, vd []string, fixedMtime string) []string {
	km := map[string]lineInfo{}
	vm := map[string]lineInfo{}

	var diffs []string

	for _, l := range kd {
		if p, li, ok := parseLine(l); ok {
			if strings.HasPrefix(li.typ, "!") {
				diffs = append(diffs, "kernel-dump:"+li.typ)

				continue
			}

			if li.typ == "l" && strings.HasPrefix(li.rest, "-> ") {
				li.rest = "-> " + filepath.Clean(li.rest[3:])
			}

			km[p] = li
		}
	}

	for _, l := range vd {
		if p, li, ok := parseLine(l); ok {
			if strings.HasPrefix(li.typ, "!") {
				diffs = append(diffs, "avfs-dump:"+li.typ)

				continue
			}

			vm[p] = li
		}
	}

	for p, k := range km {
		v, ok := vm[p]
		if !ok {
			diffs = append(diffs, "missing-in-avfs:"+k.typ)

			continue
		}

		t := k.typ

		if k.typ != v.typ {
			diffs = append(diffs, fmt.Sprintf("type:%s!=%s", k.typ, v.typ))

			continue
		}

		if k.rest != v.rest {
			if t == "l" {
				diffs = append(diffs, "l:target")
			} else {
				diffs = append(diffs, t+":content")
			}
		}

		if k.perm != v.perm {
			diffs = append(diffs, fmt.Sprintf("%s:perm:%s!=%s", t, k.perm, v.perm))
		}

		if k.owner != v.owner {
			diffs = append(diffs, fmt.Sprintf("%s:owner:%s!=%s", t, k.owner, v.owner))
		}

		if k.size != v.size {
			if t == "l" {
				diffs = append(diffs, "l:size")
			} else {
				diffs = append(diffs, fmt.Sprintf("%s:size:%s!=%s", t, k.size, v.size))
			}
		}

		if k.nlink != v.nlink {
			diffs = append(diffs, fmt.Sprintf("%s:nlink:%s!=%s", t, k.nlink, v.nlink))
		}

		if k.class != v.class {
			diffs = append(diffs, t+":hardlink-class")
		}

		if fixedMtime != "" && (k.mtime == fixedMtime) != (v.mtime == fixedMtime) {
			if k.mtime == fixedMtime {
				diffs = append(diffs, t+":mtime-set-in-kernel-only")
			} else {
				diffs = append(diffs, t+":mtime-set-in-avfs-only")
			}
		}
	}

	for p, v := range vm {
		if _, ok := km[p]; !ok {
			diffs = append(diffs, "extra-in-avfs:"+v.typ)
		}
	}

	return dedupSorted(diffs)
}

func dedupSorted(a []string) []string {
	m := map[string]bool{}

	var out []string

	for _, x := range a {
		if !m[x] {
			m[x] = true
			out = append(out, x)
		}
	}

	sort.Strings(out)

	return out
}
