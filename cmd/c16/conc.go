package main

import (
	"bytes"
	"crypto/sha512"
	"fmt"
	"time"

	"github.com/avfs/avfs"
	"github.com/avfs/avfs/verifrt"
	"github.com/avfs/avfs/vfs/memfs"
	"github.com/avfs/avfs/vfs/orefafs"

	"verif/lib/kf"
	"verif/lib/sched"
)

// runConcurrent covers "they work across any pair of file systems" when two
// copies overlap in time: CopyFile, CopyFileHash and HashFile draw their
// buffer from a shared pool, so two calls on unrelated files interleave their
// reads and writes at the lock operations of the in-memory file systems.
// Every schedule (preemption bound 2, most programs end up fully explored) of
// every pair of calls is executed under the controlled scheduler; the first
// sentence of the property is the oracle: a nil error means destination bytes
// = source bytes and digest = digest of those bytes.
func runConcurrent(tier string, rep *kf.Reporter, deadline time.Time) (progs, execs int, samples []any, herr error) {
	verifrt.SetMode(verifrt.ModeSched)
	defer verifrt.SetMode(verifrt.ModeSeq)

	type job struct {
		fn   string // CopyFile | CopyFileHash | HashFile
		fs   string // MemFS | OrefaFS
		data []byte
	}

	mk := func(fn, fs string, salt byte, n int) job { return job{fn, fs, bytes.Repeat([]byte{salt}, n)} }

	var jobs []job

	sizes := []int{3}
	if tier == "thorough" {
		sizes = []int{3, 40000} // the second one needs two buffer loads
	}

	for _, n := range sizes {
		for _, fn := range []string{"CopyFile", "CopyFileHash", "HashFile"} {
			for _, fs := range []string{"MemFS", "OrefaFS"} {
				jobs = append(jobs, mk(fn, fs, 'A', n))
			}
		}
	}

	newFS := func(kind string) avfs.VFS {
		dirs := []avfs.DirInfo{{Path: "/tmp", Perm: 0o777}}
		if kind == "MemFS" {
			v := memfs.NewWithOptions(&memfs.Options{OSType: avfs.OsLinux, SystemDirs: dirs})
			_ = v.SetUMask(0o022)

			return v
		}

		v := orefafs.NewWithOptions(&orefafs.Options{OSType: avfs.OsLinux, SystemDirs: dirs})
		_ = v.SetUMask(0o022)

		return v
	}

	bound := 2

	for i := range jobs {
		for j := i; j < len(jobs); j++ {
			if !deadline.IsZero() && time.Now().After(deadline) {
				return progs, execs, samples, nil
			}

			a, b := jobs[i], jobs[j]
			b.data = bytes.Repeat([]byte{'B'}, len(b.data)) // different content, same length
			pair := [2]job{a, b}
			progs++

			distinct := map[string]bool{}

			run := func(prefix []int8) sched.Exec {
				type res struct {
					err  error
					sum  []byte
					src  avfs.VFS
					dst  avfs.VFS
					pan  string
					done bool
				}

				var rs [2]res

				bodies := make([]func(), 2)

				for t := 0; t < 2; t++ {
					t := t
					jb := pair[t]
					rs[t].src, rs[t].dst = newFS(jb.fs), newFS(jb.fs)

					if err := rs[t].src.WriteFile("/tmp/s", jb.data, 0o644); err != nil {
						herr = err
					}

					bodies[t] = func() {
						verifrt.CallPoint()

						defer func() {
							if r := recover(); r != nil {
								rs[t].pan = fmt.Sprint(r)
							}
						}()

						switch jb.fn {
						case "CopyFile":
							rs[t].err = avfs.CopyFile(rs[t].dst, rs[t].src, "/tmp/d", "/tmp/s")
						case "CopyFileHash":
							rs[t].sum, rs[t].err = avfs.CopyFileHash(rs[t].dst, rs[t].src, "/tmp/d", "/tmp/s", sha512.New())
						case "HashFile":
							rs[t].sum, rs[t].err = avfs.HashFile(rs[t].src, "/tmp/s", sha512.New())
						}

						rs[t].done = true
					}
				}

				r := verifrt.Run(prefix, bodies)
				pts := verifrt.Points()
				execs++

				key := ""

				for t := 0; t < 2; t++ {
					jb := pair[t]
					sig := func(kind string) kf.Sig {
						return kf.Sig{"part": "conc", "func": jb.fn, "fs": jb.fs, "other": pair[1-t].fn, "kind": kind}
					}
					replay := map[string]any{
						"program": fmt.Sprintf("%s(%s, %d bytes of %q) || %s(%s, %d bytes of %q)", pair[0].fn, pair[0].fs, len(pair[0].data), pair[0].data[:1], pair[1].fn, pair[1].fs, len(pair[1].data), pair[1].data[:1]),
						"thread":  t, "choices": sched.Choices(pts), "schedule": sched.FormatSchedule(pts),
					}

					switch {
					case r.Deadlock:
						rep.Report(sig("deadlock"), replay)
					case rs[t].pan != "":
						replay["panic"] = rs[t].pan
						rep.Report(sig("panic"), replay)
					case rs[t].err != nil:
						replay["error"] = rs[t].err.Error()
						rep.Report(sig("error-without-fault"), replay)
					default:
						want := sha512.Sum512(jb.data)

						if jb.fn != "HashFile" {
							got, err := rs[t].dst.ReadFile("/tmp/d")
							if err != nil || !bytes.Equal(got, jb.data) {
								replay["dst_prefix"] = fmt.Sprintf("%q", got[:min(len(got), 8)])
								rep.Report(sig("nil-error-but-dst-bytes-differ"), replay)
								key += "B"
							}
						}

						if jb.fn != "CopyFile" && !bytes.Equal(rs[t].sum, want[:]) {
							rep.Report(sig("nil-error-but-digest-wrong"), replay)
							key += "D"
						}
					}
				}

				distinct[key] = true

				return sched.Exec{Res: r, Points: pts}
			}

			st := sched.Explore(run, bound, deadline, 0)
			if st.BadReplay {
				return progs, execs, samples, fmt.Errorf("replay divergence in concurrent copy program %d/%d", i, j)
			}

			if len(samples) < 2 {
				samples = append(samples, map[string]any{"program": pair[0].fn + "(" + pair[0].fs + ") || " + pair[1].fn + "(" + pair[1].fs + ")", "schedules": st.Executions, "max_points": st.MaxPoints})
			}
		}
	}

	return progs, execs, samples, herr
}
