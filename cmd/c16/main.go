// c16: CopyFile, CopyFileHash and HashFile report every failure and copy
// faithfully.
//
// Technique: exhaustive single-fault enumeration. Every scenario (function,
// pair of file systems, source size, destination state, source mode) is run
// once on fresh instances with a counting failure function installed in a
// FailFS wrapper on each side; this gives the fault-free sequence of
// consultations c_0 .. c_{n-1}, each a (side, FnVFS) pair. Then, for every
// index k and every error E of a 2-element set, the scenario is re-run on
// fresh instances with the plan "consultation k returns E".
//
// Oracle:
//
//	(a) fault-free run: nil error (and (c)).
//	(b) faulted run whose injected consultation belongs to a primitive the
//	    property lists (open either file, read source, write/sync/chmod/close
//	    destination, stat): the returned error is non-nil. Failures of other
//	    primitives (closing the source) are recorded, never flagged.
//	(c) every run: a nil error implies destination bytes == source bytes,
//	    permission bits equal, digest == sha512(source bytes) (no digest for
//	    CopyFile / nil hasher). Both files are read back from the innermost
//	    file system, never through FailFS.
//
// Shapes. A copy names two paths, and what those paths ARE is a dimension of
// its own: the helpers open, stat and chmod by name, so each of these calls
// may or may not follow a link, accept a directory, or find nothing, and the
// wrappers (BasePathFS, RoFS) may answer differently from the file system
// they wrap. Every scenario therefore also has a kind of source path (regular
// file, symbolic link to the file - made on the innermost file system, where
// a wrapper that offers no links still meets them -, hard link, directory,
// missing, ...) and a kind of destination path (missing, file with other
// content and mode, directory, symbolic link to such a file, dangling link,
// ...), crossed with source sizes that include the EMPTY file: an empty
// source performs no Write at all, so a copy that cannot succeed has to be
// refused by the open itself. The oracle for these is the statement's first
// sentence taken literally:
//
//	(d) a nil error implies that the destination path (links followed) is a
//	    REGULAR FILE holding the source's bytes, with the permission bits of
//	    the source FILE (what Stat, which follows links, gives on the
//	    innermost file system - not those of a link or of a directory);
//	(e) a copy that cannot succeed (the source is a directory, missing or a
//	    link to either; the destination is a directory) returns a non-nil
//	    error, without any injected fault and under every single-fault plan;
//	(f) a copy that can succeed does, fault-free (as (a)).
//
// Whether a refused copy leaves the destination as it was is recorded in the
// evidence, not judged: the statement does not speak of it.
//
// The hasher. It is an ARGUMENT WITH STATE, and calls follow each other: what
// the hasher holds when the call is entered is a start state like any other.
// So the state of the hasher on entry is enumerated - fresh; written to by the
// caller; left behind by an earlier CopyFileHash/HashFile on the SAME hasher
// that succeeded; left behind by one that failed at consultation k, for every
// k of that call's fault-free trace (a failure after at least one chunk leaves
// bytes in it that no successful return ever cleared) - and the scenario is
// then a history of two calls with at most one fault in it. Oracle unchanged:
//
//	(g) whenever the later call returns nil, its digest is the digest of the
//	    source bytes computed independently with a fresh hasher (and (c)); the
//	    digest the earlier call returned with a nil error is still the digest
//	    of ITS bytes after the later call has run (a returned slice must not
//	    live in state the next call reuses).
//
// Spellings. The two paths are ARGUMENTS WRITTEN BY A CALLER, and a copy hands
// the same string to several primitives in turn (open, create, stat, chmod),
// each of which resolves it on its own. One file has many names - a doubled
// separator, a "." element, "dir/..", a name relative to the current directory
// - and every primitive of a file system has to agree on what they denote. So
// how each of the two operands is spelled is a dimension (see spellings), on
// every pair of file systems; the oracle is unchanged: (a)/(f) a copy that can
// succeed returns nil, (c) and then the destination - read back under its
// shortest name from the innermost file system - has the bytes and the
// permission bits of the source.
//
// Round 11. (1) The CLASS of the injected error is part of the error-kind
// dimension (errKindsClass): values for which errors.Is(err, fs.ErrNotExist)
// resp. fs.ErrExist holds reach the branches that "tolerate" such an error;
// an opaque sentinel never does. (2) The permission bits the oracle expects
// are the ones the set-up ASKED for, not the ones read through Stat of the
// source's file system, the accessor the copy itself uses; a read-back that
// differs is a violation (h, kind mode-readback), see putFile.
package main

import (
	"bytes"
	"crypto/sha512"
	"encoding/hex"
	"encoding/json"
	"errors"
	"flag"
	"fmt"
	"hash"
	"io/fs"
	"os"
	"path/filepath"
	"sort"
	"strconv"
	"strings"
	"syscall"
	"time"

	"github.com/avfs/avfs"
	"github.com/avfs/avfs/verifrt"
	"github.com/avfs/avfs/vfs/basepathfs"
	"github.com/avfs/avfs/vfs/failfs"
	"github.com/avfs/avfs/vfs/memfs"
	"github.com/avfs/avfs/vfs/orefafs"
	"github.com/avfs/avfs/vfs/osfs"
	"github.com/avfs/avfs/vfs/rofs"

	"verif/lib/ev"
	"verif/lib/fsx"
	"verif/lib/kf"
)

// ---------------------------------------------------------------------------
// file systems

const (
	fsMem   = "MemFS"
	fsOrefa = "OrefaFS"
	fsOs    = "OsFS"
	fsBase  = "BasePathFS(MemFS)"
	fsRo    = "RoFS(MemFS)"

	// stacks whose fault seam lies BELOW the wrapper (see seamInside)
	fsBaseOverFail      = "BasePathFS(FailFS(MemFS))"
	fsBaseOverFailOrefa = "BasePathFS(FailFS(OrefaFS))"
	fsRoOverFail        = "RoFS(FailFS(MemFS))"
)

// seamInside says whether the FailFS of a stack is part of the stack itself,
// below its wrapper, instead of being put on top of it by run.
//
// General lesson: a wrapper that translates the paths found in errors (or maps
// one error to another) SWITCHES ON THE DYNAMIC TYPE of the error value its
// base hands it, and every such switch has a default branch. With the seam on
// top of the wrapper (FailFS(BasePathFS(x))) a fault never passes through the
// wrapper's own error paths: those are entered only when the layer BELOW fails.
// So the order of the layers is a dimension - the seam below every wrapper as
// well as above it - and so is the VALUE the failing primitive returns (see
// errKindsFor): a *fs.PathError, a *os.LinkError, a bare errno, an opaque error.
func seamInside(fsName string) bool {
	switch fsName {
	case fsBaseOverFail, fsBaseOverFailOrefa, fsRoOverFail:
		return true
	}

	return false
}

// kit is one fresh file system instance: top is what FailFS wraps, raw is the
// innermost writable file system used for setup and read-back.
type kit struct {
	name    string
	top     avfs.VFS
	raw     avfs.VFS
	inner   *failfs.FailFS // the seam, when it is part of the stack (seamInside); nil: run puts it on top
	dir     string         // working directory in top's name space
	rawDir  string         // the same directory in raw's name space
	cleanup func()

	// readback lists the files whose mode, read back through Stat of the raw
	// file system after the set-up's Chmod, was not the mode asked for (putFile)
	readback []string
}

var (
	scratchRoot string
	scratchSeq  int
)

func newKit(name string) (*kit, error) {
	k := &kit{name: name, cleanup: func() {}}

	switch name {
	case fsMem:
		m := memfs.New()
		k.top, k.raw, k.dir, k.rawDir = m, m, "/c16", "/c16"
	case fsOrefa:
		o := orefafs.New()
		k.top, k.raw, k.dir, k.rawDir = o, o, "/c16", "/c16"
	case fsOs:
		scratchSeq++
		d := filepath.Join(scratchRoot, "k"+strconv.Itoa(scratchSeq))
		o := osfs.NewWithNoIdm()
		k.top, k.raw, k.dir, k.rawDir = o, o, d, d
		k.cleanup = func() { _ = os.RemoveAll(d) }
	case fsBase:
		m := memfs.New()
		if err := m.MkdirAll("/bp", 0o755); err != nil {
			return nil, fmt.Errorf("%s: MkdirAll /bp: %v", name, err)
		}

		b, err := basepathfs.NewWithErr(m, "/bp")
		if err != nil {
			return nil, fmt.Errorf("%s: %v", name, err)
		}

		k.top, k.raw, k.dir, k.rawDir = b, m, "/c16", "/bp/c16"
	case fsRo:
		m := memfs.New()
		k.top, k.raw, k.dir, k.rawDir = rofs.New(m), m, "/c16", "/c16"
	case fsBaseOverFail, fsBaseOverFailOrefa:
		var m avfs.VFS = memfs.New()
		if name == fsBaseOverFailOrefa {
			m = orefafs.New()
		}

		if err := m.MkdirAll("/bp", 0o755); err != nil {
			return nil, fmt.Errorf("%s: MkdirAll /bp: %v", name, err)
		}

		k.inner = failfs.New(m)

		b, err := basepathfs.NewWithErr(k.inner, "/bp")
		if err != nil {
			return nil, fmt.Errorf("%s: %v", name, err)
		}

		k.top, k.raw, k.dir, k.rawDir = b, m, "/c16", "/bp/c16"
	case fsRoOverFail:
		m := memfs.New()
		k.inner = failfs.New(m)
		k.top, k.raw, k.dir, k.rawDir = rofs.New(k.inner), m, "/c16", "/c16"
	default:
		return nil, fmt.Errorf("unknown file system %q", name)
	}

	if name != fsOs {
		_ = k.raw.SetUMask(0o022)
	}

	if err := k.raw.MkdirAll(k.rawDir, 0o755); err != nil {
		k.cleanup()

		return nil, fmt.Errorf("%s: MkdirAll %s: %v", name, k.rawDir, err)
	}

	return k, nil
}

// wrapped returns the file system the copy is called on and the FailFS in
// which the faults of that side are injected: the stack's own one, or a new
// one on top of the stack.
func (k *kit) wrapped() (call avfs.VFS, seam *failfs.FailFS) {
	if k.inner != nil {
		return k.top, k.inner
	}

	f := failfs.New(k.top)

	return f, f
}

// chmodBits are the bits chmod(2) sets and stat(2) reports as the file's
// permissions: rwx for user, group and others AND set-user-ID, set-group-ID
// and sticky (the library's own "bitmask used for permissions", FileModeMask,
// is the same twelve bits; every file system of the library stores them all).
//
// General lesson: "the same permissions" is judged on ALL the bits the copying
// primitive (Chmod) carries, not on a projection of them (Perm()): code that
// skips "setting what is already there" compares through one projection, and
// an oracle that looks through the same projection cannot see what it skipped.
const chmodBits = fs.ModePerm | fs.ModeSetuid | fs.ModeSetgid | fs.ModeSticky

// SrcMode and the evidence write modes the Unix way (0o4644 = setuid + rw-r--r--).
func unixMode(m uint32) fs.FileMode {
	fm := fs.FileMode(m & 0o777)

	if m&0o4000 != 0 {
		fm |= fs.ModeSetuid
	}

	if m&0o2000 != 0 {
		fm |= fs.ModeSetgid
	}

	if m&0o1000 != 0 {
		fm |= fs.ModeSticky
	}

	return fm
}

func unixBits(fm fs.FileMode) uint32 {
	m := uint32(fm.Perm())

	if fm&fs.ModeSetuid != 0 {
		m |= 0o4000
	}

	if fm&fs.ModeSetgid != 0 {
		m |= 0o2000
	}

	if fm&fs.ModeSticky != 0 {
		m |= 0o1000
	}

	return m
}

// modeExpr renders a Unix mode as a Go expression of type fs.FileMode.
func modeExpr(m uint32) string {
	e := fmt.Sprintf("fs.FileMode(%#o)", m&0o777)

	for _, b := range []struct {
		bit  uint32
		name string
	}{{0o4000, "fs.ModeSetuid"}, {0o2000, "fs.ModeSetgid"}, {0o1000, "fs.ModeSticky"}} {
		if m&b.bit != 0 {
			e += "|" + b.name
		}
	}

	return e
}

// specialName names the special bits of a Unix mode, for signatures.
func specialName(m uint32) string {
	var parts []string

	for _, b := range []struct {
		bit  uint32
		name string
	}{{0o4000, "setuid"}, {0o2000, "setgid"}, {0o1000, "sticky"}} {
		if m&b.bit != 0 {
			parts = append(parts, b.name)
		}
	}

	return strings.Join(parts, "+")
}

// putFile writes a file with exact mode bits through the raw file system.
//
// The set-up goes through the code under test too (WriteFile, Chmod of the
// innermost file system), so it must not rely on the very step a shortcut
// would skip: the mode is reached by a route on which every Chmod changes the
// rwx bits (0 first, then the mode wanted), and the state reached is read back.
//
// General lesson (round 11): an oracle that learns the EXPECTED value through
// the same accessor as the code under test (here: the mode of the source
// through Stat().Mode() of the source's file system) is blind to a defect of
// that accessor - both sides of its comparison pass through the same
// projection. What the set-up ASKED for is known without asking the code
// under test, so that is the expectation (run: srcPerm), and a read-back that
// differs from it is not "the harness failed to set up" but an observation
// about the file system: it is recorded (kit.readback) and judged as a
// violation of kind mode-readback - the source's permission bits, which the
// property says a copy carries over, cannot even be read. The run goes on, so
// that the copy itself is judged against the mode asked for as well.
func (k *kit) putFile(base string, data []byte, mode fs.FileMode) error {
	p := k.raw.Join(k.rawDir, base)

	if err := k.raw.WriteFile(p, data, 0o644); err != nil {
		return err
	}

	if err := k.raw.Chmod(p, 0); err != nil {
		return err
	}

	if err := k.raw.Chmod(p, mode); err != nil {
		return err
	}

	fi, err := k.raw.Stat(p)
	if err != nil {
		return err
	}

	if fi.Mode()&chmodBits != mode&chmodBits {
		k.readback = append(k.readback, fmt.Sprintf("%s(%s): Stat says %#o after Chmod(%#o)", base, k.name, unixBits(fi.Mode()&chmodBits), unixBits(mode&chmodBits)))
	}

	return nil
}

// ---------------------------------------------------------------------------
// shapes: what the source path and the destination path are
//
// General lesson: code that opens, stats and chmods BY NAME decides three
// times what the name denotes; a wrapper may decide differently from the file
// system it wraps. So the kind of node behind each of the two names is
// enumerated (not only "a file"), the nodes are planted on the innermost file
// system (a BasePathFS or RoFS cannot make a link itself, its base can), and
// the empty source is part of the size set because only there nothing but the
// open stands between an impossible copy and a nil error.

const (
	kFile       = "file"             // src: regular file                        (plain)
	kSymlink    = "symlink"          // src/dst: link, relative target, to the file
	kSymAbs     = "symlink-abs"      // src: link whose target is absolute in the innermost name space
	kSymChain   = "symlink-chain"    // src: link to a link to the file
	kHardlink   = "hardlink"         // src/dst: second name of the file
	kDir        = "dir"              // src/dst: directory
	kDirFull    = "dir-nonempty"     // dst: directory with an entry
	kMissing    = "missing"          // src: nothing
	kSymDangle  = "symlink-dangling" // src/dst: link to nothing
	kSymDir     = "symlink-dir"      // src/dst: link to a directory
	kDstAbsent  = "absent"           // dst: nothing                              (plain)
	kDstPresent = "present"          // dst: file with other content and mode    (plain)
	kDstSpecial = "present-special"  // dst: such a file whose mode also has setgid and sticky
)

// other is the content and mode of a destination file that exists beforehand.
const otherMode = 0o660

// otherSpecial is the mode of a destination that carries special bits
// beforehand: the rwx bits of otherMode, so that a source of mode otherMode
// differs from it in the special bits only.
const otherSpecial = otherMode | fs.ModeSetgid | fs.ModeSticky

func otherData(size int) []byte { return pattern(size+4097, 0xA5) }

// srcIsFile says whether the source path, links followed, is a regular file.
func srcIsFile(kind string) bool {
	switch kind {
	case "", kFile, kSymlink, kSymAbs, kSymChain, kHardlink:
		return true
	}

	return false
}

// dstCanHold says whether the destination path can be created or truncated
// as a regular file (O_CREATE|O_TRUNC follows links, also a dangling one).
func dstCanHold(kind string) bool {
	switch kind {
	case kDir, kDirFull, kSymDir:
		return false
	}

	return true
}

func isLinkKind(kind string) bool { return strings.HasPrefix(kind, "symlink") }

// fsSupports is a fixed table (not the feature flags of the code under test).
func fsSupports(fsName, kind string) bool {
	if isLinkKind(kind) && (fsName == fsOrefa || fsName == fsBaseOverFailOrefa) {
		return false
	}

	return true
}

// putSource plants the source path src.bin of the given kind through the
// innermost file system; the regular file behind a link is src.real.
func (k *kit) putSource(kind string, data []byte, mode fs.FileMode) error {
	v, j := k.raw, func(b string) string { return k.raw.Join(k.rawDir, b) }

	switch kind {
	case "", kFile:
		return k.putFile("src.bin", data, mode)
	case kMissing:
		return nil
	case kDir:
		return v.Mkdir(j("src.bin"), 0o755)
	case kSymDangle:
		return v.Symlink("src.real", j("src.bin"))
	case kSymDir:
		if err := v.Mkdir(j("src.real"), 0o755); err != nil {
			return err
		}

		return v.Symlink("src.real", j("src.bin"))
	}

	if err := k.putFile("src.real", data, mode); err != nil {
		return err
	}

	switch kind {
	case kSymlink:
		return v.Symlink("src.real", j("src.bin"))
	case kSymAbs:
		return v.Symlink(j("src.real"), j("src.bin"))
	case kSymChain:
		if err := v.Symlink("src.real", j("src.mid")); err != nil {
			return err
		}

		return v.Symlink("src.mid", j("src.bin"))
	case kHardlink:
		return v.Link(j("src.real"), j("src.bin"))
	}

	return fmt.Errorf("unknown source kind %q", kind)
}

// putDest plants the destination path dst.bin; what a link points to is
// dst.real. Source and destination never name the same node.
func (k *kit) putDest(kind string, size int) error {
	v, j := k.raw, func(b string) string { return k.raw.Join(k.rawDir, b) }

	switch kind {
	case kDstAbsent:
		return nil
	case kDstPresent:
		return k.putFile("dst.bin", otherData(size), otherMode)
	case kDstSpecial:
		return k.putFile("dst.bin", otherData(size), otherSpecial)
	case kDir:
		return v.Mkdir(j("dst.bin"), 0o755)
	case kDirFull:
		if err := v.Mkdir(j("dst.bin"), 0o755); err != nil {
			return err
		}

		return v.WriteFile(j("dst.bin/in"), []byte("in"), 0o644)
	case kSymDangle:
		return v.Symlink("dst.real", j("dst.bin"))
	case kSymDir:
		if err := v.Mkdir(j("dst.real"), 0o755); err != nil {
			return err
		}

		return v.Symlink("dst.real", j("dst.bin"))
	case kSymlink, kHardlink:
		if err := k.putFile("dst.real", otherData(size), otherMode); err != nil {
			return err
		}

		if kind == kHardlink {
			return v.Link(j("dst.real"), j("dst.bin"))
		}

		return v.Symlink("dst.real", j("dst.bin"))
	}

	return fmt.Errorf("unknown destination kind %q", kind)
}

// ---------------------------------------------------------------------------
// spellings: how the caller writes the two path operands
//
// General lesson: a helper that is given a NAME passes that one string to
// several primitives (open, create, stat, chmod ...), and each primitive turns
// it into a node by itself - one cleans it, one makes it absolute, one looks
// it up as written. They all agree on the shortest absolute spelling, which is
// the only one a harness produces when it builds its operands with Join. Every
// other spelling of the same file is as legitimate (dir + "/" + name with a
// dir that ends in a separator, a "./" left by a walk, "sub/..", a name
// relative to the current directory), so the spelling of every path operand
// is enumerated - independently for each operand, on every file system - and
// judged by the unchanged oracle against the node, which is read back under
// its shortest name.
//
// Only spellings that name the same file under Linux path resolution are
// used: a trailing separator is not one of them (open(2) of "f/" is ENOTDIR
// resp. EISDIR with O_CREAT), and ".." is only ever applied to a directory
// that exists (spellDir, planted next to the files).

const (
	spClean     = ""                // <dir>/<base>, what Join gives
	spDoubleSep = "double-sep"      // <dir>//<base>
	spDot       = "dot"             // <dir>/./<base>
	spDotDot    = "dotdot"          // <dir>/sp.d/../<base>
	spRel       = "relative"        // ./<base>, the current directory is <dir>
	spRelBare   = "relative-bare"   // <base>, the current directory is <dir>
	spRelDotDot = "relative-dotdot" // sp.d/../<base>, the current directory is <dir>
	spAboveRoot = "above-root"      // /..<dir>/<base>: ".." of the root is the root
	spSepRun    = "sep-run"         // every separator of <dir>/<base> but the first written three times
)

// spellDir is the directory the "dir/.." spellings pass through.
const spellDir = "sp.d"

func spellIsRelative(how string) bool { return strings.HasPrefix(how, "relative") }

func spellNeedsDir(how string) bool { return how == spDotDot || how == spRelDotDot }

// spell writes the name of <dir>/<base> in the given spelling, with the
// separator of the file system the name is handed to.
func spell(v avfs.VFS, dir, base, how string) (string, error) {
	sep := string(v.PathSeparator())

	switch how {
	case spClean:
		return v.Join(dir, base), nil
	case spDoubleSep:
		return dir + sep + sep + base, nil
	case spDot:
		return dir + sep + "." + sep + base, nil
	case spDotDot:
		return dir + sep + spellDir + sep + ".." + sep + base, nil
	case spRel:
		return "." + sep + base, nil
	case spRelBare:
		return base, nil
	case spRelDotDot:
		return spellDir + sep + ".." + sep + base, nil
	case spAboveRoot:
		if !strings.HasPrefix(dir, sep) {
			return "", fmt.Errorf("spelling %q needs a rooted directory, got %q", how, dir)
		}

		return sep + ".." + dir + sep + base, nil
	case spSepRun:
		if !strings.HasPrefix(dir, sep) {
			return "", fmt.Errorf("spelling %q needs a rooted directory, got %q", how, dir)
		}

		return sep + strings.ReplaceAll(dir[len(sep):]+sep+base, sep, sep+sep+sep), nil
	}

	return "", fmt.Errorf("unknown spelling %q", how)
}

// prepareSpelling makes what the spellings of one side need: the directory
// "dir/.." passes through, and the current directory for a relative name. The
// current directory of an OsFS is that of the process: undo puts it back.
func (k *kit) prepareSpelling(hows ...string) (undo func(), err error) {
	undo = func() {}

	needDir, rel := false, false
	for _, h := range hows {
		needDir = needDir || spellNeedsDir(h)
		rel = rel || spellIsRelative(h)
	}

	if needDir {
		if err = k.raw.MkdirAll(k.raw.Join(k.rawDir, spellDir), 0o755); err != nil {
			return undo, err
		}
	}

	if rel {
		if k.name == fsOs {
			wd, werr := os.Getwd()
			if werr != nil {
				return undo, werr
			}

			undo = func() { _ = os.Chdir(wd) }
		}

		// set on the file system the call is made on (below FailFS, which forwards it)
		if err = k.top.Chdir(k.dir); err != nil {
			return undo, err
		}
	}

	return undo, nil
}

// snapshot renders everything the scenario planted around a base name
// (x.bin, x.real, x.mid): kind, permission bits, link target, bytes, entries.
func (k *kit) snapshot(stem string) string {
	var sb strings.Builder

	for _, suffix := range []string{".bin", ".real", ".mid"} {
		p := k.raw.Join(k.rawDir, stem+suffix)

		li, err := k.raw.Lstat(p)
		if err != nil {
			fmt.Fprintf(&sb, "%s: -\n", suffix)

			continue
		}

		fmt.Fprintf(&sb, "%s: %s", suffix, li.Mode())

		switch {
		case li.Mode()&fs.ModeSymlink != 0:
			t, _ := k.raw.Readlink(p)
			sb.WriteString(" -> " + t)
		case li.IsDir():
			es, _ := k.raw.ReadDir(p)
			for _, e := range es {
				sb.WriteString(" " + e.Name())
			}
		case li.Mode().IsRegular():
			b, _ := k.raw.ReadFile(p)
			sb.WriteString(" ")
			sb.Write(b)
		}

		sb.WriteString("\n")
	}

	return sb.String()
}

// ---------------------------------------------------------------------------
// scenarios, plans, results

type scenario struct {
	Func       string `json:"func"`   // CopyFile | CopyFileHash | HashFile
	Hasher     string `json:"hasher"` // none | nil | sha512
	HasherUsed bool   `json:"hasher_used,omitempty"`
	DstFS      string `json:"dstfs"`
	SrcFS      string `json:"srcfs"`
	Shared     bool   `json:"shared_instance,omitempty"` // source and destination on the same instance
	Size       int    `json:"size"`
	SrcKind    string `json:"src_kind,omitempty"` // kind of the source path; empty = file
	DstState   string `json:"dst_state"`          // kind of the destination path: absent | present | dir | symlink | ... | n/a
	SrcMode    uint32 `json:"src_mode"`

	// how the two path operands are written (see spellings); empty = the
	// shortest absolute name
	SrcSpell string `json:"src_spelling,omitempty"`
	DstSpell string `json:"dst_spelling,omitempty"`

	// Before is a call made earlier with the same hasher (and the same FailFS
	// wrappers, buffer pool, file systems); nil: the hasher is entered as
	// HasherUsed says.
	Before *prelude `json:"earlier_call_on_same_hasher,omitempty"`

	noFaults bool // fault-free runs only (not part of a replay: a replay names its plan)
}

// prelude is the earlier call of a two-call history: CopyFileHash or HashFile
// of another file (pre.bin, other content) with the scenario's hasher, under
// its own plan (K indexes the consultations of THAT call).
type prelude struct {
	Func string `json:"func"` // CopyFileHash | HashFile
	Size int    `json:"size"`
	Plan plan   `json:"plan"`

	expect []cons // fault-free trace of the earlier call the plan indexes into (nil: not verified)
}

// preSalt makes the content of the earlier call's file differ from the source's.
const preSalt = 0x3C

// entry names the state of the hasher on entry, for signatures and statistics;
// empty for a fresh hasher (the scenarios the driver always had).
func (s scenario) entry() string {
	switch {
	case s.Before != nil && s.Before.Plan.K >= 0:
		return "after-faulted-" + s.Before.Func
	case s.Before != nil:
		return "after-" + s.Before.Func
	case s.HasherUsed:
		return "written-by-caller"
	}

	return ""
}

func (s scenario) srcKind() string {
	if s.SrcKind == "" {
		return kFile
	}

	return s.SrcKind
}

// plain scenarios are the ones the driver always had: a file copied to a
// missing path or over a file.
func (s scenario) plain() bool {
	return s.srcKind() == kFile && (s.DstState == kDstAbsent || s.DstState == kDstPresent || s.Func == "HashFile")
}

// possible says whether the copy (or hash) can succeed at all.
func (s scenario) possible() bool {
	return srcIsFile(s.SrcKind) && (s.Func == "HashFile" || dstCanHold(s.DstState))
}

// shape is the pair of kinds, for signatures and statistics; empty for plain.
func (s scenario) shape() string {
	if s.plain() {
		return ""
	}

	if s.Func == "HashFile" {
		return "src=" + s.srcKind()
	}

	return "src=" + s.srcKind() + ",dst=" + s.DstState
}

// spelling names how the operands are written, for signatures and statistics;
// empty when both are the shortest absolute names.
func (s scenario) spelling() string {
	if s.SrcSpell == spClean && s.DstSpell == spClean {
		return ""
	}

	n := func(h string) string {
		if h == spClean {
			return "clean"
		}

		return h
	}

	if s.Func == "HashFile" {
		return "src:" + n(s.SrcSpell)
	}

	return "src:" + n(s.SrcSpell) + ",dst:" + n(s.DstSpell)
}

func (s scenario) pair() string {
	d := s.DstFS
	if s.Shared {
		d += "(same instance)"
	}

	return d + "<-" + s.SrcFS
}

func (s scenario) variant() string {
	v := s.Func
	if s.Hasher != "none" {
		v += "/" + s.Hasher
	}

	return v
}

func (s scenario) String() string {
	u := ""
	if s.HasherUsed {
		u = "+used"
	}

	if b := s.Before; b != nil {
		u = fmt.Sprintf("+hasher after %s(size=%d, fault k=%d %s:%s %s)", b.Func, b.Size, b.Plan.K, b.Plan.Side, b.Plan.Primitive, b.Plan.Err)
	}

	sp := ""
	if x := s.spelling(); x != "" {
		sp = " spelled " + x
	}

	return fmt.Sprintf("%s%s %s size=%d src=%s dst=%s srcmode=%#o%s", s.variant(), u, s.pair(), s.Size, s.srcKind(), s.DstState, s.SrcMode, sp)
}

type plan struct {
	K         int    `json:"k"` // index in the fault-free consultation trace; -1 = no fault
	Side      string `json:"side,omitempty"`
	Primitive string `json:"primitive,omitempty"`
	Nth       int    `json:"nth_of_primitive_on_side,omitempty"` // 1-based
	Err       string `json:"error,omitempty"`                    // sentinel | permdenied | errno | linkerror | notexist | exist | enoent
}

type cons struct {
	Side string
	Fn   avfs.FnVFS
}

func (c cons) String() string { return c.Side + ":" + c.Fn.String() }

func traceStrings(t []cons) []string {
	out := make([]string, len(t))
	for i, c := range t {
		out[i] = c.String()
	}

	return out
}

// compress renders a trace with run lengths: "src:FileRead x3".
func compress(t []cons) string {
	var parts []string

	for i := 0; i < len(t); {
		j := i
		for j < len(t) && t[j] == t[i] {
			j++
		}

		if j-i > 1 {
			parts = append(parts, fmt.Sprintf("%sx%d", t[i], j-i))
		} else {
			parts = append(parts, t[i].String())
		}

		i = j
	}

	return strings.Join(parts, " ")
}

type result struct {
	Outcome    string   `json:"outcome"` // returned | PANIC | DEADLOCK
	Msg        string   `json:"msg,omitempty"`
	ErrNil     bool     `json:"error_is_nil"`
	Err        string   `json:"error,omitempty"`
	ErrKind    string   `json:"error_kind,omitempty"`
	ErrIsInj   bool     `json:"error_is_injected,omitempty"`
	Digest     string   `json:"digest,omitempty"`
	Fired      bool     `json:"fault_fired"`
	Trace      []string `json:"trace"`
	DstExists  bool     `json:"dst_exists"`
	DstRegular bool     `json:"dst_is_regular_file"`
	DstEntry   string   `json:"dst_entry,omitempty"` // mode of the destination path itself (links not followed)
	DstSame    bool     `json:"dst_as_before"`       // everything planted on the destination side is as before the call (looked at for shapes only)
	BytesEqual bool     `json:"dst_bytes_equal_src"`
	PermEqual  bool     `json:"dst_perm_equal_src"`
	DigestOK   bool     `json:"digest_ok"`
	SrcPerm    string   `json:"src_perm,omitempty"`
	DstPerm    string   `json:"dst_perm,omitempty"`
	DstLen     int      `json:"dst_len"`
	SrcLen     int      `json:"src_len"`
	SrcChanged bool     `json:"src_changed,omitempty"`
	Readback   []string `json:"setup_mode_read_back_differs,omitempty"` // files whose Stat did not show the mode the set-up's Chmod was given

	HasherDirty bool       `json:"hasher_holds_bytes_on_entry,omitempty"` // Sum on entry differs from the sum of nothing
	Pre         *preResult `json:"earlier_call,omitempty"`

	trace []cons
}

// preResult is what the earlier call of a two-call history did.
type preResult struct {
	Outcome      string   `json:"outcome"` // returned | PANIC | DEADLOCK
	Msg          string   `json:"msg,omitempty"`
	ErrNil       bool     `json:"error_is_nil"`
	Err          string   `json:"error,omitempty"`
	Fired        bool     `json:"fault_fired"`
	Trace        []string `json:"trace"`
	Digest       string   `json:"digest,omitempty"`
	DigestOKThen bool     `json:"digest_ok_when_returned"`
	DigestOKNow  bool     `json:"digest_ok_after_the_later_call"` // the returned slice itself, looked at again

	trace []cons
}

var emptyDigest = sha512.Sum512(nil)

var errSentinel = errors.New("c16: injected sentinel failure")

// injected is the VALUE the failing primitive returns: an opaque error, a
// *fs.PathError (what the primitives of the library document), and - below a
// wrapper, see errKindsFor - a bare errno and a *os.LinkError.
func injected(kind string, fp *failfs.FailParam) error {
	switch kind {
	case "permdenied":
		return &fs.PathError{Op: fp.Op, Path: fp.Path, Err: avfs.ErrPermDenied}
	case "errno":
		return errnoInjected
	case "linkerror":
		return &os.LinkError{Op: fp.Op, Old: fp.Path, New: fp.Path, Err: errnoInjected}
	case "notexist":
		return &fs.PathError{Op: fp.Op, Path: fp.Path, Err: avfs.ErrNoSuchFileOrDir}
	case "exist":
		return &fs.PathError{Op: fp.Op, Path: fp.Path, Err: avfs.ErrFileExists}
	case "enoent":
		return syscall.ENOENT
	}

	return errSentinel
}

const errnoInjected = syscall.EIO

// pattern is the deterministic, non-constant, non-32K-periodic source content.
func pattern(n int, salt byte) []byte {
	key := [2]int{n, int(salt)}

	m, ok := patternCache[key]
	if !ok {
		m = make([]byte, n)
		for i := range m {
			m[i] = byte(i*7+i/251) ^ byte(i>>11) ^ salt
		}

		patternCache[key] = m
	}

	// a private copy for every caller: the master is never handed to the code under test
	return append(make([]byte, 0, n), m...)
}

var patternCache = map[[2]int][]byte{}

type harnessError struct{ msg string }

func (h harnessError) Error() string { return h.msg }

// run executes one scenario under one plan on fresh instances.
func run(sc scenario, pl plan) (res result, herr error) {
	isHash := sc.Func == "HashFile"

	srcKit, err := newKit(sc.SrcFS)
	if err != nil {
		return res, harnessError{err.Error()}
	}

	defer srcKit.cleanup()

	dstKit := srcKit

	// an earlier CopyFileHash before a HashFile needs somewhere to copy to
	preCopies := sc.Before != nil && sc.Before.Func == "CopyFileHash"

	switch {
	case !isHash && !sc.Shared:
		dstKit, err = newKit(sc.DstFS)
	case isHash && preCopies:
		dstKit, err = newKit(fsMem)
	}

	if err != nil {
		return res, harnessError{err.Error()}
	}

	if dstKit != srcKit {
		defer dstKit.cleanup()
	}

	srcData := pattern(sc.Size, 0)

	if err = srcKit.putSource(sc.SrcKind, srcData, unixMode(sc.SrcMode)); err != nil {
		return res, harnessError{fmt.Sprintf("setup of source (%s) on %s: %v", sc.srcKind(), sc.SrcFS, err)}
	}

	srcBefore, dstBefore := "", ""

	if !sc.plain() {
		srcBefore = srcKit.snapshot("src")
	}

	if !isHash {
		if err = dstKit.putDest(sc.DstState, sc.Size); err != nil {
			return res, harnessError{fmt.Sprintf("setup of destination (%s) on %s: %v", sc.DstState, sc.DstFS, err)}
		}

		if !sc.plain() {
			dstBefore = dstKit.snapshot("dst")
		}
	}

	res.Readback = append(res.Readback, srcKit.readback...)
	if dstKit != srcKit {
		res.Readback = append(res.Readback, dstKit.readback...)
	}

	var (
		trace    []cons
		preTrace []cons
		inPre    bool
		preFired bool
	)

	// A primitive of an open file may have no path to report (FailFS gives
	// Sync the placeholder avfs.NotImplemented): an injected *PathError then
	// names that side's file in the name space of the seam, as the error of a
	// real base file system would - a wrapper translates that path back.
	mk := func(side string) failfs.FailFunc {
		return func(_ avfs.VFSBase, fn avfs.FnVFS, fp *failfs.FailParam) error {
			if fp.Path == avfs.NotImplemented || fp.Path == "" {
				k, base := srcKit, "src.bin"
				if side == "dst" {
					k, base = dstKit, "dst.bin"
				}

				if inPre {
					base = map[string]string{"src": "pre.bin", "dst": "pre.out"}[side]
				}

				q := *fp
				fp = &q

				if k.inner != nil {
					fp.Path = k.raw.Join(k.rawDir, base)
				} else {
					fp.Path = k.top.Join(k.dir, base)
				}
			}

			if inPre {
				// the earlier call has its own consultation index and plan
				idx := len(preTrace)
				preTrace = append(preTrace, cons{side, fn})

				if idx == sc.Before.Plan.K {
					preFired = true

					return injected(sc.Before.Plan.Err, fp)
				}

				return nil
			}

			idx := len(trace)
			trace = append(trace, cons{side, fn})

			if idx == pl.K {
				res.Fired = true

				return injected(pl.Err, fp)
			}

			return nil
		}
	}

	// srcFail/dstFail are what the calls are made on; the seams are where the
	// faults are injected (the same object unless the seam is inside the stack).
	// The failure functions are installed after the set-up, right before the
	// first call under test.
	if dstKit == srcKit && srcKit.inner != nil && !isHash {
		return res, harnessError{fmt.Sprintf("%s: one instance with its seam inside cannot tell the source side from the destination side", sc)}
	}

	srcFail, srcSeam := srcKit.wrapped()

	var (
		dstFail avfs.VFS
		dstSeam *failfs.FailFS
	)

	if !isHash || preCopies {
		dstFail, dstSeam = dstKit.wrapped()
	}

	var hasher hash.Hash

	if sc.Hasher == "sha512" {
		hasher = sha512.New()
		if sc.HasherUsed {
			_, _ = hasher.Write([]byte("stale"))
		}
	}

	srcPath, err := spell(srcKit.top, srcKit.dir, "src.bin", sc.SrcSpell)
	if err != nil {
		return res, harnessError{err.Error()}
	}

	dstPath, err := spell(dstKit.top, dstKit.dir, "dst.bin", sc.DstSpell)
	if err != nil {
		return res, harnessError{err.Error()}
	}

	if sc.spelling() != "" {
		if dstKit != srcKit && sc.SrcFS == fsOs && sc.DstFS == fsOs && spellIsRelative(sc.SrcSpell) && spellIsRelative(sc.DstSpell) {
			return res, harnessError{fmt.Sprintf("%s: two OsFS directories cannot both be the current directory of the process", sc)}
		}

		sides := []struct {
			k    *kit
			hows []string
		}{{srcKit, []string{sc.SrcSpell}}, {dstKit, []string{sc.DstSpell}}}

		if dstKit == srcKit {
			sides = sides[:1]
			sides[0].hows = []string{sc.SrcSpell, sc.DstSpell}
		}

		for _, sd := range sides {
			undo, perr := sd.k.prepareSpelling(sd.hows...)

			defer undo()

			if perr != nil {
				return res, harnessError{fmt.Sprintf("%s: preparing the spelling on %s: %v", sc, sd.k.name, perr)}
			}
		}
	}

	_ = srcSeam.SetFailFunc(mk("src"))

	if dstSeam != nil {
		_ = dstSeam.SetFailFunc(mk("dst"))
	}

	// The earlier call of a two-call history: another file, the same hasher,
	// the same wrappers. Its digest is kept AS RETURNED (no copy) and looked at
	// again after the later call.
	var (
		preSum  []byte
		preData []byte
	)

	if b := sc.Before; b != nil {
		if hasher == nil || (b.Func != "CopyFileHash" && b.Func != "HashFile") {
			return res, harnessError{fmt.Sprintf("%s: an earlier call needs a hasher and one of the hashing functions", sc)}
		}

		preData = pattern(b.Size, preSalt)

		if err = srcKit.putFile("pre.bin", preData, 0o644); err != nil {
			return res, harnessError{fmt.Sprintf("setup of the earlier call's source on %s: %v", sc.SrcFS, err)}
		}

		prePath := srcKit.top.Join(srcKit.dir, "pre.bin")
		preOut := dstKit.top.Join(dstKit.dir, "pre.out")

		var perr error

		inPre = true

		pkind, pmsg := fsx.Guard(func() {
			if b.Func == "HashFile" {
				preSum, perr = avfs.HashFile(srcFail, prePath, hasher)
			} else {
				preSum, perr = avfs.CopyFileHash(dstFail, srcFail, preOut, prePath, hasher)
			}
		})

		inPre = false

		pre := &preResult{Outcome: "returned", ErrNil: perr == nil, Fired: preFired, Trace: traceStrings(preTrace), trace: preTrace}
		if pkind != "" {
			pre.Outcome, pre.Msg = pkind, pmsg
		}

		if perr != nil {
			pre.Err = perr.Error()
		}

		if preSum != nil {
			want := sha512.Sum512(preData)
			pre.Digest = hex.EncodeToString(preSum)
			pre.DigestOKThen = bytes.Equal(preSum, want[:])
		}

		res.Pre = pre

		if b.Plan.K >= 0 && (!preFired || (b.expect != nil && (len(preTrace) <= b.Plan.K || !sameTrace(preTrace[:b.Plan.K+1], b.expect[:b.Plan.K+1])))) {
			return res, harnessError{fmt.Sprintf("%s: the earlier call diverged from its fault-free trace (fired=%v, trace %v)", sc, preFired, pre.Trace)}
		}
	}

	if hasher != nil {
		res.HasherDirty = !bytes.Equal(hasher.Sum(nil), emptyDigest[:])
	}

	var (
		sum  []byte
		rerr error
	)

	kind, msg := fsx.Guard(func() {
		switch sc.Func {
		case "CopyFile":
			rerr = avfs.CopyFile(dstFail, srcFail, dstPath, srcPath)
		case "CopyFileHash":
			sum, rerr = avfs.CopyFileHash(dstFail, srcFail, dstPath, srcPath, hasher)
		case "HashFile":
			sum, rerr = avfs.HashFile(srcFail, srcPath, hasher)
		}
	})

	res.trace = trace
	res.Trace = traceStrings(trace)
	res.Outcome = "returned"

	if kind != "" {
		res.Outcome, res.Msg = kind, msg
	}

	res.ErrNil = rerr == nil
	if rerr != nil {
		res.Err = rerr.Error()
		res.ErrKind = fsx.ErrKind(rerr)

		var pe *fs.PathError

		res.ErrIsInj = errors.Is(rerr, errSentinel) ||
			(pl.Err == "permdenied" && errors.As(rerr, &pe) && pe.Err == avfs.ErrPermDenied) ||
			(pl.Err == "notexist" && errors.As(rerr, &pe) && pe.Err == avfs.ErrNoSuchFileOrDir) ||
			(pl.Err == "exist" && errors.As(rerr, &pe) && pe.Err == avfs.ErrFileExists) ||
			(pl.Err == "enoent" && errors.Is(rerr, syscall.ENOENT)) ||
			((pl.Err == "errno" || pl.Err == "linkerror") && errors.Is(rerr, errnoInjected))
	}

	if sum != nil {
		res.Digest = hex.EncodeToString(sum)
	}

	// Read back directly from the innermost file systems. The source is what
	// its path denotes with links followed: for a source that is not a file
	// there are no bytes and no permission bits a copy could have.
	rawSrc := srcKit.raw.Join(srcKit.rawDir, "src.bin")

	var (
		srcNow  []byte
		srcPerm fs.FileMode
	)

	if srcIsFile(sc.SrcKind) {
		srcNow, err = srcKit.raw.ReadFile(rawSrc)
		if err != nil {
			return res, harnessError{fmt.Sprintf("read-back of source on %s: %v", sc.SrcFS, err)}
		}

		srcInfo, serr := srcKit.raw.Stat(rawSrc)
		if serr != nil {
			return res, harnessError{fmt.Sprintf("stat of source on %s: %v", sc.SrcFS, serr)}
		}

		// The expected permission bits are the ones the set-up asked for, not
		// the ones Stat of the source's file system reports now (see putFile):
		// the copy learns the mode through that very Stat.
		srcPerm = unixMode(sc.SrcMode) & chmodBits
		res.SrcLen = len(srcNow)
		res.SrcChanged = !bytes.Equal(srcNow, srcData) || srcInfo.Mode()&chmodBits != srcPerm || !srcInfo.Mode().IsRegular()
		res.SrcPerm = fmt.Sprintf("%#o", unixBits(srcPerm))
	}

	if !sc.plain() && srcKit.snapshot("src") != srcBefore {
		res.SrcChanged = true
	}

	if isHash {
		res.BytesEqual, res.PermEqual, res.DstExists, res.DstRegular, res.DstSame = true, true, true, true, true
	} else {
		rawDst := dstKit.raw.Join(dstKit.rawDir, "dst.bin")

		if li, lerr := dstKit.raw.Lstat(rawDst); lerr == nil {
			res.DstEntry = li.Mode().String()
		}

		res.DstSame = sc.plain() || dstKit.snapshot("dst") == dstBefore

		dstInfo, serr := dstKit.raw.Stat(rawDst)
		if serr == nil {
			res.DstExists = true
			res.DstRegular = dstInfo.Mode().IsRegular()
			res.DstPerm = fmt.Sprintf("%#o", unixBits(dstInfo.Mode()))
			res.PermEqual = srcIsFile(sc.SrcKind) && dstInfo.Mode()&chmodBits == srcPerm
		}

		if res.DstRegular {
			dstNow, rerr2 := dstKit.raw.ReadFile(rawDst)
			if rerr2 != nil {
				return res, harnessError{fmt.Sprintf("read-back of destination on %s: %v", sc.DstFS, rerr2)}
			}

			res.DstLen = len(dstNow)
			res.BytesEqual = srcIsFile(sc.SrcKind) && bytes.Equal(dstNow, srcNow)
		}
	}

	switch sc.Hasher {
	case "sha512":
		want := sha512.Sum512(srcNow)
		res.DigestOK = bytes.Equal(sum, want[:])
	default:
		res.DigestOK = len(sum) == 0
	}

	if res.Pre != nil && preSum != nil {
		want := sha512.Sum512(preData)
		res.Pre.DigestOKNow = bytes.Equal(preSum, want[:])
	}

	return res, nil
}

// ---------------------------------------------------------------------------
// classification of consultations against the property's list

// classOf maps a consultation to the primitive class of the property's second
// sentence ("opening either file, reading the source, writing, syncing,
// stat-ing, chmod-ing or closing the destination") and says whether a failure
// of it must be reported.
func classOf(c cons) (class string, required bool) {
	switch c.Fn {
	case avfs.FnOpenFile:
		return "open-" + c.Side, true
	case avfs.FnFileRead, avfs.FnFileReadAt:
		return "read-" + c.Side, c.Side == "src"
	case avfs.FnFileWrite, avfs.FnFileWriteAt:
		return "write-" + c.Side, c.Side == "dst"
	case avfs.FnFileSync:
		return "sync-" + c.Side, c.Side == "dst"
	case avfs.FnStat, avfs.FnFileStat, avfs.FnLstat:
		return "stat", true
	case avfs.FnChmod, avfs.FnFileChmod:
		return "chmod-" + c.Side, c.Side == "dst"
	case avfs.FnFileClose:
		return "close-" + c.Side, c.Side == "dst"
	}

	return "other-" + c.Side + "-" + c.Fn.String(), false
}

// listed are the classes the property names; each must be exercised.
var listed = []string{"open-src", "open-dst", "read-src", "write-dst", "sync-dst", "stat", "chmod-dst", "close-dst"}

// ---------------------------------------------------------------------------
// violation bookkeeping: instances are grouped so that the file-system pair
// enters the signature only when the failure depends on it.

type vioGroup struct {
	sig    kf.Sig          // without dstfs/srcfs
	pairs  map[string]*vio // by pair
	order  []string
	chkKey string
}

type vio struct {
	count  int
	replay any
}

type book struct {
	groups  map[string]*vioGroup
	gorder  []string
	checked map[string]map[string]int // chkKey -> pair -> runs checked
}

func newBook() *book {
	return &book{groups: map[string]*vioGroup{}, checked: map[string]map[string]int{}}
}

func chkKey(sc scenario, side, prim string) string {
	return sc.Func + "|" + sc.Hasher + "|" + side + "|" + prim + "|" + sc.shape() + "|" + sc.entry() + "|" + sc.spelling()
}

func (b *book) noteChecked(sc scenario, side, prim string) {
	k := chkKey(sc, side, prim)
	if b.checked[k] == nil {
		b.checked[k] = map[string]int{}
	}

	b.checked[k][sc.pair()]++
}

func (b *book) add(sc scenario, side, prim, kind string, extra map[string]string, replay func() any) {
	sig := kf.Sig{"func": sc.Func, "hasher": sc.Hasher, "side": side, "primitive": prim, "kind": kind}
	for k, v := range extra {
		sig[k] = v
	}

	// the kinds of the two paths enter the signature for shapes only, so that
	// the signatures of the plain scenarios stay what they were
	if !sc.plain() {
		sig["src_kind"] = sc.srcKind()
		if sc.Func != "HashFile" {
			sig["dst_kind"] = sc.DstState
		}
	}

	// the special bits of the source's mode, when it has any
	if sp := specialName(sc.SrcMode); sp != "" {
		sig["src_mode_special"] = sp
	}

	// likewise the state of the hasher on entry, when it is not a fresh one
	if e := sc.entry(); e != "" {
		sig["hasher_entry"] = e
	}

	// and the spelling of the operands, when one of them is not the shortest name
	if sc.spelling() != "" {
		sig["src_spelling"] = map[bool]string{true: "clean", false: sc.SrcSpell}[sc.SrcSpell == spClean]
		if sc.Func != "HashFile" {
			sig["dst_spelling"] = map[bool]string{true: "clean", false: sc.DstSpell}[sc.DstSpell == spClean]
		}
	}

	gk := sig.String()

	g := b.groups[gk]
	if g == nil {
		g = &vioGroup{sig: sig, pairs: map[string]*vio{}, chkKey: chkKey(sc, side, prim)}
		b.groups[gk] = g
		b.gorder = append(b.gorder, gk)
	}

	p := sc.pair()

	v := g.pairs[p]
	if v == nil {
		v = &vio{replay: replay()}
		g.pairs[p] = v
		g.order = append(g.order, p)
	}

	v.count++
}

// flush reports every instance through the reporter. The file systems enter
// the signature only as far as the failure depends on them: if a group
// violates on every pair on which its fault class was checked (and on more
// than one) both are "*"; if it violates for every checked source of a
// destination the source is "*" (and symmetrically); otherwise both are named.
func (b *book) flush(rep *kf.Reporter) (groups []map[string]any) {
	split := func(p string) (d, s string) {
		i := strings.Index(p, "<-")

		return p[:i], p[i+2:]
	}

	for _, gk := range b.gorder {
		g := b.groups[gk]
		checked := b.checked[g.chkKey]
		all := len(g.pairs) > 1 && len(g.pairs) == len(checked)

		cD, cS, vD, vS := map[string]int{}, map[string]int{}, map[string]int{}, map[string]int{}

		for p := range checked {
			d, s := split(p)
			cD[d]++
			cS[s]++
		}

		for p := range g.pairs {
			d, s := split(p)
			vD[d]++
			vS[s]++
		}

		info := map[string]any{"signature": g.sig, "pairs_violating": len(g.pairs), "pairs_checked": len(checked)}
		n := 0
		sigs := map[string]bool{}

		for _, p := range g.order {
			v := g.pairs[p]
			n += v.count
			d, s := split(p)

			sig := kf.Sig{}
			for k, x := range g.sig {
				sig[k] = x
			}

			switch {
			case all:
				sig["dstfs"], sig["srcfs"] = "*", "*"
			case cD[d] > 1 && vD[d] == cD[d]:
				sig["dstfs"], sig["srcfs"] = d, "*"
			case cS[s] > 1 && vS[s] == cS[s]:
				sig["dstfs"], sig["srcfs"] = "*", s
			default:
				sig["dstfs"], sig["srcfs"] = d, s
			}

			sigs[sig["dstfs"]+"<-"+sig["srcfs"]] = true

			for i := 0; i < v.count; i++ {
				rep.Report(sig, v.replay)
			}
		}

		var fsdep []string
		for x := range sigs {
			fsdep = append(fsdep, x)
		}

		sort.Strings(fsdep)

		info["instances"] = n
		info["fs_independent"] = all
		info["fs_in_signatures"] = fsdep
		groups = append(groups, info)
	}

	return groups
}

// ---------------------------------------------------------------------------
// replay objects

// goTest renders the scenario and the plan as a self-contained Go test with
// the driver's oracle: plants the two paths on the innermost file systems,
// makes the call through FailFS and judges error, destination and digest.
func goTest(sc scenario, pl plan, required bool) string {
	h := "var hasher hash.Hash // nil"
	if sc.Hasher == "sha512" {
		h = "var hasher hash.Hash = sha512.New()"
		if sc.HasherUsed {
			h += "\n\t_, _ = hasher.Write([]byte(\"stale\")) // the caller used it before"
		}
	}

	// the earlier call of a two-call history: same hasher, same wrappers, its own failing consultation
	preCopies := false

	if b := sc.Before; b != nil {
		preCopies = b.Func == "CopyFileHash"

		pcall := "avfs.HashFile(src, srcTop.Join(srcDir, \"pre.bin\"), hasher)"
		if preCopies {
			pcall = "avfs.CopyFileHash(dst, src, dstTop.Join(dstDir, \"pre.out\"), srcTop.Join(srcDir, \"pre.bin\"), hasher)"
		}

		h += fmt.Sprintf(`
	// the earlier call with the same hasher: %s of another file of %d bytes, failing consultation %d (%s:%s #%d; -1 = none)
	preData := pattern(%d, %#x)
	put(t, srcRaw, srcRaw.Join(srcRawDir, "pre.bin"), preData, 0o644)
	n = %d // counts up to 0, where the earlier call's consultation fails
	preErrKind = %q
	preSum, preErr := %s
	t.Logf("earlier call: error %%v", preErr)
	n = 0
	defer func() {
		if d := sha512.Sum512(preData); preErr == nil && !bytes.Equal(preSum, d[:]) {
			t.Errorf("the digest the earlier call returned with a nil error is not (or no longer) the digest of its bytes: %%x", preSum)
		}
	}()`, b.Func, b.Size, b.Plan.K, b.Plan.Side, b.Plan.Primitive, b.Plan.Nth, b.Size, preSalt, map[bool]int{true: -1 - b.Plan.K, false: -1 << 30}[b.Plan.K >= 0], b.Plan.Err, pcall)
	}

	var call string

	switch sc.Func {
	case "CopyFile":
		call = "var sum []byte\n\t_ = hasher\n\terr := avfs.CopyFile(dst, src, dstPath, srcPath)"
	case "CopyFileHash":
		call = "sum, err := avfs.CopyFileHash(dst, src, dstPath, srcPath, hasher)"
	default:
		call = "sum, err := avfs.HashFile(src, srcPath, hasher)"
	}

	call = h + "\n\t" + call

	dstFS, shared := sc.DstFS, sc.Shared || sc.Func == "HashFile"
	if sc.Func == "HashFile" {
		dstFS = sc.SrcFS

		if preCopies { // the earlier CopyFileHash copies to a fresh MemFS
			dstFS, shared = fsMem, false
		}
	}

	failing := "none (fault-free run)"
	if pl.K >= 0 {
		failing = fmt.Sprintf("%s:%s (#%d of that primitive on that side)", pl.Side, pl.Primitive, pl.Nth)
	}

	return fmt.Sprintf(`// Plain Go test against the repository (no explorer needed): save as c16_replay_test.go in a
// module that requires github.com/avfs/avfs, run "go test -run TestC16Replay".
package c16replay

import (
	"bytes"
	"crypto/sha512"
	"errors"
	"hash"
	"io/fs"
	"os"
	"strings"
	"syscall"
	"testing"

	"github.com/avfs/avfs"
	"github.com/avfs/avfs/vfs/basepathfs"
	"github.com/avfs/avfs/vfs/failfs"
	"github.com/avfs/avfs/vfs/memfs"
	"github.com/avfs/avfs/vfs/orefafs"
	"github.com/avfs/avfs/vfs/osfs"
	"github.com/avfs/avfs/vfs/rofs"
)

var _ hash.Hash = sha512.New()

var preErrKind string // kind of the error injected into the earlier call of a two-call history (see inject)

// inject is the value the failing primitive returns.
func inject(kind string, fp *failfs.FailParam) error {
	switch kind {
	case "permdenied":
		return &fs.PathError{Op: fp.Op, Path: fp.Path, Err: avfs.ErrPermDenied}
	case "errno":
		return syscall.EIO
	case "linkerror":
		return &os.LinkError{Op: fp.Op, Old: fp.Path, New: fp.Path, Err: syscall.EIO}
	case "notexist":
		return &fs.PathError{Op: fp.Op, Path: fp.Path, Err: avfs.ErrNoSuchFileOrDir}
	case "exist":
		return &fs.PathError{Op: fp.Op, Path: fp.Path, Err: avfs.ErrFileExists}
	case "enoent":
		return syscall.ENOENT
	}
	return errors.New("injected")
}

// mkfs returns the file system the copy is called on, the FailFS in which the faults are injected (on top of the stack, or
// inside it below the wrapper), the stack without a FailFS on top, the innermost writable file system, and the working
// directory in both name spaces.
func mkfs(t *testing.T, kind string) (call avfs.VFS, seam *failfs.FailFS, top, raw avfs.VFS, dir, rawDir string) {
	defer func() {
		if seam == nil {
			seam = failfs.New(top)
			call = seam
		}
		if err := raw.MkdirAll(rawDir, 0o755); err != nil {
			t.Fatal(err)
		}
	}()
	switch kind {
	case "BasePathFS(FailFS(MemFS))", "BasePathFS(FailFS(OrefaFS))":
		var m avfs.VFS = memfs.New()
		if kind == "BasePathFS(FailFS(OrefaFS))" {
			m = orefafs.New()
		}
		_ = m.MkdirAll("/bp", 0o755)
		seam = failfs.New(m)
		top, raw, dir, rawDir = basepathfs.New(seam, "/bp"), m, "/c16", "/bp/c16"
		call = top
	case "RoFS(FailFS(MemFS))":
		m := memfs.New()
		seam = failfs.New(m)
		top, raw, dir, rawDir = rofs.New(seam), m, "/c16", "/c16"
		call = top
	case "MemFS":
		m := memfs.New()
		top, raw, dir, rawDir = m, m, "/c16", "/c16"
	case "OrefaFS":
		o := orefafs.New()
		top, raw, dir, rawDir = o, o, "/c16", "/c16"
	case "OsFS":
		o := osfs.NewWithNoIdm()
		d := t.TempDir()
		top, raw, dir, rawDir = o, o, d, d
	case "BasePathFS(MemFS)":
		m := memfs.New()
		_ = m.MkdirAll("/bp", 0o755)
		top, raw, dir, rawDir = basepathfs.New(m, "/bp"), m, "/c16", "/bp/c16"
	case "RoFS(MemFS)":
		m := memfs.New()
		top, raw, dir, rawDir = rofs.New(m), m, "/c16", "/c16"
	}
	return
}

func pattern(n int, salt byte) []byte {
	b := make([]byte, n)
	for i := range b {
		b[i] = byte(i*7+i/251) ^ byte(i>>11) ^ salt
	}
	return b
}

func must(t *testing.T, err error) {
	if err != nil {
		t.Fatal(err)
	}
}

const chmodBits = fs.ModePerm | fs.ModeSetuid | fs.ModeSetgid | fs.ModeSticky

func put(t *testing.T, v avfs.VFS, p string, data []byte, mode fs.FileMode) {
	must(t, v.WriteFile(p, data, 0o644))
	must(t, v.Chmod(p, 0)) // every Chmod of the set-up changes the rwx bits
	must(t, v.Chmod(p, mode))
	if fi, err := v.Stat(p); err != nil || fi.Mode()&chmodBits != mode&chmodBits {
		t.Errorf("%%s: Stat shows mode %%v after Chmod(%%v) (%%v): a copy reads the source's mode through it", p, fi.Mode(), mode, err)
	}
}

// plant makes the path <stem>.bin of the given kind in dir of the innermost file system; the node behind a link is <stem>.real.
func plant(t *testing.T, v avfs.VFS, dir, stem, kind string, data []byte, mode fs.FileMode) {
	bin, realp, mid := v.Join(dir, stem+".bin"), v.Join(dir, stem+".real"), v.Join(dir, stem+".mid")
	switch kind {
	case "file", "present":
		put(t, v, bin, data, mode)
	case "present-special":
		put(t, v, bin, data, mode|fs.ModeSetgid|fs.ModeSticky)
	case "missing", "absent":
	case "dir":
		must(t, v.Mkdir(bin, 0o755))
	case "dir-nonempty":
		must(t, v.Mkdir(bin, 0o755))
		must(t, v.WriteFile(v.Join(bin, "in"), []byte("in"), 0o644))
	case "symlink-dangling":
		must(t, v.Symlink(stem+".real", bin))
	case "symlink-dir":
		must(t, v.Mkdir(realp, 0o755))
		must(t, v.Symlink(stem+".real", bin))
	case "symlink":
		put(t, v, realp, data, mode)
		must(t, v.Symlink(stem+".real", bin))
	case "symlink-abs":
		put(t, v, realp, data, mode)
		must(t, v.Symlink(realp, bin))
	case "symlink-chain":
		put(t, v, realp, data, mode)
		must(t, v.Symlink(stem+".real", mid))
		must(t, v.Symlink(stem+".mid", bin))
	case "hardlink":
		put(t, v, realp, data, mode)
		must(t, v.Link(realp, bin))
	default:
		t.Fatalf("unknown kind %%q", kind)
	}
}

// spell writes the name of dir/base the way the caller of the copy does (how == "": the shortest absolute name)
// and makes what that spelling needs: the directory "sp.d/.." passes through, the current directory for a relative name.
func spell(t *testing.T, top, raw avfs.VFS, dir, rawDir, base, how string) string {
	sep := string(top.PathSeparator())
	if strings.Contains(how, "dotdot") {
		must(t, raw.MkdirAll(raw.Join(rawDir, "sp.d"), 0o755))
	}
	if strings.HasPrefix(how, "relative") {
		wd, err := os.Getwd() // the current directory of an OsFS is that of the process
		must(t, err)
		t.Cleanup(func() { _ = os.Chdir(wd) })
		must(t, top.Chdir(dir))
	}
	switch how {
	case "":
		return top.Join(dir, base)
	case "double-sep":
		return dir + sep + sep + base
	case "dot":
		return dir + sep + "." + sep + base
	case "dotdot":
		return dir + sep + "sp.d" + sep + ".." + sep + base
	case "relative":
		return "." + sep + base
	case "relative-bare":
		return base
	case "relative-dotdot":
		return "sp.d" + sep + ".." + sep + base
	case "above-root":
		return sep + ".." + dir + sep + base
	case "sep-run":
		return sep + strings.ReplaceAll(dir[len(sep):]+sep+base, sep, sep+sep+sep)
	}
	t.Fatalf("unknown spelling %%q", how)
	return ""
}

func TestC16Replay(t *testing.T) {
	const (
		srcSpell   = %q // how the source operand is written ("": shortest absolute name)
		dstSpell   = %q // how the destination operand is written
		size       = %d
		srcMode    = %s
		srcKind    = %q // what the source path is
		dstKind    = %q // what the destination path is
		isCopy     = %v
		shared     = %v // source and destination on the same instance
		canSucceed = %v // the source (links followed) is a file and the destination is not a directory
		k          = %d // index of the failing consultation: %s
		mustReport = %v // a failure of that primitive is in the property's list
		errKind    = %q // the value the failing primitive returns (see inject)
		withDigest = %v
	)
	var src, dst avfs.VFS
	src, srcSeam, srcTop, srcRaw, srcDir, srcRawDir := mkfs(t, %q)
	dstSeam, dstTop, dstRaw, dstDir, dstRawDir := failfs.New(srcTop), srcTop, srcRaw, srcDir, srcRawDir
	dst = dstSeam
	if !shared {
		dst, dstSeam, dstTop, dstRaw, dstDir, dstRawDir = mkfs(t, %q)
	}
	plant(t, srcRaw, srcRawDir, "src", srcKind, pattern(size, 0), srcMode)
	if isCopy {
		plant(t, dstRaw, dstRawDir, "dst", dstKind, pattern(size+4097, 0xA5), 0o660)
	}
	n := 0
	ff := func(_ avfs.VFSBase, _ avfs.FnVFS, fp *failfs.FailParam) error {
		n++
		if n == 0 {
			return inject(preErrKind, fp)
		}
		if n-1 == k {
			return inject(errKind, fp)
		}
		return nil
	}
	srcPath := spell(t, srcTop, srcRaw, srcDir, srcRawDir, "src.bin", srcSpell)
	dstPath := spell(t, dstTop, dstRaw, dstDir, dstRawDir, "dst.bin", dstSpell)
	_ = srcSeam.SetFailFunc(ff)
	_ = dstSeam.SetFailFunc(ff)
	_, _ = dst, dstPath
	%s
	if err != nil {
		if k < 0 && canSucceed {
			t.Fatalf("error although nothing failed: %%v", err)
		}
		return
	}
	if k >= 0 && mustReport {
		t.Fatal("nil error although consultation k failed")
	}
	if !canSucceed {
		t.Fatal("nil error although this copy cannot succeed")
	}
	// nil error: destination (links followed) is a regular file with the bytes and the permission bits of the source file
	want, rerr := srcRaw.ReadFile(srcRaw.Join(srcRawDir, "src.bin"))
	must(t, rerr)
	wantMode := fs.FileMode(srcMode) & chmodBits // the mode the set-up asked for, not the one Stat of the source's file system reports
	if isCopy {
		di, derr := dstRaw.Stat(dstRaw.Join(dstRawDir, "dst.bin"))
		if derr != nil || !di.Mode().IsRegular() {
			t.Fatalf("nil error but the destination is not a regular file (%%v, %%v)", di, derr)
		}
		got, gerr := dstRaw.ReadFile(dstRaw.Join(dstRawDir, "dst.bin"))
		if gerr != nil || !bytes.Equal(got, want) {
			t.Fatalf("nil error but the destination holds %%d bytes that differ from the %%d of the source (%%v)", len(got), len(want), gerr)
		}
		if di.Mode()&chmodBits != wantMode { // rwx and setuid, setgid, sticky: the bits Chmod carries
			t.Fatalf("nil error but the destination has mode %%v, the source file was given %%v", di.Mode(), wantMode)
		}
	}
	if d := sha512.Sum512(want); withDigest && !bytes.Equal(sum, d[:]) || !withDigest && len(sum) != 0 {
		t.Fatalf("nil error but the digest is %%x", sum)
	}
}
`, sc.SrcSpell, sc.DstSpell, sc.Size, modeExpr(sc.SrcMode), sc.srcKind(), sc.DstState, sc.Func != "HashFile", shared, sc.possible(),
		pl.K, failing, required, pl.Err, sc.Hasher == "sha512", sc.SrcFS, dstFS, call)
}

func replayObj(sc scenario, pl plan, base []cons, res result, expected string) any {
	o := map[string]any{
		"scenario":         sc,
		"plan":             pl,
		"fault_free_trace": traceStrings(base),
		"expected":         expected,
		"observed":         res,
		"source_content":   "b[i] = byte(i*7+i/251) ^ byte(i>>11), i < size; for the link kinds of source the file is src.real and src.bin the link",
		"dst_present_is":   "size+4097 bytes of the same pattern xor 0xA5, mode 0660 (for the link kinds of destination: that file is dst.real and dst.bin the link; present-special: mode 0660 + setgid + sticky); a directory has mode 0755",
		"modes_are":        "src_mode is written the Unix way (04000 setuid, 02000 setgid, 01000 sticky); equality of modes is judged on rwx and these three bits",
		"planted_on":       "the innermost file system (the base of a BasePathFS, the file system below a RoFS), never through the wrappers",
		"rerun":            "./check C16 quick -replay <this file>",
	}

	required := false
	if pl.K >= 0 && pl.K < len(base) {
		_, required = classOf(base[pl.K])
	}

	o["go_test"] = goTest(sc, pl, required)

	return o
}

// ---------------------------------------------------------------------------
// the enumeration

type stats struct {
	runs, scenarios, faultRuns, baseRuns int
	injected                             map[string]int            // side:Fn -> plans injected
	outcome                              map[string]map[string]int // variant|side:Fn -> outcome -> n
	faultClasses                         map[string]bool           // variant|side|Fn|E
	classSeen, classInjected             map[string]int
	unlisted                             map[string]map[string]int // class -> nil/non-nil -> n
	baseTraces                           map[string]map[string]int // variant -> compressed trace -> scenarios
	traceLens                            map[int]int
	srcChanged                           int
	samples                              []any
	pairs                                map[string]int
	sampledVariant                       map[string]bool
	hashFS                               map[string]int
	shapeOutcome                         map[string]map[string]int // shape -> outcome of the fault-free run -> scenarios
	refusedDstChanged                    map[string]int            // shape -> refused copies after which the destination side differs
	shapeScenarios                       int
	wallPlain, wallShapes, wallSequel    float64
	wallSpell                            float64
	spellScenarios                       int
	spellOutcome                         map[string]map[string]int // spelling -> outcome of the fault-free run -> scenarios
	sequelHeads, sequelRuns              int
	entryStates                          map[string]map[string]int // state of the hasher on entry -> what it was in fact -> runs
}

func inc2(m map[string]map[string]int, a, b string) {
	if m[a] == nil {
		m[a] = map[string]int{}
	}

	m[a][b]++
}

func sameTrace(a, b []cons) bool {
	if len(a) != len(b) {
		return false
	}

	for i := range a {
		if a[i] != b[i] {
			return false
		}
	}

	return true
}

var errKinds = []string{"sentinel", "permdenied"}

// errKindsBelow are the further error values injected where the seam lies
// below a wrapper: there the value passes through code that inspects its type
// (FromPathError, FromLinkError, a RoFS that maps errors) before the copy sees
// it. Above every wrapper the value goes straight to copy.go, which only
// compares it with nil: two values are enough there.
var errKindsBelow = []string{"errno", "linkerror"}

var errKindsAll = append(append([]string{}, errKinds...), errKindsBelow...)

// errKindsClass are injected values that belong to one of the CLASSES callers
// test with errors.Is: fs.ErrNotExist (as *fs.PathError and as a bare ENOENT),
// fs.ErrExist (fs.ErrPermission is "permdenied" above).
//
// General lesson (round 11): code that handles errors rarely treats them all
// alike - it asks errors.Is(err, fs.ErrNotExist) / os.IsExist(err) and then
// "tolerates" the case it believes harmless (a file that is already gone, a
// directory that is already there). Such a branch is entered only by a value
// of that class; an opaque sentinel or an EIO never reaches it. So the class
// of the injected value is part of the error-kind dimension, at every
// consultation, above a wrapper as well as below it.
var errKindsClass = []string{"notexist", "exist", "enoent"}

// classAllVariants: all class values for every function variant and every
// scenario (thorough). Quick: the sha512 variants only (same reason as
// belowAllVariants) - "notexist" in every scenario that has fault plans,
// "exist" in the plain CopyFileHash scenarios (file to file, shortest names,
// fresh hasher), the bare "enoent" not at all.
var classAllVariants bool

func errKindsClassFor(sc scenario) []string {
	switch {
	case classAllVariants:
		return errKindsClass
	case sc.Hasher != "sha512":
		return nil
	case sc.Func == "CopyFileHash" && sc.plain() && sc.spelling() == "" && sc.Before == nil:
		return errKindsClass[:2]
	}

	return errKindsClass[:1]
}

const errKindsClassQuickText = "quick: sha512 variants only, notexist in every scenario with fault plans, exist in the plain CopyFileHash scenarios, enoent not; thorough: all three, every variant, every scenario with fault plans"

// belowAllVariants: the further values for every function variant (thorough)
// or for the sha512 variants only (quick: CopyFile is CopyFileHash with a nil
// hasher, the sha512 variant makes every call the others make).
var belowAllVariants bool

func errKindsFor(sc scenario) []string {
	ks := errKinds
	if (seamInside(sc.SrcFS) || seamInside(sc.DstFS)) && (belowAllVariants || sc.Hasher == "sha512") {
		ks = errKindsAll
	}

	if cl := errKindsClassFor(sc); len(cl) > 0 {
		ks = append(append([]string{}, ks...), cl...)
	}

	return ks
}

// checkConverse applies oracle (c) and the no-panic requirement to one run.
func checkConverse(bk *book, sc scenario, pl plan, base []cons, res result) {
	side, prim := "-", "none"
	if pl.K >= 0 {
		side, prim = pl.Side, pl.Primitive
	}

	rp := func(exp string) func() any {
		return func() any { return replayObj(sc, pl, base, res, exp) }
	}

	// (g) the earlier call of a two-call history: it returns, and a digest it
	// returned with a nil error is the digest of its bytes - still so after
	// the later call.
	if p := res.Pre; p != nil {
		switch {
		case p.Outcome != "returned":
			m := p.Msg
			if i := strings.Index(m, " @ "); i >= 0 {
				m = m[:i]
			}

			bk.add(sc, side, prim, "earlier-call-"+p.Outcome, map[string]string{"msg": m}, rp("the earlier call returns"))
		case p.ErrNil && !p.DigestOKThen:
			bk.add(sc, side, prim, "earlier-call-nil-error-but-digest-wrong", nil, rp("nil error only if the returned digest is the digest of the bytes"))
		case p.ErrNil && !p.DigestOKNow:
			bk.add(sc, side, prim, "earlier-digest-changed-by-later-call", nil,
				rp("the digest returned by the earlier call is still the digest of its bytes after the later call on the same hasher"))
		}
	}

	if res.Outcome != "returned" {
		m := res.Msg
		if i := strings.Index(m, " @ "); i >= 0 {
			m = m[:i]
		}

		bk.add(sc, side, prim, res.Outcome, map[string]string{"msg": m}, rp("the call returns"))

		return
	}

	if !res.ErrNil {
		return
	}

	// (e) nothing the destination could "then hold": the source has no bytes,
	// or the destination path cannot be a file.
	if !sc.possible() {
		bk.add(sc, side, prim, "nil-error-on-impossible-copy", nil,
			rp("non-nil error: the source is not a file or the destination is a directory (src "+sc.srcKind()+", dst "+sc.DstState+")"))

		return
	}

	if sc.Func != "HashFile" {
		switch {
		case !res.DstExists:
			bk.add(sc, side, prim, "nil-error-but-dst-missing", nil, rp("nil error only if destination holds the source's bytes"))
		case !res.DstRegular:
			bk.add(sc, side, prim, "nil-error-but-dst-not-a-file", nil, rp("nil error only if destination is a regular file holding the source's bytes"))
		case !res.BytesEqual:
			bk.add(sc, side, prim, "nil-error-but-dst-bytes-differ", nil, rp("nil error only if destination holds the source's bytes"))
		}

		if res.DstExists && !res.PermEqual {
			bk.add(sc, side, prim, "nil-error-but-dst-perm-differs", nil, rp("nil error only if destination has the source's permission bits"))
		}
	}

	if !res.DigestOK {
		bk.add(sc, side, prim, "nil-error-but-digest-wrong", nil, rp("nil error only if the returned digest is the digest of the bytes (none for a nil hasher)"))
	}
}

// explore runs one scenario: fault-free twice (determinism), then every
// single-fault plan. It returns a harness error for anything that would make
// the enumeration meaningless.
func explore(sc scenario, bk *book, st *stats) (result, error) {
	st.scenarios++

	if sc.Func == "HashFile" {
		st.hashFS[sc.SrcFS]++
	} else {
		st.pairs[sc.pair()]++
	}

	nofault := plan{K: -1}

	base, err := run(sc, nofault)
	if err != nil {
		return base, fmt.Errorf("%s: %w", sc, err)
	}

	st.runs++
	st.baseRuns++

	// the second fault-free run establishes that the trace the plans index
	// into is reproducible; a scenario without plans does not need it
	if !sc.noFaults {
		again, err := run(sc, nofault)
		if err != nil {
			return base, fmt.Errorf("%s: %w", sc, err)
		}

		st.runs++
		st.baseRuns++

		if !sameTrace(base.trace, again.trace) || base.ErrNil != again.ErrNil || base.Digest != again.Digest {
			return base, fmt.Errorf("%s: fault-free run is not deterministic: %v / %v", sc, base.Trace, again.Trace)
		}
	}

	if base.SrcChanged {
		st.srcChanged++
	}

	st.noteEntry(sc, base)

	inc2(st.baseTraces, sc.variant(), compress(base.trace))
	st.traceLens[len(base.trace)]++

	for _, c := range base.trace {
		cl, _ := classOf(c)
		st.classSeen[cl]++
	}

	// (a)
	bk.noteChecked(sc, "-", "none")

	// (a)/(f): a copy that can succeed does; (e) is part of checkConverse
	if base.Outcome == "returned" && !base.ErrNil && sc.possible() {
		bk.add(sc, "-", "none", "error-without-fault", map[string]string{"err": base.ErrKind},
			func() any { return replayObj(sc, nofault, base.trace, base, "nil error: nothing failed") })
	}

	// (h) the start state itself: the mode the set-up's Chmod was given is the
	// mode Stat of that file system shows (see putFile). Judged once per
	// scenario, on the fault-free run.
	if len(base.Readback) > 0 {
		bk.add(sc, "-", "none", "mode-readback", map[string]string{"readback": base.Readback[0]},
			func() any {
				return replayObj(sc, nofault, base.trace, base, "Stat of a file shows the permission bits its Chmod was given: a copy reads the source's mode through it")
			})
	}

	checkConverse(bk, sc, nofault, base.trace, base)

	if sp := sc.spelling(); sp != "" {
		oc := "non-nil"

		switch {
		case base.Outcome != "returned":
			oc = base.Outcome
		case base.ErrNil:
			oc = "nil"
		}

		inc2(st.spellOutcome, sp, oc)

		if key := "spelling " + sc.variant(); sc.SrcSpell != spClean && sc.DstSpell != spClean && sc.SrcSpell != sc.DstSpell && !st.sampledVariant[key] {
			st.sampledVariant[key] = true
			st.samples = append(st.samples, map[string]any{
				"scenario": sc.String(), "plan": "no fault", "trace": compress(base.trace),
				"observed_error": map[bool]string{true: "nil", false: base.Err}[base.ErrNil], "dst_perm_after": base.DstPerm, "src_perm": base.SrcPerm,
			})
		}
	}

	if sh := sc.shape(); sh != "" {
		oc := "non-nil"

		switch {
		case base.Outcome != "returned":
			oc = base.Outcome
		case base.ErrNil:
			oc = "nil"
		}

		inc2(st.shapeOutcome, sh, oc)

		if !sc.possible() && !base.DstSame {
			st.refusedDstChanged[sh]++
		}

		key := "shape possible=" + strconv.FormatBool(sc.possible())
		if sc.variant() == "CopyFileHash/sha512" && sc.srcKind() != kFile && sc.DstState != kDstAbsent && !st.sampledVariant[key] {
			st.sampledVariant[key] = true
			st.samples = append(st.samples, map[string]any{
				"scenario": sc.String(), "plan": "no fault", "trace": compress(base.trace), "copy_can_succeed": sc.possible(),
				"observed_error": map[bool]string{true: "nil", false: base.Err}[base.ErrNil], "dst_entry_after": base.DstEntry,
				"dst_perm_after": base.DstPerm, "src_perm": base.SrcPerm, "dst_as_before": base.DstSame,
			})
		}
	}

	if sc.noFaults {
		return base, nil
	}

	sampled := sc.plain() && sc.Size == 32769 && !st.sampledVariant[sc.variant()]
	if sampled {
		st.sampledVariant[sc.variant()] = true
		st.samples = append(st.samples, map[string]any{"scenario": sc, "plan": "no fault", "trace": compress(base.trace), "error_is_nil": base.ErrNil})
	}

	// (b) + (c) for every single-fault plan
	nth := map[cons]int{}

	for k, c := range base.trace {
		nth[c]++
		class, required := classOf(c)

		for _, e := range errKindsFor(sc) {
			pl := plan{K: k, Side: c.Side, Primitive: c.Fn.String(), Nth: nth[c], Err: e}

			res, err := run(sc, pl)
			if err != nil {
				return base, fmt.Errorf("%s plan %+v: %w", sc, pl, err)
			}

			st.runs++
			st.faultRuns++

			if !res.Fired || len(res.trace) <= k || !sameTrace(res.trace[:k+1], base.trace[:k+1]) {
				return base, fmt.Errorf("%s plan %+v: replay diverged from the fault-free trace (fired=%v, trace %v, expected prefix %v)",
					sc, pl, res.Fired, res.Trace, traceStrings(base.trace[:k+1]))
			}

			if res.SrcChanged {
				st.srcChanged++
			}

			st.noteEntry(sc, res)

			st.injected[c.String()]++
			st.classInjected[class]++
			st.faultClasses[sc.variant()+"|"+c.Side+"|"+c.Fn.String()+"|"+e] = true

			oc := "non-nil"

			switch {
			case res.Outcome != "returned":
				oc = res.Outcome
			case res.ErrNil:
				oc = "nil"
			}

			inc2(st.outcome, sc.variant()+" "+c.String(), oc)
			bk.noteChecked(sc, c.Side, c.Fn.String())

			if required {
				if res.Outcome == "returned" && res.ErrNil {
					bk.add(sc, c.Side, c.Fn.String(), "nil-error-on-failure", nil,
						func() any {
							return replayObj(sc, pl, base.trace, res, "non-nil error: "+c.Side+" "+c.Fn.String()+" failed (class "+class+")")
						})
				}
			} else {
				inc2(st.unlisted, class, oc)
			}

			checkConverse(bk, sc, pl, base.trace, res)

			if sampled && (sc.variant() == "CopyFileHash/sha512" || sc.Func == "HashFile") && e == "sentinel" && nth[c] == 1 {
				st.samples = append(st.samples, map[string]any{
					"scenario": sc.String(), "plan": pl, "class": class, "required_non_nil": required,
					"observed_error": map[bool]string{true: "nil", false: res.Err}[res.ErrNil], "trace_after_fault": compress(res.trace[k+1:]),
				})
			}
		}
	}

	return base, nil
}

// exploreSequel runs the two-call histories that start with one earlier call:
// the head scenario (earlier call fault-free; the later call under the plans
// its tier gives it) and then, for every consultation k of the earlier call's
// fault-free trace and every error E, the history "the earlier call fails at
// k with E, the later call runs fault-free on the hasher that leaves behind".
// At most one fault per history, as everywhere in this driver.
//
// General lesson: an argument with state (a hasher, a buffer, a handle) is a
// start state; the states worth enumerating are the ones the code under test
// itself leaves behind - above all on its error paths, which no successful
// return ever tidied up.
func exploreSequel(head scenario, bk *book, st *stats) error {
	if head.Before == nil || head.Before.Plan.K >= 0 {
		return fmt.Errorf("%s: not the head of a two-call history", head)
	}

	base, err := explore(head, bk, st)
	if err != nil {
		return err
	}

	if base.Pre == nil {
		return fmt.Errorf("%s: the earlier call was not made", head)
	}

	st.sequelHeads++

	pre := base.Pre.trace
	nofault := plan{K: -1}
	nth := map[cons]int{}

	for k, c := range pre {
		nth[c]++

		for _, e := range errKindsFor(head) {
			sc := head
			sc.noFaults = true
			sc.Before = &prelude{
				Func: head.Before.Func, Size: head.Before.Size, expect: pre,
				Plan: plan{K: k, Side: c.Side, Primitive: c.Fn.String(), Nth: nth[c], Err: e},
			}

			res, err := run(sc, nofault)
			if err != nil {
				return fmt.Errorf("%s: %w", sc, err)
			}

			st.runs++
			st.sequelRuns++

			if res.SrcChanged {
				st.srcChanged++
			}

			st.noteEntry(sc, res)
			bk.noteChecked(sc, "-", "none")

			// the later call can succeed and nothing fails during it
			if res.Outcome == "returned" && !res.ErrNil && sc.possible() {
				bk.add(sc, "-", "none", "error-without-fault", map[string]string{"err": res.ErrKind},
					func() any {
						return replayObj(sc, nofault, res.trace, res, "nil error: nothing failed during this call")
					})
			}

			checkConverse(bk, sc, nofault, res.trace, res)

			if e == "sentinel" && res.HasherDirty && !res.Pre.ErrNil && !st.sampledVariant["sequel "+sc.variant()+" "+sc.entry()] {
				st.sampledVariant["sequel "+sc.variant()+" "+sc.entry()] = true
				st.samples = append(st.samples, map[string]any{
					"scenario": sc.String(), "earlier_call_trace": compress(res.Pre.trace), "earlier_call_error": res.Pre.Err,
					"hasher_holds_bytes_on_entry": res.HasherDirty, "plan": "no fault", "trace": compress(res.trace),
					"observed_error": map[bool]string{true: "nil", false: res.Err}[res.ErrNil], "digest_ok": res.DigestOK,
				})
			}
		}
	}

	return nil
}

// noteEntry counts the states in which the hasher was actually entered.
func (st *stats) noteEntry(sc scenario, res result) {
	e := sc.entry()
	if e == "" {
		return
	}

	how := "hasher clean"
	if res.HasherDirty {
		how = "hasher holds bytes"
	}

	if res.Pre != nil {
		if res.Pre.ErrNil {
			how = "earlier call returned nil, " + how
		} else {
			how = "earlier call returned an error, " + how
		}
	}

	inc2(st.entryStates, e, how)
}

// ---------------------------------------------------------------------------
// space

type fsPair struct {
	dst, src string
	shared   bool
}

// used lists the entry states "fresh" (false) and "written to by the caller"
// (true) of the hasher; usedFaults says whether the second one also gets the
// single-fault plans (quick: fault-free only - the fresh hasher runs them all).
func space(tier string) (sizes []int, pairs []fsPair, hashFS []string, used []bool) {
	hashFS = []string{fsMem, fsOrefa, fsOs, fsBase, fsRo}

	if tier == "quick" {
		sizes = []int{0, 32768, 32769, 65537}

		for _, d := range []string{fsMem, fsOrefa, fsOs} {
			for _, s := range []string{fsMem, fsOrefa, fsOs} {
				pairs = append(pairs, fsPair{d, s, false})
			}
		}

		pairs = append(pairs, fsPair{fsBase, fsMem, false}, fsPair{fsMem, fsBase, false},
			fsPair{fsOrefa, fsRo, false}, fsPair{fsMem, fsMem, true})

		// the seam below the wrapper, on either side (seamInside)
		pairs = append(pairs, fsPair{fsBaseOverFail, fsMem, false}, fsPair{fsMem, fsBaseOverFail, false})
		hashFS = append(hashFS, fsBaseOverFail)

		return sizes, pairs, hashFS, []bool{false, true}
	}

	hashFS = append(hashFS, fsBaseOverFail, fsBaseOverFailOrefa, fsRoOverFail)

	sizes = []int{0, 1, 32767, 32768, 32769, 65536, 65537}

	for _, d := range []string{fsMem, fsOrefa, fsOs, fsBase} {
		for _, s := range []string{fsMem, fsOrefa, fsOs, fsBase, fsRo} {
			pairs = append(pairs, fsPair{d, s, false})
		}
	}

	for _, x := range []string{fsMem, fsOrefa, fsOs, fsBase} {
		pairs = append(pairs, fsPair{x, x, true})
	}

	// the seam below the wrapper (seamInside): every such stack as destination
	// and as source of a leaf and of each other
	for _, d := range []string{fsBaseOverFail, fsBaseOverFailOrefa} {
		for _, s := range []string{fsMem, fsOrefa, fsBaseOverFail, fsRoOverFail} {
			pairs = append(pairs, fsPair{d, s, false})
		}
	}

	for _, s := range []string{fsBaseOverFail, fsBaseOverFailOrefa, fsRoOverFail} {
		pairs = append(pairs, fsPair{fsMem, s, false}, fsPair{fsOrefa, s, false})
	}

	return sizes, pairs, hashFS, []bool{false, true}
}

func scenarios(tier string) []scenario {
	sizes, pairs, hashFS, used := space(tier)

	var out []scenario

	for _, p := range pairs {
		for _, size := range sizes {
			for _, ds := range []string{"absent", "present"} {
				// the modes a creation asks for by default (0666 for a file, 0777): code that
				// skips "setting what is already there" compares with the mode it asked for, not
				// with the mode it got (umask) or found (existing destination). Fault-free only.
				for _, mode := range []uint32{0o666, 0o777} {
					out = append(out,
						scenario{Func: "CopyFile", Hasher: "none", DstFS: p.dst, SrcFS: p.src, Shared: p.shared, Size: size, DstState: ds, SrcMode: mode, noFaults: true},
						scenario{Func: "CopyFileHash", Hasher: "sha512", DstFS: p.dst, SrcFS: p.src, Shared: p.shared, Size: size, DstState: ds, SrcMode: mode, noFaults: true})
				}

				for _, mode := range []uint32{0o644, 0o400} {
					out = append(out,
						scenario{Func: "CopyFile", Hasher: "none", DstFS: p.dst, SrcFS: p.src, Shared: p.shared, Size: size, DstState: ds, SrcMode: mode},
						scenario{Func: "CopyFileHash", Hasher: "nil", DstFS: p.dst, SrcFS: p.src, Shared: p.shared, Size: size, DstState: ds, SrcMode: mode})

					for _, u := range used {
						out = append(out, scenario{
							Func: "CopyFileHash", Hasher: "sha512", HasherUsed: u, DstFS: p.dst, SrcFS: p.src, Shared: p.shared, Size: size, DstState: ds, SrcMode: mode,
							noFaults: u && !usedFaults(tier),
						})
					}
				}
			}
		}
	}

	// special bits (see modeSpace): source modes x destination states that
	// include a file carrying special bits, fault-free, on every pair
	ms := modeSpaceFor(tier)

	for _, p := range pairs {
		for _, size := range ms.sizes {
			for _, ds := range []string{kDstAbsent, kDstPresent, kDstSpecial} {
				for _, mode := range ms.modes() {
					if mode == 0o644 && ds != kDstSpecial && inSizes(sizes, size) {
						continue // among the plain scenarios above
					}

					for _, v := range ms.variants {
						out = append(out, scenario{
							Func: v[0], Hasher: v[1], DstFS: p.dst, SrcFS: p.src, Shared: p.shared, Size: size,
							DstState: ds, SrcMode: mode, noFaults: !ms.faults(v[1], size, mode, ds),
						})
					}
				}
			}
		}
	}

	for _, f := range hashFS {
		for _, size := range sizes {
			for _, mode := range []uint32{0o644, 0o400} {
				for _, u := range used {
					out = append(out, scenario{
						Func: "HashFile", Hasher: "sha512", HasherUsed: u, DstFS: "-", SrcFS: f, Size: size, DstState: "n/a", SrcMode: mode,
						noFaults: u && !usedFaults(tier),
					})
				}
			}
		}
	}

	// shapes: kind of the source path x kind of the destination path x sizes
	// that include the empty file, on every pair; after the plain scenarios so
	// that a budget cuts the newer dimension first.
	sh := shapes(tier)
	inPlain := map[int]bool{}

	for _, n := range sizes {
		inPlain[n] = true
	}

	skipped := 0

	for _, size := range sh.sizes {
		for _, p := range pairs {
			for _, sk := range sh.srcKinds {
				for _, dk := range sh.dstKinds {
					if !fsSupports(p.src, sk) || !fsSupports(p.dst, dk) {
						skipped++

						continue
					}

					if sk == kFile && (dk == kDstAbsent || dk == kDstPresent) && inPlain[size] {
						continue // already above
					}

					for _, mode := range []uint32{0o644, 0o400} {
						for _, v := range [][2]string{{"CopyFile", "none"}, {"CopyFileHash", "nil"}, {"CopyFileHash", "sha512"}} {
							out = append(out, scenario{
								Func: v[0], Hasher: v[1], DstFS: p.dst, SrcFS: p.src, Shared: p.shared, Size: size,
								SrcKind: sk, DstState: dk, SrcMode: mode, noFaults: !sh.faults(v[1], size),
							})
						}
					}
				}
			}
		}

		for _, f := range hashFS {
			for _, sk := range sh.srcKinds {
				if !fsSupports(f, sk) {
					skipped++

					continue
				}

				if sk == kFile && inPlain[size] {
					continue
				}

				for _, mode := range []uint32{0o644, 0o400} {
					out = append(out, scenario{
						Func: "HashFile", Hasher: "sha512", DstFS: "-", SrcFS: f, Size: size,
						SrcKind: sk, DstState: "n/a", SrcMode: mode, noFaults: !sh.faults("sha512", size),
					})
				}
			}
		}
	}

	skippedUnsupported = skipped

	// spellings of the two operands: every (spelling of the source, spelling of
	// the destination) but the clean pair, which is everything above; the file
	// systems differ in how they resolve a name, so on every pair.
	sp := spellSpace(tier)
	skippedSpellings = 0

	for _, size := range sp.sizes {
		for _, p := range pairs {
			for _, ss := range sp.spellings {
				for _, dsp := range sp.spellings {
					if ss == spClean && dsp == spClean {
						continue
					}

					if !sp.seamInside && (seamInside(p.src) || seamInside(p.dst)) {
						continue
					}

					// the process has one current directory: two OsFS directories cannot both be it
					if !p.shared && p.src == fsOs && p.dst == fsOs && spellIsRelative(ss) && spellIsRelative(dsp) {
						skippedSpellings++

						continue
					}

					for _, ds := range []string{kDstAbsent, kDstPresent} {
						for _, v := range [][2]string{{"CopyFile", "none"}, {"CopyFileHash", "nil"}, {"CopyFileHash", "sha512"}} {
							if !sp.variant(v[1]) {
								continue
							}

							out = append(out, scenario{
								Func: v[0], Hasher: v[1], DstFS: p.dst, SrcFS: p.src, Shared: p.shared, Size: size,
								DstState: ds, SrcMode: 0o640, SrcSpell: ss, DstSpell: dsp, noFaults: !sp.faults(v[1], size),
							})
						}
					}
				}
			}
		}

		for _, f := range hashFS {
			for _, ss := range sp.spellings {
				if ss == spClean || (!sp.seamInside && seamInside(f)) {
					continue
				}

				out = append(out, scenario{
					Func: "HashFile", Hasher: "sha512", DstFS: "-", SrcFS: f, Size: size,
					DstState: "n/a", SrcMode: 0o640, SrcSpell: ss, noFaults: !sp.faults("sha512", size),
				})
			}
		}
	}

	// two-call histories on one hasher, last (the newest dimension); each entry
	// is the HEAD of a family: exploreSequel derives from it one history per
	// (consultation of the earlier call, error)
	sq := sequels(tier)

	for _, first := range []string{"CopyFileHash", "HashFile"} {
		for _, fsz := range sq.firstSizes {
			for _, size := range sq.sizes {
				before := func() *prelude { return &prelude{Func: first, Size: fsz, Plan: plan{K: -1}} }

				for _, p := range pairs {
					out = append(out, scenario{
						Func: "CopyFileHash", Hasher: "sha512", DstFS: p.dst, SrcFS: p.src, Shared: p.shared, Size: size,
						DstState: kDstAbsent, SrcMode: 0o644, Before: before(), noFaults: !sq.laterFaults,
					})
				}

				for _, f := range hashFS {
					out = append(out, scenario{
						Func: "HashFile", Hasher: "sha512", DstFS: "-", SrcFS: f, Size: size,
						DstState: "n/a", SrcMode: 0o644, Before: before(), noFaults: !sq.laterFaults,
					})
				}
			}
		}
	}

	return out
}

func usedFaults(tier string) bool { return tier != "quick" }

func inSizes(sizes []int, n int) bool {
	for _, x := range sizes {
		if x == n {
			return true
		}
	}

	return false
}

// sequelSpace is the part of the space that makes two calls with one hasher.
type sequelSpace struct {
	firstSizes  []int // size of the file of the earlier call
	sizes       []int // size of the source of the later call
	laterFaults bool  // single-fault plans in the later call too (after a fault-free earlier call)?
	text        string
}

func sequels(tier string) sequelSpace {
	common := "earlier call in {CopyFileHash, HashFile} of another file with the same sha512 hasher, fault-free and failing at every consultation k of its own fault-free trace with each error; " +
		"later call in {CopyFileHash (every fs pair, destination absent), HashFile (every hashfile fs; an earlier CopyFileHash then copies to a fresh MemFS)}; "

	if tier == "quick" {
		return sequelSpace{
			firstSizes: []int{65537}, sizes: []int{0, 32769},
			text: common + "earlier file of 65537 bytes (3 buffer loads), later source of 0 and 32769 bytes; the later call runs fault-free",
		}
	}

	return sequelSpace{
		firstSizes: []int{32769, 65537}, sizes: []int{0, 1, 32769, 65537}, laterFaults: true,
		text: common + "earlier file of 32769 and 65537 bytes, later source of 0, 1, 32769, 65537 bytes; the later call runs fault-free after a faulted earlier call and under every single-fault plan after a fault-free one " +
			"(at most one fault per history)",
	}
}

// modeSpace is the part of the space that varies the special bits of the
// modes on both sides.
//
// General lesson: the last step of a copy sets the mode, and code that skips
// "setting what is already there" decides it through a PROJECTION of the mode
// (the rwx bits). The modes that tell are then the ones that are EQUAL to what
// the destination has at that moment in the projection and DIFFERENT outside
// it - not arbitrary ones. What the destination has at that moment is known:
// what Create gives under the umask in force (0666 &^ umask) for a new file,
// and the mode it had before for an existing one (truncation keeps it). So
// the rwx parts are taken from those two, crossed with every set of special
// bits on the source, and with a destination that carries special bits itself
// (which a plain source of the same rwx bits must clear).
type modeSpace struct {
	rwx      []uint32    // rwx parts of the source mode
	special  []uint32    // sets of special bits of the source mode (Unix: 04000 setuid, 02000 setgid, 01000 sticky)
	sizes    []int       //
	variants [][2]string // function variants that copy
	faults   func(hasher string, size int, mode uint32, ds string) bool
	text     string
}

// umaskInForce is the umask main and newKit set.
const umaskInForce = 0o022

func (m modeSpace) modes() []uint32 {
	var out []uint32

	for _, r := range m.rwx {
		for _, s := range m.special {
			out = append(out, r|s)
		}
	}

	return out
}

func modeSpaceFor(tier string) modeSpace {
	created := uint32(0o666 &^ umaskInForce) // rwx bits of a file Create has just made

	if tier == "quick" {
		return modeSpace{
			rwx:      []uint32{created, otherMode},
			special:  []uint32{0, 0o4000, 0o2000, 0o1000, 0o7000},
			sizes:    []int{0, 32769},
			variants: [][2]string{{"CopyFileHash", "sha512"}}, // makes every call CopyFile makes
			faults:   func(string, int, uint32, string) bool { return false },
			text: "source mode = rwx bits in {0666&^umask = what Create gives, 0660 = what the existing destination has} | special bits in {none, setuid, setgid, sticky, all three} " +
				"x destination {absent, present (0660), present-special (0660+setgid+sticky)} x sizes [0 32769] x every fs pair x CopyFileHash(sha512), fault-free",
		}
	}

	return modeSpace{
		rwx:      []uint32{created, otherMode, 0o600, 0o755, 0},
		special:  []uint32{0, 0o4000, 0o2000, 0o1000, 0o6000, 0o5000, 0o3000, 0o7000},
		sizes:    []int{0, 1, 32769},
		variants: [][2]string{{"CopyFile", "none"}, {"CopyFileHash", "nil"}, {"CopyFileHash", "sha512"}},
		// every single-fault plan where the two modes differ in the special bits only
		faults: func(hasher string, size int, mode uint32, ds string) bool {
			return hasher == "sha512" && size <= 1 && (mode&0o777 == created && ds == kDstAbsent || mode&0o777 == otherMode && ds != kDstAbsent)
		},
		text: "source mode = rwx bits in {0666&^umask = what Create gives, 0660 = what the existing destination has, 0600, 0755, 0} | every one of the 8 sets of special bits " +
			"x destination {absent, present (0660), present-special (0660+setgid+sticky)} x sizes [0 1 32769] x every fs pair x every function variant that copies, fault-free; " +
			"every single-fault plan for CopyFileHash(sha512) at sizes 0 and 1 where the rwx bits of the source equal those the destination has before the Chmod",
	}
}

// spellingSpace is the part of the space that varies how the two operands
// are written.
type spellingSpace struct {
	spellings  []string
	sizes      []int
	seamInside bool                               // also on the stacks whose seam is inside (they resolve names as the same stack without the seam does)
	variant    func(hasher string) bool           // which function variants copy
	faults     func(hasher string, size int) bool // single-fault plans too?
	faultsText string
}

var skippedSpellings int

func spellSpace(tier string) spellingSpace {
	all := []string{spClean, spDoubleSep, spDot, spDotDot, spRel, spRelBare, spRelDotDot, spAboveRoot, spSepRun}

	if tier == "quick" {
		return spellingSpace{
			spellings: all,
			sizes:     []int{0, 32769},
			// CopyFile is CopyFileHash with a nil hasher: the sha512 variant makes every call the others make
			variant:    func(hasher string) bool { return hasher != "nil" },
			faults:     func(string, int) bool { return false },
			faultsText: "CopyFile, CopyFileHash(sha512) and HashFile, fault-free; not on the stacks whose seam is below the wrapper (fault-free they are BasePathFS(MemFS), which is there)",
		}
	}

	return spellingSpace{
		spellings:  all,
		seamInside: true,
		sizes:      []int{0, 1, 32769},
		variant:    func(string) bool { return true },
		faults:     func(hasher string, size int) bool { return hasher == "sha512" && size <= 1 },
		faultsText: "every function variant, fault-free; every single-fault plan for the sha512 variants (CopyFileHash, HashFile) at sizes 0 and 1",
	}
}

// shapeSpace is the part of the space that varies what the two paths are.
type shapeSpace struct {
	srcKinds, dstKinds []string
	sizes              []int
	faults             func(hasher string, size int) bool // single-fault plans too?
	faultsText         string
}

var skippedUnsupported int

func shapes(tier string) shapeSpace {
	if tier == "quick" {
		return shapeSpace{
			srcKinds: []string{kFile, kSymlink, kHardlink, kDir, kMissing},
			dstKinds: []string{kDstAbsent, kDstPresent, kDir, kSymlink, kSymDangle},
			sizes:    []int{0, 1, 32769},
			// the sha512 variant runs everything the others run (CopyFile is CopyFileHash with a nil hasher)
			faults:     func(hasher string, size int) bool { return hasher == "sha512" && size <= 1 },
			faultsText: "fault-free for every function variant and size; every single-fault plan for the sha512 variants (CopyFileHash, HashFile) at sizes 0 and 1",
		}
	}

	return shapeSpace{
		srcKinds:   []string{kFile, kSymlink, kSymAbs, kSymChain, kHardlink, kDir, kMissing, kSymDangle, kSymDir},
		dstKinds:   []string{kDstAbsent, kDstPresent, kDir, kDirFull, kSymlink, kSymDangle, kSymDir, kHardlink},
		sizes:      []int{0, 1, 32768, 32769},
		faults:     func(string, int) bool { return true },
		faultsText: "fault-free and every single-fault plan for every function variant and size",
	}
}

// ---------------------------------------------------------------------------
// main

func die(format string, a ...any) {
	fmt.Fprintf(os.Stderr, "c16: harness error: "+format+"\n", a...)

	if scratchRoot != "" {
		_ = os.RemoveAll(scratchRoot)
	}

	os.Exit(2)
}

func setupScratch() (tmpfs bool) {
	base := os.Getenv("VERIF_SCRATCH")
	if base == "" {
		base = "/dev/shm"
		if fi, err := os.Stat(base); err != nil || !fi.IsDir() {
			base = os.TempDir()
		}
	}

	if err := os.MkdirAll(base, 0o755); err != nil {
		die("cannot create scratch base %s: %v", base, err)
	}

	d, err := os.MkdirTemp(base, "c16-")
	if err != nil {
		die("cannot create scratch dir under %s: %v", base, err)
	}

	scratchRoot = d

	var st syscall.Statfs_t
	if err := syscall.Statfs(d, &st); err == nil && st.Type == 0x01021994 {
		tmpfs = true
	}

	return tmpfs
}

func doReplay(path string) int {
	b, err := os.ReadFile(path)
	if err != nil {
		die("replay: %v", err)
	}

	var f struct {
		Replay struct {
			Scenario scenario `json:"scenario"`
			Plan     plan     `json:"plan"`
		} `json:"replay"`
	}

	if err := json.Unmarshal(b, &f); err != nil {
		die("replay: %v", err)
	}

	sc, pl := f.Replay.Scenario, f.Replay.Plan
	if sc.Func == "" {
		die("replay: %s holds no scenario", path)
	}

	base, err := run(sc, plan{K: -1})
	if err != nil {
		die("replay: %v", err)
	}

	res, err := run(sc, pl)
	if err != nil {
		die("replay: %v", err)
	}

	bk := newBook()
	required := false

	if pl.K >= 0 {
		if pl.K >= len(base.trace) || !res.Fired {
			die("replay: consultation %d is not reached (fault-free trace has %d)", pl.K, len(base.trace))
		}

		_, required = classOf(base.trace[pl.K])
		if required && res.Outcome == "returned" && res.ErrNil {
			bk.add(sc, pl.Side, pl.Primitive, "nil-error-on-failure", nil, func() any { return nil })
		}
	} else if res.Outcome == "returned" && !res.ErrNil && sc.possible() {
		bk.add(sc, "-", "none", "error-without-fault", nil, func() any { return nil })
	}

	checkConverse(bk, sc, pl, base.trace, res)

	out, _ := json.MarshalIndent(map[string]any{"scenario": sc, "plan": pl, "fault_free_trace": compress(base.trace), "observed": res}, "", " ")
	fmt.Println(string(out))

	if len(bk.gorder) == 0 {
		fmt.Println("REPLAY: property holds on this plan")

		return 0
	}

	for _, gk := range bk.gorder {
		fmt.Printf("REPLAY: violated: %s\n", gk)
	}

	return 1
}

func main() {
	id := flag.String("id", "C16", "property id")
	tier := flag.String("tier", "quick", "quick|thorough")
	replay := flag.String("replay", "", "replay file to re-execute")
	flag.Parse()

	verifDir := os.Getenv("VERIF_DIR")
	if verifDir == "" {
		verifDir = "/verif"
	}

	if *tier != "quick" && *tier != "thorough" {
		die("unknown tier %q", *tier)
	}

	verifrt.SetMode(verifrt.ModeSeq)

	belowAllVariants = *tier != "quick"
	classAllVariants = *tier != "quick"

	_ = avfs.SetUMask(0o022)

	tmpfs := setupScratch()

	defer os.RemoveAll(scratchRoot)

	if *replay != "" {
		code := doReplay(*replay)
		_ = os.RemoveAll(scratchRoot)
		os.Exit(code)
	}

	rep, err := kf.NewReporter(*id, filepath.Join(verifDir, "known_findings.txt"), filepath.Join(verifDir, "replays"))
	if err != nil {
		die("known findings: %v", err)
	}

	rep.Discover = os.Getenv("VERIF_DISCOVER") != ""

	budget := 0.0
	if s := os.Getenv("VERIF_BUDGET_S"); s != "" {
		budget, _ = strconv.ParseFloat(s, 64)
	}

	st := &stats{
		injected: map[string]int{}, outcome: map[string]map[string]int{}, faultClasses: map[string]bool{},
		classSeen: map[string]int{}, classInjected: map[string]int{}, unlisted: map[string]map[string]int{},
		baseTraces: map[string]map[string]int{}, traceLens: map[int]int{}, pairs: map[string]int{},
		sampledVariant: map[string]bool{}, hashFS: map[string]int{},
		shapeOutcome: map[string]map[string]int{}, refusedDstChanged: map[string]int{},
		entryStates: map[string]map[string]int{}, spellOutcome: map[string]map[string]int{},
	}
	bk := newBook()
	all := scenarios(*tier)

	// VERIF_SEED only rotates the order in which scenarios are visited.
	if n := ev.Seed(); n != 0 && len(all) > 0 {
		r := ((n % len(all)) + len(all)) % len(all)
		all = append(all[r:], all[:r]...)
	}

	exhaustive := true
	done := 0

	for _, sc := range all {
		if budget > 0 && ev.Elapsed() > budget*0.9 {
			exhaustive = false

			break
		}

		t0 := time.Now()

		var err error

		if sc.Before != nil {
			err = exploreSequel(sc, bk, st)
		} else {
			_, err = explore(sc, bk, st)
		}

		if err != nil {
			die("%v", err)
		}

		switch {
		case sc.Before != nil:
			st.wallSequel += time.Since(t0).Seconds()
		case sc.spelling() != "":
			st.wallSpell += time.Since(t0).Seconds()
			st.spellScenarios++
		case sc.plain():
			st.wallPlain += time.Since(t0).Seconds()
		default:
			st.wallShapes += time.Since(t0).Seconds()
			st.shapeScenarios++
		}

		done++
	}

	// coverage assertion: every primitive class the property lists was seen and injected
	if exhaustive {
		for _, cl := range listed {
			if st.classSeen[cl] == 0 || st.classInjected[cl] == 0 {
				die("primitive class %q of the property never appears in a fault-free trace (seen %d, injected %d): the enumeration would be vacuous for it",
					cl, st.classSeen[cl], st.classInjected[cl])
			}
		}
	}

	// The new dimension: the caller's own bytes must have been in the hasher
	// (that is the harness's doing); whether an earlier call of the library
	// leaves bytes behind is the library's business - reached or not, it is
	// recorded in the evidence, so that "after a failed call" is not silently the
	// fresh hasher under another name.
	if exhaustive && st.entryStates["written-by-caller"]["hasher holds bytes"] == 0 {
		die("the hasher is never entered holding bytes of the caller: %v", st.entryStates)
	}

	leftBehind := map[string]bool{}

	for _, f := range []string{"CopyFileHash", "HashFile"} {
		leftBehind["failed "+f] = st.entryStates["after-faulted-"+f]["earlier call returned an error, hasher holds bytes"] > 0
		leftBehind["successful "+f] = st.entryStates["after-"+f]["earlier call returned nil, hasher holds bytes"] > 0
	}

	groups := bk.flush(rep)

	// concurrent copies (shared buffer pool) under the controlled scheduler
	var cdl time.Time
	if budget > 0 {
		cdl = time.Now().Add(time.Duration(budget*0.3) * time.Second)
	} else if *tier == "quick" {
		cdl = time.Now().Add(60 * time.Second)
	} else {
		cdl = time.Now().Add(600 * time.Second)
	}

	cProgs, cExecs, cSamples, cerr := runConcurrent(*tier, rep, cdl)
	if cerr != nil {
		die("concurrent part: %v", cerr)
	}

	st.runs += cExecs

	var unlistedSeen []string
	for cl := range st.unlisted {
		unlistedSeen = append(unlistedSeen, cl)
	}

	sort.Strings(unlistedSeen)

	pairNames := make([]string, 0, len(st.pairs))
	for p := range st.pairs {
		pairNames = append(pairNames, p)
	}

	sort.Strings(pairNames)

	sizes, _, _, _ := space(*tier)
	sh := shapes(*tier)
	sq := sequels(*tier)
	spl := spellSpace(*tier)
	mds := modeSpaceFor(*tier)
	seamText := "fs stacks whose FailFS lies below the wrapper: " + fmt.Sprint(seamStacks(pairNames, st.hashFS)) + "; on the pairs that hold one the injected error is one of " + fmt.Sprint(errKindsAll) +
		" (opaque error, *fs.PathError, bare errno, *os.LinkError; the last two for " + map[bool]string{true: "every function variant", false: "the sha512 variants"}[belowAllVariants] +
		"), elsewhere one of " + fmt.Sprint(errKinds) + "; on every fs pair additionally the values of an error class callers test with errors.Is: " + fmt.Sprint(errKindsClass) +
		" (*fs.PathError{ENOENT} and bare ENOENT: fs.ErrNotExist; *fs.PathError{EEXIST}: fs.ErrExist; permdenied is fs.ErrPermission) - " + errKindsClassQuickText
	spellText := "every (spelling of the source operand, spelling of the destination operand) of " + fmt.Sprint(spellNames(spl.spellings)) +
		" except clean/clean (= everything else) x every fs pair x sizes " + fmt.Sprint(spl.sizes) + " x destination {absent, present} x " + spl.faultsText +
		"; HashFile: every spelling of its operand on every hashfile fs"
	usedText := "fault-free and every single-fault plan"

	if !usedFaults(*tier) {
		usedText = "fault-free only"
	}

	if len(st.samples) == 0 {
		st.samples = append(st.samples, "no scenario executed (budget)")
	}

	cov := map[string]any{
		"evaluations":         st.runs,
		"distinct_nontrivial": len(st.faultClasses),
		"rule": "evaluations = executions of a scenario (the real CopyFile/CopyFileHash/HashFile, preceded in a two-call history by the earlier call) on fresh instances (2 fault-free runs per scenario - 1 for a scenario that is run fault-free only - + one run per " +
			"(consultation index k of the fault-free trace, error E in {sentinel, PathError{ErrPermDenied}; also bare errno and *os.LinkError where the seam lies below a wrapper; also values of the classes fs.ErrNotExist / fs.ErrExist: " + errKindsClassQuickText + "}) + for the head of a two-call history one run per (consultation index k of the earlier call, E)); distinct_nontrivial = number of distinct " +
			"(function variant, side, FnVFS primitive, E) fault classes whose injected consultation was actually reached and returned E in the run " +
			"(verified against the run's own trace)",
		"samples":                       st.samples,
		"scenarios":                     st.scenarios,
		"scenarios_planned":             len(all),
		"fault_free_runs":               st.baseRuns,
		"single_fault_runs":             st.faultRuns,
		"two_call_history_heads":        st.sequelHeads,
		"two_call_faulted_earlier_runs": st.sequelRuns,
		"two_call_histories":            sq.text,
		"hasher_entered_holding_bytes_of_an_earlier": leftBehind,
		"hasher_entry_states":                        st.entryStates,
		"sizes":                                      sizes,
		"fs_pairs(dst<-src)":                         pairNames,
		"hashfile_fs":                                st.hashFS,
		"errors_injected":                            errKinds,
		"errors_injected_below_a_wrapper":            errKindsAll,
		"errors_injected_of_a_class(errors.Is)":      errKindsClass,
		"seam_below_wrapper":                         seamText,
		"mode_space":                                 mds.text,
		"mode_source_modes(unix octal)":              octals(mds.modes()),
		"fault_free_traces":                          st.baseTraces,
		"fault_free_trace_lengths":                   lensToMap(st.traceLens),
		"plans_injected_per_primitive":               st.injected,
		"plans_injected_per_class":                   st.classInjected,
		"listed_classes":                             listed,
		"outcomes_per_variant_and_prim":              st.outcome,
		"unlisted_primitives_recorded_not_flagged":   st.unlisted,
		"source_changed_runs":                        st.srcChanged,
		"violation_groups":                           groups,
		"exhaustive":                                 exhaustive,
		"bound": "single fault per run; every k of every fault-free trace; " + *tier + " space. Shapes: every (kind of source path, kind of destination path) of the listed kinds x shape sizes x every fs pair x every function variant; on them: " +
			sh.faultsText + ". Hasher on entry: fresh (everything above); written to by the caller (every plain scenario of the sha512 variants, " + usedText +
			"); left behind by an earlier call on the same hasher: " + sq.text + ". Spelling of the path operands: " + spellText +
			". Special bits of the modes: " + mds.text + ". Order of the layers and value of the error: " + seamText,
		"operand_spellings":                                            spellNames(spl.spellings),
		"operand_spelling_space":                                       spellText,
		"operand_spelling_sizes":                                       spl.sizes,
		"operand_spelling_scenarios":                                   st.spellScenarios,
		"operand_spelling_fault_free_outcomes":                         st.spellOutcome,
		"operand_spelling_combinations_skipped_two_osfs_both_relative": skippedSpellings,
		"shape_source_kinds":                                           sh.srcKinds,
		"shape_destination_kinds":                                      sh.dstKinds,
		"shape_sizes":                                                  sh.sizes,
		"shape_scenarios":                                              st.shapeScenarios,
		"shape_fault_free_outcomes":                                    st.shapeOutcome,
		"shape_combinations_skipped_no_links_in_fs":                    skippedUnsupported,
		"shape_refused_copies_dst_side_differs(recorded, not judged)":  st.refusedDstChanged,
		"known_findings_matched":                                       append([]string{}, rep.KnownMatched()...),
		"scratch_is_tmpfs":                                             tmpfs,
		"concurrent_programs":                                          cProgs,
		"concurrent_schedules":                                         cExecs,
		"concurrent_samples":                                           cSamples,
	}

	werr := ev.Write(filepath.Join(verifDir, "evidence", *id+".json"), ev.Evidence{
		PropertyID: *id, Tier: *tier, Seed: ev.Seed(), Level: "fault_enumeration", Coverage: cov,
		Assumptions: []string{
			"single fault per run (no multi-fault plans); a two-call history on one hasher holds at most one fault, in the earlier or in the later call",
			"the hasher is sha512 (or nil); its state on entry is one of: fresh, 5 bytes written by the caller (" + usedText + "), what an earlier CopyFileHash/HashFile of another file left in it (" + sq.text +
				"); no third call, no hasher shared by overlapping calls",
			"FailFS is the fault-injection seam: a failure is a non-nil return of the FailFunc before the base primitive runs; partial writes/short reads of a base file system are not modelled",
			"source sizes " + fmt.Sprint(sizes) + " with one deterministic non-periodic content; destination absent or present (longer, mode 0660); source mode 0644/0400 (fault-free also 0666/0777); administrator user; umask 022",
			"modes: " + mds.text + "; 'the source's permission bits' is judged on the twelve bits chmod carries (rwx and setuid, setgid, sticky), which every file system of the library stores; " +
				"the start states are planted through the innermost file system and read back; the permission bits expected at the destination are the ones the set-up's Chmod was given, not the ones Stat of the source's file system reports; a read-back that differs from the mode asked for is a violation (kind mode-readback), not a harness error",
			"layers: " + seamText + "; FailFS(wrapper(x)) everywhere else; no stack with two wrappers above the seam; a shared instance is never one with its seam inside (its two sides could not be told apart); " +
				"an injected *fs.PathError / *os.LinkError names the path the failing primitive was given, or - for a primitive of an open file that has none (Sync) - the path of that side's file in the name space of the seam",
			"shapes: source path of kinds " + fmt.Sprint(sh.srcKinds) + " x destination path of kinds " + fmt.Sprint(sh.dstKinds) + " x sizes " + fmt.Sprint(sh.sizes) +
				" (the empty source performs no Write), planted on the innermost file system (links with relative targets in the same directory, symlink-abs: absolute in the innermost name space); " +
				"link kinds are skipped where the innermost file system has no symbolic links (OrefaFS); " + sh.faultsText,
			"a nil error is judged against the source FILE (links followed on the innermost file system): the destination path, links followed, must be a regular file with its bytes and permission bits; " +
				"a source that is a directory, missing or a link to either, or a destination that is a directory (or a link to one), must give a non-nil error; whether a refused copy leaves the destination untouched is recorded, not judged",
			"spelling of the operands: " + spellText + "; source mode 0640; clean = dir/base as Join gives it, double-sep = dir//base, dot = dir/./base, dotdot = dir/sp.d/../base (sp.d is an existing directory), " +
				"relative = ./base with the current directory of the file system the call is made on set to dir (relative-bare = base, relative-dotdot = sp.d/../base), above-root = /..dir/base, sep-run = every separator but the first written three times; " +
				"only spellings that name the same file under Linux path resolution (no trailing separator, no '..' through a file or a missing name); the shapes, the two-call histories and all fault plans outside this dimension use the clean spelling; " +
				"two OsFS instances are not both given relative names (one current directory per process)",
			"source and destination never name the same node (no copy of a file onto itself or onto a link to itself)",
			"OsFS instances live on a scratch directory (tmpfs: " + strconv.FormatBool(tmpfs) + ") and share the process",
			"failure of closing the source file is not in the property's list: recorded, not required to be reported",
			"sequential execution (verifrt.ModeSeq); FailFS wrappers on both sides share one consultation counter",
		},
		Violations: rep.NewCount(),
	})
	if werr != nil {
		die("evidence: %v", werr)
	}

	code := rep.Finish()

	fmt.Printf("c16: tier=%s scenarios=%d/%d runs=%d (fault-free %d, single-fault %d) fault classes=%d copy fs pairs=%d hashfile fs=%d violation groups=%d new signatures=%d exhaustive=%v wall=%.1fs\n",
		*tier, done, len(all), st.runs, st.baseRuns, st.faultRuns, len(st.faultClasses), len(st.pairs), len(st.hashFS), len(groups), rep.NewCount(), exhaustive, ev.Elapsed())
	fmt.Printf("c16: shapes (kind of source path x kind of destination path): scenarios=%d distinct shapes=%d skipped as unsupported by the file system=%d wall plain=%.1fs shapes=%.1fs\n",
		st.shapeScenarios, len(st.shapeOutcome), skippedUnsupported, st.wallPlain, st.wallShapes)
	fmt.Printf("c16: spelling of the path operands: scenarios=%d distinct (src, dst) spellings=%d skipped (two OsFS, both relative)=%d wall=%.1fs\n",
		st.spellScenarios, len(st.spellOutcome), skippedSpellings, st.wallSpell)
	fmt.Printf("c16: hasher on entry: two-call histories on one hasher: heads=%d + histories with a faulted earlier call=%d; entry states=%v wall=%.1fs\n",
		st.sequelHeads, st.sequelRuns, st.entryStates, st.wallSequel)

	_ = os.RemoveAll(scratchRoot)

	os.Exit(code)
}

// seamStacks lists the stacks in use whose seam is inside.
func seamStacks(pairs []string, hashFS map[string]int) []string {
	seen := map[string]bool{}

	for _, n := range []string{fsBaseOverFail, fsBaseOverFailOrefa, fsRoOverFail} {
		for _, p := range pairs {
			if strings.HasPrefix(p, n+"<-") || strings.HasSuffix(p, "<-"+n) {
				seen[n] = true
			}
		}

		if hashFS[n] > 0 {
			seen[n] = true
		}
	}

	var out []string

	for n := range seen {
		out = append(out, n)
	}

	sort.Strings(out)

	return out
}

func octals(ms []uint32) []string {
	out := make([]string, len(ms))
	for i, m := range ms {
		out[i] = fmt.Sprintf("%#o", m)
	}

	return out
}

// spellNames lists spellings by the names used in signatures and evidence.
func spellNames(hows []string) []string {
	out := make([]string, len(hows))
	for i, h := range hows {
		out[i] = h
		if h == spClean {
			out[i] = "clean"
		}
	}

	return out
}

func lensToMap(m map[int]int) map[string]int {
	out := map[string]int{}
	for k, v := range m {
		out[strconv.Itoa(k)] = v
	}

	return out
}
