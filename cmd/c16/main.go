// c16: CopyFile, CopyFileHash and HashFile report every failure and copy
// faithfully.
//
// Technique: exhaustive single-fault enumeration. Every scenario (function,
// pair of file systems, source size, destination state, source mode) is run
// once on fresh instances with a counting failure function installed in a
// FailFS wrapper on each side; this gives the fault-free sequence of
// consultations c_0 .. c_{n-1}, each a (side, FnVFS) pair. Then, for every
// index k and every error E of a 2-element set, the scenario is re-run on
// fresh instances with the plan "consultation k returns E".
//
// Oracle:
//
//	(a) fault-free run: nil error (and (c)).
//	(b) faulted run whose injected consultation belongs to a primitive the
//	    property lists (open either file, read source, write/sync/chmod/close
//	    destination, stat): the returned error is non-nil. Failures of other
//	    primitives (closing the source) are recorded, never flagged.
//	(c) every run: a nil error implies destination bytes == source bytes,
//	    permission bits equal, digest == sha512(source bytes) (no digest for
//	    CopyFile / nil hasher). Both files are read back from the innermost
//	    file system, never through FailFS.
package main

import (
	"bytes"
	"crypto/sha512"
	"encoding/hex"
	"encoding/json"
	"errors"
	"flag"
	"fmt"
	"hash"
	"io/fs"
	"os"
	"path/filepath"
	"sort"
	"strconv"
	"strings"
	"syscall"
	"time"

	"github.com/avfs/avfs"
	"github.com/avfs/avfs/verifrt"
	"github.com/avfs/avfs/vfs/basepathfs"
	"github.com/avfs/avfs/vfs/failfs"
	"github.com/avfs/avfs/vfs/memfs"
	"github.com/avfs/avfs/vfs/orefafs"
	"github.com/avfs/avfs/vfs/osfs"
	"github.com/avfs/avfs/vfs/rofs"

	"verif/lib/ev"
	"verif/lib/fsx"
	"verif/lib/kf"
)

// ---------------------------------------------------------------------------
// file systems

const (
	fsMem   = "MemFS"
	fsOrefa = "OrefaFS"
	fsOs    = "OsFS"
	fsBase  = "BasePathFS(MemFS)"
	fsRo    = "RoFS(MemFS)"
)

// kit is one fresh file system instance: top is what FailFS wraps, raw is the
// innermost writable file system used for setup and read-back.
type kit struct {
	name    string
	top     avfs.VFS
	raw     avfs.VFS
	dir     string // working directory in top's name space
	rawDir  string // the same directory in raw's name space
	cleanup func()
}

var (
	scratchRoot string
	scratchSeq  int
)

func newKit(name string) (*kit, error) {
	k := &kit{name: name, cleanup: func() {}}

	switch name {
	case fsMem:
		m := memfs.New()
		k.top, k.raw, k.dir, k.rawDir = m, m, "/c16", "/c16"
	case fsOrefa:
		o := orefafs.New()
		k.top, k.raw, k.dir, k.rawDir = o, o, "/c16", "/c16"
	case fsOs:
		scratchSeq++
		d := filepath.Join(scratchRoot, "k"+strconv.Itoa(scratchSeq))
		o := osfs.NewWithNoIdm()
		k.top, k.raw, k.dir, k.rawDir = o, o, d, d
		k.cleanup = func() { _ = os.RemoveAll(d) }
	case fsBase:
		m := memfs.New()
		if err := m.MkdirAll("/bp", 0o755); err != nil {
			return nil, fmt.Errorf("%s: MkdirAll /bp: %v", name, err)
		}

		b, err := basepathfs.NewWithErr(m, "/bp")
		if err != nil {
			return nil, fmt.Errorf("%s: %v", name, err)
		}

		k.top, k.raw, k.dir, k.rawDir = b, m, "/c16", "/bp/c16"
	case fsRo:
		m := memfs.New()
		k.top, k.raw, k.dir, k.rawDir = rofs.New(m), m, "/c16", "/c16"
	default:
		return nil, fmt.Errorf("unknown file system %q", name)
	}

	if name != fsOs {
		_ = k.raw.SetUMask(0o022)
	}

	if err := k.raw.MkdirAll(k.rawDir, 0o755); err != nil {
		k.cleanup()

		return nil, fmt.Errorf("%s: MkdirAll %s: %v", name, k.rawDir, err)
	}

	return k, nil
}

// putFile writes a file with exact permission bits through the raw file system.
func (k *kit) putFile(base string, data []byte, mode fs.FileMode) error {
	p := k.raw.Join(k.rawDir, base)

	if err := k.raw.WriteFile(p, data, 0o644); err != nil {
		return err
	}

	return k.raw.Chmod(p, mode)
}

// ---------------------------------------------------------------------------
// scenarios, plans, results

type scenario struct {
	Func       string `json:"func"`   // CopyFile | CopyFileHash | HashFile
	Hasher     string `json:"hasher"` // none | nil | sha512
	HasherUsed bool   `json:"hasher_used,omitempty"`
	DstFS      string `json:"dstfs"`
	SrcFS      string `json:"srcfs"`
	Shared     bool   `json:"shared_instance,omitempty"` // source and destination on the same instance
	Size       int    `json:"size"`
	DstState   string `json:"dst_state"` // absent | present | n/a
	SrcMode    uint32 `json:"src_mode"`
}

func (s scenario) pair() string {
	d := s.DstFS
	if s.Shared {
		d += "(same instance)"
	}

	return d + "<-" + s.SrcFS
}

func (s scenario) variant() string {
	v := s.Func
	if s.Hasher != "none" {
		v += "/" + s.Hasher
	}

	return v
}

func (s scenario) String() string {
	u := ""
	if s.HasherUsed {
		u = "+used"
	}

	return fmt.Sprintf("%s%s %s size=%d dst=%s srcmode=%#o", s.variant(), u, s.pair(), s.Size, s.DstState, s.SrcMode)
}

type plan struct {
	K         int    `json:"k"` // index in the fault-free consultation trace; -1 = no fault
	Side      string `json:"side,omitempty"`
	Primitive string `json:"primitive,omitempty"`
	Nth       int    `json:"nth_of_primitive_on_side,omitempty"` // 1-based
	Err       string `json:"error,omitempty"`                    // sentinel | permdenied
}

type cons struct {
	Side string
	Fn   avfs.FnVFS
}

func (c cons) String() string { return c.Side + ":" + c.Fn.String() }

func traceStrings(t []cons) []string {
	out := make([]string, len(t))
	for i, c := range t {
		out[i] = c.String()
	}

	return out
}

// compress renders a trace with run lengths: "src:FileRead x3".
func compress(t []cons) string {
	var parts []string

	for i := 0; i < len(t); {
		j := i
		for j < len(t) && t[j] == t[i] {
			j++
		}

		if j-i > 1 {
			parts = append(parts, fmt.Sprintf("%sx%d", t[i], j-i))
		} else {
			parts = append(parts, t[i].String())
		}

		i = j
	}

	return strings.Join(parts, " ")
}

type result struct {
	Outcome    string   `json:"outcome"` // returned | PANIC | DEADLOCK
	Msg        string   `json:"msg,omitempty"`
	ErrNil     bool     `json:"error_is_nil"`
	Err        string   `json:"error,omitempty"`
	ErrKind    string   `json:"error_kind,omitempty"`
	ErrIsInj   bool     `json:"error_is_injected,omitempty"`
	Digest     string   `json:"digest,omitempty"`
	Fired      bool     `json:"fault_fired"`
	Trace      []string `json:"trace"`
	DstExists  bool     `json:"dst_exists"`
	BytesEqual bool     `json:"dst_bytes_equal_src"`
	PermEqual  bool     `json:"dst_perm_equal_src"`
	DigestOK   bool     `json:"digest_ok"`
	SrcPerm    string   `json:"src_perm,omitempty"`
	DstPerm    string   `json:"dst_perm,omitempty"`
	DstLen     int      `json:"dst_len"`
	SrcLen     int      `json:"src_len"`
	SrcChanged bool     `json:"src_changed,omitempty"`

	trace []cons
}

var errSentinel = errors.New("c16: injected sentinel failure")

func injected(kind string, fp *failfs.FailParam) error {
	if kind == "permdenied" {
		return &fs.PathError{Op: fp.Op, Path: fp.Path, Err: avfs.ErrPermDenied}
	}

	return errSentinel
}

// pattern is the deterministic, non-constant, non-32K-periodic source content.
func pattern(n int, salt byte) []byte {
	b := make([]byte, n)
	for i := range b {
		b[i] = byte(i*7+i/251) ^ byte(i>>11) ^ salt
	}

	return b
}

type harnessError struct{ msg string }

func (h harnessError) Error() string { return h.msg }

// run executes one scenario under one plan on fresh instances.
func run(sc scenario, pl plan) (res result, herr error) {
	isHash := sc.Func == "HashFile"

	srcKit, err := newKit(sc.SrcFS)
	if err != nil {
		return res, harnessError{err.Error()}
	}

	defer srcKit.cleanup()

	dstKit := srcKit

	if !isHash && !sc.Shared {
		dstKit, err = newKit(sc.DstFS)
		if err != nil {
			return res, harnessError{err.Error()}
		}

		defer dstKit.cleanup()
	}

	srcData := pattern(sc.Size, 0)

	if err = srcKit.putFile("src.bin", srcData, fs.FileMode(sc.SrcMode)); err != nil {
		return res, harnessError{fmt.Sprintf("setup of source on %s: %v", sc.SrcFS, err)}
	}

	if !isHash && sc.DstState == "present" {
		if err = dstKit.putFile("dst.bin", pattern(sc.Size+4097, 0xA5), 0o660); err != nil {
			return res, harnessError{fmt.Sprintf("setup of destination on %s: %v", sc.DstFS, err)}
		}
	}

	var trace []cons

	mk := func(side string) failfs.FailFunc {
		return func(_ avfs.VFSBase, fn avfs.FnVFS, fp *failfs.FailParam) error {
			idx := len(trace)
			trace = append(trace, cons{side, fn})

			if idx == pl.K {
				res.Fired = true

				return injected(pl.Err, fp)
			}

			return nil
		}
	}

	srcFail := failfs.New(srcKit.top)
	_ = srcFail.SetFailFunc(mk("src"))

	var dstFail *failfs.FailFS

	if !isHash {
		dstFail = failfs.New(dstKit.top)
		_ = dstFail.SetFailFunc(mk("dst"))
	}

	var hasher hash.Hash

	if sc.Hasher == "sha512" {
		hasher = sha512.New()
		if sc.HasherUsed {
			_, _ = hasher.Write([]byte("stale"))
		}
	}

	srcPath := srcKit.top.Join(srcKit.dir, "src.bin")
	dstPath := dstKit.top.Join(dstKit.dir, "dst.bin")

	var (
		sum  []byte
		rerr error
	)

	kind, msg := fsx.Guard(func() {
		switch sc.Func {
		case "CopyFile":
			rerr = avfs.CopyFile(dstFail, srcFail, dstPath, srcPath)
		case "CopyFileHash":
			sum, rerr = avfs.CopyFileHash(dstFail, srcFail, dstPath, srcPath, hasher)
		case "HashFile":
			sum, rerr = avfs.HashFile(srcFail, srcPath, hasher)
		}
	})

	res.trace = trace
	res.Trace = traceStrings(trace)
	res.Outcome = "returned"

	if kind != "" {
		res.Outcome, res.Msg = kind, msg
	}

	res.ErrNil = rerr == nil
	if rerr != nil {
		res.Err = rerr.Error()
		res.ErrKind = fsx.ErrKind(rerr)

		var pe *fs.PathError

		res.ErrIsInj = errors.Is(rerr, errSentinel) ||
			(pl.Err == "permdenied" && errors.As(rerr, &pe) && pe.Err == avfs.ErrPermDenied)
	}

	if sum != nil {
		res.Digest = hex.EncodeToString(sum)
	}

	// Read back directly from the innermost file systems.
	rawSrc := srcKit.raw.Join(srcKit.rawDir, "src.bin")

	srcNow, err := srcKit.raw.ReadFile(rawSrc)
	if err != nil {
		return res, harnessError{fmt.Sprintf("read-back of source on %s: %v", sc.SrcFS, err)}
	}

	srcInfo, err := srcKit.raw.Stat(rawSrc)
	if err != nil {
		return res, harnessError{fmt.Sprintf("stat of source on %s: %v", sc.SrcFS, err)}
	}

	res.SrcLen = len(srcNow)
	res.SrcChanged = !bytes.Equal(srcNow, srcData) || srcInfo.Mode().Perm() != fs.FileMode(sc.SrcMode)
	res.SrcPerm = fmt.Sprintf("%#o", srcInfo.Mode().Perm())

	if isHash {
		res.BytesEqual, res.PermEqual, res.DstExists = true, true, true
	} else {
		rawDst := dstKit.raw.Join(dstKit.rawDir, "dst.bin")

		dstInfo, serr := dstKit.raw.Stat(rawDst)
		if serr == nil {
			res.DstExists = true
			res.DstPerm = fmt.Sprintf("%#o", dstInfo.Mode().Perm())
			res.PermEqual = dstInfo.Mode().Perm() == srcInfo.Mode().Perm()

			dstNow, rerr2 := dstKit.raw.ReadFile(rawDst)
			if rerr2 != nil {
				return res, harnessError{fmt.Sprintf("read-back of destination on %s: %v", sc.DstFS, rerr2)}
			}

			res.DstLen = len(dstNow)
			res.BytesEqual = bytes.Equal(dstNow, srcNow)
		}
	}

	switch sc.Hasher {
	case "sha512":
		want := sha512.Sum512(srcNow)
		res.DigestOK = bytes.Equal(sum, want[:])
	default:
		res.DigestOK = len(sum) == 0
	}

	return res, nil
}

// ---------------------------------------------------------------------------
// classification of consultations against the property's list

// classOf maps a consultation to the primitive class of the property's second
// sentence ("opening either file, reading the source, writing, syncing,
// stat-ing, chmod-ing or closing the destination") and says whether a failure
// of it must be reported.
func classOf(c cons) (class string, required bool) {
	switch c.Fn {
	case avfs.FnOpenFile:
		return "open-" + c.Side, true
	case avfs.FnFileRead, avfs.FnFileReadAt:
		return "read-" + c.Side, c.Side == "src"
	case avfs.FnFileWrite, avfs.FnFileWriteAt:
		return "write-" + c.Side, c.Side == "dst"
	case avfs.FnFileSync:
		return "sync-" + c.Side, c.Side == "dst"
	case avfs.FnStat, avfs.FnFileStat, avfs.FnLstat:
		return "stat", true
	case avfs.FnChmod, avfs.FnFileChmod:
		return "chmod-" + c.Side, c.Side == "dst"
	case avfs.FnFileClose:
		return "close-" + c.Side, c.Side == "dst"
	}

	return "other-" + c.Side + "-" + c.Fn.String(), false
}

// listed are the classes the property names; each must be exercised.
var listed = []string{"open-src", "open-dst", "read-src", "write-dst", "sync-dst", "stat", "chmod-dst", "close-dst"}

// ---------------------------------------------------------------------------
// violation bookkeeping: instances are grouped so that the file-system pair
// enters the signature only when the failure depends on it.

type vioGroup struct {
	sig    kf.Sig          // without dstfs/srcfs
	pairs  map[string]*vio // by pair
	order  []string
	chkKey string
}

type vio struct {
	count  int
	replay any
}

type book struct {
	groups  map[string]*vioGroup
	gorder  []string
	checked map[string]map[string]int // chkKey -> pair -> runs checked
}

func newBook() *book {
	return &book{groups: map[string]*vioGroup{}, checked: map[string]map[string]int{}}
}

func chkKey(sc scenario, side, prim string) string {
	return sc.Func + "|" + sc.Hasher + "|" + side + "|" + prim
}

func (b *book) noteChecked(sc scenario, side, prim string) {
	k := chkKey(sc, side, prim)
	if b.checked[k] == nil {
		b.checked[k] = map[string]int{}
	}

	b.checked[k][sc.pair()]++
}

func (b *book) add(sc scenario, side, prim, kind string, extra map[string]string, replay func() any) {
	sig := kf.Sig{"func": sc.Func, "hasher": sc.Hasher, "side": side, "primitive": prim, "kind": kind}
	for k, v := range extra {
		sig[k] = v
	}

	gk := sig.String()

	g := b.groups[gk]
	if g == nil {
		g = &vioGroup{sig: sig, pairs: map[string]*vio{}, chkKey: chkKey(sc, side, prim)}
		b.groups[gk] = g
		b.gorder = append(b.gorder, gk)
	}

	p := sc.pair()

	v := g.pairs[p]
	if v == nil {
		v = &vio{replay: replay()}
		g.pairs[p] = v
		g.order = append(g.order, p)
	}

	v.count++
}

// flush reports every instance through the reporter. The file systems enter
// the signature only as far as the failure depends on them: if a group
// violates on every pair on which its fault class was checked (and on more
// than one) both are "*"; if it violates for every checked source of a
// destination the source is "*" (and symmetrically); otherwise both are named.
func (b *book) flush(rep *kf.Reporter) (groups []map[string]any) {
	split := func(p string) (d, s string) {
		i := strings.Index(p, "<-")

		return p[:i], p[i+2:]
	}

	for _, gk := range b.gorder {
		g := b.groups[gk]
		checked := b.checked[g.chkKey]
		all := len(g.pairs) > 1 && len(g.pairs) == len(checked)

		cD, cS, vD, vS := map[string]int{}, map[string]int{}, map[string]int{}, map[string]int{}

		for p := range checked {
			d, s := split(p)
			cD[d]++
			cS[s]++
		}

		for p := range g.pairs {
			d, s := split(p)
			vD[d]++
			vS[s]++
		}

		info := map[string]any{"signature": g.sig, "pairs_violating": len(g.pairs), "pairs_checked": len(checked)}
		n := 0
		sigs := map[string]bool{}

		for _, p := range g.order {
			v := g.pairs[p]
			n += v.count
			d, s := split(p)

			sig := kf.Sig{}
			for k, x := range g.sig {
				sig[k] = x
			}

			switch {
			case all:
				sig["dstfs"], sig["srcfs"] = "*", "*"
			case cD[d] > 1 && vD[d] == cD[d]:
				sig["dstfs"], sig["srcfs"] = d, "*"
			case cS[s] > 1 && vS[s] == cS[s]:
				sig["dstfs"], sig["srcfs"] = "*", s
			default:
				sig["dstfs"], sig["srcfs"] = d, s
			}

			sigs[sig["dstfs"]+"<-"+sig["srcfs"]] = true

			for i := 0; i < v.count; i++ {
				rep.Report(sig, v.replay)
			}
		}

		var fsdep []string
		for x := range sigs {
			fsdep = append(fsdep, x)
		}

		sort.Strings(fsdep)

		info["instances"] = n
		info["fs_independent"] = all
		info["fs_in_signatures"] = fsdep
		groups = append(groups, info)
	}

	return groups
}

// ---------------------------------------------------------------------------
// replay objects

func goTest(sc scenario, pl plan) string {
	h := "nil"
	if sc.Hasher == "sha512" {
		h = "sha512.New()"
		if sc.HasherUsed {
			h = "func() hash.Hash { h := sha512.New(); h.Write([]byte(\"stale\")); return h }()"
		}
	}

	var call string

	switch sc.Func {
	case "CopyFile":
		call = "err := avfs.CopyFile(dst, src, dstPath, srcPath)"
	case "CopyFileHash":
		call = "_, err := avfs.CopyFileHash(dst, src, dstPath, srcPath, " + h + ")"
	default:
		call = "_, err := avfs.HashFile(src, srcPath, " + h + ")"
	}

	dstFS := sc.DstFS
	if sc.Func == "HashFile" {
		dstFS = sc.SrcFS
	}

	return fmt.Sprintf(`// Plain Go test against the repository (no explorer needed): save as c16_replay_test.go in a
// module that requires github.com/avfs/avfs, run "go test -run TestC16Replay".
package c16replay

import (
	"crypto/sha512"
	"errors"
	"hash"
	"io/fs"
	"testing"

	"github.com/avfs/avfs"
	"github.com/avfs/avfs/vfs/basepathfs"
	"github.com/avfs/avfs/vfs/failfs"
	"github.com/avfs/avfs/vfs/memfs"
	"github.com/avfs/avfs/vfs/orefafs"
	"github.com/avfs/avfs/vfs/osfs"
	"github.com/avfs/avfs/vfs/rofs"
)

var _ hash.Hash = sha512.New()

// mkfs returns the file system FailFS wraps, the innermost writable one, and the working directory in both name spaces.
func mkfs(t *testing.T, kind string) (top, raw avfs.VFS, dir, rawDir string) {
	switch kind {
	case "MemFS":
		m := memfs.New()
		top, raw, dir, rawDir = m, m, "/c16", "/c16"
	case "OrefaFS":
		o := orefafs.New()
		top, raw, dir, rawDir = o, o, "/c16", "/c16"
	case "OsFS":
		o := osfs.NewWithNoIdm()
		d := t.TempDir()
		top, raw, dir, rawDir = o, o, d, d
	case "BasePathFS(MemFS)":
		m := memfs.New()
		_ = m.MkdirAll("/bp", 0o755)
		top, raw, dir, rawDir = basepathfs.New(m, "/bp"), m, "/c16", "/bp/c16"
	case "RoFS(MemFS)":
		m := memfs.New()
		top, raw, dir, rawDir = rofs.New(m), m, "/c16", "/c16"
	}
	if err := raw.MkdirAll(rawDir, 0o755); err != nil {
		t.Fatal(err)
	}
	return
}

func pattern(n int, salt byte) []byte {
	b := make([]byte, n)
	for i := range b {
		b[i] = byte(i*7+i/251) ^ byte(i>>11) ^ salt
	}
	return b
}

func put(t *testing.T, v avfs.VFS, p string, data []byte, mode fs.FileMode) {
	if err := v.WriteFile(p, data, 0o644); err != nil {
		t.Fatal(err)
	}
	if err := v.Chmod(p, mode); err != nil {
		t.Fatal(err)
	}
}

func TestC16Replay(t *testing.T) {
	const (
		size       = %d
		srcMode    = %#o
		dstPresent = %v
		shared     = %v // source and destination on the same instance
		k          = %d // index of the failing consultation = %s:%s (#%d of that primitive on that side)
	)
	srcTop, srcRaw, srcDir, srcRawDir := mkfs(t, %q)
	dstTop, dstRaw, dstDir, dstRawDir := srcTop, srcRaw, srcDir, srcRawDir
	if !shared {
		dstTop, dstRaw, dstDir, dstRawDir = mkfs(t, %q)
	}
	put(t, srcRaw, srcRaw.Join(srcRawDir, "src.bin"), pattern(size, 0), srcMode)
	if dstPresent {
		put(t, dstRaw, dstRaw.Join(dstRawDir, "dst.bin"), pattern(size+4097, 0xA5), 0o660)
	}
	n := 0
	ff := func(_ avfs.VFSBase, _ avfs.FnVFS, _ *failfs.FailParam) error {
		n++
		if n-1 == k {
			return errors.New("injected")
		}
		return nil
	}
	src, dst := failfs.New(srcTop), failfs.New(dstTop)
	_ = src.SetFailFunc(ff)
	_ = dst.SetFailFunc(ff)
	srcPath, dstPath := srcTop.Join(srcDir, "src.bin"), dstTop.Join(dstDir, "dst.bin")
	_, _ = dst, dstPath
	%s
	if err == nil {
		t.Fatal("nil error although %s:%s failed")
	}
}
`, sc.Size, sc.SrcMode, sc.DstState == "present", sc.Shared || sc.Func == "HashFile", pl.K, pl.Side, pl.Primitive, pl.Nth,
		sc.SrcFS, dstFS, call, pl.Side, pl.Primitive)
}

func replayObj(sc scenario, pl plan, base []cons, res result, expected string) any {
	o := map[string]any{
		"scenario":         sc,
		"plan":             pl,
		"fault_free_trace": traceStrings(base),
		"expected":         expected,
		"observed":         res,
		"source_content":   "b[i] = byte(i*7+i/251) ^ byte(i>>11), i < size",
		"dst_present_is":   "size+4097 bytes of the same pattern xor 0xA5, mode 0660",
		"rerun":            "./check C16 quick -replay <this file>",
	}

	if pl.K >= 0 {
		o["go_test"] = goTest(sc, pl)
	}

	return o
}

// ---------------------------------------------------------------------------
// the enumeration

type stats struct {
	runs, scenarios, faultRuns, baseRuns int
	injected                             map[string]int            // side:Fn -> plans injected
	outcome                              map[string]map[string]int // variant|side:Fn -> outcome -> n
	faultClasses                         map[string]bool           // variant|side|Fn|E
	classSeen, classInjected             map[string]int
	unlisted                             map[string]map[string]int // class -> nil/non-nil -> n
	baseTraces                           map[string]map[string]int // variant -> compressed trace -> scenarios
	traceLens                            map[int]int
	srcChanged                           int
	samples                              []any
	pairs                                map[string]int
	sampledVariant                       map[string]bool
	hashFS                               map[string]int
}

func inc2(m map[string]map[string]int, a, b string) {
	if m[a] == nil {
		m[a] = map[string]int{}
	}

	m[a][b]++
}

func sameTrace(a, b []cons) bool {
	if len(a) != len(b) {
		return false
	}

	for i := range a {
		if a[i] != b[i] {
			return false
		}
	}

	return true
}

var errKinds = []string{"sentinel", "permdenied"}

// checkConverse applies oracle (c) and the no-panic requirement to one run.
func checkConverse(bk *book, sc scenario, pl plan, base []cons, res result) {
	side, prim := "-", "none"
	if pl.K >= 0 {
		side, prim = pl.Side, pl.Primitive
	}

	rp := func(exp string) func() any {
		return func() any { return replayObj(sc, pl, base, res, exp) }
	}

	if res.Outcome != "returned" {
		m := res.Msg
		if i := strings.Index(m, " @ "); i >= 0 {
			m = m[:i]
		}

		bk.add(sc, side, prim, res.Outcome, map[string]string{"msg": m}, rp("the call returns"))

		return
	}

	if !res.ErrNil {
		return
	}

	if sc.Func != "HashFile" {
		switch {
		case !res.DstExists:
			bk.add(sc, side, prim, "nil-error-but-dst-missing", nil, rp("nil error only if destination holds the source's bytes"))
		case !res.BytesEqual:
			bk.add(sc, side, prim, "nil-error-but-dst-bytes-differ", nil, rp("nil error only if destination holds the source's bytes"))
		}

		if res.DstExists && !res.PermEqual {
			bk.add(sc, side, prim, "nil-error-but-dst-perm-differs", nil, rp("nil error only if destination has the source's permission bits"))
		}
	}

	if !res.DigestOK {
		bk.add(sc, side, prim, "nil-error-but-digest-wrong", nil, rp("nil error only if the returned digest is the digest of the bytes (none for a nil hasher)"))
	}
}

// explore runs one scenario: fault-free twice (determinism), then every
// single-fault plan. It returns a harness error for anything that would make
// the enumeration meaningless.
func explore(sc scenario, bk *book, st *stats) error {
	st.scenarios++

	if sc.Func == "HashFile" {
		st.hashFS[sc.SrcFS]++
	} else {
		st.pairs[sc.pair()]++
	}

	nofault := plan{K: -1}

	base, err := run(sc, nofault)
	if err != nil {
		return fmt.Errorf("%s: %w", sc, err)
	}

	again, err := run(sc, nofault)
	if err != nil {
		return fmt.Errorf("%s: %w", sc, err)
	}

	st.runs += 2
	st.baseRuns += 2

	if !sameTrace(base.trace, again.trace) || base.ErrNil != again.ErrNil || base.Digest != again.Digest {
		return fmt.Errorf("%s: fault-free run is not deterministic: %v / %v", sc, base.Trace, again.Trace)
	}

	if base.SrcChanged {
		st.srcChanged++
	}

	inc2(st.baseTraces, sc.variant(), compress(base.trace))
	st.traceLens[len(base.trace)]++

	for _, c := range base.trace {
		cl, _ := classOf(c)
		st.classSeen[cl]++
	}

	// (a)
	bk.noteChecked(sc, "-", "none")

	if base.Outcome == "returned" && !base.ErrNil {
		bk.add(sc, "-", "none", "error-without-fault", map[string]string{"err": base.ErrKind},
			func() any { return replayObj(sc, nofault, base.trace, base, "nil error: nothing failed") })
	}

	checkConverse(bk, sc, nofault, base.trace, base)

	sampled := sc.Size == 32769 && !st.sampledVariant[sc.variant()]
	if sampled {
		st.sampledVariant[sc.variant()] = true
		st.samples = append(st.samples, map[string]any{"scenario": sc, "plan": "no fault", "trace": compress(base.trace), "error_is_nil": base.ErrNil})
	}

	// (b) + (c) for every single-fault plan
	nth := map[cons]int{}

	for k, c := range base.trace {
		nth[c]++
		class, required := classOf(c)

		for _, e := range errKinds {
			pl := plan{K: k, Side: c.Side, Primitive: c.Fn.String(), Nth: nth[c], Err: e}

			res, err := run(sc, pl)
			if err != nil {
				return fmt.Errorf("%s plan %+v: %w", sc, pl, err)
			}

			st.runs++
			st.faultRuns++

			if !res.Fired || len(res.trace) <= k || !sameTrace(res.trace[:k+1], base.trace[:k+1]) {
				return fmt.Errorf("%s plan %+v: replay diverged from the fault-free trace (fired=%v, trace %v, expected prefix %v)",
					sc, pl, res.Fired, res.Trace, traceStrings(base.trace[:k+1]))
			}

			if res.SrcChanged {
				st.srcChanged++
			}

			st.injected[c.String()]++
			st.classInjected[class]++
			st.faultClasses[sc.variant()+"|"+c.Side+"|"+c.Fn.String()+"|"+e] = true

			oc := "non-nil"

			switch {
			case res.Outcome != "returned":
				oc = res.Outcome
			case res.ErrNil:
				oc = "nil"
			}

			inc2(st.outcome, sc.variant()+" "+c.String(), oc)
			bk.noteChecked(sc, c.Side, c.Fn.String())

			if required {
				if res.Outcome == "returned" && res.ErrNil {
					bk.add(sc, c.Side, c.Fn.String(), "nil-error-on-failure", nil,
						func() any {
							return replayObj(sc, pl, base.trace, res, "non-nil error: "+c.Side+" "+c.Fn.String()+" failed (class "+class+")")
						})
				}
			} else {
				inc2(st.unlisted, class, oc)
			}

			checkConverse(bk, sc, pl, base.trace, res)

			if sampled && (sc.variant() == "CopyFileHash/sha512" || sc.Func == "HashFile") && e == "sentinel" && nth[c] == 1 {
				st.samples = append(st.samples, map[string]any{
					"scenario": sc.String(), "plan": pl, "class": class, "required_non_nil": required,
					"observed_error": map[bool]string{true: "nil", false: res.Err}[res.ErrNil], "trace_after_fault": compress(res.trace[k+1:]),
				})
			}
		}
	}

	return nil
}

// ---------------------------------------------------------------------------
// space

type fsPair struct {
	dst, src string
	shared   bool
}

func space(tier string) (sizes []int, pairs []fsPair, hashFS []string, used []bool) {
	hashFS = []string{fsMem, fsOrefa, fsOs, fsBase, fsRo}

	if tier == "quick" {
		sizes = []int{0, 32768, 32769, 65537}

		for _, d := range []string{fsMem, fsOrefa, fsOs} {
			for _, s := range []string{fsMem, fsOrefa, fsOs} {
				pairs = append(pairs, fsPair{d, s, false})
			}
		}

		pairs = append(pairs, fsPair{fsBase, fsMem, false}, fsPair{fsMem, fsBase, false},
			fsPair{fsOrefa, fsRo, false}, fsPair{fsMem, fsMem, true})

		return sizes, pairs, hashFS, []bool{false}
	}

	sizes = []int{0, 1, 32767, 32768, 32769, 65536, 65537}

	for _, d := range []string{fsMem, fsOrefa, fsOs, fsBase} {
		for _, s := range []string{fsMem, fsOrefa, fsOs, fsBase, fsRo} {
			pairs = append(pairs, fsPair{d, s, false})
		}
	}

	for _, x := range []string{fsMem, fsOrefa, fsOs, fsBase} {
		pairs = append(pairs, fsPair{x, x, true})
	}

	return sizes, pairs, hashFS, []bool{false, true}
}

func scenarios(tier string) []scenario {
	sizes, pairs, hashFS, used := space(tier)

	var out []scenario

	for _, p := range pairs {
		for _, size := range sizes {
			for _, ds := range []string{"absent", "present"} {
				for _, mode := range []uint32{0o644, 0o400} {
					out = append(out,
						scenario{Func: "CopyFile", Hasher: "none", DstFS: p.dst, SrcFS: p.src, Shared: p.shared, Size: size, DstState: ds, SrcMode: mode},
						scenario{Func: "CopyFileHash", Hasher: "nil", DstFS: p.dst, SrcFS: p.src, Shared: p.shared, Size: size, DstState: ds, SrcMode: mode})

					for _, u := range used {
						out = append(out, scenario{Func: "CopyFileHash", Hasher: "sha512", HasherUsed: u, DstFS: p.dst, SrcFS: p.src, Shared: p.shared, Size: size, DstState: ds, SrcMode: mode})
					}
				}
			}
		}
	}

	for _, f := range hashFS {
		for _, size := range sizes {
			for _, mode := range []uint32{0o644, 0o400} {
				for _, u := range used {
					out = append(out, scenario{Func: "HashFile", Hasher: "sha512", HasherUsed: u, DstFS: "-", SrcFS: f, Size: size, DstState: "n/a", SrcMode: mode})
				}
			}
		}
	}

	return out
}

// ---------------------------------------------------------------------------
// main

func die(format string, a ...any) {
	fmt.Fprintf(os.Stderr, "c16: harness error: "+format+"\n", a...)

	if scratchRoot != "" {
		_ = os.RemoveAll(scratchRoot)
	}

	os.Exit(2)
}

func setupScratch() (tmpfs bool) {
	base := os.Getenv("VERIF_SCRATCH")
	if base == "" {
		base = "/dev/shm"
		if fi, err := os.Stat(base); err != nil || !fi.IsDir() {
			base = os.TempDir()
		}
	}

	if err := os.MkdirAll(base, 0o755); err != nil {
		die("cannot create scratch base %s: %v", base, err)
	}

	d, err := os.MkdirTemp(base, "c16-")
	if err != nil {
		die("cannot create scratch dir under %s: %v", base, err)
	}

	scratchRoot = d

	var st syscall.Statfs_t
	if err := syscall.Statfs(d, &st); err == nil && st.Type == 0x01021994 {
		tmpfs = true
	}

	return tmpfs
}

func doReplay(path string) int {
	b, err := os.ReadFile(path)
	if err != nil {
		die("replay: %v", err)
	}

	var f struct {
		Replay struct {
			Scenario scenario `json:"scenario"`
			Plan     plan     `json:"plan"`
		} `json:"replay"`
	}

	if err := json.Unmarshal(b, &f); err != nil {
		die("replay: %v", err)
	}

	sc, pl := f.Replay.Scenario, f.Replay.Plan
	if sc.Func == "" {
		die("replay: %s holds no scenario", path)
	}

	base, err := run(sc, plan{K: -1})
	if err != nil {
		die("replay: %v", err)
	}

	res, err := run(sc, pl)
	if err != nil {
		die("replay: %v", err)
	}

	bk := newBook()
	required := false

	if pl.K >= 0 {
		if pl.K >= len(base.trace) || !res.Fired {
			die("replay: consultation %d is not reached (fault-free trace has %d)", pl.K, len(base.trace))
		}

		_, required = classOf(base.trace[pl.K])
		if required && res.Outcome == "returned" && res.ErrNil {
			bk.add(sc, pl.Side, pl.Primitive, "nil-error-on-failure", nil, func() any { return nil })
		}
	} else if res.Outcome == "returned" && !res.ErrNil {
		bk.add(sc, "-", "none", "error-without-fault", nil, func() any { return nil })
	}

	checkConverse(bk, sc, pl, base.trace, res)

	out, _ := json.MarshalIndent(map[string]any{"scenario": sc, "plan": pl, "fault_free_trace": compress(base.trace), "observed": res}, "", " ")
	fmt.Println(string(out))

	if len(bk.gorder) == 0 {
		fmt.Println("REPLAY: property holds on this plan")

		return 0
	}

	for _, gk := range bk.gorder {
		fmt.Printf("REPLAY: violated: %s\n", gk)
	}

	return 1
}

func main() {
	id := flag.String("id", "C16", "property id")
	tier := flag.String("tier", "quick", "quick|thorough")
	replay := flag.String("replay", "", "replay file to re-execute")
	flag.Parse()

	verifDir := os.Getenv("VERIF_DIR")
	if verifDir == "" {
		verifDir = "/verif"
	}

	if *tier != "quick" && *tier != "thorough" {
		die("unknown tier %q", *tier)
	}

	verifrt.SetMode(verifrt.ModeSeq)

	_ = avfs.SetUMask(0o022)

	tmpfs := setupScratch()

	defer os.RemoveAll(scratchRoot)

	if *replay != "" {
		code := doReplay(*replay)
		_ = os.RemoveAll(scratchRoot)
		os.Exit(code)
	}

	rep, err := kf.NewReporter(*id, filepath.Join(verifDir, "known_findings.txt"), filepath.Join(verifDir, "replays"))
	if err != nil {
		die("known findings: %v", err)
	}

	rep.Discover = os.Getenv("VERIF_DISCOVER") != ""

	budget := 0.0
	if s := os.Getenv("VERIF_BUDGET_S"); s != "" {
		budget, _ = strconv.ParseFloat(s, 64)
	}

	st := &stats{
		injected: map[string]int{}, outcome: map[string]map[string]int{}, faultClasses: map[string]bool{},
		classSeen: map[string]int{}, classInjected: map[string]int{}, unlisted: map[string]map[string]int{},
		baseTraces: map[string]map[string]int{}, traceLens: map[int]int{}, pairs: map[string]int{},
		sampledVariant: map[string]bool{}, hashFS: map[string]int{},
	}
	bk := newBook()
	all := scenarios(*tier)

	// VERIF_SEED only rotates the order in which scenarios are visited.
	if n := ev.Seed(); n != 0 && len(all) > 0 {
		r := ((n % len(all)) + len(all)) % len(all)
		all = append(all[r:], all[:r]...)
	}

	exhaustive := true
	done := 0

	for _, sc := range all {
		if budget > 0 && ev.Elapsed() > budget*0.9 {
			exhaustive = false

			break
		}

		if err := explore(sc, bk, st); err != nil {
			die("%v", err)
		}

		done++
	}

	// coverage assertion: every primitive class the property lists was seen and injected
	if exhaustive {
		for _, cl := range listed {
			if st.classSeen[cl] == 0 || st.classInjected[cl] == 0 {
				die("primitive class %q of the property never appears in a fault-free trace (seen %d, injected %d): the enumeration would be vacuous for it",
					cl, st.classSeen[cl], st.classInjected[cl])
			}
		}
	}

	groups := bk.flush(rep)

	// concurrent copies (shared buffer pool) under the controlled scheduler
	var cdl time.Time
	if budget > 0 {
		cdl = time.Now().Add(time.Duration(budget*0.3) * time.Second)
	} else if *tier == "quick" {
		cdl = time.Now().Add(60 * time.Second)
	} else {
		cdl = time.Now().Add(600 * time.Second)
	}

	cProgs, cExecs, cSamples, cerr := runConcurrent(*tier, rep, cdl)
	if cerr != nil {
		die("concurrent part: %v", cerr)
	}

	st.runs += cExecs

	var unlistedSeen []string
	for cl := range st.unlisted {
		unlistedSeen = append(unlistedSeen, cl)
	}

	sort.Strings(unlistedSeen)

	pairNames := make([]string, 0, len(st.pairs))
	for p := range st.pairs {
		pairNames = append(pairNames, p)
	}

	sort.Strings(pairNames)

	sizes, _, _, _ := space(*tier)

	if len(st.samples) == 0 {
		st.samples = append(st.samples, "no scenario executed (budget)")
	}

	cov := map[string]any{
		"evaluations":         st.runs,
		"distinct_nontrivial": len(st.faultClasses),
		"rule": "evaluations = executions of the real CopyFile/CopyFileHash/HashFile on fresh instances (2 fault-free runs per scenario + one run per " +
			"(consultation index k of the fault-free trace, error E in {sentinel, PathError{ErrPermDenied}})); distinct_nontrivial = number of distinct " +
			"(function variant, side, FnVFS primitive, E) fault classes whose injected consultation was actually reached and returned E in the run " +
			"(verified against the run's own trace)",
		"samples":                                  st.samples,
		"scenarios":                                st.scenarios,
		"scenarios_planned":                        len(all),
		"fault_free_runs":                          st.baseRuns,
		"single_fault_runs":                        st.faultRuns,
		"sizes":                                    sizes,
		"fs_pairs(dst<-src)":                       pairNames,
		"hashfile_fs":                              st.hashFS,
		"errors_injected":                          errKinds,
		"fault_free_traces":                        st.baseTraces,
		"fault_free_trace_lengths":                 lensToMap(st.traceLens),
		"plans_injected_per_primitive":             st.injected,
		"plans_injected_per_class":                 st.classInjected,
		"listed_classes":                           listed,
		"outcomes_per_variant_and_prim":            st.outcome,
		"unlisted_primitives_recorded_not_flagged": st.unlisted,
		"source_changed_runs":                      st.srcChanged,
		"violation_groups":                         groups,
		"exhaustive":                               exhaustive,
		"bound":                                    "single fault per run; every k of every fault-free trace; " + *tier + " space",
		"known_findings_matched":                   append([]string{}, rep.KnownMatched()...),
		"scratch_is_tmpfs":                         tmpfs,
		"concurrent_programs":                      cProgs,
		"concurrent_schedules":                     cExecs,
		"concurrent_samples":                       cSamples,
	}

	werr := ev.Write(filepath.Join(verifDir, "evidence", *id+".json"), ev.Evidence{
		PropertyID: *id, Tier: *tier, Seed: ev.Seed(), Level: "fault_enumeration", Coverage: cov,
		Assumptions: []string{
			"single fault per run (no multi-fault plans)",
			"FailFS is the fault-injection seam: a failure is a non-nil return of the FailFunc before the base primitive runs; partial writes/short reads of a base file system are not modelled",
			"source sizes " + fmt.Sprint(sizes) + " with one deterministic non-periodic content; destination absent or present (longer, mode 0660); source mode 0644/0400; administrator user; umask 022",
			"OsFS instances live on a scratch directory (tmpfs: " + strconv.FormatBool(tmpfs) + ") and share the process",
			"failure of closing the source file is not in the property's list: recorded, not required to be reported",
			"sequential execution (verifrt.ModeSeq); FailFS wrappers on both sides share one consultation counter",
		},
		Violations: rep.NewCount(),
	})
	if werr != nil {
		die("evidence: %v", werr)
	}

	code := rep.Finish()

	fmt.Printf("c16: tier=%s scenarios=%d/%d runs=%d (fault-free %d, single-fault %d) fault classes=%d copy fs pairs=%d hashfile fs=%d violation groups=%d new signatures=%d exhaustive=%v wall=%.1fs\n",
		*tier, done, len(all), st.runs, st.baseRuns, st.faultRuns, len(st.faultClasses), len(st.pairs), len(st.hashFS), len(groups), rep.NewCount(), exhaustive, ev.Elapsed())

	_ = os.RemoveAll(scratchRoot)

	os.Exit(code)
}

func lensToMap(m map[int]int) map[string]int {
	out := map[string]int{}
	for k, v := range m {
		out[strconv.Itoa(k)] = v
	}

	return out
}
