package main

import (
	"fmt"
	"os"
	"runtime/pprof"
	"time"

	"github.com/avfs/avfs/verifrt"
)

// selfBench expands the initial state in-process (as a bfs worker would) and
// prints timing; with a file name it also writes a CPU profile. Development aid.
func selfBench(fsName, tier, prof, hist string) {
	verifrt.SetMode(verifrt.ModeSeq)

	s := factory(tier)(fsName).(*sys)

	if prof != "" {
		f, _ := os.Create(prof)
		_ = pprof.StartCPUProfile(f)

		defer pprof.StopCPUProfile()
	}

	t0 := time.Now()
	resets, viols := 0, 0

	reset := func() error {
		if err := s.Reset(); err != nil {
			return err
		}

		if hist != "" {
			for i := range s.ops {
				if s.ops[i].String() == hist {
					s.Step(i)

					return nil
				}
			}

			return fmt.Errorf("no operation %s", hist)
		}

		return nil
	}

	if err := reset(); err != nil {
		fmt.Println(err)

		return
	}

	for i := 0; i < s.NumOps(); i++ {
		sr := s.Step(i)
		viols += len(sr.Viols)

		if sr.Changed || sr.Broken || sr.Rebuild {
			resets++

			if err := reset(); err != nil {
				fmt.Println(err)

				return
			}
		}
	}

	d := time.Since(t0)
	fmt.Printf("%s: %d ops (of %d at this level), %d resets, %d viols, %v (%.1f us/op)\n", fsName, len(s.ops), s.NumOps(), resets, viols, d, float64(d.Microseconds())/float64(s.NumOps()))
}
