package main

import (
	"fmt"
	"io/fs"
	"os"
	"strings"

	"github.com/avfs/avfs"
	"github.com/avfs/avfs/vfs/failfs"
)

// The variant kept-errors: a base that KEEPS the error values it returns.
//
// MemFS, OrefaFS and RoFS build a fresh *fs.PathError / *os.LinkError for every
// failing call, so a wrapper that translates the error it received IN PLACE
// (e.Path = FromBasePath(e.Path); return e) instead of building its own is
// indistinguishable from a correct one over them: the value it scribbled on
// is garbage the moment the call returns. Nothing in the contract of avfs.VFS
// says that an error value belongs to the caller: a file system may answer
// with a value it keeps (a sentinel, a cached refusal, the prepared error of a
// failure function), and then the in-place translation corrupts the base's
// value - the first call is right, the SAME CALL AGAIN translates an already
// virtual path: FromBasePath panics ("path must start with /top/b", which
// also discloses B) or strips the prefix a second time.
//
// Lesson: a wrapper is judged over bases that differ in what they do with the
// VALUES that cross the boundary, not only in the outcomes they produce: for
// every pointer-carrying result of the base (here the error values) there must
// be a base that retains and re-issues it, every call that received such a
// value is made a second time, and the retained values themselves are part of
// what must be unchanged around a call.
//
// System MemFS+kept-errors: the wrapper stands on failfs.New(base) - the
// library's own fault-injection wrapper - whose failure function (keptErrs.fn)
// refuses every call of keptFns that names a location at or below keptLocked
// (in B's namespace) and answers each distinct call (function, path
// operands as received) with ONE prepared error value, the same pointer every
// time, carrying the path as the base would report it (below B). The reference
// is a standalone failfs.New(reference) with the same function over the
// reference's namespace (error paths as given, as a file system echoes them).
// Oracle: as everywhere (same outcome as the twin, no panic, no B in any
// string), plus
//   - a call during which the base answered with a kept value is made once
//     more on both sides in the same step (subs labelled "again");
//   - after the step every kept value of the base still has the fields it was
//     prepared with                                  -> kind base-error-modified
//     (the state is then not expanded and the instances are rebuilt: the
//     kept values are hidden state that no dump shows).
//
// What the failure function refuses is decided per CALL, not per node, so the
// two sides must consult it for the same calls: keptLocked holds no entry of
// B's root (the wrapper removes the entries of its root one by one where the
// reference receives one RemoveAll("/")), calls made through Sub views are
// not part of this system (the failure function of a FailFS view receives the
// view's names), and the reference walks as the wrapper does, with the
// library's generic walker over the failing primitives (keptTwin.WalkDir;
// FailFS.WalkDir consults the function once for the root and then lets the file
// system below walk by itself).

// keptLocked: locations of the virtual namespace (B's, the reference's) that
// the failure function refuses, with everything below: an existing file and a
// missing name ("b" is a segment of the alphabet), both in the directory "a" so
// that they are named from the root, from "a" after a Chdir and after a Chdir
// of the base itself.
var keptLocked = []string{"/a/f", "/a/b"}

// keptFns are the functions of FailFS for which the failure function refuses a
// locked operand: those that reach the file system by name and that the wrapper
// forwards as they are (or builds on OpenFile / Lstat, as ReadFile, ReadDir,
// WriteFile, Glob, WalkDir).
var keptFns = map[avfs.FnVFS]bool{
	avfs.FnChdir: true, avfs.FnChmod: true, avfs.FnChown: true, avfs.FnLchown: true, avfs.FnChtimes: true,
	avfs.FnLstat: true, avfs.FnStat: true, avfs.FnMkdir: true, avfs.FnMkdirAll: true,
	avfs.FnOpenFile: true, avfs.FnReadDir: true, avfs.FnReadFile: true,
	avfs.FnRemove: true, avfs.FnRemoveAll: true, avfs.FnTruncate: true,
	avfs.FnRename: true, avfs.FnLink: true,
}

var keptLinkFns = map[avfs.FnVFS]bool{avfs.FnRename: true, avfs.FnLink: true}

// keptErr is one prepared error value and the fields it was prepared with.
type keptErr struct {
	err    error
	fields string
}

// keptErrs is the table of error values a file system keeps: one per distinct
// refused call, handed out again whenever that call comes back.
type keptErrs struct {
	root  string        // where the locked namespace starts in this file system (B, or "")
	cwd   func() string // current directory of the file system below (relative operands)
	byKey map[string]*keptErr
	order []*keptErr
	hits  int // kept values handed out since the counter was cleared
}

func newKeptErrs(root string, cwd func() string) *keptErrs {
	return &keptErrs{root: root, cwd: cwd, byKey: map[string]*keptErr{}}
}

// locked: p, an operand as the FailFS received it, names a location at or
// below keptLocked (resolved lexically from the current directory, as the
// wrapper and the file systems of the library do).
func (k *keptErrs) locked(p string) bool {
	if p == "" {
		// the empty path names nothing
		return false
	}

	c, _, _ := vResolve(k.cwd(), p)

	if k.root != "" {
		if !(c == k.root || strings.HasPrefix(c, k.root+"/")) {
			return false
		}

		c = "/" + strings.TrimPrefix(strings.TrimPrefix(c, k.root), "/")
	}

	for _, l := range keptLocked {
		if c == l || strings.HasPrefix(c, l+"/") {
			return true
		}
	}

	return false
}

// fn is the failure function (failfs.FailFunc).
func (k *keptErrs) fn(_ avfs.VFSBase, fn avfs.FnVFS, fp *failfs.FailParam) error {
	if !keptFns[fn] {
		return nil
	}

	link := keptLinkFns[fn]
	if !(k.locked(fp.Path) || link && k.locked(fp.NewPath)) {
		return nil
	}

	k.hits++

	key := fmt.Sprintf("%d|%s|%s", fn, fp.Path, fp.NewPath)
	if e, ok := k.byKey[key]; ok {
		return e.err
	}

	var err error = &fs.PathError{Op: fp.Op, Path: fp.Path, Err: avfs.ErrPermDenied}
	if link {
		err = &os.LinkError{Op: fp.Op, Old: fp.Path, New: fp.NewPath, Err: avfs.ErrPermDenied}
	}

	e := &keptErr{err: err, fields: errFields(err)}
	k.byKey[key] = e
	k.order = append(k.order, e)

	return err
}

func errFields(err error) string {
	switch e := err.(type) {
	case *fs.PathError:
		return fmt.Sprintf("*fs.PathError{Op:%q Path:%q Err:%v}", e.Op, e.Path, e.Err)
	case *os.LinkError:
		return fmt.Sprintf("*os.LinkError{Op:%q Old:%q New:%q Err:%v}", e.Op, e.Old, e.New, e.Err)
	}

	return fmt.Sprintf("%T{%v}", err, err)
}

// modified reports the first kept value whose fields are not those it was
// prepared with: class (the type of the value) and a description.
func (k *keptErrs) modified() (class, why string) {
	for _, e := range k.order {
		if now := errFields(e.err); now != e.fields {
			class = "PathError-rewritten"
			if _, ok := e.err.(*os.LinkError); ok {
				class = "LinkError-rewritten"
			}

			return class, fmt.Sprintf("the error value kept by the base was prepared as %s and is now %s", e.fields, now)
		}
	}

	return "", ""
}

// keptTwin is the reference's side of the variant: a FailFS that walks with the
// library's generic walker over its own (failing) Lstat and ReadDir, as the
// wrapper and every file system of the library do.
type keptTwin struct{ *failfs.FailFS }

func (t keptTwin) WalkDir(root string, fn fs.WalkDirFunc) error {
	return avfs.WalkDir(t.FailFS, root, fn)
}

// again appends the outcome of the same call made once more.
func again(first, second result) result {
	for _, sb := range second.Subs {
		sb.Label = strings.TrimSuffix("again."+sb.Label, ".")
		first.Subs = append(first.Subs, sb)
	}

	return first
}
