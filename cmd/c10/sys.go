package main

import (
	"crypto/sha256"
	"encoding/hex"
	"encoding/json"
	"fmt"
	"io"
	"path"
	"regexp"
	"sort"
	"strings"

	"github.com/avfs/avfs"
	"github.com/avfs/avfs/idm/memidm"
	"github.com/avfs/avfs/vfs/basepathfs"
	"github.com/avfs/avfs/vfs/failfs"
	"github.com/avfs/avfs/vfs/memfs"
	"github.com/avfs/avfs/vfs/orefafs"
	"github.com/avfs/avfs/vfs/rofs"

	"verif/lib/bfs"
	"verif/lib/fsx"
)

// basePath is B in the alphabet's spelling (and in every world but those of
// the variants name:<class>).
const basePath = "/top/b"

// The world of this process (a worker explores one system): where B and its
// sibling outside B really are, and their names. Set by newSys.
var (
	wBase       = basePath
	wSibling    = siblingPath
	wSiblingSub = siblingSub
	wBaseName   = defaultName
	wSibName    = siblingName
)

// spell turns a string of the alphabet, written for B=/top/b and its sibling
// /top/bb, into the string of this world: the segment "b" becomes the name of
// the base directory, "bb" the sibling's.
func spell(p string) string {
	if wBaseName == defaultName {
		return p
	}

	segs := strings.Split(p, "/")

	for i, g := range segs {
		switch g {
		case defaultName:
			segs[i] = wBaseName
		case siblingName:
			segs[i] = wSibName
		}
	}

	return strings.Join(segs, "/")
}

// unspell gives a name of this world in the alphabet's spelling (signatures
// are written in it; the field variant tells the world).
func unspell(n string) string {
	if wBaseName == defaultName {
		return n
	}

	switch n {
	case wBaseName:
		return defaultName
	case wSibName:
		return siblingName
	}

	return n
}

// hooked is a base file system with the injected observers.
type hooked interface {
	avfs.VFS
	VerifDump() []string
	CurDir() string
	SetCurDir(string) error
}

type sys struct {
	fsName string // MemFS | OrefaFS
	ops    []opT

	// variant of the system ("" for the main ones): "basepath:<class>" - the
	// wrapper is built with spelling (the base's cwd being spellCwd) -, or
	// "out-links" - B holds the links of outLinks -, "ro" - wrapper and reference
	// stand on a read-only view (rofs) of their file system -, "user" - the calls
	// are made by a non-administrator user in the world of populateUser,
	// "name:<class>" - B has the name of nameWorlds and holds the nested copy of
	// its own path, "kept-errors" - wrapper and reference stand on a FailFS that
	// refuses some names with error values it keeps (kept.go).
	variant  string
	named    bool
	spelling string
	spellCwd string
	outLinks bool
	roBase   bool
	user     bool
	kept     bool

	// keptBase, keptRef: the error values kept by the file system below the
	// wrapper / by the reference (variant kept-errors).
	keptBase, keptRef *keptErrs

	base hooked
	ref  hooked
	wr   *basepathfs.BasePathFS
	// refv receives the calls of the reference's side (ref itself, or the
	// read-only view of it); ref stays the handle for dumps and the cwd.
	refv avfs.VFS

	depth   int // state-changing steps since Reset = length of the history replayed
	lastKey string

	// observations after the last step (= before the next one)
	outside  []string
	bDump    []string
	baseDump []string

	seenSig map[string]bool // signatures this worker has described in full
	seenAt  map[string]bool // (state, signature) pairs this worker has sent
	fromKey string          // key of the state the current step started from
	nAt     []int           // operations applicable at level i (1-based)
}

// newSys builds the system of a name: "<fs>", "<fs>@<class of
// basePathSpellings>", "<fs>+out-links", "<fs>+ro", "<fs>+user",
// "<fs>+name:<class of nameWorlds>", "<fs>+kept-errors".
func newSys(name string, ops []opT, nAt []int) *sys {
	s := &sys{fsName: name, ops: ops, nAt: nAt, spelling: basePath}

	if fsn, class, ok := strings.Cut(name, "@"); ok {
		s.fsName, s.variant = fsn, "basepath:"+class

		found := false

		for _, sp := range basePathSpellings {
			if sp.Class == class {
				s.spelling, s.spellCwd, found = sp.Spelling, sp.Cwd, true
			}
		}

		if !found {
			panic("c10: unknown base path spelling " + class)
		}
	}

	if fsn, v, ok := strings.Cut(name, "+"); ok {
		s.fsName, s.variant = fsn, v

		switch {
		case v == "out-links":
			s.outLinks = true
		case v == "ro":
			s.roBase = true
		case v == "user":
			s.user = true
		case v == "kept-errors":
			s.kept = true
		case strings.HasPrefix(v, "name:"):
			for _, w := range nameWorlds {
				if "name:"+w.Class == v {
					s.named = true
					wBaseName, wSibName = w.Base, w.Sibling
					wBase, wSibling = "/top/"+w.Base, "/top/"+w.Sibling
					wSiblingSub = wSibling + "/k"
					s.spelling = wBase
				}
			}

			if !s.named {
				panic("c10: unknown name world " + v)
			}
		default:
			panic("c10: unknown variant " + v)
		}
	}

	return s
}

// NumOps is the number of operations that apply at the next level (a prefix of
// the list, which is sorted by decreasing MaxLevel). Variants are explored for
// the first call of a history; the base-path spellings and the names of the
// base directory also for the next calls from the states in which the base's
// cwd has moved (to a cleanly spelled directory).
func (s *sys) NumOps() int {
	l := s.depth + 1

	if l == 1 && s.variant != "" && !s.roBase {
		return compactOps(s.ops)
	}

	if l > 1 && s.variant != "" {
		// (a cwd with an unclean spelling - MemFile.Chdir keeps "/a/b/.." as given
		// to Open - is one more state of the main systems, not of these)
		c, r := s.base.CurDir(), s.ref.CurDir()
		if s.outLinks || s.roBase || s.user || c == wBase || c != path.Clean(c) || r != path.Clean(r) {
			return 0
		}
	}

	if l < len(s.nAt) {
		return s.nAt[l]
	}

	return 0
}

func (s *sys) OpString(i int) string { return s.ops[i].String() }
func (s *sys) Close()                {}
func (s *sys) Key() string           { return s.lastKey }

func newFS(name string, dirs []avfs.DirInfo, idm avfs.IdentityMgr) hooked {
	switch name {
	case "MemFS":
		return memfs.NewWithOptions(&memfs.Options{OSType: avfs.OsLinux, SystemDirs: dirs, Idm: idm})
	case "OrefaFS":
		return orefafs.NewWithOptions(&orefafs.Options{OSType: avfs.OsLinux, SystemDirs: dirs})
	}

	panic("c10: unknown file system " + name)
}

// populate creates B's content below root ("" for the reference) with the same
// calls on both sides. Directory "a" exists already: it is the one system
// directory given to the constructor, so that neither tree holds anything else.
func populate(v hooked, root string, links [][2]string, nested string) error {
	if err := v.SetUMask(0o022); err != nil {
		return err
	}

	// the text of the base path once more, below B (below the reference's root)
	if nested != "" {
		if err := v.MkdirAll(root+nested, 0o755); err != nil {
			return err
		}

		if err := v.WriteFile(root+nested+"/f", []byte("NF"), 0o644); err != nil {
			return err
		}
	}

	if err := v.WriteFile(root+"/f", []byte("F"), 0o644); err != nil {
		return err
	}

	if err := v.WriteFile(root+"/a/f", []byte("AF"), 0o644); err != nil {
		return err
	}

	// symbolic links made through the file system itself, with the same target
	// strings on both sides
	for _, l := range links {
		if err := v.Symlink(l[1], root+l[0]); err != nil {
			return err
		}
	}

	return nil
}

// populateUser adds, as the administrator, the world of the variant user below
// root and creates the user (see userStrings).
func populateUser(v hooked, root string) error {
	idm := v.Idm()

	if _, err := idm.AddGroup(userGroup); err != nil {
		return err
	}

	u, err := idm.AddUser(userName, userGroup)
	if err != nil {
		return err
	}

	if err = v.MkdirAll(root+"/w/locked", 0o755); err != nil {
		return err
	}

	if err = v.Mkdir(root+"/p", 0o700); err != nil {
		return err
	}

	for _, f := range [][2]string{{"/w/f", "WF"}, {"/w/locked/f", "LF"}, {"/p/f", "PF"}} {
		if err = v.WriteFile(root+f[0], []byte(f[1]), 0o644); err != nil {
			return err
		}
	}

	if err = v.WriteFile(root+"/s", []byte("SS"), 0o600); err != nil {
		return err
	}

	for _, p := range []string{"/w", "/w/f"} {
		if err = v.Chown(root+p, u.Uid(), u.Gid()); err != nil {
			return err
		}
	}

	return nil
}

// links of the world of this system (none over an OrefaFS, which has no
// symbolic links).
func (s *sys) worldLinks() [][2]string {
	if s.fsName != "MemFS" {
		return nil
	}

	if s.outLinks {
		return append(append([][2]string{}, baseLinks...), outLinks...)
	}

	return baseLinks
}

// Reset builds fresh instances: base with B=/top/b and the outside files,
// the wrapper, and the standalone reference whose root holds B's content.
func (s *sys) Reset() error {
	var err error

	k, msg := fsx.Guard(func() {
		var idmB, idmR avfs.IdentityMgr

		if s.user {
			idmB, idmR = memidm.New(), memidm.New()
		}

		s.base = newFS(s.fsName, []avfs.DirInfo{{Path: wBase + "/a", Perm: 0o755}}, idmB)
		s.ref = newFS(s.fsName, []avfs.DirInfo{{Path: "/a", Perm: 0o755}}, idmR)

		nested := ""
		if s.named {
			nested = spell(nestedDir)
		}

		if err = populate(s.base, wBase, s.worldLinks(), nested); err != nil {
			return
		}

		if err = populate(s.ref, "", s.worldLinks(), nested); err != nil {
			return
		}

		if s.user {
			if err = populateUser(s.base, wBase); err != nil {
				return
			}

			if err = populateUser(s.ref, ""); err != nil {
				return
			}
		}

		if err = s.base.WriteFile("/secret", []byte("S"), 0o600); err != nil {
			return
		}

		if err = s.base.WriteFile("/top/secret2", []byte("S2"), 0o600); err != nil {
			return
		}

		// a sibling of B whose name has B's name as a prefix (/top/bb against
		// /top/b) with a subdirectory and a file, and an unrelated directory
		for _, d := range []string{wSibling, wSiblingSub, unrelated} {
			if err = s.base.Mkdir(d, 0o755); err != nil {
				return
			}
		}

		if err = s.base.WriteFile(wSibling+"/f", []byte("BBF"), 0o600); err != nil {
			return
		}

		for _, d := range []string{"/top", wBase} {
			if err = s.base.Chmod(d, 0o755); err != nil {
				return
			}
		}

		// fixed modification times everywhere (the root of OrefaFS cannot be
		// addressed: its time is not compared)
		for _, v := range []hooked{s.base, s.ref} {
			for _, l := range v.VerifDump() {
				p := pathOf(l)
				if p == "" {
					p = "/"
				}

				_ = v.Chtimes(p, fsx.FixedTime, fsx.FixedTime)
			}
		}

		// the wrapper, built with the spelling of B of this system
		if s.spellCwd != "" {
			if err = s.base.Chdir(s.spellCwd); err != nil {
				return
			}
		}

		// from here on the calls are made by the user of this system
		if s.user {
			for _, v := range []hooked{s.base, s.ref} {
				if err = v.SetUserByName(userName); err != nil {
					return
				}
			}
		}

		var under avfs.VFS = s.base

		s.refv = s.ref

		if s.roBase {
			under, s.refv = rofs.New(s.base), rofs.New(s.ref)
		}

		if s.kept {
			// a base that keeps the error values it returns (kept.go)
			s.keptBase = newKeptErrs(wBase, func() string { return path.Clean(s.base.CurDir()) })
			s.keptRef = newKeptErrs("", func() string { return path.Clean(s.ref.CurDir()) })

			fb, fr := failfs.New(s.base), failfs.New(s.ref)
			_ = fb.SetFailFunc(s.keptBase.fn)
			_ = fr.SetFailFunc(s.keptRef.fn)

			under, s.refv = fb, keptTwin{fr}
		}

		s.wr, err = basepathfs.NewWithErr(under, s.spelling)
		if err != nil {
			return
		}

		// explicit Chdir("/") on both (MemFS starts with an empty cwd)
		if err = s.wr.Chdir("/"); err != nil {
			return
		}

		if e := s.ref.Chdir("/"); e != nil && s.ref.CurDir() != "/" {
			err = e

			return
		}
	})
	if k != "" {
		return fmt.Errorf("setup of %s: %s %s", s.fsName, k, msg)
	}

	if err != nil {
		return fmt.Errorf("setup of %s: %v", s.fsName, err)
	}

	s.depth = 0

	bd := s.base.VerifDump()
	s.baseDump = bd
	s.outside = s.outsideSnap(bd)
	s.bDump = s.treeLines(s.base, bd, wBase)

	refDump := s.ref.VerifDump()
	rd := s.treeLines(s.ref, refDump, "")
	if d := fsx.DiffLines(rd, s.bDump); d != "" {
		return fmt.Errorf("setup of %s: B and the reference tree differ initially: %s", s.fsName, d)
	}

	if c := s.base.CurDir(); c != wBase || s.ref.CurDir() != "/" {
		return fmt.Errorf("setup of %s: initial cwd base=%q ref=%q", s.fsName, c, s.ref.CurDir())
	}

	s.lastKey = s.key(bd, refDump)

	return nil
}

// key is the state identity: both node graphs and both cwds (hashed: the
// explorer keeps every key in memory).
func (s *sys) key(baseDump, refDump []string) string {
	h := sha256.New()

	for _, l := range baseDump {
		_, _ = io.WriteString(h, l+"\n")
	}

	_, _ = io.WriteString(h, "cwd="+s.base.CurDir()+"\n--ref--\n")

	for _, l := range refDump {
		_, _ = io.WriteString(h, l+"\n")
	}

	_, _ = io.WriteString(h, "cwd="+s.ref.CurDir())

	// OrefaFS keeps a second structure (the children maps) next to the path
	// index that VerifDump prints; its defects can make the two disagree, so
	// the listings are part of the state.
	if s.fsName == "OrefaFS" {
		_, _ = io.WriteString(h, listings(s.base, baseDump)+"\n--\n"+listings(s.ref, refDump))
	}

	return hex.EncodeToString(h.Sum(nil)[:16])
}

// listings renders ReadDir of every directory of a dump.
func listings(v avfs.VFS, dump []string) string {
	var b strings.Builder

	for _, l := range dump {
		if !strings.Contains(l, "/ d ") {
			continue
		}

		p := pathOf(l)
		if p == "" {
			p = "/"
		}

		b.WriteString(p + ":")

		if k, _ := fsx.Guard(func() {
			es, err := v.ReadDir(p)
			if err != nil {
				b.WriteString("!" + fsx.ErrKind(err))
			}

			for _, e := range es {
				b.WriteString(e.Name() + fsx.TypeChar(e.Type()) + ",")
			}
		}); k != "" {
			b.WriteString("!" + k)
		}

		b.WriteString(";")
	}

	return b.String()
}

// pathOf is the path of a VerifDump line (directory lines end with "/").
func pathOf(line string) string {
	i := strings.Index(line, " ")
	if i < 0 {
		return line
	}

	return strings.TrimSuffix(line[:i], "/")
}

func underB(p string) bool {
	return p == wBase || strings.HasPrefix(p, wBase+"/")
}

// mtimeClass: T0 (set by the setup), T0+7s (set by the Chtimes of the alphabet), other.
func mtimeClass(v avfs.VFS, p string) string {
	if p == "" {
		p = "/"
	}

	var c string

	k, _ := fsx.Guard(func() {
		fi, err := v.Lstat(p)
		if err != nil {
			c = "?"

			return
		}

		switch t := fi.ModTime(); {
		case t.Equal(fsx.FixedTime):
			c = "T0"
		case t.Equal(fsx.FixedTime.Add(chtimesDelta)):
			c = "T7"
		default:
			c = "now"
		}
	})
	if k != "" {
		return "!" + k
	}

	return c
}

func mtimeRaw(v avfs.VFS, p string) string {
	if p == "" {
		p = "/"
	}

	c := "?"

	_, _ = fsx.Guard(func() {
		if fi, err := v.Lstat(p); err == nil {
			c = fmt.Sprint(fi.ModTime().UnixNano())
		}
	})

	return c
}

// outsideSnap describes everything of the base that is not in the subtree B:
// node-graph lines plus exact modification times.
func (s *sys) outsideSnap(baseDump []string) []string {
	var out []string

	for _, l := range baseDump {
		p := pathOf(l)
		if underB(p) {
			continue
		}

		out = append(out, l+" mt="+mtimeRaw(s.base, p))
	}

	return out
}

// treeLines returns the lines of the subtree at prefix, prefix stripped (also
// in hard-link class labels), with the modification time class of every node.
// The root's time is left out (not addressable in an OrefaFS reference).
func (s *sys) treeLines(v hooked, dump []string, prefix string) []string {
	var out []string

	for _, l := range dump {
		p := pathOf(l)

		if prefix != "" {
			if !(p == prefix || strings.HasPrefix(p, prefix+"/")) {
				continue
			}

			l = strings.TrimPrefix(l, prefix)
			l = strings.Replace(l, " #"+prefix+"/", " #/", 1)
		}

		if rel := strings.TrimPrefix(p, prefix); rel != "" {
			l += " mt=" + mtimeClass(v, p)
		} else if s.fsName == "OrefaFS" {
			// The root of an OrefaFS is hard-wired to owner 0:0 while every
			// directory it creates (B included) belongs to its default user:
			// the owner of the root line is not comparable.
			if f := strings.Fields(l); len(f) >= 4 {
				f[3] = "-:-"
				l = strings.Join(f, " ")
			}
		}

		out = append(out, l)
	}

	return out
}

// ---- lexical classification of operands (signature fields) ----

// vResolve resolves p lexically in the virtual namespace from cwd, clamping
// ".." at the root as a chroot does. escaped: some ".." was clamped.
func vResolve(cwd, p string) (clean string, escaped, dotdot bool) {
	var stack []string

	if !strings.HasPrefix(p, "/") {
		for _, sgm := range strings.Split(cwd, "/") {
			if sgm != "" {
				stack = append(stack, sgm)
			}
		}
	}

	for _, sgm := range strings.Split(p, "/") {
		switch sgm {
		case "", ".":
		case "..":
			dotdot = true

			if len(stack) == 0 {
				escaped = true
			} else {
				stack = stack[:len(stack)-1]
			}
		default:
			stack = append(stack, sgm)
		}
	}

	return "/" + strings.Join(stack, "/"), escaped, dotdot
}

// pathClass: "empty", or abs|rel followed by ONE class chosen by priority:
// escape (a ".." is clamped at the virtual root) > dotdot-inside > root >
// double-slash > trailing-slash > dot > clean.
func pathClass(cwd, p string) string {
	if p == "" {
		return "empty"
	}

	c := "rel,"
	if strings.HasPrefix(p, "/") {
		c = "abs,"
	}

	return c + shapeClass(cwd, p)
}

var shapeRank = map[string]int{"escape": 7, "dotdot-inside": 6, "empty": 5, "root": 4, "double-slash": 3, "trailing-slash": 2, "dot": 1, "clean": 0}

func shapeClass(cwd, p string) string {
	if p == "" {
		return "empty"
	}

	_, esc, dd := vResolve(cwd, p)

	hasDot := false

	for _, sgm := range strings.Split(p, "/") {
		if sgm == "." {
			hasDot = true
		}
	}

	switch {
	case esc:
		return "escape"
	case dd:
		return "dotdot-inside"
	case strings.Trim(p, "/") == "":
		return "root"
	case strings.Contains(p, "//"):
		return "double-slash"
	case strings.HasSuffix(p, "/"):
		return "trailing-slash"
	case hasDot:
		return "dot"
	}

	return "clean"
}

// pairClass: class of the operands of a two-path call: rel if any operand is
// relative (or empty), then the highest-priority shape of the two.
func pairClass(cwd, a, b string) string {
	c := "abs,"
	if !strings.HasPrefix(a, "/") || !strings.HasPrefix(b, "/") {
		c = "rel,"
	}

	sa, sb := shapeClass(cwd, a), shapeClass(cwd, b)
	if shapeRank[sb] > shapeRank[sa] {
		sa = sb
	}

	return c + sa
}

// coarse maps an outcome kind to ok | error | PANIC | DEADLOCK.
func coarse(kind string) string {
	switch kind {
	case "ok", "PANIC", "DEADLOCK", "absent":
		return kind
	}

	return "error"
}

// reach tells where the operand would land in the base if it were joined to B
// (or to the base's cwd) WITHOUT clamping "..": inside | outside-existing |
// outside-missing. It is a lexical class of the input for the signature; that
// a read really answered from outside B is decided by answersFromOutside.
func reach(baseCwd, p string, baseDump []string) string {
	bp := p

	switch {
	case p == "" || p == "/":
		bp = wBase
	case strings.HasPrefix(p, "/"):
		bp = wBase + p
	default:
		bp = baseCwd + "/" + p
	}

	bp = path.Clean(bp)
	if underB(bp) {
		return "inside"
	}

	for _, l := range baseDump {
		lp := pathOf(l)
		if lp == "" {
			lp = "/"
		}

		if lp == bp {
			return "outside-existing"
		}
	}

	return "outside-missing"
}

var siteRe = regexp.MustCompile(` @ (?:github\.com/avfs/avfs/)?([^\s(]*(?:\(\*?\w+\))?[^\s(]*)\(`)

// panicSite extracts the first avfs frame from a Guard message.
func panicSite(msg string) string {
	if m := siteRe.FindStringSubmatch(msg); m != nil {
		return m[1]
	}

	if strings.HasPrefix(msg, "verifrt: DEADLOCK") {
		return "lock"
	}

	return "?"
}

// normPath is the absolute cleaned virtual form of a path string observed on
// either side: Clean(p) if absolute, else Clean(Join(virtual cwd before the
// call, p)); ".." clamps at the virtual root.
func normPath(vcwd, p string) string {
	if strings.HasPrefix(p, "/") {
		return path.Clean(p)
	}

	return path.Clean(vcwd + "/" + p)
}

// basePrefix tells which part of the base path a normalised path starts with:
// "base-prefixed" (/top/b), "base-parent-prefixed" (/top) or "".
func basePrefix(n string) string {
	switch {
	case n == wBase || strings.HasPrefix(n, wBase+"/"):
		return "base-prefixed"
	case n == "/top" || strings.HasPrefix(n, "/top/"):
		return "base-parent-prefixed"
	}

	return ""
}

// leakClass: the wrapper's normalised path (already known to differ from the
// reference's) carries the base prefix where the reference's does not.
func leakClass(gn, wn string) string {
	if c := basePrefix(gn); c != "" && basePrefix(wn) != c && !(c == "base-parent-prefixed" && basePrefix(wn) == "base-prefixed") {
		return c
	}

	return ""
}

// valClass: coarse class of a non-path value pair.
func valClasses(call, want, got string) (string, string) {
	for _, p := range []string{"BaseChdir.", subPrefix, "SubLinkW.", "SubLink.", "sv."} {
		call = strings.TrimPrefix(call, p)
	}

	call = handleAsOpen(call)

	// (the listings of the compound call Open with a count, before and after Close)
	if strings.HasPrefix(call, "Open.ReadDir") || strings.HasPrefix(call, "Open.Readdirnames") {
		call = "Open.Readdirnames"
	}

	switch call {
	case "Stat", "Lstat", "Open.Stat":
		wn, wr, _ := strings.Cut(want, " ")
		gn, gr, _ := strings.Cut(got, " ")

		if wr == gr && wn != gn {
			return "name=" + unspell(wn), "name=" + unspell(gn)
		}

		return "info", "other-info"
	case "ReadFile", "Open.Read":
		return "content", "other-content"
	case "ReadDir", "Open.Readdirnames", "WalkDir":
		return "listing", "other-listing"
	case "Sub":
		if strings.HasPrefix(want, "/ d ") && strings.HasPrefix(got, "/ l ") {
			// the view is rooted at a symbolic link to a directory, not at the directory
			return "subtree", "root-is-symlink"
		}

		return "subtree", "other-subtree"
	}

	return "value", "other-value"
}

// handleAsOpen: the sub-calls of the handle calls (exec.go, runHandle) return
// what the same methods return in the compound call Open - a FileInfo, content,
// a listing -, whatever happened to the name meanwhile: classed alike.
func handleAsOpen(call string) string {
	c, label, ok := strings.Cut(call, ".")
	if !ok || !strings.HasPrefix(c, "Handle") && c != "OpenChmod" {
		return call
	}

	switch {
	case strings.HasPrefix(label, "Stat"):
		return "Open.Stat"
	case strings.HasPrefix(label, "ReadDir"), strings.HasPrefix(label, "Readdirnames"):
		return "Open.Readdirnames"
	case label == "Read", label == "ReadAt":
		return "Open.Read"
	}

	return call
}

// ---- the step ----

type detail struct {
	// Spelled: the operation with its operands as the world of a variant
	// name:<class> spells them (the replay names it in the alphabet's spelling).
	Spelled string   `json:"op_as_spelled,omitempty"`
	Want    result   `json:"want_reference"`
	Got     result   `json:"got_basepathfs"`
	Diffs   []string `json:"diffs"`
}

func (s *sys) Step(op int) bfs.StepResult {
	o := s.ops[op]

	if s.depth+1 > o.MaxLevel {
		// cannot happen through bfs (NumOps is the applicable prefix)
		return bfs.StepResult{Key: s.lastKey, Outcome: "not-applicable-at-this-level"}
	}

	if o.Links && s.fsName != "MemFS" || o.User && !s.user || o.Names && !s.named {
		// no symbolic links in this world, not the world of the variant user, no
		// nested copy of the base path: the names mean nothing
		return bfs.StepResult{Key: s.lastKey, Outcome: "no-links-in-this-world"}
	}

	if s.kept && (o.Dir != "" || o.Call == "Sub") {
		// the failure function of a FailFS view receives the view's names: views
		// are not part of the variant kept-errors (kept.go); nothing is executed
		return bfs.StepResult{Key: s.lastKey, Outcome: "no-links-in-this-world"}
	}

	if s.kept {
		s.keptBase.hits = 0
	}

	// the operands as this world spells them (variants name:<class>)
	o.A, o.B, o.Dir = spell(o.A), spell(o.B), spell(o.Dir)

	s.fromKey = s.lastKey

	// (MemFile.Chdir stores the name as given to Open: clean before use)
	vcwd := path.Clean(s.ref.CurDir())
	rawBBefore := s.base.CurDir()
	bcwd := path.Clean(rawBBefore)
	baseBefore := s.baseDump

	pc := pathClass(vcwd, o.A)
	rc := reach(bcwd, o.A, baseBefore)

	if o.Two {
		pc = pairClass(vcwd, o.A, o.B)

		if r2 := reach(bcwd, o.B, baseBefore); r2 != "inside" && rc == "inside" {
			rc = r2
		} else if r2 == "outside-existing" {
			rc = r2
		}
	}

	if o.Call == "Getwd" {
		pc, rc = "none", "inside"
	}

	if s.outLinks && rc == "inside" && !o.Two && o.A != "" {
		// the operand stays in B lexically but goes through a link that does not
		if _, out := s.throughLink(o, bcwd); out {
			rc = "outside-via-link"
		}
	}

	baseOp := o.Call == "BaseChdir"
	if baseOp {
		// a call on the base: the class of the operand is where it lies w.r.t. B
		pc, rc = "base:"+baseCwdClass(o.A), "n/a"
	}

	subOp := o.Dir != ""
	if subOp {
		pc, rc = subClasses(o, baseBefore)
	}

	// class of the base's cwd before the call, when it is not in B (it got
	// there by a call on the base)
	bcc := ""
	if !underB(bcwd) {
		bcc = baseCwdClass(bcwd)
	}

	escaping := strings.HasSuffix(pc, ",escape")

	// Outcome classes in signatures: exact errno names, except where the
	// operand escapes the virtual root (every difference then has the same
	// cause and the errno pair only reflects what happens to lie outside B) and
	// for panics: ok | error.
	oc := func(kind string) string {
		if escaping {
			return coarse(kind)
		}

		return kind
	}

	cwdClass := "root"
	if vcwd != "/" {
		cwdClass = "subdir"
	}

	// the call, on the wrapper and on the reference
	var got, want result

	switch {
	case baseOp:
		got, want = s.runBaseChdir(o.A)
	case subOp:
		// A view that does not advertise symbolic links (as the wrapper itself):
		// the reference's view answers as a file system without that feature.
		var viewSymlink bool

		got, viewSymlink = runSub(s.wr, o, false)
		want, _ = runSub(s.refv, o, !viewSymlink && len(got.Subs) > 0 && got.Subs[0].Kind == "ok")
	case symlinkCalls[o.Call] && !s.wr.HasFeature(avfs.FeatSymlink) && s.refv.HasFeature(avfs.FeatSymlink):
		// The wrapper does not advertise symbolic links: the reference is a
		// file system without that feature.
		got = run(s.wr, o)
		want = noSymlinkResult(o)
	default:
		got = run(s.wr, o)
		want = run(s.refv, o)

		if s.kept && s.keptBase.hits > 0 {
			// the base answered with an error value it keeps: the same call once
			// more, which receives the same value
			got = again(got, run(s.wr, o))
			want = again(want, run(s.refv, o))
		}
	}

	// returned path strings are normalised from the virtual cwd in which the
	// call was made: for the wrapper calls that follow a BaseChdir, the new one
	ncwd := vcwd
	if baseOp {
		ncwd = path.Clean(s.ref.CurDir())
	}

	if subOp {
		// (calls on a view are made with absolute names, or in the first step of
		// a history, where the cwd is the root)
		ncwd = "/"
	}

	var (
		viols []bfs.Viol
		notes []string
		diffs []string
	)

	mk := func(call, kind, w, g, why string) {
		sig := map[string]string{
			"base": s.fsName, "call": call, "path": pc, "cwd": cwdClass, "reach": rc,
			"kind": kind, "want": w, "got": g,
		}

		if bcc != "" {
			sig["basecwd"] = bcc
		}

		if s.variant != "" {
			sig["variant"] = s.variant
		}

		diffs = append(diffs, kind+": "+why)
		viols = append(viols, bfs.Viol{Sig: sig})
	}

	// a panic while translating a relative operand does not depend on its shape
	mkp := func(call, w, g, why string) {
		save := pc

		if strings.HasPrefix(pc, "rel,") && !escaping {
			pc = "rel,any"
		}

		mk(call, "panic", w, g, why)
		pc = save
	}

	note := func(call, class, w, g, why string) {
		notes = append(notes, class)
		sig := map[string]string{
			"base": s.fsName, "call": call, "path": pc, "cwd": cwdClass, "reach": rc,
			"kind": "note:" + class, "want": w, "got": g,
		}

		if bcc != "" {
			sig["basecwd"] = bcc
		}

		if s.variant != "" {
			sig["variant"] = s.variant
		}

		diffs = append(diffs, "note "+class+": "+why)
		viols = append(viols, bfs.Viol{Sig: sig})
	}

	// exists: the normalised virtual path names a node of B (before the call)
	exists := func(n string) bool {
		for _, l := range s.bDump {
			lp := pathOf(l)
			if lp == "" {
				lp = "/"
			}

			if lp == n {
				return true
			}
		}

		return false
	}

	rootCase := s.fsName == "OrefaFS" && refRootInvolved(vcwd, o)
	handleOp := strings.HasPrefix(o.Call, "Handle") || o.Call == "OpenChmod"
	readOnly := readOnlyCalls[o.Call]

	// fromOutside: a read answered with something that lies outside B (outside
	// the view, for a call made on a view)
	fromOutside := func(i int, g sub) bool {
		if subOp {
			return s.subAnswersFromOutside(o, i, g)
		}

		return readOnly && rc != "inside" && s.answersFromOutside(o, bcwd, i, g)
	}
	sameKinds := true

	n := len(want.Subs)
	if len(got.Subs) > n {
		n = len(got.Subs)
	}

compare:
	for i := 0; i < n; i++ {
		w, g := sub{Kind: "absent"}, sub{Kind: "absent"}

		if i < len(want.Subs) {
			w = want.Subs[i]
		}

		if i < len(got.Subs) {
			g = got.Subs[i]
		}

		call := o.Call

		if l := w.Label + g.Label; l != "" {
			call += "." + strings.TrimSuffix(strings.TrimPrefix(w.Label+"|"+g.Label, "|"), "|")
			if w.Label == g.Label {
				call = o.Call + "." + w.Label
			}
		}

		switch {
		case w.Kind == "PANIC" || w.Kind == "DEADLOCK":
			// the standalone reference itself breaks on this call: nothing to demand
			sameKinds = sameKinds && w.Kind == g.Kind

			note(call, "ref-defect", w.Kind+":"+panicSite(w.Msg), g.Kind, "reference: "+w.Msg)

			break compare
		case g.Kind == "PANIC" || g.Kind == "DEADLOCK":
			sameKinds = false
			site := panicSite(g.Msg)
			why := fmt.Sprintf("reference %s, BasePathFS %s: %s", w.Kind, g.Kind, g.Msg)

			if rootCase && !strings.Contains(site, "basepathfs") {
				// the base itself breaks on a call that the reference cannot
				// even address: a defect of the base type, not of the wrapper
				note(call, "ref-root-unaddressable", coarse(w.Kind), g.Kind+":"+site, why)
			} else {
				mkp(call, coarse(w.Kind), g.Kind+":"+site, why)
			}

			if i == 0 {
				break compare // the rest of a compound call follows from it
			}

			continue
		case w.Kind != g.Kind:
			sameKinds = false

			switch {
			case rootCase:
				note(call, "ref-root-unaddressable", w.Kind, g.Kind, fmt.Sprintf("reference %s (%s), BasePathFS %s (%s)", w.Kind, w.Msg, g.Kind, g.Msg))
			case g.Kind == "ok" && fromOutside(i, g):
				mk(call, "outside-read", oc(w.Kind), g.Kind, fmt.Sprintf("reference %s, BasePathFS ok: val=%q paths=%q", w.Kind, g.Val, g.Paths))
			default:
				mk(call, "outcome", oc(w.Kind), oc(g.Kind), fmt.Sprintf("reference %s (%s), BasePathFS %s (%s)", w.Kind, w.Msg, g.Kind, g.Msg))
			}

			if i == 0 || handleOp {
				// the rest of a compound call follows from the first difference (the
				// methods of a handle call act on what the former ones left)
				break compare
			}

			continue
		}

		// same outcome kind: returned data
		if w.Val != g.Val {
			wc, gc := valClasses(call, w.Val, g.Val)
			why := fmt.Sprintf("reference %q, BasePathFS %q", w.Val, g.Val)

			switch {
			case !baseOp && !subOp && nameSpellingOnly(call, vcwd, o.A, w.Val, g.Val),
				subOp && !isSubLink(o) && nameSpellingOnly(strings.TrimPrefix(call, subPrefix), "/", o.A, w.Val, g.Val):
				// FileInfo.Name echoes the last element of the name as given
				// ("." for "a/.") on the reference and of the cleaned virtual
				// path ("a") on the wrapper: the same node, another spelling
				notes = append(notes, "spelling-only")
			case rootCase:
				note(call, "ref-root-unaddressable", wc, gc, why)
			case fromOutside(i, g):
				mk(call, "outside-read", wc, gc, why)
			default:
				mk(call, "value", wc, gc, why)
			}
		}

		// returned path strings
		if kind, wc, gc, why := comparePaths(w.Paths, g.Paths, ncwd, exists, &notes); kind != "" {
			if kind == "differs" {
				kind = "value"
			}

			if rootCase && kind != "leak" {
				note(call, "ref-root-unaddressable", wc, gc, why)
			} else {
				mk(call, kind, wc, gc, "returned "+why)
			}
		}

		// paths embedded in the error
		if kind, wc, gc, why := comparePaths(w.ErrPaths, g.ErrPaths, ncwd, exists, &notes); kind != "" {
			if kind == "differs" {
				kind = "error-path"
			}

			mk(call, kind, wc, gc, "error field "+why)
		}
	}

	// state after the call
	poisoned := want.poisoned()

	for _, g := range got.Subs {
		// A panic raised by FromBasePath happens in the wrapper after the base
		// call has returned: no lock of the base is held, the instances stay usable.
		if (g.Kind == "PANIC" && !strings.HasSuffix(panicSite(g.Msg), "basepathfs.(*BasePathFS).FromBasePath")) || g.Kind == "DEADLOCK" {
			poisoned = true
		}
	}

	var baseAfter, refAfter []string

	if k, msg := fsx.Guard(func() { baseAfter = s.base.VerifDump(); refAfter = s.ref.VerifDump() }); k != "" {
		mk(o.Call, "panic", "dump", k+":VerifDump", msg)

		return s.finish(o, pc, bcc, want, got, viols, diffs, notes, bfs.StepResult{Key: s.lastKey, Rebuild: true})
	}

	// the error values the base keeps are the base's: unchanged around every call
	keptModified := false

	if s.kept {
		if class, why := s.keptBase.modified(); class != "" {
			keptModified = true

			mk(o.Call, "base-error-modified", "unchanged", class, why)
		}
	}

	outsideAfter := s.outsideSnap(baseAfter)
	outsideChanged := false

	if d := fsx.DiffLines(s.outside, outsideAfter); d != "" {
		outsideChanged = true

		mk(o.Call, "outside-changed", "unchanged", changeClass(s.outside, outsideAfter), "base outside B before/after: "+d)
	}

	bAfter := s.treeLines(s.base, baseAfter, wBase)
	rAfter := s.treeLines(s.ref, refAfter, "")
	treeDiff := fsx.DiffLines(rAfter, bAfter)

	if treeDiff != "" && sameKinds {
		// same outcomes, different effect
		if rootCase {
			note(o.Call, "ref-root-unaddressable", "tree", "other-tree", "reference tree vs B: "+treeDiff)
		} else {
			mk(o.Call, "b-tree", "tree", changeClass(rAfter, bAfter), "reference tree vs B (prefix stripped): "+treeDiff)
		}
	}

	// cwd: where the base really is (clean, then strip B) and what the wrapper
	// presents (strip B, then clean - FromBasePath) must both be the reference's
	rawB := s.base.CurDir()
	newB := path.Clean(rawB)
	rawV := s.ref.CurDir()
	newV := normPath(vcwd, rawV)
	refCwdRelative := !strings.HasPrefix(rawV, "/")

	if refCwdRelative {
		// MemFile/OrefaFile.Chdir store the name as given to Open: after
		// Open("a").Chdir() the reference's cwd is the relative string "a" and
		// its later answers are meaningless. Nothing to demand; not expanded.
		note(o.Call, "ref-defect", "relative-cwd", "n/a", fmt.Sprintf("reference cwd became the relative string %q", rawV))
	}
	semantic := underB(newB) && path.Clean("/"+strings.TrimPrefix(newB, wBase)) == newV
	presented := strings.HasPrefix(rawB, wBase) && path.Clean("/"+strings.TrimPrefix(rawB, wBase)) == newV

	// The base's cwd may be outside B only where a call on the base has put it
	// (this step's BaseChdir if it succeeded, else where it was before the
	// step): the virtual cwd is then the root, and no call through the wrapper
	// moves the base's cwd to some other place outside B.
	putThere := rawBBefore
	if baseOp && len(got.Subs) > 0 && got.Subs[0].Kind == "ok" {
		putThere = o.A
	}

	outsideOK := !underB(newB) && rawB == putThere && newV == "/"
	cwdDiverged := !((semantic && presented) || outsideOK)

	if cwdDiverged && len(viols) == 0 {
		gc := "presented-differently"

		switch {
		case !underB(newB):
			gc = "base-cwd-outside-B"
		case !semantic:
			gc = "base-cwd-elsewhere-in-B"
		}

		mk(o.Call, "cwd", "virtual-cwd", gc, fmt.Sprintf("reference cwd %q, base cwd %q", newV, rawB))
	}

	key := s.key(baseAfter, refAfter)
	changed := key != s.lastKey
	mtimeOnly := !changed && (strings.Join(bAfter, "\n") != strings.Join(s.bDump, "\n"))
	broken := poisoned || outsideChanged || treeDiff != "" || cwdDiverged || refCwdRelative || keptModified

	if baseOp {
		// the wrapper calls after a BaseChdir show the cwd it presents: a
		// difference there is a divergence of the cwd
		for _, v := range viols {
			if !strings.HasPrefix(v.Sig["kind"], "note:") {
				broken = true
			}
		}
	}

	sr := bfs.StepResult{Key: key, Changed: changed && !broken, Broken: broken, Rebuild: broken || mtimeOnly}

	if sr.Changed {
		s.depth++
		s.lastKey = key
		s.outside = outsideAfter
		s.bDump = bAfter
		s.baseDump = baseAfter
	}

	return s.finish(o, pc, bcc, want, got, viols, diffs, notes, sr)
}

func (s *sys) finish(o opT, pc, bcc string, want, got result, viols []bfs.Viol, diffs, notes []string, sr bfs.StepResult) bfs.StepResult {
	// Reporting unit: one instance per (expanded state, signature) - the same
	// signature raised by many operations from one state is sent once (the
	// reporter in the parent is sequential; millions of instances would
	// throttle the workers). The number of violating transitions is kept
	// through the outcome table. The full description travels only with the
	// first instance of a signature seen by this worker.
	if s.seenSig == nil {
		s.seenSig = map[string]bool{}
		s.seenAt = map[string]bool{}
	}

	violating := false
	fresh := false
	kept := viols[:0]

	for _, v := range viols {
		if !strings.HasPrefix(v.Sig["kind"], "note:") {
			violating = true
		}

		k := v.Sig["call"] + "|" + v.Sig["path"] + "|" + v.Sig["cwd"] + "|" + v.Sig["reach"] + "|" + v.Sig["kind"] + "|" + v.Sig["want"] + "|" + v.Sig["got"] + "|" + v.Sig["basecwd"]

		at := s.fromKey + "|" + k
		if s.seenAt[at] {
			continue
		}

		s.seenAt[at] = true

		if !s.seenSig[k] {
			s.seenSig[k] = true
			fresh = true
		}

		kept = append(kept, v)
	}

	viols = kept

	if fresh {
		d := detail{Want: want, Got: got, Diffs: diffs}
		if wBaseName != defaultName {
			d.Spelled = o.String() + " with B=" + wBase
		}

		b, _ := json.Marshal(d)
		for i := range viols {
			viols[i].Detail = string(b)
		}
	}

	sr.Viols = viols
	sr.Outcome = o.Call + "|" + want.kinds() + "|" + pc

	if bcc != "" {
		sr.Outcome += "|basecwd=" + bcc
	}

	for _, n := range notes {
		if n == "spelling-only" {
			sr.Outcome += "|spelling-only"

			break
		}
	}

	if violating {
		sr.Outcome += "|V"
	}

	return sr
}

// nameSpellingOnly: two FileInfo renderings ("name rest") differ only in the
// name, the wrapper's name is the last element of the normalised virtual
// operand and that operand is not the virtual root (whose name must not be
// B's).
func nameSpellingOnly(call, vcwd, arg, want, got string) bool {
	call = handleAsOpen(call)

	// (the listings of the compound call Open with a count, before and after Close)
	if strings.HasPrefix(call, "Open.ReadDir") || strings.HasPrefix(call, "Open.Readdirnames") {
		call = "Open.Readdirnames"
	}

	switch call {
	case "Stat", "Lstat", "Open.Stat":
	default:
		return false
	}

	wn, wr, _ := strings.Cut(want, " ")
	gn, gr, _ := strings.Cut(got, " ")

	if wr != gr || wn == gn {
		return false
	}

	n := normPath(vcwd, arg)

	return n != "/" && gn == path.Base(n)
}

// answersFromOutside decides whether a read-only call through the wrapper
// answered from outside B: the same call made directly on the base with the
// operand joined to B WITHOUT clamping ".." gives the wrapper's answer.
func (s *sys) answersFromOutside(o opT, bcwd string, i int, g sub) bool {
	if o.Two || o.Call == "Getwd" || o.Call == "BaseChdir" {
		return false
	}

	bp := o.A

	switch {
	case bp == "" || bp == "/":
		return false
	case strings.HasPrefix(bp, "/"):
		bp = wBase + bp
	default:
		bp = bcwd + "/" + bp
	}

	viaLink := false

	if underB(path.Clean(bp)) {
		real, out := s.throughLink(o, bcwd)
		if !out {
			return false
		}

		bp, viaLink = real, true
	}

	probe := run(s.base, opT{Call: o.Call, A: bp})
	if i >= len(probe.Subs) || probe.Subs[i].Kind != g.Kind {
		return false
	}

	pv, gv := probe.Subs[i].Val, g.Val

	if viaLink && pv != gv {
		// (FileInfo.Name is the link's on one side, the target's on the other)
		_, pv, _ = strings.Cut(pv, " ")
		_, gv, _ = strings.Cut(gv, " ")
	}

	return pv == gv
}

// throughLink resolves the operand of o, joined to B (or to the base's cwd)
// with ".." clamped at B as the wrapper does, through the symbolic links of
// the base: real is where the base lands, out whether that is outside B.
func (s *sys) throughLink(o opT, bcwd string) (real string, out bool) {
	from := bcwd
	if !underB(from) {
		from = wBase
	}

	v, _, _ := vResolve("/"+strings.TrimPrefix(from, wBase), o.A)

	_, _ = fsx.Guard(func() {
		r, err := s.base.EvalSymlinks(path.Clean(wBase + v))
		if err == nil {
			real, out = r, !underB(r)
		}
	})

	return real, out
}

// ---- operations made through a view returned by Sub ----

func viewRoot(dir string) string { return path.Clean(wBase + "/" + dir) }

func dumpHas(dump []string, bp string) bool {
	for _, l := range dump {
		lp := pathOf(l)
		if lp == "" {
			lp = "/"
		}

		if lp == bp {
			return true
		}
	}

	return false
}

// subNaive tells where the base lands when the string is resolved in the BASE's
// namespace without clamping: an operand p of a call on the view joined to the
// view's directory; for SubLink the link's target as the base follows it (an
// absolute target as it is, a relative one from the view's directory, where
// the link is). class: inside (the view) | above-view (elsewhere in B) |
// outside-existing | outside-missing.
func subNaive(o opT, p string, baseDump []string) (bp, class string) {
	root := viewRoot(o.Dir)

	bp = path.Clean(root + "/" + p)
	if isSubLink(o) && strings.HasPrefix(p, "/") {
		bp = path.Clean(p)
	}

	switch {
	case bp == root || strings.HasPrefix(bp, strings.TrimSuffix(root, "/")+"/"):
		class = "inside"
	case underB(bp):
		class = "above-view"
	case dumpHas(baseDump, bp):
		class = "outside-existing"
	default:
		class = "outside-missing"
	}

	return bp, class
}

// subClasses gives the signature fields path and reach of an operation made
// through a view. path: "sub:" + the lexical class of the operand(s) in the
// view's namespace (cwd "/"); for SubLink "link:abs|rel," + escape (a relative
// target climbs above the view's root) | view-existing | view-missing (what
// the target names in the view's namespace). reach: subNaive of the operand
// (the less confined of two), of the target.
func subClasses(o opT, baseDump []string) (pc, rc string) {
	_, rc = subNaive(o, o.A, baseDump)

	if !isSubLink(o) {
		pc = "sub:" + pathClass("/", o.A)

		if o.Two {
			pc = "sub:" + pairClass("/", o.A, o.B)

			if _, r2 := subNaive(o, o.B, baseDump); r2 != "inside" && (rc == "inside" || r2 == "outside-existing") {
				rc = r2
			}
		}

		return pc, rc
	}

	meant, esc, _ := vResolve("/", o.A)

	pc = "link:rel,"
	if strings.HasPrefix(o.A, "/") {
		pc = "link:abs,"
	}

	switch {
	case esc:
		pc += "escape"
	case dumpHas(baseDump, path.Clean(viewRoot(o.Dir)+meant)):
		pc += "view-existing"
	default:
		pc += "view-missing"
	}

	return pc, rc
}

// subAnswersFromOutside: sub i of an operation made through a view is a read
// whose answer is the one the base gives for the place subNaive names, which
// is not in the view (calls on the view) / not in B (the link of SubLink).
func (s *sys) subAnswersFromOutside(o opT, i int, g sub) bool {
	if i == 0 || o.Two && !isSubLink(o) {
		return false
	}

	bp, class := subNaive(o, o.A, s.baseDump)

	if !isSubLink(o) {
		call := strings.TrimPrefix(o.Call, subPrefix)
		if !readOnlyCalls[call] || class == "inside" {
			return false
		}

		probe := run(s.base, opT{Call: call, A: bp})

		return i-1 < len(probe.Subs) && probe.Subs[i-1].Kind == g.Kind && probe.Subs[i-1].Val == g.Val
	}

	call := strings.TrimPrefix(g.Label, "sv.")
	if !readOnlyCalls[call] || class != "outside-existing" || g.Kind != "ok" {
		return false
	}

	probe := run(s.base, opT{Call: call, A: bp})
	if len(probe.Subs) == 0 || probe.Subs[0].Kind != "ok" {
		return false
	}

	pv, gv := probe.Subs[0].Val, g.Val

	if call == "Stat" || call == "Lstat" {
		// (the name is the link's on one side, the target's on the other)
		_, pv, _ = strings.Cut(pv, " ")
		_, gv, _ = strings.Cut(gv, " ")
	}

	return pv == gv
}

// comparePaths compares two lists of path strings after normalising both
// sides to the absolute cleaned virtual form (normPath): the property is about
// which virtual location a string names, not about echoing the argument's
// spelling. kind: "" (same locations; a different spelling is noted),
// "leak" (the wrapper names another location and its string carries the base
// prefix where the reference's does not), "differs" (another location).
func comparePaths(want, got []string, vcwd string, exists func(string) bool, notes *[]string) (kind, wc, gc, why string) {
	norm := func(s string) (label, n string) {
		label, rest, _ := cutLabel(s)

		return label, normPath(vcwd, rest)
	}

	if len(want) != len(got) {
		wset := map[string]bool{}

		for _, w := range want {
			_, n := norm(w)
			wset[n] = true
		}

		for _, g := range got {
			_, gn := norm(g)
			if wset[gn] {
				continue
			}

			if c := basePrefix(gn); c != "" && !exists(gn) {
				has := false

				for n := range wset {
					if basePrefix(n) == c {
						has = true
					}
				}

				if !has {
					return "leak", "list", c, fmt.Sprintf("reference %q, BasePathFS %q", want, got)
				}
			}
		}

		return "differs", "list", countClass(len(got), len(want)), fmt.Sprintf("reference %q, BasePathFS %q", want, got)
	}

	spelling := false

	for i := range want {
		w, g := want[i], got[i]
		if w == g {
			continue
		}

		wl, wn := norm(w)
		gl, gn := norm(g)

		if wl == gl && wn == gn {
			spelling = true

			continue
		}

		why = fmt.Sprintf("reference %q (virtual %s), BasePathFS %q (virtual %s)", w, wn, g, gn)

		if c := leakClass(gn, wn); c != "" && !exists(gn) {
			return "leak", wl + "virtual-path", gl + c, why
		}

		if path.Dir(gn) == wn && gn != wn {
			// (an entry of the directory the reference names)
			return "differs", wl + "virtual-path", gl + "entry-of-virtual-path", why
		}

		return "differs", wl + "virtual-path", gl + "other-virtual-path", why
	}

	if spelling {
		*notes = append(*notes, "spelling-only")
	}

	return "", "", "", ""
}

func cutLabel(s string) (label, rest string, ok bool) {
	for _, l := range []string{"path=", "old=", "new="} {
		if strings.HasPrefix(s, l) {
			return l, s[len(l):], true
		}
	}

	return "", s, false
}

func countClass(got, want int) string {
	switch {
	case got > want:
		return "more-strings"
	case got < want:
		return "fewer-strings"
	}

	return "same-count"
}

// changeClass summarises how b differs from a: added | removed | modified (and combinations).
func changeClass(a, b []string) string {
	am := map[string]string{}
	for _, l := range a {
		am[pathOf(l)] = l
	}

	bm := map[string]string{}
	for _, l := range b {
		bm[pathOf(l)] = l
	}

	set := map[string]bool{}

	for p, l := range bm {
		old, ok := am[p]

		switch {
		case !ok:
			set["added"] = true
		case old != l:
			if stripMt(old) == stripMt(l) {
				set["mtime"] = true
			} else {
				set["modified"] = true
			}
		}
	}

	for p := range am {
		if _, ok := bm[p]; !ok {
			set["removed"] = true
		}
	}

	var out []string
	for k := range set {
		out = append(out, k)
	}

	sort.Strings(out)

	return strings.Join(out, "+")
}

func stripMt(l string) string {
	if i := strings.LastIndex(l, " mt="); i >= 0 {
		return l[:i]
	}

	return l
}

// refRootInvolved: the call, executed on the reference, has to address the
// reference's root directory "/" (which an OrefaFS cannot do, while B in the
// base is an ordinary directory).
func refRootInvolved(vcwd string, o opT) bool {
	isRoot := func(p string) bool {
		c, _, _ := vResolve(vcwd, p)

		return c == "/"
	}

	if o.Dir != "" {
		// (OrefaFS has no Sub)
		return false
	}

	switch o.Call {
	case "Getwd", "BaseChdir":
		// (the wrapper calls that follow a BaseChdir name "f" from the new cwd)
		return false
	case "Glob":
		segs := strings.Split(o.A, "/")
		for i, sgm := range segs {
			if strings.ContainsAny(sgm, "*?[\\") {
				dir := strings.Join(segs[:i], "/")

				switch {
				case i == 0:
					dir = "."
				case dir == "":
					dir = "/"
				}

				return isRoot(dir)
			}
		}

		return isRoot(o.A)
	}

	if isRoot(o.A) {
		return true
	}

	return o.Two && isRoot(o.B)
}
