package main

import (
	"errors"
	"fmt"
	"io/fs"
	"os"
	"runtime"
	"strings"
	"time"

	"github.com/avfs/avfs"
	"github.com/avfs/avfs/verifrt"

	"verif/lib/fsx"
)

// sub is the outcome of one primitive call; a compound operation (Open then
// methods of the handle, Chdir then Getwd) yields several.
type sub struct {
	Label    string   `json:"label,omitempty"`
	Kind     string   `json:"kind"`                // ok | errno | PANIC | DEADLOCK
	Val      string   `json:"val,omitempty"`       // returned data that is not a path
	Paths    []string `json:"paths,omitempty"`     // returned path strings
	ErrPaths []string `json:"err_paths,omitempty"` // path=... / old=... new=... fields of the error
	Msg      string   `json:"msg,omitempty"`       // error or panic text (not compared)
}

type result struct {
	Subs []sub `json:"subs"`
}

func (r result) kinds() string {
	k := make([]string, len(r.Subs))
	for i, s := range r.Subs {
		k[i] = s.Kind
	}

	return strings.Join(k, ";")
}

func (r result) poisoned() bool {
	for _, s := range r.Subs {
		if s.Kind == "PANIC" || s.Kind == "DEADLOCK" {
			return true
		}
	}

	return false
}

// errPaths extracts the path fields embedded in an error.
func errPaths(err error) []string {
	var out []string

	for i := 0; i < 8 && err != nil; i++ {
		switch e := err.(type) {
		case *fs.PathError:
			out = append(out, "path="+e.Path)
			err = e.Err
		case *os.LinkError:
			out = append(out, "old="+e.Old, "new="+e.New)
			err = e.Err
		case *os.SyscallError:
			err = e.Err
		default:
			err = errors.Unwrap(err)
		}
	}

	return out
}

// guard is fsx.Guard with a cheaper way to find the panicking avfs frame
// (runtime.Callers instead of a formatted stack dump): panics are frequent here.
// The message has the same shape: "<panic text> @ <function>(".
func guard(f func()) (kind, msg string) {
	defer func() {
		if r := recover(); r != nil {
			if d, ok := r.(verifrt.Deadlock); ok {
				kind, msg = "DEADLOCK", d.Error()

				return
			}

			kind = "PANIC"
			msg = fmt.Sprint(r)

			var pcs [48]uintptr

			n := runtime.Callers(2, pcs[:])
			frames := runtime.CallersFrames(pcs[:n])

			for {
				fr, more := frames.Next()
				if strings.Contains(fr.Function, "github.com/avfs/avfs") && !strings.Contains(fr.Function, "verifrt") {
					msg += " @ " + fr.Function + "("

					break
				}

				if !more {
					break
				}
			}
		}
	}()

	f()

	return "", ""
}

type runner struct {
	res result
}

// do runs one primitive under a guard and records its outcome.
func (r *runner) do(label string, f func(s *sub) error) bool {
	s := sub{Label: label}

	var err error

	k, msg := guard(func() { err = f(&s) })

	switch {
	case k != "":
		s = sub{Label: label, Kind: k, Msg: msg}
	default:
		s.Kind = fsx.ErrKind(err)

		if err != nil {
			s.Msg = err.Error()
			s.ErrPaths = errPaths(err)
		}
	}

	r.res.Subs = append(r.res.Subs, s)

	return s.Kind == "ok"
}

func infoVal(v avfs.VFS, fi fs.FileInfo) string {
	return fi.Name() + " " + fsx.InfoString(v, fi)
}

const chtimesDelta = 7 * time.Second

// run applies operation o to v.
func run(v avfs.VFS, o opT) result {
	r := &runner{}
	p := o.A

	errOnly := func(f func() error) {
		r.do("", func(*sub) error { return f() })
	}

	var fh avfs.File

	name := func() {
		r.do("Name", func(s *sub) error { s.Paths = []string{fh.Name()}; return nil })
	}

	closeIt := func() {
		r.do("Close", func(*sub) error { return fh.Close() })
	}

	getwd := func() {
		r.do("Getwd", func(s *sub) error {
			d, err := v.Getwd()
			s.Paths = []string{d}

			return err
		})
	}

	switch o.Call {
	case "Stat", "Lstat":
		r.do("", func(s *sub) error {
			var (
				fi  fs.FileInfo
				err error
			)

			if o.Call == "Stat" {
				fi, err = v.Stat(p)
			} else {
				fi, err = v.Lstat(p)
			}

			if err == nil {
				s.Val = infoVal(v, fi)
			}

			return err
		})
	case "ReadFile":
		r.do("", func(s *sub) error {
			b, err := v.ReadFile(p)
			s.Val = fmt.Sprintf("%q", b)
			fsx.Scribble(b) // a returned slice is the caller's: no file may change with it

			return err
		})
	case "ReadDir":
		r.do("", func(s *sub) error {
			es, err := v.ReadDir(p)

			var names []string
			for _, e := range es {
				names = append(names, e.Name()+fsx.TypeChar(e.Type()))
			}

			s.Val = strings.Join(names, ",")

			return err
		})
	case "Open":
		if !r.do("", func(*sub) (err error) { fh, err = v.Open(p); return err }) {
			break
		}

		name()
		r.do("Stat", func(s *sub) error {
			fi, err := fh.Stat()
			if err == nil {
				s.Val = infoVal(v, fi)
			}

			return err
		})
		r.do("Readdirnames", func(s *sub) error {
			n, err := fh.Readdirnames(-1)
			s.Val = strings.Join(n, ",")

			return err
		})
		r.do("Read", func(s *sub) error {
			b := make([]byte, 8)
			n, err := fh.Read(b)
			s.Val = fmt.Sprintf("%q", b[:n])

			return err
		})
		closeIt()
	case "OpenWrite":
		if !r.do("", func(*sub) (err error) { fh, err = v.OpenFile(p, os.O_RDWR, 0); return err }) {
			break
		}

		name()
		r.do("Write", func(s *sub) error {
			data := []byte("W")
			n, err := fh.Write(data)
			fsx.Scribble(data)
			s.Val = fmt.Sprint(n)

			return err
		})
		closeIt()
	case "OpenChdir":
		if !r.do("", func(*sub) (err error) { fh, err = v.Open(p); return err }) {
			break
		}

		r.do("Chdir", func(*sub) error { return fh.Chdir() })
		getwd()
		closeIt()
	case "CreateExcl":
		if !r.do("", func(*sub) (err error) {
			fh, err = v.OpenFile(p, os.O_RDWR|os.O_CREATE|os.O_EXCL, 0o600)

			return err
		}) {
			break
		}

		name()
		closeIt()
	case "Mkdir":
		errOnly(func() error { return v.Mkdir(p, 0o755) })
	case "MkdirAll":
		errOnly(func() error { return v.MkdirAll(p, 0o750) })
	case "WriteFile":
		errOnly(func() error {
			data := []byte("W")
			err := v.WriteFile(p, data, 0o644)
			fsx.Scribble(data)

			return err
		})
	case "Remove":
		errOnly(func() error { return v.Remove(p) })
	case "RemoveAll":
		errOnly(func() error { return v.RemoveAll(p) })
	case "Truncate":
		errOnly(func() error { return v.Truncate(p, 1) })
	case "Chmod":
		errOnly(func() error { return v.Chmod(p, 0o700) })
	case "Chtimes":
		t := fsx.FixedTime.Add(chtimesDelta)
		errOnly(func() error { return v.Chtimes(p, t, t) })
	case "Chdir":
		errOnly(func() error { return v.Chdir(p) })
		getwd()
	case "Getwd":
		getwd()
		r.res.Subs[0].Label = ""
	case "Readlink":
		r.do("", func(s *sub) error {
			t, err := v.Readlink(p)
			s.Paths = []string{t}

			return err
		})
	case "EvalSymlinks":
		r.do("", func(s *sub) error {
			t, err := v.EvalSymlinks(p)
			s.Paths = []string{t}

			return err
		})
	case "Abs":
		r.do("", func(s *sub) error {
			t, err := v.Abs(p)
			s.Paths = []string{t}

			return err
		})
	case "Glob":
		r.do("", func(s *sub) error {
			m, err := v.Glob(p)
			s.Paths = m

			return err
		})
	case "WalkDir":
		r.do("", func(s *sub) error {
			var marks []string

			err := v.WalkDir(p, func(wp string, d fs.DirEntry, err error) error {
				if len(s.Paths) > 2048 {
					return errors.New("walk-too-long")
				}

				s.Paths = append(s.Paths, wp)

				if err != nil {
					marks = append(marks, "!"+fsx.ErrKind(err))

					return nil
				}

				marks = append(marks, "t"+fsx.TypeChar(d.Type()))

				return nil
			})

			s.Val = strings.Join(marks, ",")

			return err
		})
	case "Sub":
		r.do("", func(s *sub) error {
			sv, err := v.Sub(p)
			if err == nil {
				k, msg := fsx.Guard(func() { s.Val = strings.Join(noLinkTargets(fsx.Dump(sv, "/", fsx.DumpOpts{})), " | ") })
				if k != "" {
					s.Val = k + " while dumping the sub file system: " + msg
				}
			}

			return err
		})
	case "Rename":
		errOnly(func() error { return v.Rename(o.A, o.B) })
	case "Link":
		errOnly(func() error { return v.Link(o.A, o.B) })
	case "Symlink":
		errOnly(func() error { return v.Symlink(o.A, o.B) })
	default:
		panic("c10: unknown call " + o.Call)
	}

	return r.res
}

// baseProbes are the cwd-dependent calls made through the wrapper (and on the
// reference) right after a call on the base has moved the base's cwd: the
// current directory itself, a relative name made absolute, a relative name
// resolved.
var baseProbes = []opT{{Call: "Getwd"}, {Call: "Abs", A: "f"}, {Call: "Stat", A: "f"}}

// runBaseChdir is the operation BaseChdir(d). On the wrapper's side the BASE
// file system is sent to d with its own Chdir (not through the wrapper); on the
// reference's side the cwd becomes the virtual counterpart of d: d minus B when
// d is in B (the reference's own Chdir, which fails as the base's does when the
// directory is gone), else the virtual root (set directly when the base's
// Chdir succeeded: a standalone OrefaFS cannot Chdir to its root). The paths in
// the errors of these two calls are the base's own: not compared. Then
// baseProbes on both sides.
func (s *sys) runBaseChdir(d string) (got, want result) {
	g, w := &runner{}, &runner{}

	g.do("Base", func(*sub) error { return s.base.Chdir(d) })

	virt := "/"
	if underB(d) && d != wBase {
		virt = strings.TrimPrefix(d, wBase)
	}

	if virt == "/" {
		// The call on the base is the environment, not the subject: its outcome
		// is taken as it is (an OrefaFS base refuses Chdir("/")).
		if g.res.Subs[0].Kind == "ok" {
			_ = s.ref.SetCurDir("/")
		}

		w.res.Subs = append(w.res.Subs, sub{Label: "Base", Kind: g.res.Subs[0].Kind, Msg: g.res.Subs[0].Msg})
	} else {
		w.do("Base", func(*sub) error { return s.ref.Chdir(virt) })
	}

	g.res.Subs[0].ErrPaths, w.res.Subs[0].ErrPaths = nil, nil

	for _, p := range baseProbes {
		for side, v := range []avfs.VFS{s.wr, s.refv} {
			r := run(v, p)

			for _, sb := range r.Subs {
				sb.Label = strings.TrimSuffix(p.Call+"."+sb.Label, ".")

				if side == 0 {
					g.res.Subs = append(g.res.Subs, sb)
				} else {
					w.res.Subs = append(w.res.Subs, sb)
				}
			}
		}
	}

	return g.res, w.res
}

// runSub executes an operation made through the view returned by v.Sub(o.Dir).
// deny: the view on the wrapper's side does not advertise FeatSymlink while this
// one (the reference's) does: the symbolic-link calls are answered as by a file
// system without that feature (and have no effect). viewSymlink reports whether
// the view obtained here advertises FeatSymlink (false when Sub failed).
//
// Sub:call: subs "Sub", then those of the call with their labels.
// SubLink:  subs "Sub", "Symlink", then the link is met through v - "Lstat",
// "Stat", "ReadFile", "ReadDir" of o.Dir/link - and through the view -
// "sv.Stat", "sv.ReadFile" of link.
// SubLinkW: subs "Sub", "Symlink", then the link is written through v and
// through the view - "WriteFile", "sv.WriteFile". (Apart: what a read answers
// from is decided by probing the base after the step.)
func runSub(v avfs.VFS, o opT, deny bool) (res result, viewSymlink bool) {
	r := &runner{}

	var sv avfs.VFS

	if !r.do("Sub", func(*sub) (err error) { sv, err = v.Sub(o.Dir); return err }) || sv == nil {
		return r.res, false
	}

	viewSymlink = sv.HasFeature(avfs.FeatSymlink)
	deny = deny && viewSymlink

	inner := func(v avfs.VFS, prefix string, in opT) {
		var ir result

		if deny && symlinkCalls[in.Call] {
			ir = noSymlinkResult(in)
		} else {
			ir = run(v, in)
		}

		for _, sb := range ir.Subs {
			if prefix != "" {
				sb.Label = strings.TrimSuffix(prefix+"."+sb.Label, ".")
			}

			r.res.Subs = append(r.res.Subs, sb)
		}
	}

	if !isSubLink(o) {
		inner(sv, "", opT{Call: strings.TrimPrefix(o.Call, subPrefix), A: o.A, B: o.B, Two: o.Two})

		return r.res, viewSymlink
	}

	through := strings.TrimSuffix(o.Dir, "/") + o.B // the link's name for v

	inner(sv, "Symlink", opT{Call: "Symlink", A: o.A, B: o.B, Two: true})

	if o.Call == "SubLinkW" {
		inner(v, "WriteFile", opT{Call: "WriteFile", A: through})
		inner(sv, "sv.WriteFile", opT{Call: "WriteFile", A: o.B})

		return r.res, viewSymlink
	}

	for _, c := range []string{"Lstat", "Stat", "ReadFile", "ReadDir"} {
		inner(v, c, opT{Call: c, A: through})
	}

	for _, c := range []string{"Stat", "ReadFile"} {
		inner(sv, "sv."+c, opT{Call: c, A: o.B})
	}

	return r.res, viewSymlink
}

// noLinkTargets removes from a dump (fsx.Dump) what Readlink answered for the
// symbolic links: a view that does not advertise FeatSymlink refuses Readlink
// (see noSymlinkResult); the targets are compared through the node graphs.
func noLinkTargets(lines []string) []string {
	for i, l := range lines {
		if j := strings.Index(l, " -> "); j >= 0 && strings.Contains(l[:j], " l ") {
			lines[i] = l[:j]
		}
	}

	return lines
}

// noSymlinkResult is the answer of a file system that does not advertise
// FeatSymlink (what OrefaFS answers, what avfs documents for the feature being
// absent): a permission error carrying the arguments as given, no effect.
func noSymlinkResult(o opT) result {
	s := sub{Kind: fsx.ErrKind(avfs.ErrPermDenied)}

	switch o.Call {
	case "Symlink":
		s.ErrPaths = []string{"old=" + o.A, "new=" + o.B}
	default:
		s.ErrPaths = []string{"path=" + o.A}
		s.Paths = []string{""}
	}

	return result{Subs: []sub{s}}
}
