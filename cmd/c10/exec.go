package main

import (
	"errors"
	"fmt"
	"io/fs"
	"os"
	"runtime"
	"strings"
	"time"

	"github.com/avfs/avfs"
	"github.com/avfs/avfs/verifrt"

	"verif/lib/fsx"
)

// sub is the outcome of one primitive call; a compound operation (Open then
// methods of the handle, Chdir then Getwd) yields several.
type sub struct {
	Label    string   `json:"label,omitempty"`
	Kind     string   `json:"kind"`                // ok | errno | PANIC | DEADLOCK
	Val      string   `json:"val,omitempty"`       // returned data that is not a path
	Paths    []string `json:"paths,omitempty"`     // returned path strings
	ErrPaths []string `json:"err_paths,omitempty"` // path=... / old=... new=... fields of the error
	Msg      string   `json:"msg,omitempty"`       // error or panic text (not compared)
}

type result struct {
	Subs []sub `json:"subs"`
}

func (r result) kinds() string {
	k := make([]string, len(r.Subs))
	for i, s := range r.Subs {
		k[i] = s.Kind
	}

	return strings.Join(k, ";")
}

func (r result) poisoned() bool {
	for _, s := range r.Subs {
		if s.Kind == "PANIC" || s.Kind == "DEADLOCK" {
			return true
		}
	}

	return false
}

// errPaths extracts the path fields embedded in an error.
func errPaths(err error) []string {
	var out []string

	for i := 0; i < 8 && err != nil; i++ {
		switch e := err.(type) {
		case *fs.PathError:
			out = append(out, "path="+e.Path)
			err = e.Err
		case *os.LinkError:
			out = append(out, "old="+e.Old, "new="+e.New)
			err = e.Err
		case *os.SyscallError:
			err = e.Err
		default:
			err = errors.Unwrap(err)
		}
	}

	return out
}

// guard is fsx.Guard with a cheaper way to find the panicking avfs frame
// (runtime.Callers instead of a formatted stack dump): panics are frequent here.
// The message has the same shape: "<panic text> @ <function>(".
func guard(f func()) (kind, msg string) {
	defer func() {
		if r := recover(); r != nil {
			if d, ok := r.(verifrt.Deadlock); ok {
				kind, msg = "DEADLOCK", d.Error()

				return
			}

			kind = "PANIC"
			msg = fmt.Sprint(r)

			var pcs [48]uintptr

			n := runtime.Callers(2, pcs[:])
			frames := runtime.CallersFrames(pcs[:n])

			for {
				fr, more := frames.Next()
				if strings.Contains(fr.Function, "github.com/avfs/avfs") && !strings.Contains(fr.Function, "verifrt") {
					msg += " @ " + fr.Function + "("

					break
				}

				if !more {
					break
				}
			}
		}
	}()

	f()

	return "", ""
}

type runner struct {
	res result
}

// do runs one primitive under a guard and records its outcome.
func (r *runner) do(label string, f func(s *sub) error) bool {
	s := sub{Label: label}

	var err error

	k, msg := guard(func() { err = f(&s) })

	switch {
	case k != "":
		s = sub{Label: label, Kind: k, Msg: msg}
	default:
		s.Kind = fsx.ErrKind(err)

		if err != nil {
			s.Msg = err.Error()
			s.ErrPaths = errPaths(err)
		}
	}

	r.res.Subs = append(r.res.Subs, s)

	return s.Kind == "ok"
}

func infoVal(v avfs.VFS, fi fs.FileInfo) string {
	return fi.Name() + " " + fsx.InfoString(v, fi)
}

const chtimesDelta = 7 * time.Second

// run applies operation o to v.
func run(v avfs.VFS, o opT) result {
	r := &runner{}
	p := o.A

	errOnly := func(f func() error) {
		r.do("", func(*sub) error { return f() })
	}

	var fh avfs.File

	// the bits of the alphabet's mode dimension, or'ed into every mode argument
	bits := fs.FileMode(o.Mode)

	name := func() {
		r.do("Name", func(s *sub) error { s.Paths = []string{fh.Name()}; return nil })
	}

	closeIt := func() {
		r.do("Close", func(*sub) error { return fh.Close() })
	}

	getwd := func() {
		r.do("Getwd", func(s *sub) error {
			d, err := v.Getwd()
			s.Paths = []string{d}

			return err
		})
	}

	switch o.Call {
	case "Stat", "Lstat":
		r.do("", func(s *sub) error {
			var (
				fi  fs.FileInfo
				err error
			)

			if o.Call == "Stat" {
				fi, err = v.Stat(p)
			} else {
				fi, err = v.Lstat(p)
			}

			if err == nil {
				s.Val = infoVal(v, fi)
			}

			return err
		})
	case "ReadFile":
		r.do("", func(s *sub) error {
			b, err := v.ReadFile(p)
			s.Val = fmt.Sprintf("%q", b)
			fsx.Scribble(b) // a returned slice is the caller's: no file may change with it

			return err
		})
	case "ReadDir":
		r.do("", func(s *sub) error {
			es, err := v.ReadDir(p)

			var names []string
			for _, e := range es {
				names = append(names, e.Name()+fsx.TypeChar(e.Type()))
			}

			s.Val = strings.Join(names, ",")

			return err
		})
	case "Open":
		if !r.do("", func(*sub) (err error) { fh, err = v.Open(p); return err }) {
			break
		}

		name()
		r.do("Stat", func(s *sub) error {
			fi, err := fh.Stat()
			if err == nil {
				s.Val = infoVal(v, fi)
			}

			return err
		})
		readdirnames(r, fh, "Readdirnames", -1)
		listCounts(r, fh, "")
		r.do("Read", func(s *sub) error {
			b := make([]byte, 8)
			n, err := fh.Read(b)
			s.Val = fmt.Sprintf("%q", b[:n])

			return err
		})
		closeIt()
	case "OpenWrite":
		if !r.do("", func(*sub) (err error) { fh, err = v.OpenFile(p, os.O_RDWR, 0); return err }) {
			break
		}

		name()
		r.do("Write", func(s *sub) error {
			data := []byte("W")
			n, err := fh.Write(data)
			fsx.Scribble(data)
			s.Val = fmt.Sprint(n)

			return err
		})
		closeIt()
	case "OpenChdir":
		if !r.do("", func(*sub) (err error) { fh, err = v.Open(p); return err }) {
			break
		}

		r.do("Chdir", func(*sub) error { return fh.Chdir() })
		getwd()
		closeIt()
	case "CreateExcl":
		if !r.do("", func(*sub) (err error) {
			fh, err = v.OpenFile(p, os.O_RDWR|os.O_CREATE|os.O_EXCL, 0o600|bits)

			return err
		}) {
			break
		}

		name()
		closeIt()
	case "Mkdir":
		errOnly(func() error { return v.Mkdir(p, 0o755|bits) })
	case "MkdirAll":
		errOnly(func() error { return v.MkdirAll(p, 0o750|bits) })
	case "WriteFile":
		errOnly(func() error {
			data := []byte("W")
			err := v.WriteFile(p, data, 0o644|bits)
			fsx.Scribble(data)

			return err
		})
	case "Remove":
		errOnly(func() error { return v.Remove(p) })
	case "RemoveAll":
		errOnly(func() error { return v.RemoveAll(p) })
	case "Truncate":
		errOnly(func() error { return v.Truncate(p, 1) })
	case "Chmod":
		errOnly(func() error { return v.Chmod(p, 0o700|bits) })
	case "Chown":
		errOnly(func() error { return v.Chown(p, ownUID, ownGID) })
	case "Lchown":
		errOnly(func() error { return v.Lchown(p, ownUID, ownGID) })
	case "OpenChmod":
		if !r.do("", func(*sub) (err error) { fh, err = v.Open(p); return err }) {
			break
		}

		// (Stat first: whether the handle is one at all - a standalone file system
		// may answer Open("") with a handle whose every method is refused)
		r.do("Stat", func(s *sub) error {
			fi, err := fh.Stat()
			if err == nil {
				s.Val = infoVal(v, fi)
			}

			return err
		})
		r.do("Chmod", func(*sub) error { return fh.Chmod(0o700 | bits) })
		closeIt()
	case "HandleRenamed", "HandleRemoved", "HandleReplaced":
		runHandle(v, o, r)
	case "Chtimes":
		t := fsx.FixedTime.Add(chtimesDelta)
		errOnly(func() error { return v.Chtimes(p, t, t) })
	case "Chdir":
		errOnly(func() error { return v.Chdir(p) })
		getwd()
	case "Getwd":
		getwd()
		r.res.Subs[0].Label = ""
	case "Readlink":
		r.do("", func(s *sub) error {
			t, err := v.Readlink(p)
			s.Paths = []string{t}

			return err
		})
	case "EvalSymlinks":
		r.do("", func(s *sub) error {
			t, err := v.EvalSymlinks(p)
			s.Paths = []string{t}

			return err
		})
	case "Abs":
		r.do("", func(s *sub) error {
			t, err := v.Abs(p)
			s.Paths = []string{t}

			return err
		})
	case "Glob":
		r.do("", func(s *sub) error {
			m, err := v.Glob(p)
			s.Paths = m

			return err
		})
	case "WalkDir":
		r.do("", func(s *sub) error {
			var marks []string

			err := v.WalkDir(p, func(wp string, d fs.DirEntry, err error) error {
				if len(s.Paths) > 2048 {
					return errors.New("walk-too-long")
				}

				s.Paths = append(s.Paths, wp)

				if err != nil {
					marks = append(marks, "!"+fsx.ErrKind(err))

					return nil
				}

				marks = append(marks, "t"+fsx.TypeChar(d.Type()))

				return nil
			})

			s.Val = strings.Join(marks, ",")

			return err
		})
	case "Sub":
		r.do("", func(s *sub) error {
			sv, err := v.Sub(p)
			if err == nil {
				k, msg := fsx.Guard(func() { s.Val = strings.Join(noLinkTargets(fsx.Dump(sv, "/", fsx.DumpOpts{})), " | ") })
				if k != "" {
					s.Val = k + " while dumping the sub file system: " + msg
				}
			}

			return err
		})
	case "Rename":
		errOnly(func() error { return v.Rename(o.A, o.B) })
	case "Link":
		errOnly(func() error { return v.Link(o.A, o.B) })
	case "Symlink":
		errOnly(func() error { return v.Symlink(o.A, o.B) })
	default:
		panic("c10: unknown call " + o.Call)
	}

	return r.res
}

// handleFree is the name an object is renamed to by the handle calls: a free
// name in the root that is not a segment of the alphabet, like the "x" of the
// link pairs (a relative symbolic link of the base renamed to another depth
// leads elsewhere - out of B in the base, to the root in a chroot: the family
// of KF-C10-009; the states so reached are not named by later calls).
const handleFree = "/x"

// runHandle executes a handle call (ops.go, handleCalls): a handle on o.A - opened
// read-write (sub "", the first one), read-only if that is refused (sub "Open") -
// outlives the name it was opened by. The name is taken away through v:
//
//	HandleRenamed:  v.Rename(p, handleFree)                                  sub "Rename"
//	HandleRemoved:  v.RemoveAll(p)                                           sub "RemoveAll"
//	HandleReplaced: v.Rename(p, handleFree), then a new object of the other
//	                kind under the name p (a directory for a file handle,
//	                a file for a directory handle)                 subs "Rename", "New"
//
// whatever the outcome of these calls (a refused one leaves the name in place:
// the methods are then those of an ordinary handle). Then every method of
// avfs.File, in an order that lets each act on what the former left (reads
// before writes, Chdir last, Close at the end): Name, Stat, ReadDir,
// Readdirnames (count -1, then the counts of listCounts), Read, ReadAt, Seek, Write, WriteAt, WriteString, Truncate, Sync,
// Chmod, Chown, Fd (only whether it answers), Stat again, Chdir + Getwd +
// ReadDir(".") by name from where Chdir led (if it did), Close, and Stat of the handle after
// Close followed by ReadDir and Readdirnames with the counts of listCounts. Errors of the methods carry the handle's name: compared like every
// error path.
func runHandle(v avfs.VFS, o opT, r *runner) {
	p := o.A

	var (
		fh  avfs.File
		dir bool
	)

	if !r.do("", func(*sub) (err error) { fh, err = v.OpenFile(p, os.O_RDWR, 0); return err }) {
		if !r.do("Open", func(*sub) (err error) { fh, err = v.Open(p); return err }) {
			return
		}
	}

	stat := func(label string) {
		r.do(label, func(s *sub) error {
			fi, err := fh.Stat()
			if err == nil {
				s.Val = infoVal(v, fi)
				dir = fi.IsDir()
			}

			return err
		})
	}

	stat("Stat0")

	switch o.Call {
	case "HandleRenamed":
		r.do("Rename", func(*sub) error { return v.Rename(p, handleFree) })
	case "HandleRemoved":
		r.do("RemoveAll", func(*sub) error { return v.RemoveAll(p) })
	case "HandleReplaced":
		r.do("Rename", func(*sub) error { return v.Rename(p, handleFree) })
		r.do("New", func(*sub) error {
			if dir {
				data := []byte("N")
				err := v.WriteFile(p, data, 0o644)
				fsx.Scribble(data)

				return err
			}

			return v.Mkdir(p, 0o755)
		})
	}

	r.do("Name", func(s *sub) error { s.Paths = []string{fh.Name()}; return nil })
	stat("Stat")
	readDir(r, fh, "ReadDir", -1)
	readdirnames(r, fh, "Readdirnames", -1)
	listCounts(r, fh, "")
	r.do("Read", func(s *sub) error {
		b := make([]byte, 8)
		n, err := fh.Read(b)
		s.Val = fmt.Sprintf("%q", b[:n])

		return err
	})
	r.do("ReadAt", func(s *sub) error {
		b := make([]byte, 8)
		n, err := fh.ReadAt(b, 0)
		s.Val = fmt.Sprintf("%q", b[:n])

		return err
	})
	r.do("Seek", func(s *sub) error {
		n, err := fh.Seek(0, 0)
		s.Val = fmt.Sprint(n)

		return err
	})
	r.do("Write", func(s *sub) error {
		data := []byte("H")
		n, err := fh.Write(data)
		fsx.Scribble(data)
		s.Val = fmt.Sprint(n)

		return err
	})
	r.do("WriteAt", func(s *sub) error {
		data := []byte("A")
		n, err := fh.WriteAt(data, 2)
		fsx.Scribble(data)
		s.Val = fmt.Sprint(n)

		return err
	})
	r.do("WriteString", func(s *sub) error {
		n, err := fh.WriteString("S")
		s.Val = fmt.Sprint(n)

		return err
	})
	r.do("Truncate", func(*sub) error { return fh.Truncate(4) })
	r.do("Sync", func(*sub) error { return fh.Sync() })
	r.do("Chmod", func(*sub) error { return fh.Chmod(0o700) })
	r.do("Chown", func(*sub) error { return fh.Chown(0, 0) })
	r.do("Fd", func(*sub) error { _ = fh.Fd(); return nil })
	stat("Stat2")
	entered := r.do("Chdir", func(*sub) error { return fh.Chdir() })
	r.do("Getwd", func(s *sub) error {
		d, err := v.Getwd()
		s.Paths = []string{d}

		return err
	})

	if entered {
		// (only from where the handle led: the current directory of before the
		// call may be the root, which a standalone OrefaFS cannot name. The error
		// path of this call is relative to the directory just entered, not to the
		// one the operation started in, from which error paths are judged: the
		// outcome is compared, the path is not)
		r.do("ReadDir.", func(s *sub) error {
			es, err := v.ReadDir(".")

			var names []string
			for _, e := range es {
				names = append(names, e.Name()+fsx.TypeChar(e.Type()))
			}

			s.Val = strings.Join(names, ",")

			return err
		})

		r.res.Subs[len(r.res.Subs)-1].ErrPaths = nil
	}

	r.do("Close", func(*sub) error { return fh.Close() })
	stat("StatClosed")
	listCounts(r, fh, "Closed")
}

// listCountsArgs are the count arguments of File.ReadDir and File.Readdirnames
// next to the -1 of the plain sub-calls: a positive count and zero.
//
// Lesson (round 11): a count or size argument selects a code path by its SIGN
// (n <= 0: everything at once, errors as they are; n > 0: a window, io.EOF at
// the end, shortcuts for "nothing was read"), and what a handle IS selects
// another (a directory, a regular file - the call is refused with the handle's
// name in the error -, a closed handle). Helpers of the library (ReadDir,
// WalkDir) only ever use n <= 0 on a directory, so a wrapper's method is right
// for them and wrong beside them. Every method of a handle that takes a count
// is called with a count of every sign on every kind of handle the alphabet
// opens - and again after Close -, outcome, entries and the path inside the
// error compared with the twin's like everywhere else.
var listCountsArgs = []int{1, 0}

// listCounts calls ReadDir and Readdirnames of fh with the counts of
// listCountsArgs (first the positive one, from the start of the directory: the
// calls with n <= 0 before it have read it whole and rewound it; the window it
// opens is closed by the n = 0 that follows). Labels
// "ReadDir<when>(n)", "Readdirnames<when>(n)".
func listCounts(r *runner, fh avfs.File, when string) {
	for _, n := range listCountsArgs {
		readDir(r, fh, fmt.Sprintf("ReadDir%s(%d)", when, n), n)
	}

	for _, n := range listCountsArgs {
		readdirnames(r, fh, fmt.Sprintf("Readdirnames%s(%d)", when, n), n)
	}
}

// readDir: File.ReadDir(n), names and types of the entries returned.
func readDir(r *runner, fh avfs.File, label string, n int) {
	r.do(label, func(s *sub) error {
		es, err := fh.ReadDir(n)

		var names []string
		for _, e := range es {
			names = append(names, e.Name()+fsx.TypeChar(e.Type()))
		}

		s.Val = strings.Join(names, ",")

		return err
	})
}

// readdirnames: File.Readdirnames(n).
func readdirnames(r *runner, fh avfs.File, label string, n int) {
	r.do(label, func(s *sub) error {
		names, err := fh.Readdirnames(n)
		s.Val = strings.Join(names, ",")

		return err
	})
}

// baseProbes are the cwd-dependent calls made through the wrapper (and on the
// reference) right after a call on the base has moved the base's cwd: the
// current directory itself, a relative name made absolute, a relative name
// resolved.
var baseProbes = []opT{{Call: "Getwd"}, {Call: "Abs", A: "f"}, {Call: "Stat", A: "f"}}

// runBaseChdir is the operation BaseChdir(d). On the wrapper's side the BASE
// file system is sent to d with its own Chdir (not through the wrapper); on the
// reference's side the cwd becomes the virtual counterpart of d: d minus B when
// d is in B (the reference's own Chdir, which fails as the base's does when the
// directory is gone), else the virtual root (set directly when the base's
// Chdir succeeded: a standalone OrefaFS cannot Chdir to its root). The paths in
// the errors of these two calls are the base's own: not compared. Then
// baseProbes on both sides.
func (s *sys) runBaseChdir(d string) (got, want result) {
	g, w := &runner{}, &runner{}

	g.do("Base", func(*sub) error { return s.base.Chdir(d) })

	virt := "/"
	if underB(d) && d != wBase {
		virt = strings.TrimPrefix(d, wBase)
	}

	if virt == "/" {
		// The call on the base is the environment, not the subject: its outcome
		// is taken as it is (an OrefaFS base refuses Chdir("/")).
		if g.res.Subs[0].Kind == "ok" {
			_ = s.ref.SetCurDir("/")
		}

		w.res.Subs = append(w.res.Subs, sub{Label: "Base", Kind: g.res.Subs[0].Kind, Msg: g.res.Subs[0].Msg})
	} else {
		w.do("Base", func(*sub) error { return s.ref.Chdir(virt) })
	}

	g.res.Subs[0].ErrPaths, w.res.Subs[0].ErrPaths = nil, nil

	for _, p := range baseProbes {
		for side, v := range []avfs.VFS{s.wr, s.refv} {
			r := run(v, p)

			for _, sb := range r.Subs {
				sb.Label = strings.TrimSuffix(p.Call+"."+sb.Label, ".")

				if side == 0 {
					g.res.Subs = append(g.res.Subs, sb)
				} else {
					w.res.Subs = append(w.res.Subs, sb)
				}
			}
		}
	}

	return g.res, w.res
}

// runSub executes an operation made through the view returned by v.Sub(o.Dir).
// deny: the view on the wrapper's side does not advertise FeatSymlink while this
// one (the reference's) does: the symbolic-link calls are answered as by a file
// system without that feature (and have no effect). viewSymlink reports whether
// the view obtained here advertises FeatSymlink (false when Sub failed).
//
// Sub:call: subs "Sub", then those of the call with their labels.
// SubLink:  subs "Sub", "Symlink", then the link is met through v - "Lstat",
// "Stat", "ReadFile", "ReadDir" of o.Dir/link - and through the view -
// "sv.Stat", "sv.ReadFile" of link.
// SubLinkW: subs "Sub", "Symlink", then the link is written through v and
// through the view - "WriteFile", "sv.WriteFile". (Apart: what a read answers
// from is decided by probing the base after the step.)
func runSub(v avfs.VFS, o opT, deny bool) (res result, viewSymlink bool) {
	r := &runner{}

	var sv avfs.VFS

	if !r.do("Sub", func(*sub) (err error) { sv, err = v.Sub(o.Dir); return err }) || sv == nil {
		return r.res, false
	}

	viewSymlink = sv.HasFeature(avfs.FeatSymlink)
	deny = deny && viewSymlink

	inner := func(v avfs.VFS, prefix string, in opT) {
		var ir result

		if deny && symlinkCalls[in.Call] {
			ir = noSymlinkResult(in)
		} else {
			ir = run(v, in)
		}

		for _, sb := range ir.Subs {
			if prefix != "" {
				sb.Label = strings.TrimSuffix(prefix+"."+sb.Label, ".")
			}

			r.res.Subs = append(r.res.Subs, sb)
		}
	}

	if !isSubLink(o) {
		inner(sv, "", opT{Call: strings.TrimPrefix(o.Call, subPrefix), A: o.A, B: o.B, Two: o.Two})

		return r.res, viewSymlink
	}

	through := strings.TrimSuffix(o.Dir, "/") + o.B // the link's name for v

	inner(sv, "Symlink", opT{Call: "Symlink", A: o.A, B: o.B, Two: true})

	if o.Call == "SubLinkW" {
		inner(v, "WriteFile", opT{Call: "WriteFile", A: through})
		inner(sv, "sv.WriteFile", opT{Call: "WriteFile", A: o.B})

		return r.res, viewSymlink
	}

	for _, c := range []string{"Lstat", "Stat", "ReadFile", "ReadDir"} {
		inner(v, c, opT{Call: c, A: through})
	}

	for _, c := range []string{"Stat", "ReadFile"} {
		inner(sv, "sv."+c, opT{Call: c, A: o.B})
	}

	return r.res, viewSymlink
}

// noLinkTargets removes from a dump (fsx.Dump) what Readlink answered for the
// symbolic links: a view that does not advertise FeatSymlink refuses Readlink
// (see noSymlinkResult); the targets are compared through the node graphs.
func noLinkTargets(lines []string) []string {
	for i, l := range lines {
		if j := strings.Index(l, " -> "); j >= 0 && strings.Contains(l[:j], " l ") {
			lines[i] = l[:j]
		}
	}

	return lines
}

// noSymlinkResult is the answer of a file system that does not advertise
// FeatSymlink (what OrefaFS answers, what avfs documents for the feature being
// absent): a permission error carrying the arguments as given, no effect.
func noSymlinkResult(o opT) result {
	s := sub{Kind: fsx.ErrKind(avfs.ErrPermDenied)}

	switch o.Call {
	case "Symlink":
		s.ErrPaths = []string{"old=" + o.A, "new=" + o.B}
	default:
		s.ErrPaths = []string{"path=" + o.A}
		s.Paths = []string{""}
	}

	return result{Subs: []sub{s}}
}
