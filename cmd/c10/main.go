// c10: BasePathFS confines all access to its base directory and acts as a chroot.
//
// Engine A (lib/bfs): exhaustive breadth-first enumeration of call histories on
// the REAL BasePathFS over a REAL base (MemFS, OrefaFS) holding /secret,
// /top/secret2, /out, /top/bb (dir k, file f: a sibling of B whose name has
// B's name as a strict string prefix) and B=/top/b (dir a, file f, file a/f),
// executed in lock-step on a standalone reference file system of the same type
// whose root holds B's content (same calls, umask 022, fixed mtimes). The
// alphabet also moves the BASE's own cwd (base.Chdir, not through the
// wrapper) into B, to B, to the prefix sibling, to B's ancestors and to an
// unrelated directory; the reference's cwd is then the virtual counterpart,
// "/" when the base's cwd is outside B. The views handed out by Sub are part of
// the wrapper's surface: the alphabet makes calls through v.Sub(d) (absolute,
// "/../x" and base-namespace operands) and creates symbolic links through the
// view (targets outside B in the base's namespace, inside the view, relative
// and climbing) which are then read and written through the wrapper and
// through the view; same oracle, the reference being the reference's own Sub
// view. Over a MemFS base, B (and the reference's root) holds relative
// symbolic links made through the base: to a file, to a directory, dangling,
// with "..", and the alphabet names them and goes through them. Variant
// systems, reduced (ops.go): <fs>@<class> builds the wrapper with an unclean
// but equivalent spelling of B and must behave as the clean one; MemFS+out-links
// adds base-side links that leave B's namespace (absolute targets, relative
// targets climbing above B); MemFS+ro puts wrapper and reference on a
// read-only view (rofs) of their file systems, so that the base refuses every
// mutating call; MemFS+user makes the calls as a non-administrator user in a
// world with root-owned, unsearchable and unreadable objects, so that the base
// refuses reads and mutations at various depths: every failing path of every
// call must translate its error paths; <fs>+name:<class> gives the base
// directory a name that means something to code that interprets strings - a
// glob pattern ('a*', 'who?', 'pub[1]', 'a\b'), a malformed one ('x[') - with a
// sibling OUTSIDE B whose name that pattern matches ('a*b', 'whom', 'pub1',
// 'ab'), and repeats the text of the base path inside B (/top/b/top/b/f): the
// alphabet is spelled for that world (segment "b" = the base's name, "bb" = the
// sibling's) and everything that takes a pattern or returns paths is judged
// against the twin as elsewhere; MemFS+kept-errors (kept.go) puts wrapper and
// reference on a FailFS whose failure function refuses the calls that name two
// locations of B with error values it KEEPS (one prepared *fs.PathError /
// *os.LinkError per distinct call, the same pointer every time): every call
// that received such a value is made a second time in the same step, and the
// kept values must be unchanged after it. No sampling; no fault injection
// anywhere else.
//
// Oracle on every call:
//  1. everything outside B in the base (node-graph lines of VerifDump + exact
//     mtimes) is unchanged                                -> kind outside-changed
//  2. outcome kind, returned value and the tree below B (prefix stripped, mtime
//     classes) equal the reference's  -> kinds outcome, value, b-tree, panic;
//     a read-only call that answers from outside B        -> kind outside-read
//  3. every returned / error-embedded path string equals the reference's
//     modulo Clean                                        -> kinds value, error-path;
//     it names the base path although no argument and no virtual node does
//     -> kind leak
//     and the base's cwd stays what the reference's is (or, outside B, where
//     a call on the base has put it)                      -> kind cwd
//  4. (kept-errors) the error values the base keeps have the fields they were
//     prepared with                                       -> kind base-error-modified
//
// Not demanded (counted as informational notes in the evidence, never
// reported): calls on which the reference itself panics/deadlocks
// (ref-defect), and - OrefaFS - calls that must address the reference's root
// "/", which OrefaFS cannot, while B in the base is an ordinary directory
// (ref-root-unaddressable).
//
// Alphabet and levels: see ops.go. Files: ops.go (alphabet), exec.go (calls and
// outcome capture), sys.go (system, oracle, signatures), kept.go (the base that
// keeps its error values), bench.go (dev aid).
//
//	./check C10 quick|thorough [-depth n] [-systems MemFS,OrefaFS] [-replay replays/C10-xxxx.json]
package main

import (
	"encoding/json"
	"flag"
	"fmt"
	"os"
	"path/filepath"
	"runtime"
	"sort"
	"strconv"
	"strings"
	"sync"
	"time"

	"github.com/avfs/avfs/verifrt"

	"verif/lib/bfs"
	"verif/lib/ev"
	"verif/lib/kf"
)

func factory(tier string) func(string) bfs.System {
	return func(name string) bfs.System {
		verifrt.SetMode(verifrt.ModeSeq)

		ops := buildOps(tier)

		return newSys(name, ops, opsAtLevel(ops, len(tierSegs(tier))))
	}
}

type noteRec struct {
	Sig     map[string]string `json:"signature"`
	Count   int               `json:"instances"`
	Example any               `json:"example"`
}

func main() {
	id := flag.String("id", "C10", "")
	tier := flag.String("tier", "quick", "")
	depth := flag.Int("depth", 0, "history length bound (default: 2 quick, 3 thorough)")
	systems := flag.String("systems", "MemFS,OrefaFS", "")
	variants := flag.Bool("variants", true, "also explore, for every system, the base-path spellings (<fs>@<class>) and, over MemFS, the links leaving B (MemFS+out-links), the read-only base (MemFS+ro), the non-administrator user (MemFS+user) and the base that keeps its error values (MemFS+kept-errors), and the names of the base directory (<fs>+name:<class>)")
	replay := flag.String("replay", "", "re-execute a replay file and print what happens")

	bench := flag.String("selfbench", "", "development aid: expand the initial state of the named base in-process; -prof writes a CPU profile")
	prof := flag.String("prof", "", "")
	benchHist := flag.String("hist", "", "")

	var wflag string

	flag.StringVar(&wflag, "bfsworker", "", "")
	flag.Parse()

	bfs.MaybeWorker(factory(*tier))

	if *bench != "" {
		selfBench(*bench, *tier, *prof, *benchHist)

		return
	}

	if *replay != "" {
		os.Exit(doReplay(*replay, *tier))
	}

	verifDir := os.Getenv("VERIF_DIR")
	if verifDir == "" {
		verifDir = "."
	}

	rep, err := kf.NewReporter(*id, filepath.Join(verifDir, "known_findings.txt"), filepath.Join(verifDir, "replays"))
	if err != nil {
		fmt.Fprintln(os.Stderr, err)
		os.Exit(2)
	}

	rep.Discover = os.Getenv("VERIF_DISCOVER") != ""

	d := *depth
	if d == 0 {
		d = 2
		if *tier == "thorough" {
			d = 3
		}
	}

	budget := 120
	if *tier == "thorough" {
		budget = 1200
	}

	if b, err := strconv.Atoi(os.Getenv("VERIF_BUDGET_S")); err == nil && b > 0 {
		budget = b
	}

	deadline := time.Now().Add(time.Duration(budget) * time.Second)

	ops := buildOps(*tier)
	perLevel := map[int]int{}

	for _, o := range ops {
		for l := 1; l <= o.MaxLevel && l <= d; l++ {
			perLevel[l]++
		}
	}

	var (
		mu    sync.Mutex
		notes = map[string]*noteRec{}
		all   []bfs.Stats
		wg    sync.WaitGroup
	)

	sysNames := strings.Split(*systems, ",")
	workers := runtime.NumCPU() / len(sysNames)

	if workers < 1 {
		workers = 1
	}

	// The variants are small (one state at the first level, a handful at the
	// next): two workers each, next to the main systems.
	maxDepth := map[string]int{}
	nWorkers := map[string]int{}

	for _, sn := range sysNames {
		maxDepth[sn], nWorkers[sn] = d, workers
	}

	if *variants {
		for _, sn := range strings.Split(*systems, ",") {
			if strings.ContainsAny(sn, "@+") {
				continue
			}

			var vs []string

			for _, sp := range basePathSpellings {
				vs = append(vs, sn+"@"+sp.Class)
			}

			if sn == "MemFS" {
				for _, v := range []string{"+out-links", "+ro", "+user"} {
					vs = append(vs, sn+v)
					maxDepth[sn+v] = 1
				}

				// a base that keeps the error values it returns (kept.go): as deep as
				// the spellings of the base path (Chdir, then the locked names from there)
				vs = append(vs, sn+"+kept-errors")
			}

			// the name of the base directory (ops.go, nameWorlds): over MemFS as
			// deep as the spellings of the base path, over OrefaFS one level less
			for _, w := range nameWorlds {
				v := sn + "+name:" + w.Class
				vs = append(vs, v)

				if sn != "MemFS" {
					maxDepth[v] = d - 1
				}
			}

			for _, v := range vs {
				if maxDepth[v] == 0 {
					maxDepth[v] = d
				}

				nWorkers[v] = 2
				sysNames = append(sysNames, v)
			}
		}
	}

	for _, sn := range sysNames {
		wg.Add(1)

		go func(sn string) {
			defer wg.Done()

			cfg := bfs.Config{
				System: sn, MaxDepth: maxDepth[sn], Deadline: deadline, Workers: nWorkers[sn],
				Report: func(system string, hist []string, op string, v bfs.Viol) {
					var det any

					if v.Detail != "" && json.Unmarshal([]byte(v.Detail), &det) != nil {
						det = v.Detail
					}

					if hist == nil {
						hist = []string{}
					}

					rp := map[string]any{"system": system, "history": hist, "op": op, "result": det}

					if k := v.Sig["kind"]; strings.HasPrefix(k, "note:") {
						mu.Lock()
						defer mu.Unlock()

						ks := kf.Sig(v.Sig).String()
						if n, ok := notes[ks]; ok {
							n.Count++
						} else {
							notes[ks] = &noteRec{Sig: v.Sig, Count: 1, Example: rp}
						}

						return
					}

					rep.Report(kf.Sig(v.Sig), rp)
				},
			}

			st := bfs.Run(cfg, func(i int) string { return ops[i].String() })

			mu.Lock()
			all = append(all, st)
			mu.Unlock()
		}(sn)
	}

	wg.Wait()

	sort.Slice(all, func(i, j int) bool { return all[i].System < all[j].System })

	var (
		states, trans, spelling, violTrans int
		classes                            = map[string]bool{}
		exh                                = true
		depthDone                          = d
		samples                            []any
		harnessErr                         string
	)

	for i := range all {
		st := &all[i]

		if st.HarnessErr != "" {
			harnessErr = st.System + ": " + st.HarnessErr
		}

		states += st.States
		trans += st.Transitions

		for k, c := range st.Outcomes {
			if k == "no-links-in-this-world" {
				// link operands over a base without symbolic links: nothing was executed
				trans -= c
				st.Transitions -= c

				continue
			}

			if strings.HasSuffix(k, "|V") {
				violTrans += c
				k = strings.TrimSuffix(k, "|V")
			}

			if strings.HasSuffix(k, "|spelling-only") {
				spelling += c
				k = strings.TrimSuffix(k, "|spelling-only")
			}

			classes[k] = true
		}

		if !st.Exhaustive {
			exh = false
		}

		if st.DepthDone < depthDone && st.DepthDone < maxDepth[st.System] {
			depthDone = st.DepthDone
		}

		for _, s := range st.Samples {
			samples = append(samples, map[string]any{"system": st.System, "history": s})
		}

		fmt.Printf("C10 %s: alphabet=%d (level1=%d level2=%d level3=%d) states=%d transitions=%d depth_completed=%d/%d exhaustive=%v crashes=%d\n",
			st.System, len(ops), perLevel[1], perLevel[2], perLevel[3], st.States, st.Transitions, st.DepthDone, maxDepth[st.System], st.Exhaustive, st.WorkerCrashes)

		// the per-class outcome table is large: keep only its size in the evidence
		st.Outcomes = map[string]int{"distinct_classes": len(st.Outcomes)}
	}

	if len(samples) == 0 {
		samples = append(samples, "no successor state found")
	}

	// informational classes (not violations)
	noteKeys := make([]string, 0, len(notes))
	for k := range notes {
		noteKeys = append(noteKeys, k)
	}

	sort.Strings(noteKeys)

	noteTotals := map[string]int{}

	var noteList []any

	for _, k := range noteKeys {
		n := notes[k]
		noteTotals[n.Sig["kind"]] += n.Count

		if len(noteList) < 60 {
			noteList = append(noteList, n)
		}

		if rep.Discover {
			fmt.Printf("NOTE property=%s n=%d sig=%s\n", *id, n.Count, k)
		}
	}

	for k, c := range noteTotals {
		fmt.Printf("C10 %s: %d instances in %d classes (not a violation, see evidence)\n", k, c, countKind(notes, k))
	}

	code := rep.Finish()

	if harnessErr != "" {
		fmt.Fprintln(os.Stderr, "harness error:", harnessErr)

		code = 2
	}

	segs := tierSegs(*tier)
	bound := fmt.Sprintf("histories of length <= %d (completed %d); level 1: full alphabet of %d operations = all strings of <= %d segments over %v, abs/rel, as-is/trailing-slash/doubled-slash x %d single-path calls (Chown and Lchown, the following and the not-following form, both with the owner %d:%d that nothing has, on every string incl. those naming the base-side symbolic links; the owner of every node, links included, is part of the compared node graphs) + %d-string core squared x Rename/Link/Symlink + Getwd + %d fixed Glob patterns + %d strings naming the prefix sibling %s of B x the single-path calls + base.Chdir(d) on the base itself, d in %v, each followed by Getwd, Abs(\"f\"), Stat(\"f\") through the wrapper + through the view sv=Sub(d), d in %v: %d operand strings x the single-path calls and %d operand pairs x Rename/Link/Symlink on sv (level 1 only) + sv.Symlink(t,%q) for %d targets t followed either by Lstat, Stat, ReadFile, ReadDir of the link through the wrapper and Stat, ReadFile through sv, or by WriteFile through the wrapper and through sv (all levels); + %d strings and %d pairs naming the base-side symbolic links %v + %d strings through the links of the variant out-links (level 1); level k >= 2: Getwd, the Glob patterns, the base.Chdir operations, the Sub-Symlink operations and the operations whose path operands are relative or contain '..' and have <= %v segments (levels 2..): %d operations at level 2, %d at level 3",
		d, depthDone, perLevel[1], segs[0], segAlphabet, len(singleCalls), ownUID, ownGID, len(pairCore), len(fixedGlobs), len(siblingStrings), siblingPath, baseChdirTargets, subDirs, len(subPaths), len(subPairs), subLinkName, len(subLinkTargets), len(linkStrings), len(linkPairs), baseLinks, len(outLinkStrings), segs[1:], perLevel[2], perLevel[3])

	bound += fmt.Sprintf("; handles that outlive their name: on every string of the single-path calls (not through Sub views) the %d compound calls %v = open a handle on p (read-write, else read-only), then through the same file system Rename(p,%q) | RemoveAll(p) | Rename(p,%q) followed by a new object of the other kind under the name p, then the methods Name, Stat, ReadDir, Readdirnames (each with the count -1, then with the counts %v), Read, ReadAt, Seek, Write, WriteAt, WriteString, Truncate, Sync, Chmod, Chown, Fd, Stat, Chdir (+ Getwd, and ReadDir(\".\") if it succeeded), Close, and on the closed handle Stat, ReadDir and Readdirnames with the counts %v (levels as for the other calls on the string); count arguments: the compound call Open (also through Sub views) calls Readdirnames(-1), then ReadDir and Readdirnames with the counts %v, Read, Close - on whatever the handle is (directory, regular file; closed: the handle calls), the path inside every error compared with the reference's; the mode argument: on the strings of <= %d segments the calls that take a mode with, or'ed into the permission bits of the plain call, the bits (letters of fs.FileMode.String, - = none) %s, OpenChmod = File.Chmod on a handle opened read-only", len(handleCalls), handleCalls, handleFree, handleFree, listCountsArgs, listCountsArgs, listCountsArgs, modeSegs(*tier), modeArgsText(*tier))

	bound += fmt.Sprintf("; variant systems: for every base type the wrapper built with each spelling of B in %v (a relative one from the base's cwd /top) - first level reduced to the %d operations that are not single-path calls on strings of more than 2 segments, next levels only from the states in which the base's cwd has moved to a cleanly spelled directory -, and MemFS+out-links with the links %v in B, first level (same %d operations) only; MemFS+ro: BasePathFS(rofs.New(base)) against rofs.New(reference), the whole first level; MemFS+user: base and reference with an identity manager, calls made by the non-administrator user %q in a world with %s, first level = the same %d operations, which include %d strings and %d pairs naming that world", spellingList(), compactOps(ops), outLinks, compactOps(ops), userName, "w (the user's) holding w/f (the user's) and the root-owned non-empty w/locked, the root-owned 0700 directory p with p/f, the root-owned 0600 file s, everything else root-owned 0755/0644", compactOps(ops), len(userStrings), len(userPairs))

	nameDepth := fmt.Sprintf("over MemFS as deep as the spellings of B (first level, then up to history length %d from the states in which the base's cwd has moved), over OrefaFS one level less (history length <= %d)", d, d-1)

	bound += fmt.Sprintf("; <fs>+name:<class>, %s: B=/top/<name> with the sibling /top/<sibling> (dir k, file f) outside B instead of %s, for (class, name, sibling) in %q, B and the reference's root holding in addition %s/f spelled for that world (the text of the base path once more inside B); first level = the same %d operations with every segment \"b\" of their operands, patterns, Sub directories, link targets and base.Chdir targets replaced by <name> and every segment \"bb\" by <sibling>, which include %d strings x the single-path calls naming the nested copy and patterns over it (%q; executed in these worlds only, skipped and not counted elsewhere)", nameDepth, siblingPath, nameWorlds, nestedDir[1:], compactOps(ops), len(nameStrings), nameStrings)

	bound += fmt.Sprintf("; MemFS+kept-errors, explored like the spellings of B (history length <= %d): BasePathFS(failfs.New(base)) against failfs.New(reference), both with a failure function that refuses the calls %v whose operand (either operand of Rename/Link) names, resolved lexically from the current directory, a location at or below %v of B / of the reference's root, answering each distinct call (function, operands as received) with one prepared *fs.PathError / *os.LinkError value (permission denied, paths as received: below B on the base's side) that it keeps and returns again, the same pointer, whenever that call comes back; first level = the same %d operations without those made through Sub views and Sub itself (skipped, not counted); a call during which the base handed out a kept value is made a second time on both sides within the step (sub-outcomes labelled again)", d, keptFnNames(), keptLocked, compactOps(ops))

	e := ev.Evidence{
		PropertyID: *id, Tier: *tier, Seed: ev.Seed(), Level: "model_checking",
		Coverage: map[string]any{
			"states": states, "transitions": trans, "traces_validated_against_impl": trans,
			"evaluations": trans, "distinct_nontrivial": len(classes),
			"rule":                    "every history of length <= bound over the level alphabets executed on a fresh real BasePathFS(base,/top/b) and, in lock-step, on a standalone reference of the same type (a base.Chdir(d) of the alphabet acts on the base directly; the reference's cwd becomes d minus /top/b when d is in B, else \"/\"; an operation through Sub(d) is made on the wrapper's view and on the reference's view of d); distinct_nontrivial = distinct (call, reference outcome kinds, lexical class of the path operand(s), class of the base's cwd when it is outside B) observed on executed transitions",
			"samples":                 samples,
			"exhaustive":              exh,
			"bound":                   bound,
			"systems":                 all,
			"known_findings_matched":  append([]string{}, rep.KnownMatched()...),
			"violation_instances":     rep.Total,
			"violation_instance_unit": "(expanded state, signature) pairs",
			"violating_transitions":   violTrans,
			"informational": map[string]any{
				"totals":                 noteTotals,
				"classes":                noteList,
				"spelling_only_path_eqs": spelling,
			},
		},
		Assumptions: []string{
			"state identity = injected node-graph dumps (VerifDump) of base and reference + both cwds; mtimes are compared as classes (setup instant / Chtimes instant / other) but are not part of the state key; a step that only changed an mtime class rebuilds the system",
			"states in which the two sides diverged (tree, cwd, outside B changed, panic or decided deadlock) are reported and not expanded",
			"the base's own cwd is moved only by the alphabet's base.Chdir(d) (d existing directories: /top/b/a, /top/b, /top/bb, /top/bb/k, /top, /, /out; no File.Chdir on the base, no unclean spelling of d); the outcome of that call on the base is taken as given (an OrefaFS base refuses \"/\"). While the base's cwd is outside B the expected virtual cwd is \"/\" (the documented behaviour of BasePathFS.curDir) and every call through the wrapper must behave as on the reference with cwd \"/\" and must leave the base's cwd where it is unless it is a successful Chdir; signatures of such steps carry basecwd=prefix-sibling|ancestor|unrelated",
			"returned and error-embedded path strings (Getwd, Abs, Glob, WalkDir, File.Name, Readlink, EvalSymlinks, PathError.Path, LinkError.Old/New) are compared after normalising both sides to the absolute cleaned virtual form (Clean(p) if absolute, else Clean(Join(virtual cwd before the call, p))); a different spelling of the same virtual location is counted as spelling_only_path_eqs, not as a violation; a different location is kind value/error-path, or leak when the wrapper's path carries the base prefix /top/b or /top and the reference's does not",
			"BasePathFS does not advertise FeatSymlink: for Symlink/Readlink/EvalSymlinks over a MemFS base the reference answer is that of a file system without symbolic links (EPERM, arguments as given, no effect)",
			"where the reference itself panics or deadlocks on a call (kind note:ref-defect) or cannot address its root (OrefaFS, kind note:ref-root-unaddressable) nothing is demanded of the outcome; the outside-B snapshot and the leak test still apply",
			"views returned by Sub are obtained and used inside one step (no view survives a step) for d in /a and /; over an OrefaFS base Sub is refused on both sides and nothing follows. A view that does not advertise FeatSymlink is expected to refuse Symlink/Readlink/EvalSymlinks as the wrapper does (EPERM, arguments as given, no effect); otherwise every call through the view, and every later call through the wrapper on what was created through it, must have the outcome and effect of the same call on the reference's Sub view / the reference. A read through the wrapper or a view that returns what the base holds at the place the operand or link target names in the BASE's namespace, outside B (outside the view), is kind outside-read; signatures of these steps have call Sub:<call> or SubLink[W].<sub-call>, path sub:<class> or link:abs|rel,<escape|view-existing|view-missing>, reach inside|above-view|outside-existing|outside-missing",
			"symbolic links exist only over a MemFS base (OrefaFS has none: the operations naming them are skipped there and not counted); they are made through the base (and through the reference, same target strings) at setup, never between calls; the wrapper itself refuses Symlink/Readlink/EvalSymlinks, so link targets are compared through the node graphs, and the targets printed by the dump of a Sub view are left out",
			"variant systems share the reference, hence the verdict, of the main ones; their signatures carry variant=basepath:<class> | out-links | name:<class> (the reference of a name world holds the nested copy too). In the out-links world the reference holds links with the same target strings, which there name its own namespace (absolute) or stop at its root (climbing), as in a chroot: a call through such a link that the base resolves outside B is kind outside-read / outside-changed (reach outside-via-link when the operand's own path stays in B)",
			"failures of the base are produced only by file systems of the library used as they are - the read-only view rofs.New (variant ro: every mutating call refused) and MemFS's own permission checks for a non-administrator user (variant user) -, never by fault injection, with the one exception of the variant kept-errors (next assumption); in both variants the reference is built the same way (rofs.New(standalone), same user in the same world), so outcome kinds, effects and error paths are compared as everywhere else; signatures carry variant=ro|user; an error path that names an entry of the directory the reference's error names is classed entry-of-virtual-path",
			"variant kept-errors (MemFS): the only use of fault injection. The library's FailFS stands between the wrapper and the base, and around the reference, with one failure function per side (same rule, own namespace) that refuses by CALL: the functions listed in the bound whose operand lies at or below the locked locations; nothing else fails. The function works per call, not per node, so the system is restricted to where both sides consult it for the same calls: no locked entry in B's root (RemoveAll of the root is taken apart by the wrapper), no Sub views, and the reference walks with the library's generic walker avfs.WalkDir over its failing Lstat/ReadDir as the wrapper does (FailFS.WalkDir would consult the function for the root only). The error values are prepared once per distinct call and kept by the failure function (the same pointer is returned again): that a file system may keep the error values it returns is assumed to be legitimate for an avfs.VFS (nothing in the interface gives them to the caller); kind base-error-modified = after a step some kept value of the base's side no longer has the fields it was prepared with; such a state is not expanded and the instances are rebuilt (the kept values are hidden state outside the state key); signatures carry variant=kept-errors, the second execution of a call has call=<call>.again[.<sub-call>]",
			"variants name:<class>: the name of the base directory is chosen among names that are legitimate for the file system (Linux type: any byte but '/' and NUL) and mean something as a glob pattern; the operations are those of the alphabet, written for B=/top/b and its sibling /top/bb and spelled for the world by replacing whole segments (\"b\" -> <name>, \"bb\" -> <sibling>), so the virtual namespace also gets entries named like the base directory and patterns made of its name; the reference receives the same spelled strings; signatures are written in the alphabet's spelling (FileInfo.Name of the base directory is reported as name=b) and carry variant=name:<class>, basecwd=pattern-sibling when the base's cwd is in a sibling that is not a prefix sibling; replays name the operation in the alphabet's spelling, the detail gives op_as_spelled",
			"file handles are exercised inside compound operations (Open/OpenFile, methods, Close): no handle survives a step; in the handle calls the name is taken away from the object between the open and the methods, inside the step, by the wrapper's own Rename/RemoveAll (never by a call on the base); the comparison of a handle call stops at the first sub-call whose outcome kind differs (the later methods act on what the former left); the error path of the ReadDir(\".\") that follows a successful File.Chdir is not compared (it is relative to the directory just entered)",
			"mode arguments: the special bits and type bits are or'ed into the permission bits of the plain call; what the base makes of them (MemFS/OrefaFS mask the type bits) is the reference's business - the wrapper must hand the mode on unchanged, which shows in the outcome and in the 12 mode bits of the node-graph dumps compared after every call",
		},
		Violations: rep.NewCount(),
	}

	if code != 2 {
		if err := ev.Write(filepath.Join(verifDir, "evidence", *id+".json"), e); err != nil {
			fmt.Fprintln(os.Stderr, "cannot write evidence:", err)

			code = 2
		}
	}

	fmt.Printf("C10 summary: tier=%s states=%d transitions=%d distinct_classes=%d bound=%d completed=%d exhaustive=%v violating_transitions=%d violation_instances(state,signature)=%d new_signatures=%d wall=%.1fs\n",
		*tier, states, trans, len(classes), d, depthDone, exh, violTrans, rep.Total, rep.NewCount(), ev.Elapsed())

	os.Exit(code)
}

// keptFnNames lists the functions of keptFns by name, sorted.
func keptFnNames() []string {
	var l []string

	for f := range keptFns {
		l = append(l, f.String())
	}

	sort.Strings(l)

	return l
}

func spellingList() []string {
	var l []string

	for _, sp := range basePathSpellings {
		l = append(l, sp.Spelling)
	}

	return l
}

func countKind(notes map[string]*noteRec, kind string) int {
	n := 0

	for _, r := range notes {
		if r.Sig["kind"] == kind {
			n++
		}
	}

	return n
}

// doReplay re-executes the history of a replay file and prints every step.
func doReplay(file, tier string) int {
	b, err := os.ReadFile(file)
	if err != nil {
		fmt.Fprintln(os.Stderr, err)

		return 2
	}

	var rf struct {
		Signature map[string]string `json:"signature"`
		Replay    struct {
			System  string   `json:"system"`
			History []string `json:"history"`
			Op      string   `json:"op"`
		} `json:"replay"`
	}

	if err := json.Unmarshal(b, &rf); err != nil {
		fmt.Fprintln(os.Stderr, err)

		return 2
	}

	verifrt.SetMode(verifrt.ModeSeq)

	// a replay may come from the other tier: take the larger alphabet
	s := newSys(rf.Replay.System, buildOps("thorough"), nil)
	_ = tier

	idx := map[string]int{}
	for i := range s.ops {
		idx[s.ops[i].String()] = i
		s.ops[i].MaxLevel = 99
	}

	if err := s.Reset(); err != nil {
		fmt.Fprintln(os.Stderr, err)

		return 2
	}

	reproduced := false

	for n, os_ := range append(append([]string{}, rf.Replay.History...), rf.Replay.Op) {
		i, ok := idx[os_]
		if !ok {
			fmt.Fprintf(os.Stderr, "operation %s is not in the alphabet\n", os_)

			return 2
		}

		sr := s.Step(i)
		fmt.Printf("step %d: %s -> %s changed=%v broken=%v\n", n+1, os_, sr.Outcome, sr.Changed, sr.Broken)

		for _, v := range sr.Viols {
			fmt.Printf("  %s\n  %s\n", kf.Sig(v.Sig).String(), v.Detail)

			if kf.Sig(v.Sig).String() == kf.Sig(rf.Signature).String() {
				reproduced = true
			}
		}
	}

	fmt.Printf("signature reproduced: %v\n", reproduced)

	if reproduced {
		return 1
	}

	return 0
}
