package main

import (
	"fmt"
	"io/fs"
	"sort"
	"strings"
)

// The alphabet of C10.
//
// Path strings: every sequence of <= maxSeg segments over segAlphabet (plus the
// empty sequence), as absolute and as relative string, in three spellings: as
// is, with a trailing "/", with every separator doubled. Single-path calls on
// every string; two-path calls on pairs of a fixed core; a few Glob patterns;
// Getwd.
//
// One input per shortcut visible in the code. BasePathFS decides "is this path
// below B" on strings (curDir, FromBasePath, ToBasePath): a test written as
// HasPrefix(p, B) instead of p == B || HasPrefix(p, B+"/") is wrong exactly
// for names of which B's name is a strict string prefix. The base therefore
// holds the sibling /top/bb (dir k, file f) of B=/top/b, and the alphabet has
//   - siblingStrings: strings naming "bb" from the virtual namespace (also
//     B's own absolute base path with the sibling's name, "/top/bb/f");
//   - BaseChdir(d): a call made on the BASE file system, not through the
//     wrapper - base.Chdir(d) for d in baseChdirTargets (inside B, B, the
//     prefix sibling and its subdirectory, B's ancestors, an unrelated
//     directory) - followed by the cwd-dependent wrapper calls Getwd,
//     Abs("f"), Stat("f"). The reference follows with its cwd set to the
//     virtual counterpart of d: d minus B if d is in B, else "/" (curDir's
//     documented answer for a base cwd outside B). The states reached (base
//     cwd outside B) are expanded with the whole level >= 2 alphabet like any
//     other.
//
// What Sub hands out is part of the wrapper's surface: calls made THROUGH the
// returned view must be confined to the view's directory, and nothing created
// through it may lead out of B when it is met through the wrapper.
//   - Sub(d)>call(p): sv := v.Sub(d), d in subDirs, then one call of the
//     alphabet on sv with p in subPaths (absolute, "/../x", the base's own
//     absolute paths of objects outside B, a few relative ones) or a pair of
//     subPairs. First call of a history only (the view inherits a copy of the
//     cwd string, which means something else in its namespace).
//   - Sub(d)>Symlink(t,"/b")+...: sv := v.Sub(d), sv.Symlink(t, "/b") with t in
//     subLinkTargets (absolute path of an object outside B in the base's
//     namespace, absolute path existing in the view, relative targets climbing
//     above the view and above B), then the link is met through the WRAPPER
//     (Lstat, Stat, ReadFile, ReadDir of d/b) and through sv (Stat, ReadFile of
//     /b) - operation SubLink -, or written through the wrapper and through sv
//     (WriteFile) - operation SubLinkW. All levels. A view that does not advertise FeatSymlink must refuse the link
//     as the wrapper itself does.
//
// Symbolic links of the base. BasePathFS refuses to create symbolic links, but
// the base tree may hold links made through the base file system. Over a MemFS
// base, B holds (and the reference's root holds, made with the same calls in
// its own namespace) the relative links of baseLinks - to a file, to a
// directory, dangling, and one with ".." that stays in B -, and linkStrings /
// linkPairs name them and go through them: every call must agree with the
// reference (Stat follows, Lstat does not, Open follows, Remove removes the
// link, ReadDir shows the type, WalkDir does not descend, ...). Links that
// leave B's namespace - absolute targets, which the base resolves in ITS
// namespace, and relative targets climbing above B - are the world of a
// separate system (variant out-links, outLinks / outLinkStrings, first call of
// a history only) so that what they break does not hide anything else.
//
// The base path given to the constructor is an input too: the variants
// basepath:<class> build the wrapper with an unclean but equivalent spelling
// of B (basePathSpellings) and explore the first call of every history plus,
// from the states in which the base's cwd has moved, the next level; the
// reference, hence the verdict, is that of the clean spelling.
//
// Every failing path of every call must translate its error paths, and many
// failures arise only when the BASE refuses. Two more variants (MemFS, first
// call of a history only; no fault injection, only file systems of the
// library used as they are):
//   - ro: the wrapper stands on rofs.New(base), the reference is
//     rofs.New(standalone): every mutating call of the whole first-level
//     alphabet is refused by the base on both sides;
//   - user: base and reference have an identity manager and the calls are made
//     by a non-administrator user in a world (userWorld) with root-owned
//     directories and files, an unsearchable directory, an unreadable file,
//     and a directory of the user holding a root-owned non-empty directory:
//     reads, creations, removals and renames are refused at various depths,
//     by the base's own permission checks. userStrings / userPairs name it.
//
// What the base does with the VALUES it returns is an input too: MemFS, OrefaFS
// and RoFS build a fresh error for every failing call, which hides a wrapper
// that translates the error it received in place. The variant kept-errors
// (MemFS; kept.go) stands on a FailFS whose failure function refuses the names
// of keptLocked with error values it keeps and returns again; a call that
// received one is made twice in the step, and the kept values must be
// unchanged. Explored like the spellings of the base path, without the
// operations on Sub views.
//
// The NAME of the base directory is data too. The wrapper splices the base
// path into strings that other code INTERPRETS - a glob pattern handed to the
// base file system, a prefix test, a substitution, a split at separators -,
// and a name that is an ordinary one for the file system may mean something
// there. Lesson: whenever a wrapper builds a string for somebody else out of
// its own configuration, the configuration must be enumerated over the
// characters that somebody else gives a meaning to, together with a neighbour
// that the misread string would name. The systems <fs>+name:<class>
// (nameWorlds) put B at /top/<name> with, next to it and OUTSIDE B, a sibling
// whose name the pattern <name> matches (or, for the plain and the malformed
// one, extends):
//   - star 'a*' / 'a*b', question 'who?' / 'whom', class 'pub[1]' / 'pub1',
//     backslash 'a\b' / 'ab' (an escape in a pattern of the Linux type),
//     open-bracket 'x[' / 'x[b' (a malformed pattern), plain 'b' / 'bb';
//   - in every one of them B holds top/<name>/f: the text of the base path
//     occurs AGAIN inside B (/top/b/top/b/f), so that a substitution or a
//     search for the base path in a path of the base has two places to act on
//     and the virtual namespace legitimately holds a path equal to the base's.
// The alphabet is written once, for 'b' and 'bb', and spelled for the world at
// the moment of the call (spell: the segment "b" becomes <name>, "bb" the
// sibling's name - in operands, patterns, BaseChdir targets, Sub directories
// and link targets alike); signatures keep the alphabet's spelling. nameStrings
// adds what the compact first level lacks: strings of more than 2 segments that
// spell the base path from the virtual root and patterns over them. Everything
// that takes a pattern or returns paths (Glob, WalkDir, ReadDir, EvalSymlinks,
// Abs, Getwd, File.Name, error paths) is judged against the twin as elsewhere.
// Explored like the spellings of the base path (compact first level, then from
// the states in which the base's cwd has moved - also into the sibling that
// the pattern matches), over OrefaFS one level less.
//
// A handle outlives the NAME it was opened by. A wrapper keeps, next to the
// base's handle, the name given to Open, and everything it does by that name
// after the open (looking the object up again, translating an error path) is
// right only as long as the name still leads to the object. Lesson: every
// method of a handle is called also AFTER the name has been taken away from the
// object - renamed, removed, replaced by another object - through the same
// file system; an alphabet that opens a handle and uses it at once never
// separates "the object of the handle" from "the object of the name".
// handleCalls (exec.go, runHandle): the handle is opened (read-write, else
// read-only), then p is renamed to a free name / removed with RemoveAll /
// renamed and replaced by a new object of the other kind, then every method of
// avfs.File is called on the handle - File.Chdir followed by Getwd and a
// relative ReadDir -, and the handle is closed. Applied to every string the
// single-path calls are applied to (not through Sub views, which are the same
// code one level down).
//
// The MODE argument is data that crosses the wrapper too. fs.FileMode carries
// more than the nine permission bits: setuid, setgid, sticky and the type
// bits, and "mode.Perm()" or a mask on the way to the base silently drops
// what the base would have kept or refused. Lesson: every call that takes a
// mode is made also with the special bits and with a type bit foreign to the
// object (as cmd/c05 does for the file systems themselves), by name AND
// through a handle (Chmod / File.Chmod), and the mode read back through the
// node graph (all twelve bits) is part of the state both sides must agree on.
// modeCalls x modeArgs on modeStrings (strings of <= 1 segment, thorough
// <= 2), permission bits of the plain calls.
//
// Levels. The operation list is static and sorted by decreasing MaxLevel, the
// deepest level at which an operation is applied; NumOps of the system (which
// bfs asks after replaying a history) is the length of the prefix that applies
// at the next level:
//
//	level 1 (first call of a history): every operation;
//	level 2: operations all of whose path operands are "reduced" strings -
//	         relative strings (incl. "") and absolute strings with a ".."
//	         element - of <= 2 segments, plus Getwd, BaseChdir and the fixed
//	         Glob patterns;
//	level 3 (thorough): as level 2 but only strings of <= 1 segment.

var segAlphabet = []string{"a", "f", "secret", "top", "b", ".", ".."}

// opT is one operation of the alphabet.
type opT struct {
	Call string `json:"call"`
	A    string `json:"a"`
	B    string `json:"b,omitempty"`
	Two  bool   `json:"two,omitempty"`
	// Mode: bits or'ed into the mode argument of the call (special and type
	// bits; the permission bits are those of the plain call).
	Mode uint32 `json:"mode,omitempty"`
	// Dir: the operation is made through the view returned by Sub(Dir)
	// (Call is then subPrefix + the call made on the view, or SubLink).
	Dir string `json:"dir,omitempty"`
	// MaxLevel is the deepest position in a history (1-based) at which the
	// operation is applied.
	MaxLevel int `json:"max_level"`
	// Long: a single-path call on a string of more than 2 segments (not part
	// of the compact first level of the variant systems).
	Long bool `json:"long,omitempty"`
	// Links: the operands name the symbolic links of the base (nothing to do
	// over a base without symbolic links).
	Links bool `json:"links,omitempty"`
	// User: the operands name the world of the variant user (nothing to do
	// elsewhere).
	User bool `json:"user,omitempty"`
	// Names: the operands name the nested copy of the base path of the
	// variants name:<class> (nothing to do elsewhere).
	Names bool `json:"names,omitempty"`
}

const subPrefix = "Sub:"

func isSubLink(o opT) bool { return o.Call == "SubLink" || o.Call == "SubLinkW" }

// subDirs: directories of B of which a view is taken (a directory below B's
// root, and B's root itself).
var subDirs = []string{"/a", "/"}

// subLinkName is the name, in the view, of the link made by SubLink ("b" is a
// segment of the alphabet: later calls of a history can name it).
const subLinkName = "/b"

// subLinkTargets, see subLinkClass for what each is with respect to a view.
var subLinkTargets = []string{
	"/secret", siblingPath + "/f", siblingPath, unrelated, "/top/secret2", basePath + "/f",
	"/f", "/a/f", "/a", "/nothing",
	"../../../secret", "../../bb/f", "../bb/f", "../../bb", "../f", "f", "a/f",
}

// subPaths are the operands of the calls made on a view.
var subPaths = []string{
	"/", "/..", "/../..", "/f", "/x", "/a", "/../f", "/../x", "/../a", "/a/../../f",
	"/../bb/f", "/../../bb/f", "/../../bb/x", "/../../secret", "/../../../secret", "/../../secret2",
	siblingPath + "/f", siblingPath + "/x", "/secret", basePath + "/f", basePath,
	"..", "../f", "../x", "f", "x", "../../bb/f", "../../../secret",
}

// subPairs are the operands of the two-path calls made on a view.
var subPairs = [][2]string{
	{"/f", "/x"}, {"/f", "/../x"}, {"/../f", "/x"}, {"/f", "/../../bb/x"}, {"/../../bb/f", "/x"},
	{"/f", "/../bb/x"}, {"/../bb/f", "/x"}, {"/f", siblingPath + "/x"}, {siblingPath + "/f", "/x"},
	{"/../../../secret", "/x"}, {"/f", "/../../../secret"}, {"f", "../x"}, {"../f", "x"},
}

func (o opT) String() string {
	if o.Call == "Getwd" {
		return "Getwd()"
	}

	switch o.Call {
	case "SubLink":
		return fmt.Sprintf("Sub(%q)>Symlink(%q,%q)+Lstat+Stat+ReadFile+ReadDir+sv.Stat+sv.ReadFile", o.Dir, o.A, o.B)
	case "SubLinkW":
		return fmt.Sprintf("Sub(%q)>Symlink(%q,%q)+WriteFile+sv.WriteFile", o.Dir, o.A, o.B)
	}

	if o.Dir != "" {
		in := o
		in.Call, in.Dir = strings.TrimPrefix(o.Call, subPrefix), ""

		return fmt.Sprintf("Sub(%q)>%s", o.Dir, in.String())
	}

	if o.Call == "BaseChdir" {
		return fmt.Sprintf("base.Chdir(%q)+Getwd+Abs+Stat", o.A)
	}

	if o.Two {
		return fmt.Sprintf("%s(%q,%q)", o.Call, o.A, o.B)
	}

	if o.Mode != 0 || o.Call == "OpenChmod" {
		return fmt.Sprintf("%s(%q,perm|%s)", o.Call, o.A, modeLetters(o.Mode))
	}

	return fmt.Sprintf("%s(%q)", o.Call, o.A)
}

// modeLetters: the bits of m in the letters of fs.FileMode.String ("ugt", "d",
// "L"; "-" for none).
func modeLetters(m uint32) string {
	if l := strings.TrimRight(fs.FileMode(m).String(), "-"); l != "" {
		return l
	}

	return "-"
}

// singleCalls are applied to every path string. Compound calls (Open*,
// CreateExcl, Chdir) are described in exec.go.
var singleCalls = []string{
	"Stat", "Lstat", "ReadFile", "ReadDir", "Open", "Mkdir", "MkdirAll", "WriteFile", "CreateExcl",
	"Remove", "RemoveAll", "Truncate", "Chmod", "Chtimes", "Chdir", "Readlink", "EvalSymlinks", "Abs",
	"Glob", "WalkDir", "Sub", "OpenWrite", "OpenChdir", "Chown", "Lchown",
}

// ownUID, ownGID: the owner given by Chown and Lchown (round 11), an owner no
// object of any world has. Lesson: every call of the interface that exists in
// a following and a NOT-following form (Stat/Lstat, Chown/Lchown) is in the
// alphabet in BOTH forms, on every operand the other one is applied to - the
// links made through the base among them -, and the attribute it changes
// (owner of the link AND of its target, both lines of the node graph) is part
// of the state compared with the twin: a wrapper that forwards the one form to
// the other of the base is right on every operand that is not a link. Without
// an identity manager MemFS and OrefaFS take any owner as it is given; with
// one (variant user) the non-administrator is refused on both sides.
const (
	ownUID = 41
	ownGID = 42
)

// handleCalls: open a handle on p, take the name p away from the object through
// the same file system, then call every method of the handle (exec.go,
// runHandle).
var handleCalls = []string{"HandleRenamed", "HandleRemoved", "HandleReplaced"}

// pathCalls are applied to every path string of the wrapper's namespace.
var pathCalls = append(append([]string{}, singleCalls...), handleCalls...)

// modeCalls are the calls that take a mode argument (OpenChmod: File.Chmod on a
// handle opened read-only); see run for their permission bits.
var modeCalls = []string{"Chmod", "OpenChmod", "Mkdir", "MkdirAll", "WriteFile", "CreateExcl"}

const specialBits = fs.ModeSetuid | fs.ModeSetgid | fs.ModeSticky

// modeArgs lists the bits or'ed into the mode argument of call. Quick: the three
// special bits at once (a dropped bit is missing afterwards whichever it is) and
// a type foreign to the object the call makes or changes. Thorough: every
// special bit alone as well, both foreign types, every bit outside permissions
// and special bits at once, a type together with the special bits. File.Chmod
// has no plain form in the alphabet: also without any bit.
func modeArgs(call, tier string) []fs.FileMode {
	foreign := fs.ModeDir
	if call == "Mkdir" || call == "MkdirAll" {
		foreign = fs.ModeSymlink
	}

	l := []fs.FileMode{specialBits, foreign}

	if tier == "thorough" {
		l = []fs.FileMode{
			specialBits, fs.ModeSetuid, fs.ModeSetgid, fs.ModeSticky, fs.ModeDir, fs.ModeSymlink,
			fs.ModeType | fs.ModeAppend | fs.ModeExclusive | fs.ModeTemporary, fs.ModeSymlink | specialBits,
		}
	}

	if call == "OpenChmod" {
		l = append([]fs.FileMode{0}, l...)
	}

	return l
}

// modeSegs: the mode arguments are applied to the strings of at most that many
// segments.
func modeSegs(tier string) int {
	if tier == "thorough" {
		return 2
	}

	return 1
}

// modeArgsText describes the mode dimension for the evidence file.
func modeArgsText(tier string) string {
	var parts []string

	for _, c := range modeCalls {
		var ms []string
		for _, m := range modeArgs(c, tier) {
			ms = append(ms, modeLetters(uint32(m)))
		}

		parts = append(parts, c+": "+strings.Join(ms, " "))
	}

	return strings.Join(parts, "; ")
}

var readOnlyCalls = map[string]bool{
	"Stat": true, "Lstat": true, "ReadFile": true, "ReadDir": true, "Open": true, "Readlink": true,
	"EvalSymlinks": true, "Abs": true, "Glob": true, "WalkDir": true, "Sub": true, "Getwd": true,
}

var symlinkCalls = map[string]bool{"Symlink": true, "Readlink": true, "EvalSymlinks": true}

var fixedGlobs = []string{"*", "*/f", "/*", "../*", "l*", "ld/*"}

// baseLinks are the symbolic links made in B through the base (MemFS), and in
// the reference's root: name below B, target.
var baseLinks = [][2]string{{"/lf", "f"}, {"/ld", "a"}, {"/lx", "nothing"}, {"/a/lu", "../f"}}

// linkStrings name the links of baseLinks and go through them.
var linkStrings = []string{
	"lf", "/lf", "lf/", "lf/f", "lf/..", "./lf", "../lf", "/../lf", "a/../lf",
	"ld", "/ld", "ld/", "/ld/", "ld/.", "ld/f", "/ld/f", "ld//f", "ld/..", "/ld/..", "ld/../f", "/ld/../f", "ld/x", "/ld/x", "ld/lu", "/ld/lu",
	"lx", "/lx", "lx/", "lx/f", "/lx/f",
	"a/lu", "/a/lu", "a/lu/",
}

// linkPairs are operands of the two-path calls naming the links.
var linkPairs = [][2]string{
	{"lf", "x"}, {"/lf", "/x"}, {"ld", "x"}, {"lx", "x"}, {"f", "lf"}, {"f", "lx"}, {"a", "ld"}, {"f", "ld"},
	{"ld/f", "x"}, {"f", "ld/x"}, {"lf", "ld/x"}, {"a/lu", "x"},
}

// outLinks are the links of the variant out-links: targets that do not stay
// in B's namespace. The reference holds the same links, made with the same
// strings: there an absolute target names the reference's own namespace and a
// climbing target stops at the root, as in a chroot.
var outLinks = [][2]string{
	{"/la", basePath + "/f"},    // absolute, in the base's namespace, an object of B
	{"/lo", "/secret"},          // absolute, a file outside B
	{"/ldo", siblingPath},       // absolute, a directory outside B
	{"/lup", "../secret2"},      // relative, climbing to a file outside B
	{"/lupd", "../bb"},          // relative, climbing to a directory outside B
	{"/a/lup", "../../secret2"}, // the same from a subdirectory
}

var outLinkStrings = []string{
	"la", "/la", "la/", "lo", "/lo", "lo/", "lo/..", "ldo", "/ldo", "ldo/", "ldo/f", "/ldo/f", "ldo/x", "/ldo/x", "ldo/k", "ldo/..", "ldo/../secret2",
	"lup", "/lup", "lupd", "/lupd", "lupd/f", "/lupd/f", "lupd/x", "lupd/k/x", "a/lup", "/a/lup",
}

// The world of the variant user, below B and below the reference's root,
// made by the administrator: w (of the user) with w/f (of the user) and the
// root-owned non-empty w/locked; p, root-owned and unsearchable (0700), with
// p/f; s, a root-owned unreadable file (0600). Everything else (B itself, a, f,
// a/f) is root-owned 0755/0644.
const (
	userName  = "u"
	userGroup = "ug"
)

var userStrings = []string{
	"w", "/w", "w/", "w/f", "/w/f", "w/x", "/w/x", "w/x/y", "w/locked", "/w/locked", "w/locked/f", "/w/locked/f", "w/locked/x", "/w/locked/x",
	"p", "/p", "p/", "p/f", "/p/f", "p/x", "/p/x", "p/..", "s", "/s", "s/", "s/x", "w/..", "/w/../s", "../w/f", "/../p/f", "w//f", "/w/locked/../f",
}

var userPairs = [][2]string{
	{"w/f", "w/x"}, {"/w/f", "/w/x"}, {"w/f", "x"}, {"f", "w/x"}, {"w/locked", "w/y"}, {"w/locked/f", "w/x"}, {"w/f", "w/locked/x"},
	{"s", "w/s"}, {"p/f", "w/x"}, {"w/f", "p/x"}, {"a", "w/a"}, {"w", "x"}, {"w/f", "/../x"},
}

// basePathSpellings: unclean but equivalent spellings of B given to the
// constructor (Cwd: the base's cwd at that moment, for a relative spelling).
var basePathSpellings = []struct{ Class, Spelling, Cwd string }{
	{"trailing-slash", "/top/b/", ""},
	{"double-slash", "/top//b", ""},
	{"dot", "/top/./b", ""},
	{"dotdot", "/top/b/a/..", ""},
	{"sibling-dotdot", "/top/bb/../b", ""},
	{"relative", "b", "/top"},
	{"relative-dot", "./b/", "/top"},
}

// nameWorld: B is /top/<Base>, its sibling outside B is /top/<Sibling>.
type nameWorld struct{ Class, Base, Sibling string }

// nameWorlds are the worlds of the variants name:<class>: names of the base
// directory that are patterns (and, read as patterns, match the sibling), a
// malformed pattern, and the ordinary name; see the comment at the top.
var nameWorlds = []nameWorld{
	{"plain", defaultName, siblingName},
	{"star", "a*", "a*b"},
	{"question", "who?", "whom"},
	{"class", "pub[1]", "pub1"},
	{"backslash", `a\b`, "ab"},
	{"open-bracket", "x[", "x[b"},
}

// nestedDir is the directory of B (and of the reference's root), in the
// alphabet's spelling, that repeats the text of the base path; it holds a file f.
const nestedDir = basePath

// nameStrings, in the alphabet's spelling: the base path spelled from the
// virtual root (it names the nested copy), from the nested copy once more,
// patterns that reach it, and the same with the sibling's name.
var nameStrings = []string{
	basePath + "/f", "top/b/f", basePath + "/x", basePath + "//f", basePath + "/../b/f", basePath + "/../bb/f",
	basePath + basePath, basePath + basePath + "/f", siblingPath + "/f",
	"/top/*", "/top/*/f", "/*/b", "/*/b/f", "/*/*/f", "top/*", "top/*/f", "*/b/f", "/top/b/*", "/top/bb/*",
}

// pairCore is the core of strings for the two-path calls.
var pairCore = []string{
	"/", "/a", "/f", "/a/f", "/b", "/a/b", "/..", "/../b", "/../secret", "/../../secret", "/../b/f",
	"/top", "/top/b/f", "/a/../f", "/a/", "//f",
	"", ".", "..", "a", "f", "a/f", "b", "a/b", "../b", "../secret", "../../secret", "../b/f", "a/../f", "./f",
}

// siblingName: a directory next to B in the base whose name has B's name as a
// strict string prefix.
const (
	defaultName = "b"
	siblingName = "bb"
	siblingPath = "/top/" + siblingName
	siblingSub  = siblingPath + "/k"
	unrelated   = "/out"
)

// siblingStrings name the sibling as seen from the virtual namespace, and spell
// B's absolute base path followed by the rest of the sibling's name.
var siblingStrings = []string{
	"bb", "/bb", "../bb", "/../bb", "bb/f", "/bb/f", "../bb/f", "/../bb/f", "a/../../bb", "/../bb/..",
	"bb/k", "../bb/k", "b/../bb", siblingPath, siblingPath + "/f", siblingSub, "top/bb", "/../top/bb/f", "../top/bb",
}

// baseChdirTargets are the directories the BASE file system is sent to by
// BaseChdir, one per class of baseCwdClass (and B's two ancestors).
var baseChdirTargets = []string{basePath + "/a", basePath, siblingPath, siblingSub, "/top", "/", unrelated}

// baseCwdClass: where a cleaned directory of the base lies with respect to B.
func baseCwdClass(d string) string {
	switch {
	case d == wBase:
		return "B"
	case strings.HasPrefix(d, wBase+"/"):
		return "in-B"
	case strings.HasPrefix(d, wBase):
		return "prefix-sibling"
	case d == "/" || strings.HasPrefix(wBase, d+"/"):
		return "ancestor"
	case d == wSibling || strings.HasPrefix(d, wSibling+"/"):
		return "pattern-sibling"
	}

	return "unrelated"
}

type pathStr struct {
	S    string
	Segs int
}

// pathStrings enumerates the strings (deduplicated, sorted).
func pathStrings(maxSeg int) []pathStr {
	seen := map[string]int{}

	add := func(s string, n int) {
		if old, ok := seen[s]; !ok || n < old {
			seen[s] = n
		}
	}

	var rec func(segs []string)

	rec = func(segs []string) {
		n := len(segs)
		rel := strings.Join(segs, "/")
		dbl := strings.Join(segs, "//")

		// relative: as is, trailing slash, doubled separators
		add(rel, n)

		if n > 0 {
			add(rel+"/", n)
			add(dbl, n)
		}

		// absolute
		add("/"+rel, n)

		if n > 0 {
			add("/"+rel+"/", n)
		}

		add("//"+dbl, n)

		if n == maxSeg {
			return
		}

		for _, s := range segAlphabet {
			rec(append(append([]string{}, segs...), s))
		}
	}

	rec(nil)

	out := make([]pathStr, 0, len(seen))
	for s, n := range seen {
		out = append(out, pathStr{s, n})
	}

	sort.Slice(out, func(i, j int) bool { return out[i].S < out[j].S })

	return out
}

// reduced reports whether s belongs to the second-level alphabet.
func reduced(s string) bool {
	if !strings.HasPrefix(s, "/") {
		return true
	}

	for _, seg := range strings.Split(s, "/") {
		if seg == ".." {
			return true
		}
	}

	return false
}

func segCount(s string) int {
	n := 0

	for _, seg := range strings.Split(s, "/") {
		if seg != "" {
			n++
		}
	}

	return n
}

// tierSegs gives, per tier, the largest number of segments of the strings
// applied at level 1, 2, 3 (levels >= 2: reduced strings only).
func tierSegs(tier string) []int {
	if tier == "thorough" {
		return []int{4, 2, 1}
	}

	return []int{3, 2}
}

func levelOf(segs []int, strs ...pathStr) int {
	lvl := len(segs)

	for _, p := range strs {
		if !reduced(p.S) {
			return 1
		}

		for lvl > 1 && p.Segs > segs[lvl-1] {
			lvl--
		}
	}

	return lvl
}

// buildOps returns the static operation list of a tier.
func buildOps(tier string) []opT {
	segs := tierSegs(tier)
	maxSeg, maxLevels := segs[0], len(segs)

	var ops []opT

	ops = append(ops, opT{Call: "Getwd", MaxLevel: maxLevels})

	// calls on the base itself, first in the list: the states they reach open
	// the next level
	for _, d := range baseChdirTargets {
		ops = append(ops, opT{Call: "BaseChdir", A: d, MaxLevel: maxLevels})
	}

	for _, g := range fixedGlobs {
		ops = append(ops, opT{Call: "Glob", A: g, MaxLevel: maxLevels})
	}

	for _, p := range pathStrings(maxSeg) {
		lvl := levelOf(segs, p)

		for _, c := range pathCalls {
			if c == "Glob" && isFixedGlob(p.S) {
				continue
			}

			ops = append(ops, opT{Call: c, A: p.S, MaxLevel: lvl, Long: p.Segs > 2})
		}

		// the mode argument with special and type bits
		if p.Segs <= modeSegs(tier) {
			for _, c := range modeCalls {
				for _, m := range modeArgs(c, tier) {
					ops = append(ops, opT{Call: c, A: p.S, Mode: uint32(m), MaxLevel: lvl})
				}
			}
		}
	}

	// strings naming "bb", the sibling /top/bb of B=/top/b in the base (a prefix
	// test on strings confuses the two); levels as for the other strings
	for _, p := range siblingStrings {
		lvl := levelOf(segs, pathStr{p, segCount(p)})

		for _, c := range pathCalls {
			ops = append(ops, opT{Call: c, A: p, MaxLevel: lvl})
		}
	}

	// the symbolic links of the base
	for _, p := range linkStrings {
		lvl := levelOf(segs, pathStr{p, segCount(p)})

		for _, c := range pathCalls {
			ops = append(ops, opT{Call: c, A: p, MaxLevel: lvl, Links: true})
		}
	}

	for _, pr := range linkPairs {
		lvl := levelOf(segs, pathStr{pr[0], segCount(pr[0])}, pathStr{pr[1], segCount(pr[1])})

		for _, c := range []string{"Rename", "Link", "Symlink"} {
			ops = append(ops, opT{Call: c, A: pr[0], B: pr[1], Two: true, MaxLevel: lvl, Links: true})
		}
	}

	for _, p := range outLinkStrings {
		for _, c := range pathCalls {
			ops = append(ops, opT{Call: c, A: p, MaxLevel: 1, Links: true})
		}
	}

	// the world of the variant user
	for _, p := range userStrings {
		for _, c := range pathCalls {
			ops = append(ops, opT{Call: c, A: p, MaxLevel: 1, User: true})
		}
	}

	for _, pr := range userPairs {
		for _, c := range []string{"Rename", "Link", "Symlink"} {
			ops = append(ops, opT{Call: c, A: pr[0], B: pr[1], Two: true, MaxLevel: 1, User: true})
		}
	}

	// the worlds of the variants name:<class>
	for _, p := range nameStrings {
		lvl := levelOf(segs, pathStr{p, segCount(p)})

		for _, c := range pathCalls {
			ops = append(ops, opT{Call: c, A: p, MaxLevel: lvl, Names: true})
		}
	}

	// through the views handed out by Sub
	for _, d := range subDirs {
		for _, t := range subLinkTargets {
			ops = append(ops, opT{Call: "SubLink", Dir: d, A: t, B: subLinkName, MaxLevel: maxLevels},
				opT{Call: "SubLinkW", Dir: d, A: t, B: subLinkName, MaxLevel: maxLevels})
		}

		for _, p := range subPaths {
			for _, c := range singleCalls {
				ops = append(ops, opT{Call: subPrefix + c, Dir: d, A: p, MaxLevel: 1})
			}
		}

		for _, pr := range subPairs {
			for _, c := range []string{"Rename", "Link", "Symlink"} {
				ops = append(ops, opT{Call: subPrefix + c, Dir: d, A: pr[0], B: pr[1], Two: true, MaxLevel: 1})
			}
		}
	}

	for _, a := range pairCore {
		for _, b := range pairCore {
			lvl := levelOf(segs, pathStr{a, segCount(a)}, pathStr{b, segCount(b)})

			for _, c := range []string{"Rename", "Link", "Symlink"} {
				ops = append(ops, opT{Call: c, A: a, B: b, Two: true, MaxLevel: lvl})
			}
		}
	}

	// by decreasing MaxLevel; among the operations of the first level only, the
	// long ones last (the variant systems stop before them)
	sort.SliceStable(ops, func(i, j int) bool {
		if ops[i].MaxLevel != ops[j].MaxLevel {
			return ops[i].MaxLevel > ops[j].MaxLevel
		}

		return ops[i].MaxLevel == 1 && !ops[i].Long && ops[j].Long
	})

	return ops
}

// opsAtLevel returns how many operations (a prefix of the sorted list) apply at
// each level 1..n.
func opsAtLevel(ops []opT, levels int) []int {
	n := make([]int, levels+2)

	for _, o := range ops {
		for l := 1; l <= o.MaxLevel && l <= levels; l++ {
			n[l]++
		}
	}

	return n
}

// compactOps is the number of operations (a prefix of the sorted list) of the
// compact first level: all but the long ones that apply at level 1 only.
func compactOps(ops []opT) int {
	n := 0

	for _, o := range ops {
		if o.MaxLevel > 1 || !o.Long {
			n++
		}
	}

	return n
}

func isFixedGlob(s string) bool {
	for _, g := range fixedGlobs {
		if g == s {
			return true
		}
	}

	return false
}
