// c01: emulated namespace operations behave as on the real Linux file system.
// Engine A (bfs) over histories of namespace calls; oracle = the Linux kernel
// through osfs.OsFS on a tmpfs scratch directory: same outcome call by call,
// identical trees (Lstat/ReadDir/ReadFile/Readlink walk) after every call.
package main

import (
	"flag"
	"fmt"
	"io/fs"
	"os"
	"path/filepath"
	"strconv"
	"strings"
	"syscall"
	"time"

	"github.com/avfs/avfs"
	"github.com/avfs/avfs/idm/osidm"
	"github.com/avfs/avfs/verifrt"
	"github.com/avfs/avfs/vfs/memfs"
	"github.com/avfs/avfs/vfs/orefafs"
	"github.com/avfs/avfs/vfs/osfs"

	"verif/lib/bfs"
	"verif/lib/ev"
	"verif/lib/fsx"
	"verif/lib/kf"
)

type sys struct {
	name  string
	tree  bool // start from a non-initial state: R/a/{a (file, second name R/ab)}
	R     string
	k     *osfs.OsFS
	v     avfs.VFS
	ops   []fsx.Call
	rnd   int
	kdump []string
	diff  map[string]bool // attribute differences present in the current state
	key   string
}

func (s *sys) NumOps() int           { return len(s.ops) }
func (s *sys) OpString(i int) string { return strings.ReplaceAll(s.ops[i].String(), s.R, "R") }
func (s *sys) Key() string           { return s.key }

func (s *sys) Close() {
	_ = os.Chdir("/")
	_ = os.RemoveAll(filepath.Dir(s.R))
}

func (s *sys) Reset() error {
	s.rnd = 0
	verifrt.SetRandom(func() string { s.rnd++; return strconv.Itoa(s.rnd) })

	_ = os.Chdir("/")

	// everything the history may have touched lives under the parent of R
	// (symlink targets such as "../a" escape R by one level)
	if err := os.RemoveAll(filepath.Dir(s.R)); err != nil {
		return err
	}

	if err := os.MkdirAll(s.R, 0o755); err != nil {
		return err
	}

	if s.k == nil {
		s.k = osfs.NewWithOptions(&osfs.Options{Idm: osidm.New()})
	}

	dirs := []avfs.DirInfo{{Path: "/tmp", Perm: 0o777}}

	switch s.name {
	case "MemFS":
		s.v = memfs.NewWithOptions(&memfs.Options{OSType: avfs.OsLinux, SystemDirs: dirs})
	case "OrefaFS":
		s.v = orefafs.NewWithOptions(&orefafs.Options{OSType: avfs.OsLinux, SystemDirs: dirs})
	}

	_ = s.v.SetUMask(0o022)

	if err := s.v.MkdirAll(s.R, 0o755); err != nil {
		return fmt.Errorf("avfs MkdirAll(R): %v", err)
	}
	// ancestors of R are 0755 root:root on both sides already

	if err := s.k.Chdir(s.R); err != nil {
		return err
	}

	if err := s.v.Chdir(s.R); err != nil {
		return fmt.Errorf("avfs Chdir(R): %v", err)
	}

	if s.tree {
		for _, c := range []fsx.Call{
			{Op: "Mkdir", A: s.R + "/a", Perm: 0o755},
			{Op: "WriteFile", A: s.R + "/a/a", Data: "hello", Perm: 0o644},
			{Op: "Link", A: s.R + "/a/a", B: s.R + "/ab"},
		} {
			if r := fsx.Do(s.k, c); r.Kind != "ok" {
				return fmt.Errorf("kernel setup %s: %s", c, r)
			}

			if r := fsx.Do(s.v, c); r.Kind != "ok" {
				return fmt.Errorf("avfs setup %s: %s %s", c, r, r.Msg)
			}
		}
	}

	kd, vd, cwdK, cwdV := s.observe()
	s.diff = map[string]bool{}

	diffs, _ := treeDiff(kd, vd, nil, s.R)
	if cwdK != cwdV {
		diffs = append(diffs, "cwd")
	}

	if len(diffs) > 0 {
		return fmt.Errorf("initial states differ: %v", diffs)
	}

	return nil
}

var dumpOpts = fsx.DumpOpts{}

const cwdGone = "<current directory removed>"

// observe dumps both sides, records the current attribute differences and the
// state key (kernel side).
func (s *sys) observe() (kd, vd []string, cwdK, cwdV string) {
	o := dumpOpts
	// OrefaFS does not advertise an identity manager: owners are outside
	// "the features it advertises" and are not compared.
	o.NoOwner = s.name == "OrefaFS"
	base := filepath.Dir(s.R)
	o.StripPfx = base + "/"

	kd = fsx.Dump(s.k, base, o)

	k, msg := fsx.Guard(func() { vd = fsx.Dump(s.v, base, o) })
	if k != "" {
		vd = []string{"!dump " + k + " " + msg}
	}

	cwdV, _ = s.v.Getwd()

	var err error
	if cwdK, err = s.k.Getwd(); err != nil {
		// the current directory was removed: getcwd(2) fails, the emulation keeps
		// the stale string. Not comparable; such states are not expanded.
		cwdK = cwdGone
	}

	s.kdump = kd
	// the scratch directory carries the worker's pid: it must not reach the key,
	// or states found by different workers are never recognised as equal
	s.key = strings.ReplaceAll(strings.Join(kd, "\n")+"\ncwd="+cwdK, base, "B")

	return
}

type lineInfo struct {
	typ, perm, owner, size, nlink, class, rest string
}

func parseLine(l string) (path string, li lineInfo, ok bool) {
	f := strings.Fields(l)
	if len(f) < 2 {
		return "", li, false
	}

	path = f[0]

	if strings.HasPrefix(f[1], "!") {
		li.typ = f[1]

		return path, li, true
	}

	li.typ = f[1]

	if len(f) > 2 {
		li.perm = f[2]
	}

	if len(f) > 3 {
		li.owner = f[3]
	}

	for i := 4; i < len(f); i++ {
		switch {
		case strings.HasPrefix(f[i], "sz"):
			li.size = f[i]
		case len(f[i]) > 1 && f[i][0] == 'n' && f[i][1] >= '0' && f[i][1] <= '9':
			li.nlink = f[i]
		case strings.HasPrefix(f[i], "#"):
			li.class = f[i]
		default:
			li.rest = strings.Join(f[i:], " ")
			i = len(f)
		}
	}

	return path, li, true
}

// treeDiff classifies the differences between the kernel dump and the avfs
// dump: a set of "path-class:attribute" strings; structural reports whether
// names, types, contents or link targets differ.
func treeDiff(kd, vd []string, ti *fsx.TreeIndex, root string) (diffs []string, structural bool) {
	km := map[string]lineInfo{}
	vm := map[string]lineInfo{}

	var extra []string

	for _, l := range kd {
		if p, li, ok := parseLine(l); ok {
			if strings.HasPrefix(li.typ, "!") {
				extra = append(extra, "kernel-side "+li.typ)

				continue
			}

			km[p] = li
		}
	}

	for _, l := range vd {
		if p, li, ok := parseLine(l); ok {
			if strings.HasPrefix(li.typ, "!") {
				diffs = append(diffs, "avfs-dump:"+li.typ)
				structural = true

				continue
			}

			vm[p] = li
		}
	}

	_ = extra

	for p, k := range km {
		v, ok := vm[p]
		if !ok {
			diffs = append(diffs, "missing-in-avfs:"+k.typ)
			structural = true

			continue
		}

		t := k.typ

		switch {
		case k.typ != v.typ:
			diffs = append(diffs, fmt.Sprintf("type:%s!=%s", k.typ, v.typ))
			structural = true

			continue
		case k.rest != v.rest:
			diffs = append(diffs, t+":content-or-target")
			structural = true
		}

		if k.perm != v.perm {
			diffs = append(diffs, fmt.Sprintf("%s:perm:%s!=%s", t, k.perm, v.perm))
		}

		if k.owner != v.owner {
			diffs = append(diffs, fmt.Sprintf("%s:owner:%s!=%s", t, k.owner, v.owner))
		}

		if k.size != v.size {
			if t == "l" {
				diffs = append(diffs, "l:size")
			} else {
				diffs = append(diffs, fmt.Sprintf("%s:size:%s!=%s", t, k.size, v.size))
				structural = true
			}
		}

		if k.nlink != v.nlink {
			diffs = append(diffs, fmt.Sprintf("%s:nlink:%s!=%s", t, k.nlink, v.nlink))
		}

		if k.class != v.class {
			diffs = append(diffs, t+":hardlink-class")
			structural = true
		}
	}

	for p, v := range vm {
		if _, ok := km[p]; !ok {
			diffs = append(diffs, "extra-in-avfs:"+v.typ)
			structural = true
		}
	}

	return dedup(diffs), structural
}

func dedup(a []string) []string {
	m := map[string]bool{}

	var out []string

	for _, x := range a {
		if !m[x] {
			m[x] = true
			out = append(out, x)
		}
	}

	return out
}

func (s *sys) abs(p string, cwd string) string {
	if p == "" {
		return ""
	}

	if !strings.HasPrefix(p, "/") {
		p = cwd + "/" + p
	}

	return filepath.Clean(p)
}

func (s *sys) sameFile(a, b string) bool {
	fa, err1 := os.Lstat(a)
	fb, err2 := os.Lstat(b)

	return err1 == nil && err2 == nil && os.SameFile(fa, fb)
}

func (s *sys) operands(c fsx.Call, ti *fsx.TreeIndex, cwd string) string {
	cl := func(p string) string {
		r := ti.Class(s.abs(p, cwd))
		if r == "missing(parent missing)" {
			// more than one element is missing: what the nearest existing ancestor
			// is decides what the kernel answers, so it names the class
			// (as Class does for a path one element below a file or a link)
			switch anc, t, _ := nearest(ti, s.abs(p, cwd)); t {
			case "f":
				r = "below-file"
			case "l":
				r = "below-" + ti.Class(anc)
			}
		}

		if p != "" && !strings.HasPrefix(p, "/") {
			r = "rel:" + r
		}

		return r
	}

	switch c.Op {
	case "Rename", "Link":
		return cl(c.A) + "," + cl(c.B) + "," + ti.Relation(s.abs(c.A, cwd), s.abs(c.B, cwd), s.sameFile)
	case "Symlink":
		return "target=" + targetClass(c.A, s.R) + "," + cl(c.B)
	case "CreateTemp", "MkdirTemp":
		return cl(c.A)
	}

	return cl(c.A)
}

// nearest returns the nearest ancestor of p (lexically) that exists in the
// kernel tree, its type and the number of elements of p below it.
func nearest(ti *fsx.TreeIndex, p string) (anc, typ string, tail int) {
	for anc = p; anc != "/" && anc != "." && anc != ""; tail++ {
		if t, ok := ti.Typ[anc]; ok {
			return anc, t, tail
		}

		anc = filepath.Dir(anc)
	}

	return anc, "", tail
}

// shallower cuts p to two elements below its nearest existing ancestor; ok is
// false unless p is deeper than that and the ancestor is a directory or a file.
func shallower(ti *fsx.TreeIndex, p string) (q string, ok bool) {
	anc, typ, tail := nearest(ti, p)
	// (below a link the elements are missing in the spelling only)
	if (typ != "d" && typ != "f") || tail < 3 {
		return p, false
	}

	el := strings.Split(strings.TrimPrefix(p, anc+"/"), "/")

	return anc + "/" + el[0] + "/" + el[1], true
}

func targetClass(t, root string) string {
	switch {
	case strings.HasPrefix(t, root):
		return "abs"
	case strings.HasPrefix(t, "/"):
		return "abs-outside"
	case strings.HasPrefix(t, ".."):
		return "dotdot"
	case t == ".":
		return "dot"
	}

	return "rel"
}

func variant(c fsx.Call) string {
	switch c.Op {
	case "OpenFile":
		return fsx.FlagString(c.Flag)
	case "Truncate":
		switch {
		case c.N < 0:
			return "neg"
		case c.N == 0:
			return "zero"
		}

		return "pos"
	case "Chmod", "Mkdir", "MkdirAll":
		if c.Mode != 0 { // type bits in the mode argument, in the letters of fs.FileMode.String
			return fmt.Sprintf("%s|%#o", strings.TrimRight(fs.FileMode(c.Mode).String(), "-"), c.Perm)
		}

		return fmt.Sprintf("%#o", c.Perm)
	case "WriteFile":
		if c.Mode != 0 {
			return fmt.Sprintf("%s|%#o", strings.TrimRight(fs.FileMode(c.Mode).String(), "-"), c.Perm)
		}
	case "Chown", "Lchown":
		return fmt.Sprintf("%d:%d", c.N, c.M)
	}

	return ""
}

var valueOps = map[string]bool{
	"Stat": true, "Lstat": true, "ReadDir": true, "ReadFile": true, "Readlink": true, "EvalSymlinks": true, "Getwd": true,
}

func (s *sys) Step(op int) bfs.StepResult {
	c := s.ops[op]
	cwdBefore, _ := s.k.Getwd()
	ti := fsx.IndexDump(s.kdump, filepath.Dir(s.R))
	ti.Root = s.R
	keyBefore := s.key
	diffBefore := s.diff

	rk := fsx.Do(s.k, c)
	rv := fsx.Do(s.v, c)

	if s.name == "OrefaFS" && (c.Op == "Stat" || c.Op == "Lstat") {
		rk.Val, rv.Val = maskOwner(rk.Val), maskOwner(rv.Val)
	}

	var viols []bfs.Viol

	base := map[string]string{
		"fs": s.name, "call": c.Op, "variant": variant(c), "operands": s.operands(c, ti, cwdBefore),
		"kernel": rk.Kind, "avfs": rv.Kind,
	}

	sig := func(extra ...string) map[string]string {
		m := map[string]string{}
		for k, v := range base {
			m[k] = v
		}

		for i := 0; i+1 < len(extra); i += 2 {
			m[extra[i]] = extra[i+1]
		}

		return m
	}

	detail := fmt.Sprintf("kernel: %s %s | avfs: %s %s", rk, rk.Msg, rv, strings.ReplaceAll(rv.Msg, s.R, "R"))

	if rk.Kind != rv.Kind {
		viols = append(viols, bfs.Viol{Sig: sig("kind", "outcome"), Detail: detail})
	} else if rk.Kind == "ok" {
		switch {
		case c.Op == "CreateTemp" || c.Op == "MkdirTemp":
			// same directory, same prefix; bring the kernel side to the avfs name
			// ... and the same fixed parts around the random one: the LAST '*' of
			// the pattern is replaced (digits masked on both sides)
			if filepath.Dir(rk.Val) != filepath.Dir(rv.Val) || maskDigits(filepath.Base(rk.Val)) != maskDigits(filepath.Base(rv.Val)) {
				viols = append(viols, bfs.Viol{Sig: sig("kind", "value", "what", "temp-name-shape"), Detail: detail})

				if filepath.Dir(rk.Val) == filepath.Dir(rv.Val) {
					_ = os.Rename(rk.Val, rv.Val)
				}
			} else if rk.Val != rv.Val {
				_ = os.Rename(rk.Val, rv.Val)
			}
		case valueOps[c.Op] && rk.Val != rv.Val:
			viols = append(viols, bfs.Viol{Sig: sig("kind", "value", "what", valueDiff(c.Op, rk.Val, rv.Val)), Detail: detail})
		}
	}

	kd, vd, cwdK, cwdV := s.observe()

	diffs, structural := treeDiff(kd, vd, ti, s.R)
	if cwdK == cwdGone {
		structural = true
	} else if cwdK != cwdV {
		diffs = append(diffs, "cwd")
		structural = true
	}

	nd := map[string]bool{}
	for _, d := range diffs {
		nd[d] = true

		if !diffBefore[d] {
			viols = append(viols, bfs.Viol{Sig: sig("kind", "tree", "attr", d), Detail: detail + " || tree diff: " + strings.ReplaceAll(fsx.DiffLines(kd, vd), s.R, "R")})
		}
	}

	s.diff = nd

	// Depth invariance (an oracle that needs no kernel). When two or more
	// elements of a path are missing below its nearest existing ancestor, no
	// call can succeed and what it answers depends on that ancestor alone: a
	// third, fourth ... missing element changes nothing. So a refused call on
	// such a path is repeated, on the emulation only, with the path cut to two
	// missing elements, and must be refused in the same way. This judges the
	// emulation against itself and so also where a listed finding accepts its
	// answer as it is (OrefaFS answers ENOENT below a file for most calls: a
	// call that tells the two apart must do so at every depth).
	if rk.Kind != "ok" && rv.Kind != "ok" && s.key == keyBefore && !structural {
		c2, cut := c, false

		if q, ok := shallower(ti, s.abs(c.A, cwdBefore)); ok && c.Op != "Symlink" {
			c2.A, cut = q, true
		}

		if q, ok := shallower(ti, s.abs(c.B, cwdBefore)); ok && (c.Op == "Rename" || c.Op == "Link" || c.Op == "Symlink") {
			c2.B, cut = q, true
		}

		if cut {
			if r2 := fsx.Do(s.v, c2); r2.Kind != rv.Kind {
				viols = append(viols, bfs.Viol{
					Sig:    sig("kind", "depth", "avfs-shallow", r2.Kind),
					Detail: detail + " || same call on the emulation with the missing tail cut to two elements, " + strings.ReplaceAll(c2.String(), s.R, "R") + ": " + r2.Kind,
				})
			}
		}
	}

	poisoned := rv.Kind == "PANIC" || rv.Kind == "DEADLOCK"

	return bfs.StepResult{
		Changed: s.key != keyBefore, Key: s.key, Broken: structural || poisoned, Rebuild: poisoned || (structural && s.key == keyBefore),
		Outcome: c.Op + "/" + rk.Kind, Viols: viols,
	}
}

// maskDigits replaces every maximal run of digits by '#' (the random part of a
// temporary name is decimal on both sides).
func maskDigits(s string) string {
	var b strings.Builder

	run := false

	// byte by byte: a name is bytes, and one that is not UTF-8 must not be
	// "repaired" on the way to the comparison
	for i := 0; i < len(s); i++ {
		if s[i] >= '0' && s[i] <= '9' {
			if !run {
				b.WriteByte('#')
			}

			run = true

			continue
		}

		run = false

		b.WriteByte(s[i])
	}

	return b.String()
}

func valueDiff(op, k, v string) string {
	if op != "Stat" && op != "Lstat" {
		return "differs"
	}

	kf, vf := strings.Fields(k), strings.Fields(v)
	if len(kf) != len(vf) {
		return "shape"
	}

	names := []string{"name", "type", "perm", "owner", "size", "nlink"}

	var d []string

	for i := range kf {
		if kf[i] != vf[i] && i < len(names) {
			d = append(d, names[i])
		}
	}

	return strings.Join(d, "+")
}

func buildOps(fsName, R, tier string) []fsx.Call {
	// one name is a strict prefix of the other: path code that compares string
	// prefixes must not take "R/a" for an ancestor of "R/ab"
	names := []string{"a", "ab"}
	if tier == "thorough" {
		names = []string{"a", "ab", "c"}
	}

	var paths []string

	for _, x := range names {
		paths = append(paths, R+"/"+x)
	}

	for _, x := range names {
		for _, y := range names {
			paths = append(paths, R+"/"+x+"/"+y)
		}
	}

	withRoot := append([]string{R}, paths...)
	// relative spellings (cwd is R unless a Chdir op moved it)
	rel := []string{"a", "a/ab"}

	flags := []int{
		os.O_RDONLY, os.O_WRONLY, os.O_RDWR, os.O_RDWR | os.O_CREATE, os.O_WRONLY | os.O_CREATE | os.O_EXCL,
		os.O_RDWR | os.O_CREATE | os.O_TRUNC, os.O_WRONLY | os.O_TRUNC, os.O_RDONLY | os.O_CREATE,
		os.O_WRONLY | os.O_APPEND, os.O_RDONLY | os.O_TRUNC, os.O_RDONLY | os.O_CREATE | os.O_EXCL, os.O_RDWR | os.O_APPEND | os.O_CREATE,
		os.O_RDWR | os.O_CREATE | os.O_EXCL | os.O_TRUNC, // refused on an existing name: nothing may have been truncated
	}

	if tier == "thorough" {
		flags = nil

		for _, acc := range []int{os.O_RDONLY, os.O_WRONLY, os.O_RDWR} {
			for m := 0; m < 16; m++ {
				f := acc
				if m&1 != 0 {
					f |= os.O_APPEND
				}

				if m&2 != 0 {
					f |= os.O_TRUNC
				}

				if m&4 != 0 {
					f |= os.O_CREATE
				}

				if m&8 != 0 {
					f |= os.O_EXCL
				}

				flags = append(flags, f)
			}
		}
	}

	var ops []fsx.Call

	single := func(p string) {
		ops = append(ops,
			fsx.Call{Op: "Mkdir", A: p, Perm: 0o755},
			fsx.Call{Op: "MkdirAll", A: p, Perm: 0o750},
			// no write/search bit for the owner: every level must get exactly these bits
			fsx.Call{Op: "MkdirAll", A: p, Perm: 0o500},
			fsx.Call{Op: "Remove", A: p},
			fsx.Call{Op: "RemoveAll", A: p},
			fsx.Call{Op: "Create", A: p},
			fsx.Call{Op: "WriteFile", A: p, Data: "hello", Perm: 0o644},
			fsx.Call{Op: "Truncate", A: p, N: 0},
			fsx.Call{Op: "Truncate", A: p, N: 3},
			fsx.Call{Op: "Truncate", A: p, N: 7},
			fsx.Call{Op: "Truncate", A: p, N: -1},
			fsx.Call{Op: "Chmod", A: p, Perm: 0o600},
			// a mode argument is ANY fs.FileMode, e.g. one copied from Stat of
			// another node: os.Chmod, os.Mkdir and os.WriteFile use its permission
			// and special bits only. Each call gets a type bit foreign to the node
			// it acts on or makes (same permission bits as the plain call, so the
			// kernel reaches no further state).
			fsx.Call{Op: "Chmod", A: p, Perm: 0o600, Mode: uint32(fs.ModeDir)},
			// A mode is twelve bits, and "nothing to do" is a statement about all of
			// them: code that compares the rwx bits of the node with those of the
			// argument (Mode().Perm()) to skip or to shortcut the change sees no
			// difference between 0600 and 05600. So the alphabet holds a pair of
			// modes that differ ONLY in the special bits, reachable in both orders
			// (0600 -> 05600 sets them, 05600 -> 0600 clears them; the same mode
			// twice is the equal case), by path and through a handle (File.Chmod is
			// other code than Chmod): the bits of the node after the call are
			// compared with the kernel's as everywhere. setuid and sticky only:
			// setgid on a directory changes what later calls create below it.
			// (05600 took the place of 01777 in the quick tier - a change of the
			// rwx bits together with special ones is 0644 -> 05600 - so that the
			// number of modes a node can have, and with it the number of states,
			// stayed what it was.)
			fsx.Call{Op: "Chmod", A: p, Perm: specialOnly},
			fsx.Call{Op: "FChmod", A: p, Perm: 0o600},
			fsx.Call{Op: "FChmod", A: p, Perm: specialOnly},
			fsx.Call{Op: "Mkdir", A: p, Perm: 0o755, Mode: uint32(fs.ModeSymlink)},
			fsx.Call{Op: "WriteFile", A: p, Data: "hello", Perm: 0o644, Mode: uint32(fs.ModeDir)},
		)

		if tier == "thorough" {
			ops = append(ops,
				fsx.Call{Op: "Chmod", A: p, Perm: 0o600, Mode: uint32(fs.ModeSymlink)},
				fsx.Call{Op: "Chmod", A: p, Perm: 0o600, Mode: uint32(fs.ModeType | fs.ModeAppend | fs.ModeExclusive | fs.ModeTemporary)},
				// the other pair that differs in a special bit only: 01777 <-> 0777
				fsx.Call{Op: "Chmod", A: p, Perm: 0o1777},
				fsx.Call{Op: "Chmod", A: p, Perm: 0o777},
				fsx.Call{Op: "FChmod", A: p, Perm: 0o1777},
				fsx.Call{Op: "MkdirAll", A: p, Perm: 0o750, Mode: uint32(fs.ModeNamedPipe)},
			)
		}

		if fsName == "MemFS" {
			ops = append(ops, fsx.Call{Op: "Chown", A: p, N: 1001, M: 1002})
		}

		ops = append(ops,
			fsx.Call{Op: "Chtimes", A: p, N: 7},
			fsx.Call{Op: "Chdir", A: p},
			fsx.Call{Op: "Stat", A: p},
			fsx.Call{Op: "Lstat", A: p},
			fsx.Call{Op: "Open", A: p},
			fsx.Call{Op: "ReadDir", A: p},
			fsx.Call{Op: "ReadFile", A: p},
			fsx.Call{Op: "CreateTemp", A: p, B: "t*"},
			fsx.Call{Op: "MkdirTemp", A: p, B: "t*"},
			// several wildcards: only the last one stands for the random part
			fsx.Call{Op: "CreateTemp", A: p, B: "t*u*v"},
			// ... and the fixed part is not ASCII (see notASCII): the name that is
			// made, listed, walked and removed holds a multi-byte character and a
			// byte that is no UTF-8 at all
			fsx.Call{Op: "MkdirTemp", A: p, B: "*" + notASCIIName + "*"},
		)

		if fsName == "MemFS" {
			ops = append(ops, fsx.Call{Op: "Readlink", A: p}, fsx.Call{Op: "EvalSymlinks", A: p}, fsx.Call{Op: "Lchown", A: p, N: 1003, M: 1003})
		}

		for _, f := range flags {
			ops = append(ops, fsx.Call{Op: "OpenFile", A: p, Flag: f, Perm: 0o640})
		}
	}

	for _, p := range withRoot {
		single(p)
	}

	for _, p := range rel {
		single(p)
	}

	// Deep tails. A call on a path whose directory is missing must still tell
	// "a directory is missing" (ENOENT) from "something on the way is no
	// directory" (ENOTDIR), and what decides is the NEAREST EXISTING ancestor,
	// however far up it is: code that looks at the parent, or at the parent and
	// the grandparent, instead of walking up (or down) is right on every path of
	// the alphabet above, where at most one element is missing below any node
	// that can exist. So a few paths run 2, 3 and 4 elements below each depth at
	// which the histories can put a file, a link or nothing, and the calls that
	// resolve a path get them - one of each family (Open, Create, ReadFile and
	// CreateTemp go through OpenFile, Readlink and Lchown walk as Lstat and
	// Chown do) and one variant of each: the variants differ in what happens
	// at the END of the path, which is not reached here unless
	// a call of the alphabet built the whole chain: MkdirAll does, in the
	// thorough tier; in the quick tier the chains never exist - each one that
	// can multiplies the states - and MkdirAll is not among the calls).
	for _, p := range deepPaths(R, tier) {
		if tier == "thorough" {
			ops = append(ops, fsx.Call{Op: "MkdirAll", A: p, Perm: 0o750})
		}

		ops = append(ops,
			fsx.Call{Op: "Mkdir", A: p, Perm: 0o755},
			fsx.Call{Op: "Remove", A: p},
			fsx.Call{Op: "RemoveAll", A: p},
			fsx.Call{Op: "WriteFile", A: p, Data: "hello", Perm: 0o644},
			fsx.Call{Op: "Truncate", A: p, N: 0},
			fsx.Call{Op: "Chmod", A: p, Perm: 0o600},
			fsx.Call{Op: "Chtimes", A: p, N: 7},
			fsx.Call{Op: "Chdir", A: p},
			fsx.Call{Op: "Stat", A: p},
			fsx.Call{Op: "Lstat", A: p},
			fsx.Call{Op: "ReadDir", A: p},
			fsx.Call{Op: "MkdirTemp", A: p, B: "t*"},
			fsx.Call{Op: "OpenFile", A: p, Flag: os.O_RDWR | os.O_CREATE, Perm: 0o640},
			fsx.Call{Op: "Rename", A: p, B: R + "/ab"},
			fsx.Call{Op: "Rename", A: R + "/ab", B: p},
			fsx.Call{Op: "Link", A: R + "/ab", B: p},
		)

		if fsName == "MemFS" {
			ops = append(ops,
				fsx.Call{Op: "Chown", A: p, N: 1001, M: 1002},
				fsx.Call{Op: "EvalSymlinks", A: p},
				fsx.Call{Op: "Symlink", A: "a", B: p},
			)
		}
	}

	for _, p := range withRoot {
		for _, q := range withRoot {
			ops = append(ops, fsx.Call{Op: "Rename", A: p, B: q}, fsx.Call{Op: "Link", A: p, B: q})
		}
	}

	ops = append(ops, fsx.Call{Op: "Rename", A: "a", B: "ab"}, fsx.Call{Op: "Link", A: "a", B: "ab"})

	if fsName == "MemFS" {
		targets := []string{"a", "ab", "a/a", "../a", "../ab", ".", "nope", R + "/a", R + "/nope"}
		targets = append(targets, notASCIITargets(tier)...)

		for _, t := range targets {
			for _, q := range paths {
				ops = append(ops, fsx.Call{Op: "Symlink", A: t, B: q})
			}
		}
	}

	return ops
}

// specialOnly differs from the mode 0600 of the alphabet in special bits only.
const specialOnly = 0o5600

// deepPaths: tails of 2, 3 (and 4) elements below R/ab and of 3 (and 4) below
// R/a/a - the two names of the file of the start tree, and names every history
// can give to a file, a directory, a link or nothing.
func deepPaths(R, tier string) []string {
	d := []string{R + "/ab/a/ab", R + "/ab/a/ab/a", R + "/a/a/ab/a/ab"}

	if tier == "thorough" {
		d = append(d, R+"/a/a/ab/a", R+"/ab/a/ab/a/c", R+"/a/a/ab/a/ab/c", R+"/c/a/ab/a")
	}

	return d
}

// Strings are bytes. Names and link targets are whatever bytes the caller
// passed (the kernel forbids only NUL and, in a name, '/'): every length the
// file system reports (the size of a symbolic link is the length of its target
// in BYTES), every name it lists and every target it gives back is counted and
// kept in bytes. An alphabet that is ASCII throughout cannot tell bytes from
// characters: code that counts runes or UTF-16 units, or that rebuilds a string
// rune by rune (an invalid byte becomes U+FFFD, three bytes), is right on it.
// So the alphabet holds a link target and a name whose lengths in bytes, in
// runes and in UTF-16 units all differ, and a byte that is not UTF-8; sizes,
// names and Readlink values are compared with the kernel as everywhere else.
//
// The name costs no state: it is the fixed part of a MkdirTemp pattern that
// had an arbitrary ASCII letter there. The targets are dangling relative ones.
const notASCIIName = "\u00e9\xff" // 'é' (2 bytes) and a lone 0xff: 3 bytes, 2 runes, 5 bytes once re-encoded

func notASCIITargets(tier string) []string {
	// 'é' (2 bytes, 1 UTF-16 unit) and U+10348 (4 bytes, 2 UTF-16 units): 6 bytes, 2 runes, 3 units
	t := []string{"\u00e9\U00010348"}

	if tier == "thorough" {
		// not UTF-8: a lone continuation byte and a truncated sequence around an ASCII letter
		t = append(t, "\x80a\xc3")
	}

	return t
}

func factory(tier string) func(string) bfs.System {
	return func(name string) bfs.System {
		verifrt.SetMode(verifrt.ModeSeq)
		syscall.Umask(0o022)

		scratch := os.Getenv("VERIF_SCRATCH")
		if scratch == "" {
			scratch = "/dev/shm"
		}

		// R has a fixed depth-independent spelling per worker process
		base := filepath.Join(scratch, fmt.Sprintf("c01-%d", os.Getpid()))
		R := filepath.Join(base, "w")

		s := &sys{name: strings.TrimSuffix(name, "+tree"), R: R, tree: strings.HasSuffix(name, "+tree")}
		s.ops = buildOps(s.name, R, tier)

		return s
	}
}

func main() {
	id := flag.String("id", "C01", "")
	tier := flag.String("tier", "quick", "")
	depth := flag.Int("depth", 0, "")
	systems := flag.String("systems", "MemFS,OrefaFS,MemFS+tree,OrefaFS+tree", "")
	var wflag string
	flag.StringVar(&wflag, "bfsworker", "", "")
	flag.Parse()

	bfs.MaybeWorker(factory(*tier))

	if os.Geteuid() != 0 {
		fmt.Fprintln(os.Stderr, "c01: needs root (chown on the kernel side); harness precondition")
		os.Exit(2)
	}

	verifDir := os.Getenv("VERIF_DIR")
	if verifDir == "" {
		verifDir = "."
	}

	rep, err := kf.NewReporter(*id, filepath.Join(verifDir, "known_findings.txt"), filepath.Join(verifDir, "replays"))
	if err != nil {
		fmt.Fprintln(os.Stderr, err)
		os.Exit(2)
	}

	rep.Discover = os.Getenv("VERIF_DISCOVER") != ""

	// both tiers run histories of length <= 3; the thorough tier has the larger
	// alphabet (three names, all 48 flag sets)
	d := *depth
	if d == 0 {
		d = 3
	}

	budget := 150
	if b, err := strconv.Atoi(os.Getenv("VERIF_BUDGET_S")); err == nil {
		budget = b
	} else if *tier == "thorough" {
		budget = 1200
	}

	deadline := time.Now().Add(time.Duration(budget) * time.Second)

	var all []bfs.Stats

	harnessErr := ""

	for _, sn := range strings.Split(*systems, ",") {
		probe := factory(*tier)(sn).(*sys)
		cfg := bfs.Config{
			System: sn, MaxDepth: d, Deadline: deadline,
			Report: func(system string, hist []string, op string, v bfs.Viol) {
				rep.Report(kf.Sig(v.Sig), map[string]any{"system": system, "history": hist, "op": op, "detail": v.Detail, "note": "R = scratch root on tmpfs; the same absolute path exists in the emulated file system"})
			},
		}

		st := bfs.Run(cfg, probe.OpString)
		all = append(all, st)

		if st.HarnessErr != "" {
			harnessErr = sn + ": " + st.HarnessErr
		}

		fmt.Printf("C01 %s: ops=%d states=%d transitions=%d depth_completed=%d exhaustive=%v\n",
			sn, probe.NumOps(), st.States, st.Transitions, st.DepthDone, st.Exhaustive)
	}

	states, trans := 0, 0
	outcomes := map[string]int{}
	exh := true
	depthDone := d

	var samples []any

	for _, st := range all {
		states += st.States
		trans += st.Transitions

		for k, n := range st.Outcomes {
			outcomes[k] += n
		}

		if !st.Exhaustive {
			exh = false
		}

		if st.DepthDone < depthDone {
			depthDone = st.DepthDone
		}

		for _, s := range st.Samples {
			samples = append(samples, map[string]any{"system": st.System, "history": s})
		}
	}

	if len(samples) == 0 {
		samples = append(samples, "no successor state found")
	}

	code := rep.Finish()
	if harnessErr != "" {
		fmt.Fprintln(os.Stderr, "harness error:", harnessErr)
		os.Exit(2)
	}

	_ = ev.Write(filepath.Join(verifDir, "evidence", *id+".json"), ev.Evidence{
		PropertyID: *id, Tier: *tier, Seed: ev.Seed(), Level: "model_checking",
		Coverage: map[string]any{
			"states": states, "transitions": trans, "traces_validated_against_impl": trans,
			"evaluations": trans, "distinct_nontrivial": len(outcomes),
			"rule":       "every history of length <= bound over the call alphabet executed on a fresh emulated file system and, in lock-step, through OsFS on a fresh tmpfs directory at the same absolute path; Chmod, Mkdir and WriteFile (thorough: MkdirAll too) also with a mode argument that carries file type bits, which package os ignores; Chmod by path and through a handle (File.Chmod) with a pair of modes that differ in the special bits only (0600 and 05600, in both orders and each twice; thorough: also 01777 and 0777); deep tails: paths of 3 to 5 (thorough: to 6) elements, up to 3 (4) of them missing below any file, link or directory the histories can make, given to one variant of one call of every family that resolves a path (Mkdir, Remove, RemoveAll, WriteFile, Truncate, Chmod, Chtimes, Chdir, Stat, Lstat, ReadDir, MkdirTemp, OpenFile, Rename in both places, Link as new name; MemFS: Chown, EvalSymlinks, Symlink as new name; thorough: MkdirAll), with the answer of a refused call also compared, on the emulation alone, with the answer for the same path cut to two missing elements (depth invariance); names and link targets are bytes: one dangling link target whose length in bytes, in runes and in UTF-16 units differ (thorough: also one that is not UTF-8) and the fixed part of a MkdirTemp pattern with a multi-byte character and a byte that is not UTF-8, so that sizes of links, listed names and Readlink values are compared with the kernel on non-ASCII strings; distinct_nontrivial = distinct (call, kernel outcome) classes observed",
			"samples":    samples,
			"exhaustive": exh, "bound": fmt.Sprintf("histories of length <= %d (completed %d)", d, depthDone),
			"systems": all, "known_findings_matched": rep.KnownMatched(),
		},
		Assumptions: []string{
			"oracle = Linux kernel, tmpfs, root; directory size and directory link count are not compared (they differ between Linux file systems)",
			"state identity = kernel-side tree dump + cwd (never depends on the code under test)",
			"long random histories (clause ii of the quantifier) are sampling and are not run; replaced by the exhaustive bound",
			"deep tails: a fixed set of paths (quick 3, thorough 7), not every path of that length; MkdirAll on them in the thorough tier only (each chain that can exist multiplies the states: in the quick tier the deep paths never exist, the calls on them are judged on how they are refused); special bits of a mode: setuid and sticky (setgid on a directory changes what is created below it and is not in the alphabet)",
			"symlink calls only on MemFS (OrefaFS does not advertise FeatSymlink)",
			"non-ASCII strings: one link target (MemFS) and one temporary directory name per tier hold multi-byte and (name; thorough: target too) invalid UTF-8 bytes; the names a, ab (c) of the path alphabet stay ASCII",
		},
		Violations: rep.NewCount(),
	})

	os.Exit(code)
}

// maskOwner blanks the uid:gid field of a Stat value ("name type perm uid:gid ...").
func maskOwner(v string) string {
	f := strings.Fields(v)
	if len(f) > 3 {
		f[3] = "-:-"
	}

	return strings.Join(f, " ")
}
