package main

import (
	"time"

	"verif/lib/kf"
)

// runConcurrent is the concurrent part of C15 (all interleavings of 2-3
// threads x 1-2 calls under the controlled scheduler, linearizability against
// Model). STUB: explores nothing and contributes zero counts; to be replaced
// by the scheduler-based part. Contract:
//
//   - report violations through rep (signatures with "part":"conc");
//   - return counts and samples in a partResult (Name "conc"); main merges
//     them with the sequential part and writes the evidence once;
//   - set the verifrt mode it needs itself (main leaves ModeSeq on) and
//     honour deadline (zero = none);
//   - a non-nil error is a harness error (exit 2).
//
// Reusable from the sequential part: Call, Outcome, execCall (takes any
// avfs.IdentityMgr), Model (NewModel/Clone/Key/Step: Step(call, observed
// outcome) returns the mismatches and applies the call, i.e. it is a
// porcupine-style step function; Mismatch.Structural == false marks
// attribute-only findings such as isadmin-mismatch), alphabet, errClass.
func runConcurrent(tier string, rep *kf.Reporter, deadline time.Time) (partResult, error) {
	return partResult{
		Name: "conc", Classes: map[string]int{}, Extra: map[string]any{"conc_implemented": false},
		Exhaustive: false, Bound: "concurrent part not built yet: nothing explored",
		Summary: "conc: not built yet (0 programs, 0 executions)",
	}, nil
}
