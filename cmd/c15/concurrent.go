package main

import (
	"fmt"
	"sort"
	"strings"
	"time"

	"github.com/anishathalye/porcupine"
	"github.com/avfs/avfs/verifrt"

	"verif/lib/kf"
	"verif/lib/sched"
)

// runConcurrent is the concurrent part of C15: every interleaving (at
// lock-acquisition granularity, preemption bound 2/3, most programs end up
// fully explored) of 2-3 threads x 1-2 MemIdm calls on colliding names, run on
// the real MemIdm under the controlled scheduler. The recorded call/return
// history of each execution is checked for linearizability against Model by
// brute force over the permutations consistent with real-time order and,
// independently, by porcupine; both judges must agree.
func runConcurrent(tier string, rep *kf.Reporter, deadline time.Time) (partResult, error) {
	verifrt.SetMode(verifrt.ModeSched)
	defer verifrt.SetMode(verifrt.ModeSeq)

	res := partResult{Name: "conc", Classes: map[string]int{}, Extra: map[string]any{"conc_implemented": true}, Exhaustive: true}

	adminG, adminU := adminNames()

	setups := [][]Call{
		nil,
		{{M: "AddGroup", A: "g1"}, {M: "AddUser", A: "u1", B: "g1"}},
	}

	tm := []Call{
		{M: "AddGroup", A: "g1"}, {M: "DelGroup", A: "g1"}, {M: "AddUser", A: "u1", B: "g1"}, {M: "DelUser", A: "u1"},
		{M: "LookupGroup", A: "g1"}, {M: "LookupUser", A: "u1"}, {M: "LookupGroupId", ID: 1001}, {M: "LookupUserId", ID: 1001},
		{M: "AddGroup", A: "g2"}, {M: "AddUser", A: "u2", B: "g1"}, {M: "AddUser", A: "u1", B: adminG},
	}

	type prog struct {
		setup   []Call
		threads [][]Call
	}

	var progs []prog

	for _, su := range setups {
		for i := range tm {
			for j := i; j < len(tm); j++ {
				progs = append(progs, prog{su, [][]Call{{tm[i]}, {tm[j]}}})
			}
		}
	}

	bound := 2

	if tier != "thorough" {
		// a small 2x2 family around the two-lock AddUser
		// (AddGroup of the same name too: a call that re-validates "the name still exists"
		// after changing locks must not take a group deleted and added again for the one it read)
		core := []Call{tm[2], tm[1], tm[3], tm[5], tm[4], tm[0]}

		for a := range core {
			for b := range core {
				for c := a; c < len(core); c++ {
					for d := range core {
						progs = append(progs, prog{setups[1], [][]Call{{core[a], core[b]}, {core[c], core[d]}}})
					}
				}
			}
		}
	}

	if tier == "thorough" {
		bound = 3
		core := tm[:8]

		for _, su := range setups {
			for i := range core {
				for j := i; j < len(core); j++ {
					for k := j; k < len(core); k++ {
						progs = append(progs, prog{su, [][]Call{{core[i]}, {core[j]}, {core[k]}}})
					}
				}
			}

			// 2 threads x 2 calls
			for a := range core {
				for b := range core {
					for c := a; c < len(core); c++ {
						for d := range core {
							progs = append(progs, prog{su, [][]Call{{core[a], core[b]}, {core[c], core[d]}}})
						}
					}
				}
			}
		}
	}

	type rec struct {
		T, I     int
		C        Call
		O        Outcome
		Inv, Ret int
	}

	execs, multi, minBound, timedOut := 0, 0, 1<<30, 0
	outcomeSet := map[string]bool{}

	for pi, p := range progs {
		if !deadline.IsZero() && time.Now().After(deadline) {
			timedOut++

			continue
		}

		distinct := map[string]bool{}

		var harnessErr error

		run := func(prefix []int8) sched.Exec {
			idm := newIdm()
			for _, c := range p.setup {
				execCall(idm, c)
			}

			recs := make([][]rec, len(p.threads))
			bodies := make([]func(), len(p.threads))

			for t := range p.threads {
				t := t
				recs[t] = make([]rec, len(p.threads[t]))

				for i, c := range p.threads[t] {
					recs[t][i] = rec{T: t, I: i, C: c, Inv: -1, Ret: -1}
				}

				bodies[t] = func() {
					for i, c := range p.threads[t] {
						verifrt.CallPoint()
						recs[t][i].Inv = verifrt.Step()
						recs[t][i].O = execCall(idm, c)
						recs[t][i].Ret = verifrt.Step()
					}
				}
			}

			r := verifrt.Run(prefix, bodies)
			pts := verifrt.Points()
			execs++

			var all []rec
			for t := range recs {
				all = append(all, recs[t]...)
			}

			var key []string
			for _, x := range all {
				key = append(key, x.O.String())
			}

			dump := strings.Join(idm.VerifDump(), ";")
			k := strings.Join(key, "|") + "#" + dump
			distinct[k] = true

			describe := func() map[string]any {
				var calls []map[string]any
				for _, x := range all {
					calls = append(calls, map[string]any{"thread": x.T, "call": x.C.String(), "outcome": x.O.String(), "inv": x.Inv, "ret": x.Ret})
				}

				var su []string
				for _, c := range p.setup {
					su = append(su, c.String())
				}

				return map[string]any{
					"setup": su, "calls": calls, "choices": sched.Choices(pts), "schedule": sched.FormatSchedule(pts), "final_state": idm.VerifDump(),
				}
			}

			tmpl := func() string {
				var ts []string

				for _, th := range p.threads {
					var cs []string
					for _, c := range th {
						cs = append(cs, c.String())
					}

					ts = append(ts, strings.Join(cs, ";"))
				}

				sort.Strings(ts)

				s := strings.Join(ts, " || ")
				if len(p.setup) > 0 {
					s = "[g1,u1 exist] " + s
				}

				return s
			}

			if r.Deadlock {
				rep.Report(kf.Sig{"part": "conc", "kind": "deadlock", "prog": tmpl()}, describe())

				return sched.Exec{Res: r, Points: pts}
			}

			for _, x := range all {
				if x.O.Err == EPanic || x.O.Err == EDeadlock {
					rep.Report(kf.Sig{"part": "conc", "kind": strings.ToLower(x.O.Err), "prog": tmpl(), "call": x.C.String()}, describe())
				}
			}

			for _, b := range idm.VerifCheck() {
				rep.Report(kf.Sig{"part": "conc", "kind": "maps-disagree", "prog": tmpl(), "what": stripDigits(b)}, describe())
			}

			// judge 1: brute force over permutations consistent with real time
			base := modelAfter(adminG, adminU, p.setup)

			n := len(all)
			perm := make([]int, 0, n)
			used := make([]bool, n)
			bf := false

			var try func(m *Model) bool

			try = func(m *Model) bool {
				if len(perm) == n {
					return true
				}

				for i := 0; i < n; i++ {
					if used[i] {
						continue
					}

					// real-time: every call that returned before all[i] was invoked must already be placed
					ok := true

					for j := 0; j < n; j++ {
						if !used[j] && j != i && all[j].Ret >= 0 && all[j].Ret <= all[i].Inv {
							ok = false
						}

						// program order
						if !used[j] && all[j].T == all[i].T && all[j].I < all[i].I {
							ok = false
						}
					}

					if !ok {
						continue
					}

					mm := m.Clone()
					if bad(mm.Step(all[i].C, all[i].O)) {
						continue
					}

					used[i] = true
					perm = append(perm, i)

					if try(mm) {
						return true
					}

					perm = perm[:len(perm)-1]
					used[i] = false
				}

				return false
			}

			bf = try(base)

			// judge 2: porcupine
			var ops []porcupine.Operation
			for _, x := range all {
				ops = append(ops, porcupine.Operation{ClientId: x.T, Input: x.C, Call: int64(2 * x.Inv), Output: x.O, Return: int64(2*x.Ret + 1)})
			}

			pm := porcupine.Model{
				Init: func() interface{} { return modelAfter(adminG, adminU, p.setup) },
				Step: func(state, input, output interface{}) (bool, interface{}) {
					mm := state.(*Model).Clone()
					if bad(mm.Step(input.(Call), output.(Outcome))) {
						return false, state
					}

					return true, mm
				},
				Equal: func(a, b interface{}) bool { return a.(*Model).Key() == b.(*Model).Key() },
			}

			pc := porcupine.CheckOperations(pm, ops)

			if pc != bf {
				harnessErr = fmt.Errorf("linearizability judges disagree on %s: brute force %v, porcupine %v", tmpl(), bf, pc)
			}

			if !bf {
				var rs []string
				for _, x := range all {
					rs = append(rs, x.O.Err)
				}

				rep.Report(kf.Sig{"part": "conc", "kind": "non-linearizable", "prog": tmpl(), "results": strings.Join(rs, ",")}, describe())
			}

			return sched.Exec{Res: r, Points: pts}
		}

		st := sched.Explore(run, bound, deadline, 0)
		if harnessErr != nil {
			return res, harnessErr
		}

		if st.BadReplay {
			return res, fmt.Errorf("replay divergence in program %d", pi)
		}

		if st.TimedOut {
			timedOut++
		}

		b := st.BoundCompleted
		if st.Unbounded {
			b = bound
		}

		if b < minBound {
			minBound = b
		}

		if len(distinct) > 1 {
			multi++
		}

		for k := range distinct {
			outcomeSet[fmt.Sprint(pi, ":", k)] = true
		}

		if len(res.Samples) < 3 {
			var ts []string
			for _, th := range p.threads {
				var cs []string
				for _, c := range th {
					cs = append(cs, c.String())
				}

				ts = append(ts, strings.Join(cs, "; "))
			}

			res.Samples = append(res.Samples, map[string]any{"program": strings.Join(ts, " || "), "setup_calls": len(p.setup), "schedules": st.Executions, "distinct_outcomes": len(distinct)})
		}
	}

	res.States = len(outcomeSet)
	res.Transitions = execs
	res.Evaluations = execs
	res.Classes["conc:schedule-dependent-programs"] = multi
	res.Classes["conc:programs"] = len(progs)

	if timedOut > 0 {
		res.Exhaustive = false
	}

	if minBound == 1<<30 {
		minBound = -1
	}

	res.Bound = fmt.Sprintf("%d programs (2-3 threads x 1-2 calls), preemption bound %d (min completed %d), %d timed out", len(progs), bound, minBound, timedOut)
	res.Extra["conc_programs"] = len(progs)
	res.Extra["conc_schedules"] = execs
	res.Extra["conc_schedule_dependent_programs"] = multi
	res.Extra["conc_min_bound_completed"] = minBound
	res.Assumptions = []string{
		"concurrent part: scheduling points before every Lock/RLock of the two MemIdm mutexes and at call boundaries; linearizability judged by brute force and by porcupine v1.3.0 (must agree)",
	}
	res.Summary = fmt.Sprintf("conc: programs=%d schedules=%d schedule-dependent=%d min-bound=%d timed-out=%d", len(progs), execs, multi, minBound, timedOut)

	return res, nil
}

// bad reports whether a model step produced a mismatch that makes the
// observed outcome impossible in that state. The IsAdmin predicate is an
// attribute-level finding of the sequential part and does not make an
// interleaving non-linearizable.
func bad(ms []Mismatch) bool {
	for _, m := range ms {
		if m.Kind != "isadmin-mismatch" {
			return true
		}
	}

	return false
}

// modelAfter returns the model state after the setup calls (executed on a
// fresh real MemIdm to obtain the outcomes the model consumes).
func modelAfter(adminG, adminU string, setup []Call) *Model {
	m := NewModel(adminG, adminU)
	idm := newIdm()

	for _, c := range setup {
		m.Step(c, execCall(idm, c))
	}

	return m
}

func stripDigits(s string) string {
	var b strings.Builder

	for _, r := range s {
		if r >= '0' && r <= '9' {
			b.WriteByte('N')
		} else {
			b.WriteRune(r)
		}
	}

	return b.String()
}

func adminNames() (g, u string) {
	idm := newIdm()

	return idm.AdminGroup().Name(), idm.AdminUser().Name()
}
