package main

import (
	"crypto/sha256"
	"fmt"
	"strings"
	"time"

	"github.com/avfs/avfs"
	"github.com/avfs/avfs/idm/memidm"
	"github.com/avfs/avfs/verifrt"
	"github.com/avfs/avfs/vfs/memfs"

	"verif/lib/fsx"
	"verif/lib/kf"
	"verif/lib/sched"
)

// The instances part of C15: histories over SEVERAL live identity managers.
//
// General lesson: every other part runs its history on ONE object that is alone
// in the process (a fresh instance per replay, used from start to end, then
// dropped). State that ought to belong to the instance and does not - a
// package-level counter, a cache, a pool, a default shared by all constructors -
// behaves exactly like instance state as long as instances never coexist, so no
// history on a single object can tell the difference. "Which objects exist, and
// when they were made" is therefore a dimension of the start state and of the
// alphabet like any other: the history addresses two instances in turn, and
// "create another instance" is a letter of its own that may fall anywhere in it
// - by every constructor of the package, and by every other package that makes
// one implicitly (memfs.New builds its own MemIdm when none is given). Each
// instance is compared with its OWN copy of the reference model: the clauses of
// the property (by-name and by-id lookups agree, names and ids unique, an id
// never reassigned, exactly the entries added and not deleted) hold per
// instance, whatever happens to, or because of, the others; all instances ever
// made in the history are kept alive and are checked after every letter.
//
// The exploration is deliberately single-threaded (the other parts replay
// histories on parallel workers, which is sound only if instances share nothing
// - the very assumption this part decides; it therefore runs first, and the
// sequential part falls back to one worker when it fails).

// instEvent is one letter of a history over several instances.
type instEvent struct {
	Kind string `json:"kind"`           // "call" | "create" | "hand"
	Slot int    `json:"slot"`           // call: 0 = the first instance, 1 = the instance created last
	C    Call   `json:"call,omitempty"` // call: the call
	Ctor string `json:"ctor,omitempty"` // create/hand: how
}

const (
	ctorNew      = "memidm.New()"
	ctorOptsNil  = "memidm.NewWithOptions(nil)"
	ctorOptsLin  = "memidm.NewWithOptions(&memidm.Options{OSType: avfs.OsLinux})"
	ctorOptsWin  = "memidm.NewWithOptions(&memidm.Options{OSType: avfs.OsWindows})"
	ctorMemFS    = "memfs.New().Idm()"
	ctorMemFSWin = "memfs.NewWithOptions(&memfs.Options{OSType: avfs.OsWindows}).Idm()"
	handMemFS    = "memfs.NewWithOptions(&memfs.Options{Idm: first})"
)

func (ev instEvent) String() string {
	switch ev.Kind {
	case "call":
		return instRole(ev.Slot) + "." + ev.C.String()
	case "create":
		return "second = " + ev.Ctor
	}

	return ev.Ctor
}

func instRole(slot int) string {
	if slot == 0 {
		return "first"
	}

	return "second"
}

// instCtors lists the ways another identity manager comes into being.
func instCtors(tier string) []string {
	cs := []string{ctorNew, ctorOptsLin, ctorMemFS}

	if avfs.BuildFeatures()&avfs.FeatSetOSType != 0 {
		cs = append(cs, ctorOptsWin)
	}

	if tier == "thorough" {
		cs = append(cs, ctorOptsNil)

		if avfs.BuildFeatures()&avfs.FeatSetOSType != 0 {
			cs = append(cs, ctorMemFSWin)
		}
	}

	return cs
}

// construct makes an identity manager the way ctor says. The file system of the
// implicit ways is returned too (it stays referenced as long as the world does).
func construct(ctor string) (idm *memidm.MemIdm, keep any) {
	switch ctor {
	case ctorNew:
		return memidm.New(), nil
	case ctorOptsNil:
		return memidm.NewWithOptions(nil), nil
	case ctorOptsLin:
		return memidm.NewWithOptions(&memidm.Options{OSType: avfs.OsLinux}), nil
	case ctorOptsWin:
		return memidm.NewWithOptions(&memidm.Options{OSType: avfs.OsWindows}), nil
	case ctorMemFS, ctorMemFSWin:
		var vfs *memfs.MemFS

		if ctor == ctorMemFS {
			vfs = memfs.New()
		} else {
			vfs = memfs.NewWithOptions(&memfs.Options{OSType: avfs.OsWindows})
		}

		idm, ok := vfs.Idm().(*memidm.MemIdm)
		if !ok {
			panic(fmt.Sprintf("c15 harness: the identity manager of %s is a %T", ctor, vfs.Idm()))
		}

		return idm, vfs
	}

	panic("c15 harness: unknown constructor " + ctor)
}

// instAlphabet: the mutators on either instance (the lookups are the state
// check that follows every letter, on every instance) and the creations.
func instAlphabet(tier string) []instEvent {
	calls := []Call{
		{M: "AddGroup", A: "g1"}, {M: "AddGroup", A: "g2"},
		{M: "AddUser", A: "u1", B: "g1"}, {M: "AddUser", A: "u2", B: "g1"},
		{M: "DelGroup", A: "g1"}, {M: "DelUser", A: "u1"},
	}

	var evs []instEvent

	for slot := 0; slot < 2; slot++ {
		for _, c := range calls {
			evs = append(evs, instEvent{Kind: "call", Slot: slot, C: c})
		}
	}

	for _, ct := range instCtors(tier) {
		evs = append(evs, instEvent{Kind: "create", Ctor: ct})
	}

	return append(evs, instEvent{Kind: "hand", Ctor: handMemFS})
}

// instWorld is the set of identity managers a history has made so far, each
// with its own model.
type instWorld struct {
	idms   []*memidm.MemIdm // in order of creation; [0] is the first
	models []*Model
	exps   []*explorer // name pools with the administrator names of that instance
	how    []string
	cur    int   // index of the instance the letters of slot 1 address (-1: none yet)
	keep   []any // file systems made on the way
	depth  int
}

func newInstWorld(depth int) *instWorld {
	w := &instWorld{cur: -1, depth: depth}
	w.add(newIdm(), newIdmGo())

	return w
}

func (w *instWorld) add(idm *memidm.MemIdm, how string) {
	adminG, adminU := avfs.AdminGroupName(idm.OSType()), avfs.AdminUserName(idm.OSType())

	e := &explorer{adminG: adminG, adminU: adminU}
	e.groups = []string{adminG, "g1", "g2"}
	e.users = []string{adminU, "u1", "u2"}
	e.chkIDs = []int{0}

	for i := 1000; i <= 1000+w.depth+1; i++ {
		e.chkIDs = append(e.chkIDs, i)
	}

	w.idms = append(w.idms, idm)
	w.models = append(w.models, NewModel(adminG, adminU))
	w.exps = append(w.exps, e)
	w.how = append(w.how, how)
}

func (w *instWorld) index(slot int) int {
	if slot == 0 {
		return 0
	}

	return w.cur
}

// role names instance i in signatures.
func (w *instWorld) role(i int) string {
	switch {
	case i == 0 && len(w.idms) == 1:
		return "first (alone)"
	case i == 0:
		return "first"
	case i == w.cur:
		return "second"
	}

	return "an earlier second"
}

// lastOther is how the instance created last, other than i, was made.
func (w *instWorld) lastOther(i int) string {
	for j := len(w.idms) - 1; j >= 0; j-- {
		if j != i {
			return w.how[j]
		}
	}

	return "-"
}

func (w *instWorld) key() stateKey {
	var b strings.Builder

	fmt.Fprintf(&b, "cur %d\n", w.cur)

	for i, idm := range w.idms {
		b.WriteString("== " + w.how[i] + "\n" + w.models[i].Key() + "\n--\n" + strings.Join(idm.VerifDump(), "\n") + "\n")
	}

	h := sha256.Sum256([]byte(b.String()))

	var k stateKey

	copy(k[:], h[:16])

	return k
}

// instViol is an oracle failure located on one instance.
type instViol struct {
	viol
	On    string // role of the instance the failing call or lookup addressed
	After string // how the youngest other instance was made
}

func (v instViol) sig() kf.Sig {
	s := v.viol.sig()
	s["part"], s["on"], s["other"] = "inst", v.On, v.After

	return s
}

// apply executes one letter and, when judge is set, runs the oracles: the
// outcome of a call against the model of the instance it addressed, then the
// full state check of EVERY instance against its own model.
func (w *instWorld) apply(ev instEvent, judge bool) (enabled bool, class string, vs []instViol, lookups int) {
	switch ev.Kind {
	case "call":
		i := w.index(ev.Slot)
		if i < 0 {
			return false, "", nil, 0
		}

		m := w.models[i]
		args := m.ArgClass(ev.C)
		o := execCall(w.idms[i], ev.C)
		class = "on the " + strings.TrimSuffix(w.role(i), " (alone)") + " instance: " + ev.C.M + "(" + args + ") -> " + o.Err

		for _, mm := range m.Step(ev.C, o) {
			vs = append(vs, instViol{viol{Phase: "call", Check: ev.C, Args: args, Mis: mm, Obs: o}, w.role(i), w.lastOther(i)})
		}

		if o.Err == EPanic || o.Err == EDeadlock {
			return true, class, vs, 0
		}
	case "create":
		var (
			idm  *memidm.MemIdm
			keep any
		)

		class = "create: " + ev.Ctor

		if k, msg := fsx.Guard(func() { idm, keep = construct(ev.Ctor) }); k != "" {
			vs = append(vs, instViol{viol{Phase: "call", Check: Call{M: "create"}, Args: ev.Ctor,
				Mis: Mismatch{Kind: "outcome", Want: "returns", Got: k, Structural: true}, Obs: Outcome{Err: k, Msg: msg}}, "second", w.lastOther(-1)})

			return true, class, vs, 0
		}

		w.add(idm, ev.Ctor)
		w.cur = len(w.idms) - 1
		w.keep = append(w.keep, keep)

		if judge {
			for _, v := range w.exps[w.cur].initialCheck(idm) {
				vs = append(vs, instViol{v, w.role(w.cur), w.lastOther(w.cur)})
			}
		}
	case "hand":
		class = "hand: " + ev.Ctor

		var vfs *memfs.MemFS

		if k, msg := fsx.Guard(func() { vfs = memfs.NewWithOptions(&memfs.Options{Idm: w.idms[0]}) }); k != "" {
			vs = append(vs, instViol{viol{Phase: "call", Check: Call{M: "hand"}, Args: ev.Ctor,
				Mis: Mismatch{Kind: "outcome", Want: "returns", Got: k, Structural: true}, Obs: Outcome{Err: k, Msg: msg}}, w.role(0), w.lastOther(0)})

			return true, class, vs, 0
		}

		w.keep = append(w.keep, vfs)
	}

	if judge {
		for i := range w.idms {
			pv, n := w.exps[i].stateCheck(w.idms[i], w.models[i])
			lookups += n

			for _, v := range pv {
				vs = append(vs, instViol{v, w.role(i), w.lastOther(i)})
			}
		}
	}

	return true, class, vs, lookups
}

// instReplay runs a history on a fresh world without judging it.
func instReplay(evs []instEvent, hist []uint8, depth int) *instWorld {
	w := newInstWorld(depth)

	for _, h := range hist {
		w.apply(evs[h], false)
	}

	return w
}

// instTrace renders a history with the outcome of every call.
func instTrace(seq []instEvent, depth int) []string {
	w := newInstWorld(depth)
	out := []string{"first = " + w.how[0]}

	for _, ev := range seq {
		if ev.Kind != "call" {
			w.apply(ev, false)
			out = append(out, ev.String())

			continue
		}

		i := w.index(ev.Slot)
		if i < 0 {
			out = append(out, ev.String()+" -> (no second instance yet)")

			continue
		}

		o := execCall(w.idms[i], ev.C)
		w.models[i].Step(ev.C, o)
		out = append(out, ev.String()+" -> "+o.String())
	}

	return out
}

// instGoTest renders a history, and the failing call or lookup, as a Go test.
func instGoTest(seq []instEvent, v instViol, on int) string {
	var b strings.Builder

	b.WriteString("package memidm_test\n\nimport (\n\t\"testing\"\n\n\t\"github.com/avfs/avfs\"\n\t\"github.com/avfs/avfs/idm/memidm\"\n\t\"github.com/avfs/avfs/vfs/memfs\"\n)\n\n" +
		"var _, _ = avfs.OsLinux, memfs.New\n\nfunc TestC15Replay(t *testing.T) {\n\tidm0 := " + newIdmGo() + "\n")

	n, cur := 1, -1

	stmt := func(i int, c Call, observe bool) {
		b.WriteString("\t" + strings.Replace(c.goStmt(observe), "idm.", fmt.Sprintf("idm%d.", i), 1) + "\n")
	}

	for _, ev := range seq {
		switch ev.Kind {
		case "call":
			i := 0
			if ev.Slot == 1 {
				i = cur
			}

			if i >= 0 {
				stmt(i, ev.C, false)
			}
		case "create":
			src := ev.Ctor
			if strings.HasSuffix(src, ".Idm()") {
				src += ".(*memidm.MemIdm)"
			}

			fmt.Fprintf(&b, "\tidm%d := %s\n\t_ = idm%d\n", n, src, n)
			cur = n
			n++
		case "hand":
			b.WriteString("\t_ = memfs.NewWithOptions(&memfs.Options{Idm: idm0})\n")
		}
	}

	switch v.Check.M {
	case "VerifCheck", "VerifDump", "create", "hand":
	default:
		stmt(on, v.Check, true)
	}

	b.WriteString("}\n")

	return b.String()
}

// instRunReplay re-executes the history of a replay file of this part with the
// oracles on and prints every mismatch. Exit code as runReplay.
func instRunReplay(seq []instEvent, want kf.Sig) int {
	w := newInstWorld(len(seq))
	hit := false

	fmt.Println("first = " + w.how[0])

	for _, ev := range seq {
		enabled, class, vs, _ := w.apply(ev, true)
		if !enabled {
			fmt.Printf("%s: no second instance yet, skipped\n", ev)

			continue
		}

		fmt.Printf("%s   [%s]\n", ev, class)

		for _, v := range vs {
			s := v.sig()
			if idmOS != avfs.OsLinux {
				s["os"] = idmOS.String()
			}

			fmt.Printf("  MISMATCH %s observed=%s\n", s, v.Obs)

			if s.String() == want.String() {
				hit = true
			}
		}
	}

	if hit {
		fmt.Printf("REPRODUCED %s\n", want)

		return 1
	}

	fmt.Println("not reproduced")

	return 0
}

// runInstances explores every history up to the depth bound over the alphabet
// of instAlphabet, breadth-first with state deduplication, in one goroutine.
func runInstances(tier string, rep *kf.Reporter, deadline time.Time) (partResult, error) {
	verifrt.SetMode(verifrt.ModeSeq)

	res := partResult{Name: "inst", Classes: map[string]int{}, Extra: map[string]any{}}

	depth := 4
	if tier == "thorough" {
		depth = 5
	}

	evs := instAlphabet(tier)
	seenSig := map[string]bool{}

	// of a budget, two thirds for the histories, the rest for the two-thread programs
	histDeadline := deadline
	if !deadline.IsZero() {
		histDeadline = time.Now().Add(time.Until(deadline) * 2 / 3)
	}

	report := func(hist []uint8, op int, v instViol, on int) {
		s := v.sig()
		if idmOS != avfs.OsLinux {
			s["os"] = idmOS.String()
		}

		if k := s.String(); seenSig[k] {
			rep.Report(s, nil)

			return
		} else {
			seenSig[k] = true
		}

		// full: the history including the letter of the failing transition; seq: the
		// part of it the generated test executes before the observed call
		var full []instEvent
		for _, h := range hist {
			full = append(full, evs[h])
		}

		seq := full

		if op >= 0 {
			full = append(append([]instEvent(nil), full...), evs[op])

			if !(v.Phase == "call" && evs[op].Kind == "call") {
				seq = full
			}
		}

		var hs []string
		for _, ev := range full {
			hs = append(hs, ev.String())
		}

		rep.Report(s, map[string]any{
			"part": "inst", "first_instance": newIdmGo(), "history": hs, "events": full, "phase": v.Phase,
			"failing_call": v.Check.String(), "on_instance": v.On, "other_instance_made_by": v.After, "operand_class": v.Args,
			"kind": v.Mis.Kind, "expected": v.Mis.Want, "observed": v.Mis.Got, "observed_outcome": v.Obs,
			"trace": instTrace(full, depth), "go_test": instGoTest(seq, v, on),
		})
	}

	// which instance a violation of the transition (hist, op) sits on, as an index
	onIndex := func(w *instWorld, v instViol) int {
		for i := range w.idms {
			if w.role(i) == v.On {
				return i
			}
		}

		return 0
	}

	w0 := newInstWorld(depth)
	seen := map[stateKey]struct{}{w0.key(): {}}

	var (
		per                  []depthStat
		frontier             = [][]uint8{nil}
		completed, violating int
		lookups              int
		timedOut             bool
		lastHist             []uint8
		maxInst              = 1
	)

	for _, v := range w0.exps[0].initialCheck(w0.idms[0]) {
		report(nil, -1, instViol{v, w0.role(0), "-"}, 0)
	}

	pv, n := w0.exps[0].stateCheck(w0.idms[0], w0.models[0])
	lookups += n

	for _, v := range pv {
		report(nil, -1, instViol{v, w0.role(0), "-"}, 0)
	}

	for d := 1; d <= depth && len(frontier) > 0 && !timedOut; d++ {
		ds := depthStat{Depth: d}

		var next [][]uint8

		for _, hist := range frontier {
			if !histDeadline.IsZero() && time.Now().After(histDeadline) {
				timedOut = true

				break
			}

			ds.Expanded++

			for op, ev := range evs {
				w := instReplay(evs, hist, depth)

				enabled, class, vs, n := w.apply(ev, true)
				if !enabled {
					continue
				}

				ds.Transitions++
				lookups += n
				res.Classes[class]++

				if len(w.idms) > maxInst {
					maxInst = len(w.idms)
				}

				structural := false

				for _, v := range vs {
					report(hist, op, v, onIndex(w, v))

					structural = structural || v.Mis.Structural || v.Obs.Err == EPanic || v.Obs.Err == EDeadlock
				}

				if len(vs) > 0 {
					violating++
				}

				k := w.key()
				if _, dup := seen[k]; dup {
					continue
				}

				seen[k] = struct{}{}
				ds.NewStates++

				h := append(append(make([]uint8, 0, len(hist)+1), hist...), uint8(op))
				lastHist = h

				if structural {
					ds.NotExpanded++ // a model and its instance diverged: futures are meaningless

					continue
				}

				next = append(next, h)
			}
		}

		ds.Complete = !timedOut
		res.Transitions += ds.Transitions
		per = append(per, ds)

		if !timedOut {
			completed = d
			frontier = next
		}
	}

	if lastHist != nil {
		var seq []instEvent
		for _, h := range lastHist {
			seq = append(seq, evs[h])
		}

		a, b := instTrace(seq, depth), instTrace(seq, depth)
		if strings.Join(a, "\n") != strings.Join(b, "\n") {
			return res, fmt.Errorf("replaying %v twice gave different traces", a)
		}

		res.Samples = append(res.Samples, map[string]any{"depth": len(lastHist), "history": a, "note": "last new state found"})
	}

	var letters []string
	for _, ev := range evs {
		letters = append(letters, ev.String())
	}

	res.States = len(seen)
	res.Evaluations = res.Transitions + lookups
	res.Exhaustive = !timedOut && completed == depth
	res.Bound = fmt.Sprintf("all histories of <= %d letters over %d letters on several live identity managers (6 mutators on the first instance, the same 6 on the instance created last, %d ways of creating another instance in mid-history: %s; one way of handing the first instance to a file system); %d asked for; at most %d instances alive at once",
		completed, len(evs), len(instCtors(tier)), strings.Join(instCtors(tier), ", "), depth, maxInst)
	res.Extra["inst_per_depth"] = per
	res.Extra["inst_alphabet"] = letters
	res.Extra["inst_depth_completed"] = completed
	res.Extra["inst_states"] = res.States
	res.Extra["inst_transitions"] = res.Transitions
	res.Extra["inst_state_check_lookups"] = lookups
	res.Extra["inst_transitions_with_oracle_failure"] = violating
	res.Extra["inst_max_instances_alive"] = maxInst
	res.Assumptions = []string{
		"instances part: every identity manager a history makes stays referenced to the end of the history and is compared with its own copy of the reference model after every letter (full state check: every name of the pools, every id in range, the accessors AdminUser/AdminGroup, the four maps); a letter addressed to the second instance before one exists is not a transition",
		"instances part: explored in one goroutine; the parallel replay of the sequential part is sound only if instances share no state, which is what this part decides first (if it reports anything the sequential part runs on one worker)",
		"instances part: state deduplication over (how each instance was made, its model state, its VerifDump) of all instances in order of creation; state outside the instances is not part of the key",
	}

	var pd []string
	for _, p := range per {
		pd = append(pd, fmt.Sprintf("d%d:%d/%d", p.Depth, p.NewStates, p.Transitions))
	}

	res.Summary = fmt.Sprintf("inst: depth %d/%d, %d states, %d transitions (%s), up to %d live instances, %d transitions with oracle failures",
		completed, depth, res.States, res.Transitions, strings.Join(pd, " "), maxInst, violating)

	cres, err := runInstancesConc(tier, rep, deadline)
	if err != nil {
		return res, err
	}

	res.Transitions += cres.Transitions
	res.Evaluations += cres.Evaluations
	res.States += cres.States
	res.Exhaustive = res.Exhaustive && cres.Exhaustive
	res.Bound += "; " + cres.Bound
	res.Summary += "; " + cres.Summary
	res.Assumptions = append(res.Assumptions, cres.Assumptions...)

	for k, v := range cres.Extra {
		res.Extra[k] = v
	}

	for k, v := range cres.Classes {
		res.Classes[k] += v
	}

	return res, nil
}

// instProg is a concurrent program over two identity managers: thread t works
// on instance t only. The second instance exists before the threads start
// (Pre) or is made by thread 1 as its first step. Both instances get Setup.
//
// Same lesson, concurrent form: two threads that share no object are
// independent, so under EVERY schedule each instance must answer as if it were
// alone (a plain sequential history against its own model - no linearizability
// search is needed), and the detector of the race pass must stay silent: a
// conflicting access between them can only be to state outside the instances.
type instProg struct {
	Setup   []Call    `json:"setup"`
	Ctor    string    `json:"ctor"`
	Pre     bool      `json:"second_exists_before"`
	Threads [2][]Call `json:"threads"`
}

func (p instProg) strings() (su, ts []string) {
	for _, c := range p.Setup {
		su = append(su, c.String())
	}

	for t, th := range p.Threads {
		var cs []string

		if t == 1 && !p.Pre {
			cs = append(cs, "second = "+p.Ctor)
		}

		for _, c := range th {
			cs = append(cs, instRole(t)+"."+c.String())
		}

		ts = append(ts, strings.Join(cs, ";"))
	}

	return su, ts
}

func (p instProg) tmpl() string {
	_, ts := p.strings()
	s := strings.Join(ts, " || ")

	if p.Pre {
		s = "[second = " + p.Ctor + "] " + s
	}

	if len(p.Setup) > 0 {
		s = "[g1,u1 exist] " + s
	}

	return s
}

// class of the program in signatures: how and when the second instance is made.
func (p instProg) class() string {
	if p.Pre {
		return p.Ctor + " before the threads start"
	}

	return p.Ctor + " by its thread"
}

// instPrograms enumerates the two-instance programs of a tier. The race pass
// (forRace) takes the small family of calls and sequences in both tiers - the
// thorough one with every way of making an instance and a deeper bound -
// because it looks for accesses, not for outcomes.
func instPrograms(tier string, forRace bool) []instProg {
	setup := []Call{{M: "AddGroup", A: "g1"}, {M: "AddUser", A: "u1", B: "g1"}}
	calls := []Call{{M: "AddGroup", A: "g2"}, {M: "AddUser", A: "u2", B: "g1"}}
	setups := [][]Call{setup}
	wide := tier == "thorough" && !forRace

	if wide {
		calls = append(calls, Call{M: "DelUser", A: "u1"}, Call{M: "DelGroup", A: "g1"})
		setups = [][]Call{setup, nil}
	}

	// sequences of one or two calls
	var seqs [][]Call

	for _, a := range calls {
		seqs = append(seqs, []Call{a})
	}

	for _, a := range calls {
		for _, b := range calls {
			seqs = append(seqs, []Call{a, b})
		}
	}

	var progs []instProg

	for si, su := range setups {
		for _, ct := range instCtors(tier) {
			// the second instance is made while the first one is in use
			for _, s0 := range seqs {
				progs = append(progs, instProg{Setup: su, Ctor: ct, Threads: [2][]Call{s0, nil}})

				for _, c := range calls {
					progs = append(progs, instProg{Setup: su, Ctor: ct, Threads: [2][]Call{s0, {c}}})
				}
			}

			// both exist, each thread has its own: from "g1, u1 exist" only; quick: two
			// of the ways of making the second one (thorough: all but the two that
			// differ from another only in the options given), and the two-call
			// sequences of distinct calls only
			switch {
			case si > 0, ct == ctorOptsNil, ct == ctorMemFSWin:
				continue
			case tier != "thorough" && ct != ctorNew && ct != ctorMemFS:
				continue
			}

			for i, s0 := range seqs {
				for j, s1 := range seqs {
					if ct == ctorNew && j < i {
						continue // both made the same way: the program is symmetric
					}

					if !wide && (twice(s0) || twice(s1)) {
						continue
					}

					progs = append(progs, instProg{Setup: su, Ctor: ct, Pre: true, Threads: [2][]Call{s0, s1}})
				}
			}
		}
	}

	return progs
}

func twice(s []Call) bool { return len(s) == 2 && s[0] == s[1] }

// instProgRun is one execution of p under the scheduler.
type instProgRun struct {
	idms [2]*memidm.MemIdm
	sups [2][]Outcome // outcomes of the setup calls
	outs [2][]Outcome
	keep any
	res  verifrt.Result
	pts  []verifrt.PointRec
	fail string // constructor panic
}

// exec runs p once following the choice prefix. Nothing is judged here: the
// race pass uses it as it is.
func (p instProg) exec(prefix []int8) *instProgRun {
	r := &instProgRun{}
	r.idms[0] = newIdm()

	for _, c := range p.Setup {
		r.sups[0] = append(r.sups[0], execCall(r.idms[0], c))
	}

	mk := func() {
		if k, msg := fsx.Guard(func() { r.idms[1], r.keep = construct(p.Ctor) }); k != "" {
			r.fail = k + " " + msg

			return
		}

		for _, c := range p.Setup {
			r.sups[1] = append(r.sups[1], execCall(r.idms[1], c))
		}
	}

	if p.Pre {
		mk()
	}

	bodies := make([]func(), 2)

	for t := 0; t < 2; t++ {
		t := t
		r.outs[t] = make([]Outcome, len(p.Threads[t]))

		bodies[t] = func() {
			if t == 1 && !p.Pre {
				verifrt.CallPoint()
				mk()
			}

			if r.idms[t] == nil {
				return
			}

			for i, c := range p.Threads[t] {
				verifrt.CallPoint()
				r.outs[t][i] = execCall(r.idms[t], c)
			}
		}
	}

	r.res = verifrt.Run(prefix, bodies)
	r.pts = verifrt.Points()

	return r
}

// runInstancesConc: every interleaving (preemption bound 1/2) of the
// two-instance programs; each instance is judged as a sequential history.
func runInstancesConc(tier string, rep *kf.Reporter, deadline time.Time) (partResult, error) {
	verifrt.SetMode(verifrt.ModeSched)
	defer verifrt.SetMode(verifrt.ModeSeq)

	res := partResult{Name: "inst", Classes: map[string]int{}, Extra: map[string]any{}, Exhaustive: true}

	// the threads share no object: one preemption already lets the creation, or
	// any call on the other instance, fall between any two lock operations
	bound := 1
	if tier == "thorough" {
		bound = 2
	}

	progs := instPrograms(tier, false)
	execs, timedOut, minBound := 0, 0, 1<<30
	outcomeSet := map[string]bool{}
	seenSig := map[string]bool{}

	// the description of an execution is built for the first instance of a signature only
	report := func(s kf.Sig, describe func() map[string]any) {
		if k := s.String(); seenSig[k] {
			rep.Report(s, nil)
		} else {
			seenSig[k] = true
			rep.Report(s, describe())
		}
	}

	for pi, p := range progs {
		if !deadline.IsZero() && time.Now().After(deadline) {
			timedOut++

			continue
		}

		p := p

		run := func(prefix []int8) sched.Exec {
			r := p.exec(prefix)
			execs++

			describe := func() map[string]any {
				su, ts := p.strings()

				var calls []map[string]any

				for t := range p.Threads {
					for i, c := range p.Threads[t] {
						calls = append(calls, map[string]any{"thread": t, "instance": instRole(t), "call": c.String(), "outcome": r.outs[t][i].String()})
					}
				}

				d := map[string]any{
					"part": "inst-conc", "program": p.tmpl(), "first_instance": newIdmGo(), "second_instance": p.Ctor, "second_exists_before_threads": p.Pre,
					"setup_of_each_instance": su, "threads": ts, "calls": calls, "choices": sched.Choices(r.pts), "schedule": sched.FormatSchedule(r.pts),
				}

				for t, idm := range r.idms {
					if idm != nil {
						d["final_state_"+instRole(t)] = idm.VerifDump()
					}
				}

				return d
			}

			if r.fail != "" {
				report(kf.Sig{"part": "inst-conc", "kind": "constructor-panic", "second": p.class()}, describe)

				return sched.Exec{Res: r.res, Points: r.pts}
			}

			if r.res.Deadlock {
				report(kf.Sig{"part": "inst-conc", "kind": "deadlock", "second": p.class()}, describe)

				return sched.Exec{Res: r.res, Points: r.pts}
			}

			var key []string

			for t := 0; t < 2; t++ {
				idm := r.idms[t]
				if idm == nil {
					continue
				}

				// the model of this instance: setup, then the calls of its own thread in program order
				w := &instWorld{cur: -1, depth: 4}
				w.add(idm, "")

				m, e := w.models[0], w.exps[0]

				for i, c := range p.Setup {
					for _, mm := range m.Step(c, r.sups[t][i]) {
						s := viol{Phase: "call", Check: c, Args: "setup", Mis: mm, Obs: r.sups[t][i]}.sig()
						s["part"], s["on"], s["second"] = "inst-conc", instRole(t), p.class()
						report(s, describe)
					}
				}

				halted := false

				for i, c := range p.Threads[t] {
					o := r.outs[t][i]
					key = append(key, o.String())
					args := m.ArgClass(c)

					for _, mm := range m.Step(c, o) {
						s := viol{Phase: "call", Check: c, Args: args, Mis: mm, Obs: o}.sig()
						s["part"], s["on"], s["second"] = "inst-conc", instRole(t), p.class()
						report(s, describe)
					}

					if o.Err == EPanic || o.Err == EDeadlock {
						halted = true

						break
					}
				}

				if halted {
					continue
				}

				pv, _ := e.stateCheck(idm, m)

				for _, v := range pv {
					s := v.sig()
					s["part"], s["on"], s["second"] = "inst-conc", instRole(t), p.class()
					report(s, describe)
				}

				key = append(key, strings.Join(idm.VerifDump(), ";"))
			}

			outcomeSet[fmt.Sprint(pi, ":", strings.Join(key, "|"))] = true

			return sched.Exec{Res: r.res, Points: r.pts}
		}

		st := sched.Explore(run, bound, deadline, 0)
		if st.BadReplay {
			return res, fmt.Errorf("replay divergence in two-instance program %s", p.tmpl())
		}

		if st.TimedOut {
			timedOut++
		}

		b := st.BoundCompleted
		if st.Unbounded {
			b = bound
		}

		if b < minBound {
			minBound = b
		}
	}

	if minBound == 1<<30 {
		minBound = -1
	}

	if timedOut > 0 {
		res.Exhaustive = false
	}

	for _, p := range progs {
		k := "second made by its thread"
		if p.Pre {
			k = "second exists before"
		}

		res.Classes["two-instance programs, "+k+": "+p.Ctor]++
	}

	res.States = len(outcomeSet)
	res.Transitions = execs
	res.Evaluations = execs
	res.Bound = fmt.Sprintf("%d two-thread programs over two identity managers (thread t uses instance t only, 1-2 calls each; the second instance exists before, or is made by its thread while the first is in use), preemption bound %d (min completed %d), %d timed out",
		len(progs), bound, minBound, timedOut)
	res.Extra["inst_conc_programs"] = len(progs)
	res.Extra["inst_conc_schedules"] = execs
	res.Extra["inst_conc_min_bound_completed"] = minBound
	res.Assumptions = []string{
		"instances part, concurrent programs: a thread touches only its own identity manager, so each instance is judged as the sequential history of its own thread under every schedule, followed by the full state check",
	}
	res.Summary = fmt.Sprintf("inst-conc: programs=%d schedules=%d min-bound=%d timed-out=%d", len(progs), execs, minBound, timedOut)

	return res, nil
}
