package main

import (
	"fmt"
	"sort"
	"strings"
)

// Reference model of the identity manager for property C15.
//
// State: the live groups and users by name, plus every id ever handed out and
// the name that received it. The property fixes *relations* between ids
// (unique, stable for a live name, never given to a different name, a user's
// gid is its group's gid at AddUser time), not their numeric values, so the
// model does not predict numbers: Step takes the observed outcome, checks it
// against the state, and records the ids it carries. That is also the shape a
// linearizability checker needs: Step(state, input, output) -> ok, state'.

type urec struct{ Uid, Gid int }

// Model is the two-map reference model.
type Model struct {
	AdminG, AdminU string
	Groups         map[string]int  // live groups: name -> gid
	Users          map[string]urec // live users: name -> uid, gid
	EverG, EverU   map[int]string  // id ever handed out -> name that received it
}

// NewModel returns the initial state: administrator group and user, id 0.
func NewModel(adminG, adminU string) *Model {
	return &Model{
		AdminG: adminG, AdminU: adminU,
		Groups: map[string]int{adminG: 0}, Users: map[string]urec{adminU: {0, 0}},
		EverG: map[int]string{0: adminG}, EverU: map[int]string{0: adminU},
	}
}

// Clone returns an independent copy.
func (m *Model) Clone() *Model {
	c := NewModel(m.AdminG, m.AdminU)
	c.Groups, c.Users = map[string]int{}, map[string]urec{}

	for k, v := range m.Groups {
		c.Groups[k] = v
	}

	for k, v := range m.Users {
		c.Users[k] = v
	}

	for k, v := range m.EverG {
		c.EverG[k] = v
	}

	for k, v := range m.EverU {
		c.EverU[k] = v
	}

	return c
}

// Key is the canonical form of the state.
func (m *Model) Key() string {
	var l []string

	for n, g := range m.Groups {
		l = append(l, fmt.Sprintf("g %s=%d", n, g))
	}

	for n, u := range m.Users {
		l = append(l, fmt.Sprintf("u %s=%d/%d", n, u.Uid, u.Gid))
	}

	for i, n := range m.EverG {
		l = append(l, fmt.Sprintf("eg %d=%s", i, n))
	}

	for i, n := range m.EverU {
		l = append(l, fmt.Sprintf("eu %d=%s", i, n))
	}

	sort.Strings(l)

	return strings.Join(l, "\n")
}

func (m *Model) groupById(gid int) (string, bool) {
	name, ok := "", false

	for n, g := range m.Groups {
		if g == gid && (!ok || n < name) {
			name, ok = n, true
		}
	}

	return name, ok
}

func (m *Model) userById(uid int) (string, bool) {
	name, ok := "", false

	for n, u := range m.Users {
		if u.Uid == uid && (!ok || n < name) {
			name, ok = n, true
		}
	}

	return name, ok
}

// Mismatch is one disagreement between an observed outcome and the model.
// Structural mismatches mean the live sets of model and implementation have
// diverged (futures are meaningless); the others concern an attribute only.
type Mismatch struct {
	Kind       string            `json:"kind"`
	Want       string            `json:"want"`
	Got        string            `json:"got"`
	Structural bool              `json:"structural"`
	Extra      map[string]string `json:"extra,omitempty"` // further signature fields
}

const anyError = "error(any type)"

func outcomeMismatch(want string, o Outcome) []Mismatch {
	return []Mismatch{{Kind: "outcome", Want: want, Got: o.Err, Structural: true}}
}

// Step checks the outcome o of call c against the state and applies the call.
// No mismatch = the outcome is one the property allows in this state.
func (m *Model) Step(c Call, o Outcome) []Mismatch {
	switch c.M {
	case "AddGroup":
		if _, live := m.Groups[c.A]; live {
			return wantErr(EExistsGroup, o)
		}

		bad := wantVal(o, c.A)
		if o.Err == EOk && o.Val {
			bad = append(bad, m.freshID("gid", o.Gid, c.A, m.EverG, func(id int) (string, bool) { return m.groupById(id) })...)
			m.Groups[c.A], m.EverG[o.Gid] = o.Gid, c.A
		}

		return bad
	case "AddUser":
		gid, glive := m.Groups[c.B]
		_, ulive := m.Users[c.A]

		switch {
		case !glive: // "AddUser fails for an unknown group": the type is not documented for AddUser
			if !o.isErr() {
				return outcomeMismatch(anyError, o)
			}

			return nil
		case ulive:
			return wantErr(EExistsUser, o)
		}

		bad := wantVal(o, c.A)
		if o.Err == EOk && o.Val {
			bad = append(bad, m.freshID("uid", o.Uid, c.A, m.EverU, func(id int) (string, bool) { return m.userById(id) })...)
			if o.Gid != gid {
				bad = append(bad, Mismatch{Kind: "user-gid", Want: "gid of the named group", Got: "another gid", Structural: true})
			}

			bad = append(bad, adminCheck(o)...)
			m.Users[c.A], m.EverU[o.Uid] = urec{o.Uid, o.Gid}, c.A
		}

		return bad
	case "DelGroup":
		gid, live := m.Groups[c.A]
		if !live {
			return wantErr(EUnknownGroup, o)
		}

		if c.A == m.AdminG && gid == 0 && o.isErr() {
			return nil // the property does not say whether the administrator group can be deleted
		}

		if o.Err != EOk {
			return outcomeMismatch(EOk, o)
		}

		delete(m.Groups, c.A)

		return nil
	case "DelUser":
		u, live := m.Users[c.A]
		if !live {
			return wantErr(EUnknownUser, o)
		}

		if c.A == m.AdminU && u.Uid == 0 && o.isErr() {
			return nil // same for the administrator user
		}

		if o.Err != EOk {
			return outcomeMismatch(EOk, o)
		}

		delete(m.Users, c.A)

		return nil
	case "LookupGroup":
		gid, live := m.Groups[c.A]
		if !live {
			return wantErr(EUnknownGroup, o)
		}

		return append(wantVal(o, c.A), sameID(o, "gid", o.Gid, gid)...)
	case "LookupGroupId":
		name, live := m.groupById(c.ID)
		if !live {
			return wantErr(EUnknownGid, o)
		}

		return append(wantVal(o, name), sameID(o, "gid", o.Gid, c.ID)...)
	case "LookupUser":
		u, live := m.Users[c.A]
		if !live {
			return wantErr(EUnknownUser, o)
		}

		return m.userVal(o, c.A, u)
	case "LookupUserId":
		name, live := m.userById(c.ID)
		if !live {
			return wantErr(EUnknownUid, o)
		}

		return m.userVal(o, name, m.Users[name])
	case "AdminUser", "AdminGroup":
		return m.accessor(c, o)
	}

	panic("c15 harness: unknown call " + c.M)
}

// accessor judges the accessors of the identity manager the statement names.
//
// General lesson: the lookups are not the only way a value leaves the object.
// An accessor that answers "which entry is the administrator" has a model
// answer in EVERY state, like a lookup, and it is a constant of the instance:
// the built-in entries with id 0 and the administrator names of the OS type,
// whatever has since been deleted, or added again, under those names (a name
// is not an identity: the entry now registered under the administrator's name
// may be an ordinary one with a fresh id). An accessor that is asked only on
// the fresh object is never asked in the states where its answer could have
// drifted, so the state check asks it in every state, and the derived
// predicate (IsAdmin) is judged on the value it returns like on any other user
// value. The accessors change nothing: no state update.
func (m *Model) accessor(c Call, o Outcome) []Mismatch {
	if o.Err != EOk {
		return outcomeMismatch("returns", o)
	}

	name := m.AdminG
	if c.M == "AdminUser" {
		name = m.AdminU
	}

	if bad := wantVal(o, name); bad != nil {
		return bad
	}

	var bad []Mismatch

	id := o.Gid
	if c.M == "AdminUser" {
		id = o.Uid
	}

	if id != 0 {
		bad = append(bad, Mismatch{Kind: "admin-identity", Want: "the built-in entry with id 0", Got: "an entry with another id"})
	}

	if c.M == "AdminUser" {
		if o.Gid != 0 {
			bad = append(bad, Mismatch{Kind: "admin-identity", Want: "a user whose primary group is the group with id 0", Got: "a user of another group"})
		}

		// exactly when: IsAdmin <=> uid 0 on this value too, hence true for the right one
		bad = append(bad, adminCheck(o)...)
	}

	return bad
}

func wantErr(class string, o Outcome) []Mismatch {
	if o.Err != class {
		return outcomeMismatch(class, o)
	}

	return nil
}

// wantVal: success with a non-nil value carrying the expected name.
func wantVal(o Outcome, name string) []Mismatch {
	switch {
	case o.Err != EOk:
		return outcomeMismatch(EOk, o)
	case !o.Val:
		return []Mismatch{{Kind: "nil-value", Want: "value", Got: "nil", Structural: true}}
	case o.Name != name:
		return []Mismatch{{Kind: "value-name", Want: "the name of the entry the model holds", Got: "another name", Structural: true}}
	}

	return nil
}

func sameID(o Outcome, what string, got, want int) []Mismatch {
	if o.Err == EOk && o.Val && got != want {
		return []Mismatch{{Kind: "value-" + what, Want: "the id handed out at creation", Got: "another id", Structural: true}}
	}

	return nil
}

func (m *Model) userVal(o Outcome, name string, u urec) []Mismatch {
	bad := wantVal(o, name)
	bad = append(bad, sameID(o, "uid", o.Uid, u.Uid)...)
	bad = append(bad, sameID(o, "gid", o.Gid, u.Gid)...)

	if o.Err == EOk && o.Val {
		bad = append(bad, adminCheck(o)...)
	}

	return bad
}

// adminCheck: "a user is an administrator exactly when it is that user", the
// administrator user being the one with id 0 (ids are unique).
func adminCheck(o Outcome) []Mismatch {
	if want := o.Uid == 0; o.Admin != want {
		return []Mismatch{{
			Kind: "isadmin-mismatch", Want: fmt.Sprint(want), Got: fmt.Sprint(o.Admin),
			Extra: map[string]string{"uid": zeroClass(o.Uid), "gid": zeroClass(o.Gid)},
		}}
	}

	return nil
}

func zeroClass(i int) string {
	if i == 0 {
		return "zero"
	}

	return "nonzero"
}

// freshID checks the id of a newly created entry: not the id of another live
// entry, and never handed out to a different name before.
func (m *Model) freshID(what string, id int, name string, ever map[int]string, byID func(int) (string, bool)) []Mismatch {
	var bad []Mismatch

	if n, live := byID(id); live && n != name {
		bad = append(bad, Mismatch{Kind: what + "-not-unique", Want: "id of no other live entry", Got: "id of a live entry", Structural: true})
	} else if prev, used := ever[id]; used && prev != name {
		bad = append(bad, Mismatch{Kind: what + "-reassigned", Want: "id never handed out to another name", Got: "id handed out before to another name", Structural: true})
	}

	return bad
}

// Operand classes (of the state before the call), used in signatures.

func (m *Model) groupClass(n string) string {
	gid, live := m.Groups[n]

	switch {
	case n == m.AdminG && live && gid == 0:
		return "admin"
	case n == m.AdminG && live:
		return "admin-name/readded"
	case n == m.AdminG:
		return "admin-name/absent"
	case live:
		return "live"
	}

	return "absent"
}

func (m *Model) userClass(n string) string {
	u, live := m.Users[n]
	gid0 := ""

	if live && u.Uid != 0 && u.Gid == 0 {
		gid0 = "/gid0"
	}

	switch {
	case n == m.AdminU && live && u.Uid == 0:
		return "admin"
	case n == m.AdminU && live:
		return "admin-name/readded" + gid0
	case n == m.AdminU:
		return "admin-name/absent"
	case live:
		return "live" + gid0
	}

	return "absent"
}

func idClass(id int, liveName string, live bool, adminName string, ever map[int]string) string {
	_, used := ever[id]

	switch {
	case live && id == 0 && liveName == adminName:
		return "admin"
	case live:
		return "live"
	case used:
		return "retired"
	}

	return "never"
}

// ArgClass describes the operands of c in the current state.
func (m *Model) ArgClass(c Call) string {
	switch c.M {
	case "AddGroup", "DelGroup", "LookupGroup":
		return "group=" + m.groupClass(c.A)
	case "AddUser":
		return "user=" + m.userClass(c.A) + ",group=" + m.groupClass(c.B)
	case "DelUser", "LookupUser":
		return "user=" + m.userClass(c.A)
	case "LookupGroupId":
		n, live := m.groupById(c.ID)

		return "id=" + idClass(c.ID, n, live, m.AdminG, m.EverG)
	case "LookupUserId":
		n, live := m.userById(c.ID)
		cl := idClass(c.ID, n, live, m.AdminU, m.EverU)

		if live && c.ID != 0 && m.Users[n].Gid == 0 {
			cl += "/gid0"
		}

		return "id=" + cl
	case "AdminUser": // what is registered under the administrator's name now
		return "user=" + m.userClass(m.AdminU)
	case "AdminGroup":
		return "group=" + m.groupClass(m.AdminG)
	}

	return ""
}
