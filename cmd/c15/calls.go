package main

import (
	"errors"
	"fmt"
	"strconv"

	"github.com/avfs/avfs"

	"verif/lib/fsx"
)

// Call is one call of the identity manager API (serialisable).
type Call struct {
	M  string `json:"m"`           // AddGroup AddUser DelUser DelGroup LookupGroup LookupGroupId LookupUser LookupUserId; accessors: AdminUser AdminGroup
	A  string `json:"a,omitempty"` // group name (group calls) or user name (user calls)
	B  string `json:"b,omitempty"` // primary group name of AddUser
	ID int    `json:"id"`          // id of LookupGroupId / LookupUserId
}

func (c Call) String() string {
	switch c.M {
	case "AddUser":
		return fmt.Sprintf("AddUser(%q,%q)", c.A, c.B)
	case "LookupGroupId", "LookupUserId":
		return fmt.Sprintf("%s(%d)", c.M, c.ID)
	case "AdminUser", "AdminGroup":
		return c.M + "()"
	}

	return fmt.Sprintf("%s(%q)", c.M, c.A)
}

// goStmt renders the call as a Go statement on a variable idm.
func (c Call) goStmt(observe bool) string {
	var call string

	switch c.M {
	case "AddUser":
		call = fmt.Sprintf("idm.AddUser(%q, %q)", c.A, c.B)
	case "LookupGroupId", "LookupUserId":
		call = fmt.Sprintf("idm.%s(%d)", c.M, c.ID)
	case "AdminUser":
		if observe {
			return "u := idm.AdminUser()\n\tt.Logf(\"name=%s uid=%d gid=%d IsAdmin=%v\", u.Name(), u.Uid(), u.Gid(), u.IsAdmin())"
		}

		return "_ = idm.AdminUser()"
	case "AdminGroup":
		if observe {
			return "g := idm.AdminGroup()\n\tt.Logf(\"name=%s gid=%d\", g.Name(), g.Gid())"
		}

		return "_ = idm.AdminGroup()"
	default:
		call = fmt.Sprintf("idm.%s(%q)", c.M, c.A)
	}

	switch c.M {
	case "DelUser", "DelGroup":
		if observe {
			return "err := " + call + "\n\tt.Logf(\"%T %v\", err, err)"
		}

		return "_ = " + call
	case "AddUser", "LookupUser", "LookupUserId":
		if observe {
			return "u, err := " + call + "\n\tt.Logf(\"%T %v\", err, err)\n\tif err == nil {\n\t\tt.Logf(\"name=%s uid=%d gid=%d IsAdmin=%v\", u.Name(), u.Uid(), u.Gid(), u.IsAdmin())\n\t}"
		}
	default:
		if observe {
			return "g, err := " + call + "\n\tt.Logf(\"%T %v\", err, err)\n\tif err == nil {\n\t\tt.Logf(\"name=%s gid=%d\", g.Name(), g.Gid())\n\t}"
		}
	}

	return "_, _ = " + call
}

// Error classes (the documented error *types*; values are not compared).
const (
	EOk           = "ok"
	EExistsGroup  = "AlreadyExistsGroupError"
	EExistsUser   = "AlreadyExistsUserError"
	EUnknownGroup = "UnknownGroupError"
	EUnknownUser  = "UnknownUserError"
	EUnknownGid   = "UnknownGroupIdError"
	EUnknownUid   = "UnknownUserIdError"
	EPanic        = "PANIC"
	EDeadlock     = "DEADLOCK"
)

// errClass classifies an error by its documented type (errors.As, so that a
// wrapped error of the documented type is accepted as well).
func errClass(err error) string {
	if err == nil {
		return EOk
	}

	var (
		e1 avfs.AlreadyExistsGroupError
		e2 avfs.AlreadyExistsUserError
		e3 avfs.UnknownGroupError
		e4 avfs.UnknownUserError
		e5 avfs.UnknownGroupIdError
		e6 avfs.UnknownUserIdError
	)

	switch {
	case errors.As(err, &e1):
		return EExistsGroup
	case errors.As(err, &e2):
		return EExistsUser
	case errors.As(err, &e3):
		return EUnknownGroup
	case errors.As(err, &e4):
		return EUnknownUser
	case errors.As(err, &e5):
		return EUnknownGid
	case errors.As(err, &e6):
		return EUnknownUid
	}

	return fmt.Sprintf("other:%T", err)
}

// Outcome is what a call returned.
type Outcome struct {
	Err   string `json:"err"`           // error class, PANIC or DEADLOCK
	Msg   string `json:"msg,omitempty"` // error / panic text (never part of a signature)
	Val   bool   `json:"val"`           // a non-nil user or group was returned
	Name  string `json:"name,omitempty"`
	Uid   int    `json:"uid"`
	Gid   int    `json:"gid"`
	Admin bool   `json:"is_admin"`
}

func (o Outcome) isErr() bool { return o.Err != EOk && o.Err != EPanic && o.Err != EDeadlock }

func (o Outcome) String() string {
	if o.Err != EOk {
		return o.Err
	}

	if !o.Val {
		return "ok"
	}

	if o.Uid < 0 {
		return "ok name=" + o.Name + " gid=" + strconv.Itoa(o.Gid)
	}

	return "ok name=" + o.Name + " uid=" + strconv.Itoa(o.Uid) + " gid=" + strconv.Itoa(o.Gid) + " admin=" + strconv.FormatBool(o.Admin)
}

// execCall applies c to idm. Panics and decided self-deadlocks are outcomes.
// For groups Uid is -1.
func execCall(idm avfs.IdentityMgr, c Call) (o Outcome) {
	kind, msg := fsx.Guard(func() {
		var (
			u   avfs.UserReader
			g   avfs.GroupReader
			err error
		)

		switch c.M {
		case "AddGroup":
			g, err = idm.AddGroup(c.A)
		case "AddUser":
			u, err = idm.AddUser(c.A, c.B)
		case "DelGroup":
			err = idm.DelGroup(c.A)
		case "DelUser":
			err = idm.DelUser(c.A)
		case "LookupGroup":
			g, err = idm.LookupGroup(c.A)
		case "LookupGroupId":
			g, err = idm.LookupGroupId(c.ID)
		case "LookupUser":
			u, err = idm.LookupUser(c.A)
		case "LookupUserId":
			u, err = idm.LookupUserId(c.ID)
		case "AdminUser":
			u = idm.AdminUser()
		case "AdminGroup":
			g = idm.AdminGroup()
		default:
			panic("c15 harness: unknown call " + c.M)
		}

		o.Err = errClass(err)
		if err != nil {
			o.Msg = err.Error()

			return
		}

		if u != nil {
			o.Val, o.Name, o.Uid, o.Gid, o.Admin = true, u.Name(), u.Uid(), u.Gid(), u.IsAdmin()
		}

		if g != nil {
			o.Val, o.Name, o.Uid, o.Gid = true, g.Name(), -1, g.Gid()
		}
	})
	if kind != "" {
		return Outcome{Err: kind, Msg: msg}
	}

	return o
}

// alphabet builds the call alphabet over the name pools and id range.
func alphabet(groups, users []string, ids []int) []Call {
	var ops []Call

	for _, g := range groups {
		ops = append(ops, Call{M: "AddGroup", A: g})
	}

	for _, u := range users {
		for _, g := range groups {
			ops = append(ops, Call{M: "AddUser", A: u, B: g})
		}
	}

	for _, u := range users {
		ops = append(ops, Call{M: "DelUser", A: u})
	}

	for _, g := range groups {
		ops = append(ops, Call{M: "DelGroup", A: g})
	}

	for _, g := range groups {
		ops = append(ops, Call{M: "LookupGroup", A: g})
	}

	for _, i := range ids {
		ops = append(ops, Call{M: "LookupGroupId", ID: i})
	}

	for _, u := range users {
		ops = append(ops, Call{M: "LookupUser", A: u})
	}

	for _, i := range ids {
		ops = append(ops, Call{M: "LookupUserId", ID: i})
	}

	return ops
}
