// c15: the in-memory identity manager stays consistent.
//
// Sequential part (seq.go, model.go): explicit-state model checking — every
// history of AddGroup/AddUser/DelUser/DelGroup/Lookup* calls up to a depth
// bound over a small alphabet of names (including the administrator's) and
// ids is executed on the real memidm.MemIdm, breadth-first with state
// deduplication, and compared call by call and state by state with a two-map
// reference model. Concurrent part (concurrent.go): interleavings under the
// controlled scheduler, linearizability against the same model.
package main

import (
	"encoding/json"
	"flag"
	"fmt"
	"github.com/avfs/avfs"
	"os"
	"path/filepath"
	"sort"
	"strconv"
	"time"

	"github.com/avfs/avfs/verifrt"

	"verif/lib/ev"
	"verif/lib/kf"
)

func harness(format string, a ...any) {
	fmt.Fprintf(os.Stderr, "c15: harness error: "+format+"\n", a...)
	os.Exit(2)
}

func main() {
	id := flag.String("id", "C15", "property id")
	tier := flag.String("tier", "quick", "quick|thorough")
	depthFlag := flag.Int("depth", 0, "history depth bound of the sequential part (0: 5 quick / 7 thorough)")
	replay := flag.String("replay", "", "re-execute the sequential history of a replay file and print what the oracle says")
	racepass := flag.String("racepass", "", "internal: run the race pass (needs a -race build) and write its result to this file")
	flag.Parse()

	if *racepass != "" {
		os.Exit(racePass(*tier, *racepass))
	}

	verifDir := os.Getenv("VERIF_DIR")
	if verifDir == "" {
		verifDir = "/verif"
	}

	if *replay != "" {
		os.Exit(runReplay(*replay))
	}

	depth := *depthFlag
	if depth <= 0 {
		depth = 5
		if *tier == "thorough" {
			depth = 7
		}
	}

	var deadline time.Time

	budget := 0
	if b, err := strconv.Atoi(os.Getenv("VERIF_BUDGET_S")); err == nil && b > 0 {
		budget = b
		deadline = time.Now().Add(time.Duration(b) * time.Second)
	}

	rep, err := kf.NewReporter(*id, filepath.Join(verifDir, "known_findings.txt"), filepath.Join(verifDir, "replays"))
	if err != nil {
		harness("known findings: %v", err)
	}

	rep.Discover = os.Getenv("VERIF_DISCOVER") != ""

	// the instances part gets at most 20% of a budget, it and the sequential part
	// together at most 60%, the rest is the concurrent part's
	seqDeadline, instDeadline := deadline, deadline
	if budget > 0 {
		seqDeadline = time.Now().Add(time.Duration(budget) * 600 * time.Millisecond)
		instDeadline = time.Now().Add(time.Duration(budget) * 200 * time.Millisecond)
	}

	// histories over several live identity managers, in one goroutine, before
	// anything is replayed on parallel workers (see inst.go)
	inst, err := runInstances(*tier, rep, instDeadline)
	if err != nil {
		harness("instances part: %v", err)
	}

	if rep.Total > 0 {
		seqWorkers = 1 // instances are not known to be independent of each other: no parallel replay
	}

	seq, err := runSequential(*tier, depth, rep, seqDeadline)
	if err != nil {
		harness("sequential part: %v", err)
	}

	// the same histories on an identity manager emulating Windows (other names
	// for the administrator user and group); needs the avfs_setostype build
	if avfs.BuildFeatures()&avfs.FeatSetOSType != 0 {
		idmOS = avfs.OsWindows

		if g, _ := adminNames(); g == "root" {
			harness("the Windows-typed MemIdm still uses the Linux names: SetOSType is not effective in this build")
		}

		wseq, err := runSequential(*tier, depth, rep, seqDeadline)
		if err != nil {
			harness("sequential part (Windows names): %v", err)
		}

		idmOS = avfs.OsLinux

		for c, n := range wseq.Classes {
			seq.Classes["windows: "+c] += n
		}

		seq.States += wseq.States
		seq.Transitions += wseq.Transitions
		seq.Evaluations += wseq.Evaluations
		seq.Exhaustive = seq.Exhaustive && wseq.Exhaustive
		seq.Bound += " (Linux names and Windows names)"
		seq.Extra["seq_windows_pass"] = map[string]any{"states": wseq.States, "transitions": wseq.Transitions, "exhaustive": wseq.Exhaustive}
	} else {
		seq.Extra["seq_windows_pass"] = "not run: the build lacks the avfs_setostype tag"
	}

	conc, err := runConcurrent(*tier, rep, deadline)
	if err != nil {
		harness("concurrent part: %v", err)
	}

	race, err := runRace(*tier, rep, deadline)
	if err != nil {
		harness("race part: %v", err)
	}

	// evidence: all parts combined, written once
	classes := map[string]bool{}
	cov := map[string]any{}

	var (
		samples     []any
		assumptions []string
	)

	for _, p := range []partResult{inst, seq, conc, race} {
		for c := range p.Classes {
			classes[p.Name+": "+c] = true
		}

		for _, s := range p.Samples {
			samples = append(samples, map[string]any{"part": p.Name, "case": s})
		}

		for k, v := range p.Extra {
			cov[k] = v
		}

		assumptions = append(assumptions, p.Assumptions...)
	}

	var cl []string
	for c := range classes {
		cl = append(cl, c)
	}

	sort.Strings(cl)

	known := rep.KnownMatched()
	if known == nil {
		known = []string{}
	}

	cov["states"] = inst.States + seq.States + conc.States
	cov["transitions"] = inst.Transitions + seq.Transitions + conc.Transitions + race.Transitions
	cov["traces_validated_against_impl"] = inst.Transitions + seq.Transitions + conc.Transitions + race.Transitions
	cov["evaluations"] = inst.Evaluations + seq.Evaluations + conc.Evaluations + race.Evaluations
	cov["seq_workers"] = seqWorkers
	cov["distinct_nontrivial"] = len(cl)
	cov["rule"] = "seq: every history up to the bound over the call alphabet is executed on a fresh real MemIdm (one transition = one replayed history + one call + the full state check, which asks every name, every id in range and the accessors AdminUser/AdminGroup; evaluations = transitions + the lookups of the state checks, i.e. every real call whose outcome was compared with the model); " +
		"a case class is (method, class of each operand in the model state before the call: admin / admin-name readded / absent / live / live with gid 0 / retired id / never used id, error type returned); " +
		"inst: the same on histories whose letters address one of several live identity managers or create another one; every instance is checked after every letter (one transition = one replayed history + one letter + the full state check of every instance); " +
		"distinct_nontrivial counts the distinct classes observed, listed in outcome_classes"
	cov["outcome_classes"] = cl
	cov["samples"] = samples
	cov["exhaustive"] = inst.Exhaustive && seq.Exhaustive && conc.Exhaustive && race.Exhaustive
	cov["bound"] = "inst: " + inst.Bound + "; seq: " + seq.Bound + "; conc: " + conc.Bound + "; race: " + race.Bound
	cov["known_findings_matched"] = known
	cov["violating_instances"] = rep.Total
	cov["budget_s"] = budget

	code := rep.Finish()

	if err := ev.Write(filepath.Join(verifDir, "evidence", *id+".json"), ev.Evidence{
		PropertyID: *id, Tier: *tier, Seed: ev.Seed(), Level: "model_checking",
		Coverage: cov, Assumptions: assumptions, Violations: rep.NewCount(),
	}); err != nil {
		harness("evidence: %v", err)
	}

	fmt.Printf("%s %s: %s; %s; %d outcome classes; known findings matched %v; new violation signatures %d; exhaustive=%v; %.1fs\n",
		*id, *tier, inst.Summary+"; "+seq.Summary, conc.Summary+"; "+race.Summary, len(cl), known, rep.NewCount(), cov["exhaustive"], ev.Elapsed())

	os.Exit(code)
}

// runReplay re-executes the history of a sequential replay file with the
// oracle on and prints every mismatch. Exit 1 if the recorded signature shows
// up again, 0 if not, 2 if the file is unusable.
func runReplay(path string) int {
	b, err := os.ReadFile(path)
	if err != nil {
		fmt.Fprintln(os.Stderr, "c15: replay:", err)

		return 2
	}

	var f struct {
		Signature kf.Sig `json:"signature"`
		Replay    struct {
			Part   string      `json:"part"`
			Ops    []Call      `json:"ops"`
			Events []instEvent `json:"events"`
		} `json:"replay"`
	}

	if err := json.Unmarshal(b, &f); err != nil || (f.Replay.Part != "seq" && f.Replay.Part != "inst") {
		fmt.Fprintln(os.Stderr, "c15: replay: not a sequential C15 replay file:", err)

		return 2
	}

	verifrt.SetMode(verifrt.ModeSeq)

	if f.Replay.Part == "inst" {
		return instRunReplay(f.Replay.Events, f.Signature)
	}

	e, err := newExplorer(len(f.Replay.Ops))
	if err != nil {
		fmt.Fprintln(os.Stderr, "c15: replay:", err)

		return 2
	}

	idm := newIdm()
	m := NewModel(e.adminG, e.adminU)
	hit := false

	show := func(vs []viol) {
		for _, v := range vs {
			s := v.sig()
			fmt.Printf("  MISMATCH %s observed=%s\n", s, v.Obs)

			if s.String() == f.Signature.String() {
				hit = true
			}
		}
	}

	show(e.initialCheck(idm))

	pv, _ := e.stateCheck(idm, m)
	show(pv)

	for _, c := range f.Replay.Ops {
		args := m.ArgClass(c)
		o := execCall(idm, c)
		fmt.Printf("%s [%s] -> %s\n", c, args, o)

		var vs []viol
		for _, mm := range m.Step(c, o) {
			vs = append(vs, viol{Phase: "call", Check: c, Args: args, Mis: mm, Obs: o})
		}

		show(vs)

		if o.Err == EPanic || o.Err == EDeadlock {
			break
		}

		pv, _ := e.stateCheck(idm, m)
		show(pv)
	}

	if hit {
		fmt.Printf("REPRODUCED %s\n", f.Signature)

		return 1
	}

	fmt.Println("not reproduced")

	return 0
}
