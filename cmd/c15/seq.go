package main

import (
	"crypto/sha256"
	"fmt"
	"math"
	"regexp"
	"runtime"
	"sort"
	"strings"
	"sync"
	"sync/atomic"
	"time"

	"github.com/avfs/avfs"
	"github.com/avfs/avfs/idm/memidm"
	"github.com/avfs/avfs/verifrt"

	"verif/lib/fsx"
	"verif/lib/kf"
)

// partResult is what one part (sequential, concurrent) contributes to the
// evidence written by main.
type partResult struct {
	Name        string
	States      int
	Transitions int // = traces validated against the implementation
	Evaluations int
	Classes     map[string]int // distinct (call kind, operand class, outcome class) -> instances
	Samples     []any
	Exhaustive  bool
	Bound       string
	Extra       map[string]any
	Assumptions []string
	Summary     string
}

type stateKey [16]byte

// viol is one oracle failure on a transition (result of the call itself, or
// the state check that follows it).
type viol struct {
	Phase string // "call" | "post"
	Check Call   // the call whose outcome is wrong (post: the lookup of the state check)
	Args  string // operand class of Check
	Mis   Mismatch
	Obs   Outcome
}

func (v viol) sig() kf.Sig {
	call := v.Check.M
	if v.Phase == "post" {
		call = "post:" + call
	}

	s := kf.Sig{"part": "seq", "call": call, "args": v.Args, "kind": v.Mis.Kind, "want": v.Mis.Want, "got": v.Mis.Got}
	for k, x := range v.Mis.Extra {
		s[k] = x
	}

	return s
}

type trans struct {
	key        stateKey
	structural bool
	class      string
	viols      []viol
	lookups    int
	harness    string
}

type explorer struct {
	adminG, adminU string
	groups, users  []string
	opIDs, chkIDs  []int
	ops            []Call
}

func newExplorer(depth int) (*explorer, error) {
	e := &explorer{}

	k, msg := fsx.Guard(func() {
		idm := newIdm()
		e.adminU = avfs.AdminUserName(idm.OSType())
		e.adminG = idm.AdminGroup().Name()
	})
	if k != "" {
		return nil, fmt.Errorf("memidm.New / AdminGroup: %s %s", k, msg)
	}

	e.groups = []string{e.adminG, "g1", "g2"}
	e.users = []string{e.adminU, "u1", "u2"}
	e.opIDs = []int{0, 1000, 1001, 1002, 1003, 1004}
	e.chkIDs = []int{0}

	for i := 1000; i <= 1000+depth+1; i++ {
		e.chkIDs = append(e.chkIDs, i)
	}

	// ids far from every id ever handed out, congruent to live ones modulo the
	// widths an implementation may narrow an id to (16 and 32 bits), and the ends
	// of the range: an id is an int, a lookup by id must answer for exactly that int
	e.chkIDs = append(e.chkIDs, -1, 1<<16, 1<<16+1001, 1<<32, 1<<32+1001, -(1 << 32), 1001-(1<<32), math.MaxInt64, math.MinInt64)

	e.ops = alphabet(e.groups, e.users, e.opIDs)
	if len(e.ops) > 250 {
		return nil, fmt.Errorf("alphabet too large")
	}

	return e, nil
}

func keyOf(m *Model, idm *memidm.MemIdm) stateKey {
	h := sha256.Sum256([]byte(m.Key() + "\n--\n" + strings.Join(idm.VerifDump(), "\n")))

	var k stateKey

	copy(k[:], h[:16])

	return k
}

// replay runs hist on a fresh MemIdm and a fresh model.
func (e *explorer) replay(hist []uint8) (*memidm.MemIdm, *Model) {
	idm := newIdm()
	m := NewModel(e.adminG, e.adminU)

	for _, h := range hist {
		c := e.ops[h]
		m.Step(c, execCall(idm, c))
	}

	return idm, m
}

var (
	reDigits = regexp.MustCompile(`[0-9]+`)
	reQuoted = regexp.MustCompile(`(group|user) [^ ]+ `)
)

// stateCheck is the oracle on a reached state: every name of the pools and
// every id in range is looked up; results must equal the model's live sets,
// by-name and by-id lookups must agree with each other, ids and names must be
// unique among live entries; the internal maps must agree (VerifCheck) and
// hold exactly the model's entries (VerifDump).
func (e *explorer) stateCheck(idm *memidm.MemIdm, m *Model) (vs []viol, lookups int) {
	look := func(c Call) Outcome {
		args := m.ArgClass(c)
		o := execCall(idm, c)
		lookups++

		for _, mm := range m.Step(c, o) {
			vs = append(vs, viol{Phase: "post", Check: c, Args: args, Mis: mm, Obs: o})
		}

		return o
	}

	cross := func(c Call, o Outcome, kind, want, got string) {
		vs = append(vs, viol{Phase: "post", Check: c, Args: m.ArgClass(c), Obs: o,
			Mis: Mismatch{Kind: kind, Want: want, Got: got, Structural: true}})
	}

	// groups
	ids := append([]int(nil), e.chkIDs...)
	inIDs := map[int]bool{}

	for _, i := range ids {
		inIDs[i] = true
	}

	byName := map[string]Outcome{}
	idOwner := map[int]string{}

	for _, n := range e.groups {
		c := Call{M: "LookupGroup", A: n}
		o := look(c)
		byName[n] = o

		if o.Err == EOk && o.Val {
			if prev, dup := idOwner[o.Gid]; dup {
				cross(c, o, "gid-not-unique", "distinct ids for "+"distinct live names", "same id as "+m.groupClass(prev)+" group")
			}

			idOwner[o.Gid] = n

			if !inIDs[o.Gid] {
				ids, inIDs[o.Gid] = append(ids, o.Gid), true
			}
		}
	}

	nameOwner := map[string]int{}

	for _, i := range ids {
		c := Call{M: "LookupGroupId", ID: i}
		o := look(c)

		if o.Err == EOk && o.Val {
			if _, dup := nameOwner[o.Name]; dup {
				cross(c, o, "group-name-not-unique", "distinct names for distinct live ids", "same name under two ids")
			}

			nameOwner[o.Name] = i

			bn, known := byName[o.Name]
			if !known {
				bn = execCall(idm, Call{M: "LookupGroup", A: o.Name})
				lookups++
			}

			if bn.Err != EOk || !bn.Val || bn.Gid != o.Gid || o.Gid != i {
				cross(c, o, "byid-byname-disagree", "by-name lookup of the returned name gives this id", "by-name: "+bn.Err)
			}
		}
	}

	for _, n := range e.groups {
		if o := byName[n]; o.Err == EOk && o.Val {
			c := Call{M: "LookupGroupId", ID: o.Gid}
			bi := execCall(idm, c)
			lookups++

			if bi.Err != EOk || !bi.Val || bi.Name != n || bi.Gid != o.Gid {
				cross(Call{M: "LookupGroup", A: n}, o, "byname-byid-disagree", "by-id lookup of the returned id gives this name", "by-id: "+bi.Err)
			}
		}
	}

	// users
	ids = append([]int(nil), e.chkIDs...)
	inIDs = map[int]bool{}

	for _, i := range ids {
		inIDs[i] = true
	}

	byName = map[string]Outcome{}
	idOwner = map[int]string{}

	for _, n := range e.users {
		c := Call{M: "LookupUser", A: n}
		o := look(c)
		byName[n] = o

		if o.Err == EOk && o.Val {
			if prev, dup := idOwner[o.Uid]; dup {
				cross(c, o, "uid-not-unique", "distinct ids for distinct live names", "same id as "+m.userClass(prev)+" user")
			}

			idOwner[o.Uid] = n

			if !inIDs[o.Uid] {
				ids, inIDs[o.Uid] = append(ids, o.Uid), true
			}
		}
	}

	nameOwner = map[string]int{}

	for _, i := range ids {
		c := Call{M: "LookupUserId", ID: i}
		o := look(c)

		if o.Err == EOk && o.Val {
			if _, dup := nameOwner[o.Name]; dup {
				cross(c, o, "user-name-not-unique", "distinct names for distinct live ids", "same name under two ids")
			}

			nameOwner[o.Name] = i

			bn, known := byName[o.Name]
			if !known {
				bn = execCall(idm, Call{M: "LookupUser", A: o.Name})
				lookups++
			}

			if bn.Err != EOk || !bn.Val || bn.Uid != o.Uid || o.Uid != i || bn.Gid != o.Gid || bn.Admin != o.Admin {
				cross(c, o, "byid-byname-disagree", "by-name lookup of the returned name gives this user", "by-name: "+bn.Err)
			}
		}
	}

	for _, n := range e.users {
		if o := byName[n]; o.Err == EOk && o.Val {
			c := Call{M: "LookupUserId", ID: o.Uid}
			bi := execCall(idm, c)
			lookups++

			if bi.Err != EOk || !bi.Val || bi.Name != n || bi.Uid != o.Uid || bi.Gid != o.Gid || bi.Admin != o.Admin {
				cross(Call{M: "LookupUser", A: n}, o, "byname-byid-disagree", "by-id lookup of the returned id gives this user", "by-id: "+bi.Err)
			}
		}
	}

	// the accessors the statement names, in this state (see Model.accessor): what
	// they return is a constant of the instance and must not follow the names
	for _, c := range []Call{{M: "AdminUser"}, {M: "AdminGroup"}} {
		if o := look(c); o.Err == EPanic || o.Err == EDeadlock {
			return vs, lookups
		}
	}

	// inside view
	for _, l := range idm.VerifCheck() {
		cl := reDigits.ReplaceAllString(reQuoted.ReplaceAllString(l, "$1 X "), "N")
		vs = append(vs, viol{Phase: "post", Check: Call{M: "VerifCheck"}, Args: "-",
			Mis: Mismatch{Kind: "internal-maps", Want: "by-name and by-id maps hold the same entries", Got: cl, Structural: true}})
	}

	var want []string

	for n, g := range m.Groups {
		want = append(want, fmt.Sprintf("gn %s=%s/%d", n, n, g), fmt.Sprintf("gi %d=%s/%d", g, n, g))
	}

	for n, u := range m.Users {
		want = append(want, fmt.Sprintf("un %s=%s/%d/%d", n, n, u.Uid, u.Gid), fmt.Sprintf("ui %d=%s/%d/%d", u.Uid, n, u.Uid, u.Gid))
	}

	sort.Strings(want)

	var got []string

	for _, l := range idm.VerifDump() {
		if !strings.HasPrefix(l, "max ") {
			got = append(got, l)
		}
	}

	if strings.Join(want, "\n") != strings.Join(got, "\n") {
		d := "entries differ"

		switch {
		case len(got) > len(want):
			d = "more entries than added and not deleted"
		case len(got) < len(want):
			d = "fewer entries than added and not deleted"
		}

		vs = append(vs, viol{Phase: "post", Check: Call{M: "VerifDump"}, Args: "-",
			Mis: Mismatch{Kind: "dump-vs-model", Want: "exactly the entries added and not deleted", Got: d, Structural: true,
				Extra: map[string]string{}}, Obs: Outcome{Msg: "want:\n" + strings.Join(want, "\n") + "\ngot:\n" + strings.Join(got, "\n")}})
	}

	return vs, lookups
}

// initialCheck: the administrator user and group exist from the start.
func (e *explorer) initialCheck(idm *memidm.MemIdm) []viol {
	var vs []viol

	bad := func(call, kind, want, got string) {
		vs = append(vs, viol{Phase: "call", Check: Call{M: call}, Args: "initial",
			Mis: Mismatch{Kind: kind, Want: want, Got: got, Structural: true}})
	}

	k, msg := fsx.Guard(func() {
		u, g := idm.AdminUser(), idm.AdminGroup()

		switch {
		case u == nil:
			bad("AdminUser", "nil-value", "value", "nil")
		case u.Uid() != 0 || u.Name() != e.adminU:
			bad("AdminUser", "admin-identity", "uid 0 and the administrator name", "something else")
		case !u.IsAdmin():
			bad("AdminUser", "isadmin-mismatch", "true", "false")
		}

		switch {
		case g == nil:
			bad("AdminGroup", "nil-value", "value", "nil")
		case g.Gid() != 0 || g.Name() != e.adminG:
			bad("AdminGroup", "admin-identity", "gid 0 and the administrator group name", "something else")
		}
	})
	if k != "" {
		bad("AdminUser", "outcome", "returns", k)
		_ = msg
	}

	return vs
}

// step computes one transition: replay hist on a fresh instance, apply op,
// run the oracles, return the successor's key.
func (e *explorer) step(hist []uint8, wantKey stateKey, check bool, op int) (t trans) {
	defer func() {
		if r := recover(); r != nil {
			t.harness = fmt.Sprint("panic in harness: ", r)
		}
	}()

	idm, m := e.replay(hist)

	if check && keyOf(m, idm) != wantKey {
		t.harness = "replay of a stored history reached a different state (nondeterminism)"

		return t
	}

	c := e.ops[op]
	args := m.ArgClass(c)
	o := execCall(idm, c)
	t.class = c.M + "(" + args + ") -> " + o.Err

	for _, mm := range m.Step(c, o) {
		t.viols = append(t.viols, viol{Phase: "call", Check: c, Args: args, Mis: mm, Obs: o})
	}

	if o.Err == EPanic || o.Err == EDeadlock {
		t.structural = true // the instance may be left locked; its futures mean nothing
		t.key = keyOf(m, idm)

		return t
	}

	pv, n := e.stateCheck(idm, m)
	t.viols = append(t.viols, pv...)
	t.lookups = n

	for _, v := range t.viols {
		if v.Mis.Structural {
			t.structural = true
		}
	}

	t.key = keyOf(m, idm)

	return t
}

// trace renders a history with the outcome of every call.
func (e *explorer) trace(hist []uint8) []string {
	idm := newIdm()
	m := NewModel(e.adminG, e.adminU)

	var out []string

	for _, h := range hist {
		c := e.ops[h]
		o := execCall(idm, c)
		m.Step(c, o)
		out = append(out, c.String()+" -> "+o.String())
	}

	return out
}

func (e *explorer) goTest(hist []uint8, last Call) string {
	var b strings.Builder

	b.WriteString("package memidm_test\n\nimport (\n\t\"testing\"\n\n\t\"github.com/avfs/avfs/idm/memidm\"\n)\n\nfunc TestC15Replay(t *testing.T) {\n\tidm := " + newIdmGo() + "\n")

	for _, h := range hist {
		b.WriteString("\t" + e.ops[h].goStmt(false) + "\n")
	}

	b.WriteString("\t" + last.goStmt(true) + "\n}\n")

	return b.String()
}

// seqWorkers bounds the goroutines that replay histories of the sequential part
// side by side (0: one per processor). Parallel replay takes for granted that
// identity managers share no state; main sets 1 when the instances part, which
// decides that, has reported anything.
var seqWorkers = 0

type seqState struct {
	hist []uint8
	key  stateKey
}

func (e *explorer) replayObject(hist []uint8, op int, v viol, preState string) map[string]any {
	full := hist
	if op >= 0 {
		full = append(append([]uint8(nil), hist...), uint8(op))
	}

	var (
		hs    []string
		calls []Call
	)

	for _, h := range full {
		hs = append(hs, e.ops[h].String())
		calls = append(calls, e.ops[h])
	}

	r := map[string]any{
		"part": "seq", "system": "memidm.New()", "history": hs, "ops": calls, "phase": v.Phase,
		"failing_call": v.Check.String(), "check": v.Check, "operand_class": v.Args,
		"kind": v.Mis.Kind, "expected": v.Mis.Want, "observed": v.Mis.Got, "observed_outcome": v.Obs,
		"trace": e.trace(full),
	}

	if preState != "" {
		r["model_state_before_last_call"] = strings.Split(preState, "\n")
	}

	switch {
	case v.Check.M == "VerifCheck" || v.Check.M == "VerifDump":
	case v.Phase == "post":
		r["go_test"] = e.goTest(full, v.Check)
	default:
		r["go_test"] = e.goTest(hist, v.Check)
	}

	return r
}

type depthStat struct {
	Depth       int  `json:"depth"`
	Expanded    int  `json:"states_expanded"`
	Transitions int  `json:"transitions"`
	NewStates   int  `json:"new_states"`
	NotExpanded int  `json:"new_states_not_expanded"`
	Complete    bool `json:"complete"`
}

// runSequential is the sequential part of C15: breadth-first enumeration of
// all histories up to the depth bound over the call alphabet, every one
// executed on the real MemIdm and compared step by step with the model.
func runSequential(tier string, depth int, rep *kf.Reporter, deadline time.Time) (partResult, error) {
	verifrt.SetMode(verifrt.ModeSeq)

	res := partResult{Name: "seq", Classes: map[string]int{}, Extra: map[string]any{}}

	e, err := newExplorer(depth)
	if err != nil {
		return res, err
	}

	seenSig := map[string]bool{}

	report := func(hist []uint8, op int, v viol) {
		s := v.sig()
		if idmOS != avfs.OsLinux {
			s["os"] = idmOS.String()
		}
		k := s.String()

		if seenSig[k] {
			rep.Report(s, nil)

			return
		}

		seenSig[k] = true

		_, m := e.replay(hist) // model state before the failing transition
		rep.Report(s, e.replayObject(hist, op, v, m.Key()))
	}

	// initial state: depth 0
	idm0, m0 := e.replay(nil)
	init := seqState{key: keyOf(m0, idm0)}
	seen := map[stateKey]struct{}{init.key: {}}

	iv := e.initialCheck(idm0)
	pv, lookups := e.stateCheck(idm0, m0)

	for _, v := range append(iv, pv...) {
		report(nil, -1, v)
	}

	var (
		per       []depthStat
		frontier  = []seqState{init}
		completed = 0
		timedOut  = false
		samples   []any
		lastHist  []uint8
		nworkers  = runtime.GOMAXPROCS(0)
		violating = 0
	)

	if seqWorkers > 0 {
		nworkers = seqWorkers
	}

	const batch = 2048

	for d := 1; d <= depth && len(frontier) > 0 && !timedOut; d++ {
		ds := depthStat{Depth: d}

		var nextFrontier []seqState

		for lo := 0; lo < len(frontier) && !timedOut; lo += batch {
			hi := min(lo+batch, len(frontier))
			out := make([][]trans, hi-lo)

			var (
				wg   sync.WaitGroup
				cur  = int64(lo) - 1
				stop atomic.Bool
			)

			for w := 0; w < nworkers; w++ {
				wg.Add(1)

				go func() {
					defer wg.Done()

					for {
						i := int(atomic.AddInt64(&cur, 1))
						if i >= hi || stop.Load() {
							return
						}

						if !deadline.IsZero() && time.Now().After(deadline) {
							stop.Store(true)

							return
						}

						s := frontier[i]
						ts := make([]trans, len(e.ops))

						for op := range e.ops {
							ts[op] = e.step(s.hist, s.key, op == 0, op)
						}

						out[i-lo] = ts
					}
				}()
			}

			wg.Wait()

			if stop.Load() {
				timedOut = true // the batch is dropped: nothing of it is counted

				break
			}

			// merge in frontier order, op order: deterministic whatever the goroutine timing was
			for i := lo; i < hi; i++ {
				s := frontier[i]
				ds.Expanded++

				for op, t := range out[i-lo] {
					if t.harness != "" {
						return res, fmt.Errorf("history %v + %s: %s", e.trace(s.hist), e.ops[op], t.harness)
					}

					ds.Transitions++
					lookups += t.lookups
					res.Classes[t.class]++

					if len(t.viols) > 0 {
						violating++
					}

					for _, v := range t.viols {
						report(s.hist, op, v)
					}

					if _, dup := seen[t.key]; dup {
						continue
					}

					seen[t.key] = struct{}{}
					ds.NewStates++
					h := append(append(make([]uint8, 0, len(s.hist)+1), s.hist...), uint8(op))
					lastHist = h

					if ds.NewStates == 1 && len(samples) < 8 {
						samples = append(samples, map[string]any{"depth": d, "history": e.trace(h)})
					}

					if t.structural {
						ds.NotExpanded++ // model and implementation diverged: futures are meaningless

						continue
					}

					nextFrontier = append(nextFrontier, seqState{hist: h, key: t.key})
				}
			}
		}

		ds.Complete = !timedOut
		res.Transitions += ds.Transitions
		per = append(per, ds)

		if !timedOut {
			completed = d
			frontier = nextFrontier
		}
	}

	if lastHist != nil {
		samples = append(samples, map[string]any{"depth": len(lastHist), "history": e.trace(lastHist), "note": "last new state found"})

		// replay determinism: the same history twice gives the same observation trace
		a, b := strings.Join(e.trace(lastHist), "\n"), strings.Join(e.trace(lastHist), "\n")
		if a != b {
			return res, fmt.Errorf("replaying %v twice gave different traces", lastHist)
		}
	}

	res.States = len(seen)
	res.Evaluations = res.Transitions + lookups // calls executed on the real MemIdm and compared with the model
	res.Samples = samples
	res.Exhaustive = !timedOut && completed == depth
	res.Bound = fmt.Sprintf("all histories of <= %d calls over an alphabet of %d calls (groups %v, users %v, ids %v), the accessors AdminUser() and AdminGroup() asked and judged in every state reached; %d asked for", completed, len(e.ops), e.groups, e.users, e.opIDs, depth)
	res.Extra["seq_per_depth"] = per
	res.Extra["seq_alphabet"] = len(e.ops)
	res.Extra["seq_depth_completed"] = completed
	res.Extra["seq_state_check_lookups"] = lookups
	res.Extra["seq_transitions_with_oracle_failure"] = violating
	res.Extra["seq_timed_out"] = timedOut
	res.Assumptions = []string{
		"state deduplication uses the first 128 bits of SHA-256 of (model state incl. every id ever handed out, VerifDump of the four maps and two counters)",
		"ids are compared as relations (unique, stable, never given to another name, user gid = gid of its group at AddUser), not as numbers",
		"deleting the administrator user/group may succeed or fail (the statement does not say); AddUser with an unknown group may fail with any error type (none is documented for it)",
		"a re-added name receiving an id that the same name held before is not counted as a reassignment",
		"the state check after every call (all parts that run it: seq, inst, inst-conc) also asks AdminUser() and AdminGroup(): in every state they must return the built-in entries (administrator names of the OS type, uid/gid 0, user's primary gid 0, IsAdmin true), whatever was deleted or added again under those names; they count as lookups of the state check",
	}

	var pd []string
	for _, p := range per {
		pd = append(pd, fmt.Sprintf("d%d:%d/%d", p.Depth, p.NewStates, p.Transitions))
	}

	res.Summary = fmt.Sprintf("seq: depth %d/%d, %d states, %d transitions (new states/transitions per depth %s), %d transitions with oracle failures",
		completed, depth, res.States, res.Transitions, strings.Join(pd, " "), violating)

	return res, nil
}
