package main

import (
	"github.com/avfs/avfs"
	"github.com/avfs/avfs/idm/memidm"
)

// idmOS is the OS type the identity managers of the current pass emulate (the
// names of the administrator user and group depend on it). The Windows pass
// needs a build with the avfs_setostype tag.
var idmOS = avfs.OsLinux

func newIdm() *memidm.MemIdm {
	if idmOS == avfs.OsLinux {
		return memidm.New()
	}

	return memidm.NewWithOptions(&memidm.Options{OSType: idmOS})
}

// newIdmGo is the constructor as Go source (generated replay tests).
func newIdmGo() string {
	if idmOS == avfs.OsLinux {
		return "memidm.New()"
	}

	return "memidm.NewWithOptions(&memidm.Options{OSType: avfs.OsWindows}) // build with -tags avfs_setostype"
}
