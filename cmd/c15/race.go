package main

import (
	"encoding/json"
	"fmt"
	"os"
	"os/exec"
	"path/filepath"
	"sort"
	"strconv"
	"strings"
	"time"

	"github.com/avfs/avfs/verifrt"

	"verif/lib/concfs"
	"verif/lib/kf"
	"verif/lib/sched"
)

// The race part of C15. The scheduler of the concurrent part preempts only at
// lock operations: an access to the maps made outside the lock that protects
// them (a lookup under the wrong mutex, say) has no schedule-visible effect and
// stays linearizable there. The same programs are therefore explored once more
// in a -race build ($VERIF_BIN_RACE, built by ./check): the scheduler's
// hand-offs are invisible to the detector (verifrt is //go:norace and spins on
// plain words), the real mutexes below the shim give exactly the program's own
// happens-before edges, so every pair of conflicting accesses that some explored
// schedule leaves unordered is reported. A report is a violation of "any
// concurrent mix of calls" (the Go runtime may abort such a mix with
// "concurrent map read and map write").

type raceProg struct {
	Setup   []Call   `json:"setup"`
	Threads [][]Call `json:"threads"`
}

type raceHit struct {
	Prog    string   `json:"prog"`
	TwoInst bool     `json:"two_instances"`
	Funcs   string   `json:"funcs"`
	Setup   []string `json:"setup"`
	Threads []string `json:"threads"`
	Choices []int8   `json:"choices"`
	Report  string   `json:"report"`
}

type raceOut struct {
	Programs     int       `json:"programs"`
	InstPrograms int       `json:"two_instance_programs"`
	Executions   int       `json:"executions"`
	MinBound     int       `json:"min_bound"`
	TimedOut     int       `json:"timed_out"`
	Hits         []raceHit `json:"hits"`
	HarnessErr   string    `json:"harness_err"`
}

func racePrograms(tier string) ([]raceProg, int) {
	adminG, _ := adminNames()

	setups := [][]Call{
		nil,
		{{M: "AddGroup", A: "g1"}, {M: "AddUser", A: "u1", B: "g1"}},
	}

	tm := []Call{
		{M: "AddGroup", A: "g1"}, {M: "DelGroup", A: "g1"}, {M: "AddUser", A: "u1", B: "g1"}, {M: "DelUser", A: "u1"},
		{M: "LookupGroup", A: "g1"}, {M: "LookupUser", A: "u1"}, {M: "LookupGroupId", ID: 1001}, {M: "LookupUserId", ID: 1001},
		{M: "AddGroup", A: "g2"}, {M: "AddUser", A: "u2", B: "g1"}, {M: "AddUser", A: "u1", B: adminG},
		{M: "LookupGroupId", ID: 0}, {M: "LookupUserId", ID: 0},
	}

	var progs []raceProg

	for _, su := range setups {
		for i := range tm {
			for j := i; j < len(tm); j++ {
				progs = append(progs, raceProg{su, [][]Call{{tm[i]}, {tm[j]}}})
			}
		}
	}

	bound := 1

	if tier == "thorough" {
		bound = 2
		core := tm[:8]

		for _, su := range setups {
			for i := range core {
				for j := i; j < len(core); j++ {
					for k := j; k < len(core); k++ {
						progs = append(progs, raceProg{su, [][]Call{{core[i]}, {core[j]}, {core[k]}}})
					}
				}
			}
		}
	}

	return progs, bound
}

func (p raceProg) strings() (su, ts []string) {
	for _, c := range p.Setup {
		su = append(su, c.String())
	}

	for _, th := range p.Threads {
		var cs []string
		for _, c := range th {
			cs = append(cs, c.String())
		}

		ts = append(ts, strings.Join(cs, ";"))
	}

	return su, ts
}

func (p raceProg) tmpl() string {
	_, ts := p.strings()
	sort.Strings(ts)

	s := strings.Join(ts, " || ")
	if len(p.Setup) > 0 {
		s = "[g1,u1 exist] " + s
	}

	return s
}

// raceItem is one program of the race pass: what to print about it and how to
// execute it once under a choice prefix.
type raceItem struct {
	tmpl           string
	twoInst        bool
	setup, threads []string
	bound          int
	exec           func(prefix []int8) (verifrt.Result, []verifrt.PointRec)
}

func (p raceProg) item(bound int) raceItem {
	su, ts := p.strings()

	return raceItem{tmpl: p.tmpl(), setup: su, threads: ts, bound: bound, exec: func(prefix []int8) (verifrt.Result, []verifrt.PointRec) {
		idm := newIdm()
		for _, c := range p.Setup {
			execCall(idm, c)
		}

		bodies := make([]func(), len(p.Threads))

		for t := range p.Threads {
			t := t
			bodies[t] = func() {
				for _, c := range p.Threads[t] {
					verifrt.CallPoint()
					execCall(idm, c)
				}
			}
		}

		r := verifrt.Run(prefix, bodies)

		return r, verifrt.Points()
	}}
}

// raceItems: the programs on one identity manager, then the two-instance
// programs of the instances part (inst.go). In those the threads share no
// object and take no common lock, so whatever the schedule every access of one
// thread is unordered with every access of the other: any state the two
// instances, or an instance and a constructor, have in common and do not guard
// is reported.
func raceItems(tier string) (items []raceItem, nInst int) {
	progs, bound := racePrograms(tier)
	for _, p := range progs {
		items = append(items, p.item(bound))
	}

	for _, p := range instPrograms(tier, true) {
		p := p
		su, ts := p.strings()
		nInst++

		items = append(items, raceItem{tmpl: p.tmpl(), twoInst: true, setup: su, threads: ts, bound: bound, exec: func(prefix []int8) (verifrt.Result, []verifrt.PointRec) {
			r := p.exec(prefix)

			return r.res, r.pts
		}})
	}

	return items, nInst
}

// racePass is the body of the -race child process.
func racePass(tier, outPath string) int {
	out := raceOut{MinBound: 1 << 30}

	raceLog := ""

	for _, kv := range strings.Fields(os.Getenv("GORACE")) {
		if strings.HasPrefix(kv, "log_path=") {
			raceLog = strings.TrimPrefix(kv, "log_path=") + "." + strconv.Itoa(os.Getpid())
		}
	}

	if raceLog == "" {
		out.HarnessErr = "GORACE log_path is not set"
	}

	var deadline time.Time
	if d, err := strconv.ParseInt(os.Getenv("VERIF_DEADLINE_UNIX"), 10, 64); err == nil && d > 0 {
		deadline = time.Unix(d, 0)
	}

	items, nInst := raceItems(tier)
	out.InstPrograms = nInst
	raceSize := int64(0)
	seen := map[string]bool{}

	verifrt.SetMode(verifrt.ModeSched)

	for _, p := range items {
		if out.HarnessErr != "" {
			break
		}

		if !deadline.IsZero() && time.Now().After(deadline) {
			out.TimedOut++

			continue
		}

		p := p

		run := func(prefix []int8) sched.Exec {
			r, pts := p.exec(prefix)
			out.Executions++

			if fi, err := os.Stat(raceLog); err == nil && fi.Size() > raceSize {
				f, _ := os.Open(raceLog)
				_, _ = f.Seek(raceSize, 0)
				buf := make([]byte, fi.Size()-raceSize)
				_, _ = f.Read(buf)
				f.Close()

				raceSize = fi.Size()

				for _, fns := range concfs.ParseRace(string(buf)) {
					k := p.tmpl + "#" + fns
					if seen[k] {
						continue
					}

					seen[k] = true
					out.Hits = append(out.Hits, raceHit{Prog: p.tmpl, TwoInst: p.twoInst, Funcs: fns, Setup: p.setup, Threads: p.threads, Choices: sched.Choices(pts), Report: string(buf)})
				}
			}

			return sched.Exec{Res: r, Points: pts}
		}

		bound := p.bound

		st := sched.Explore(run, bound, deadline, 0)
		if st.BadReplay {
			out.HarnessErr = "replay divergence in " + p.tmpl
		}

		if st.TimedOut {
			out.TimedOut++
		}

		b := st.BoundCompleted
		if st.Unbounded {
			b = bound
		}

		if b < out.MinBound {
			out.MinBound = b
		}

		out.Programs++
	}

	verifrt.SetMode(verifrt.ModeSeq)

	b, _ := json.Marshal(out)
	if err := os.WriteFile(outPath, b, 0o644); err != nil {
		fmt.Fprintln(os.Stderr, "c15 race pass:", err)

		return 2
	}

	return 0
}

// runRace starts the -race build of this driver on the pair programs and
// reports what the detector printed.
func runRace(tier string, rep *kf.Reporter, deadline time.Time) (partResult, error) {
	res := partResult{Name: "race", Classes: map[string]int{}, Extra: map[string]any{}, Exhaustive: true}

	bin := os.Getenv("VERIF_BIN_RACE")
	if bin == "" {
		return res, fmt.Errorf("VERIF_BIN_RACE is not set (./check builds the -race driver)")
	}

	scratch := os.Getenv("VERIF_SCRATCH")
	if scratch == "" {
		scratch = os.TempDir()
	}

	outPath := filepath.Join(scratch, "c15-race.json")
	cmd := exec.Command(bin, "-racepass", outPath, "-tier", tier)
	cmd.Env = append(os.Environ(), "GOMAXPROCS=1",
		"GORACE=log_path="+filepath.Join(scratch, "c15race")+" halt_on_error=0 exitcode=0")

	if !deadline.IsZero() {
		cmd.Env = append(cmd.Env, "VERIF_DEADLINE_UNIX="+strconv.FormatInt(deadline.Unix(), 10))
	}

	var stderr strings.Builder

	cmd.Stderr = &stderr

	if err := cmd.Run(); err != nil {
		return res, fmt.Errorf("race pass: %v: %s", err, tail(stderr.String(), 2000))
	}

	b, err := os.ReadFile(outPath)
	if err != nil {
		return res, err
	}

	var out raceOut
	if err := json.Unmarshal(b, &out); err != nil {
		return res, err
	}

	if out.HarnessErr != "" {
		return res, fmt.Errorf("race pass: %s", out.HarnessErr)
	}

	if out.Programs == 0 && out.TimedOut == 0 {
		return res, fmt.Errorf("race pass explored nothing")
	}

	for _, h := range out.Hits {
		sig := kf.Sig{"part": "race", "kind": "race", "funcs": h.Funcs}
		if h.TwoInst {
			sig["between"] = "threads that use different identity managers"
		}

		rep.Report(sig,
			map[string]any{"program": h.Prog, "setup": h.Setup, "threads": h.Threads, "choices": h.Choices, "report": h.Report,
				"how": "VERIF_RACE=1 build of cmd/c15; the schedule is the choice list of sched.Explore"})
	}

	if out.TimedOut > 0 {
		res.Exhaustive = false
	}

	if out.MinBound == 1<<30 {
		out.MinBound = -1
	}

	res.Transitions = out.Executions
	res.Evaluations = out.Executions
	res.Classes["race:programs"] = out.Programs
	res.Bound = fmt.Sprintf("%d programs under the race detector, %d of them two-thread programs over two identity managers (min preemption bound completed %d), %d timed out", out.Programs, out.InstPrograms, out.MinBound, out.TimedOut)
	res.Extra["race_programs"] = out.Programs
	res.Extra["race_two_instance_programs"] = out.InstPrograms
	res.Extra["race_schedules"] = out.Executions
	res.Extra["race_reports"] = len(out.Hits)
	res.Assumptions = []string{
		"race part: the pair (thorough: also triple) programs of the concurrent part and the two-instance programs of the instances part are explored again in a -race build; verifrt's hand-offs are invisible to the detector, the real mutexes under the shim provide the program's own happens-before edges",
	}
	res.Summary = fmt.Sprintf("race: programs=%d schedules=%d reports=%d timed-out=%d", out.Programs, out.Executions, len(out.Hits), out.TimedOut)

	return res, nil
}

func tail(s string, n int) string {
	if len(s) > n {
		return s[len(s)-n:]
	}

	return s
}
