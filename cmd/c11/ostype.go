package main

import (
	"strings"

	"github.com/avfs/avfs"
	"github.com/avfs/avfs/vfs/memfs"

	"verif/lib/fsx"
)

// Windows-typed systems ("Windows:<variant>", build tag avfs_setostype).
//
// The alphabet is written once, in slash form, and spelled for the OS type of
// the system: "/p/q" is `C:\p\q` there, "q/f" is `q\f`. The operands that
// exist on a Windows-typed file system only are written as they are: a rooted
// path without volume (`\q\f`), a path with '/' as separator (`C:/q/f`) and
// the paths of a second volume D: that the parent holds (`D:\v\w`).
//
// General lesson: a file system that emulates Windows has more than one way to
// name its root - every volume of its volume table is one - and a path that
// carries a volume name is resolved from that table, not from "the root". A
// view (Sub) is a copy of the handle: whatever the handle refers to besides
// its root node (the volume table) still belongs to the file system the view
// was taken from. "Exactly its subtree" is therefore checked with every form
// of absolute path the emulated OS has: with volume, rooted without volume,
// relative after a Chdir through the view, and naming another volume.
//
// The harness keeps its model (working directories, view roots, dump lines,
// twin paths) in slash form on the default volume ("/p/q"; a path of another
// volume is "D:/v/w") for both OS types; the calls carry the OS spelling and
// are translated at the boundary (mp: OS spelling -> model, osp: model -> OS
// spelling). Both are the identity on a Linux-typed system.
const (
	winPrefix = "Windows:"
	winVolume = "C:"
	vol2      = "D:"
	noVolume  = "Q:" // a volume no file system of this driver has
)

func isWin(variant string) bool { return strings.HasPrefix(variant, winPrefix) }

// baseVariant removes the OS type from the name of a system.
func baseVariant(variant string) string { return strings.TrimPrefix(variant, winPrefix) }

// spell turns a path of the slash alphabet into the spelling of the OS type.
func spell(win bool, p string) string {
	if !win {
		return p
	}

	if strings.HasPrefix(p, "/") {
		p = winVolume + p
	}

	return strings.ReplaceAll(p, "/", `\`)
}

func spellAll(win bool, ps []string) []string {
	if !win {
		return ps
	}

	out := make([]string, len(ps))
	for i, p := range ps {
		out[i] = spell(true, p)
	}

	return out
}

// hasVolume: the slash-form path q starts with a volume name.
func hasVolume(q string) bool {
	return len(q) >= 2 && q[1] == ':' && (q[0] >= 'A' && q[0] <= 'Z' || q[0] >= 'a' && q[0] <= 'z')
}

// otherVolume: the model path names a volume other than the default one.
func otherVolume(p string) bool { return hasVolume(p) }

// osp spells a model path for the OS type of the system.
func (s *sys) osp(p string) string {
	if !s.win {
		return p
	}

	switch {
	case strings.HasPrefix(p, "/"):
		p = winVolume + p
	case hasVolume(p) && len(p) == 2:
		p += "/"
	}

	return strings.ReplaceAll(p, "/", `\`)
}

// rooted: a Windows path that starts with a separator and carries no volume.
func (s *sys) rooted(osPath string) bool {
	return s.win && osPath != "" && (osPath[0] == '\\' || osPath[0] == '/')
}

// qualified: the operand does not depend on the working directory.
func (s *sys) qualified(osPath string) bool {
	if !s.win {
		return isAbs(osPath)
	}

	q := strings.ReplaceAll(osPath, `\`, "/")

	return hasVolume(q) && len(q) >= 3 && q[2] == '/'
}

// mp turns a path in OS spelling (an operand, the path of an error, a working
// directory) into the model's spelling; cwd is the model working directory of
// the actor the path belongs to.
//
// A rooted path without volume (`\q\f`) is turned into an absolute one by the
// library's own lexical function avfs.Abs on that working directory: what such
// a string means relative to a working directory is a question about the
// lexical functions of the emulated OS (property C13), not about views, and the
// parent and the view must agree on it whatever the answer is.
func (s *sys) mp(cwd, p string) string {
	if !s.win {
		return p
	}

	q := strings.ReplaceAll(p, `\`, "/")

	switch {
	case hasVolume(q):
		if q[:2] == winVolume && len(q) > 2 && q[2] == '/' {
			return q[2:]
		}

		if len(q) == 2 {
			q += "/"
		}

		return q
	case strings.HasPrefix(q, "/"):
		var abs string

		if k, _ := fsx.Guard(func() { abs, _ = avfs.Abs(s.T, p, s.osp(cwd)) }); k != "" || s.rooted(abs) || abs == "" {
			return q
		}

		return s.mp(cwd, abs)
	}

	return q
}

// mcall is the call with its operands in the model's spelling.
func (s *sys) mcall(a *actor, c fsx.Call) fsx.Call {
	if !s.win || noPathOps[c.Op] {
		return c
	}

	m := c
	m.A = s.mp(a.cwd, c.A)

	if isPairOp[c.Op] {
		m.B = s.mp(a.cwd, c.B)
	}

	return m
}

// oscall is the model call spelled for the OS type.
func (s *sys) oscall(c fsx.Call) fsx.Call {
	if !s.win || noPathOps[c.Op] {
		return c
	}

	o := c
	o.A = s.osp(c.A)

	if isPairOp[c.Op] {
		o.B = s.osp(c.B)
	}

	return o
}

// mres turns the paths a result carries into the model's spelling.
func (s *sys) mres(cwd string, c fsx.Call, r result) result {
	if !s.win {
		return r
	}

	n := r
	n.EPaths = nil

	for _, p := range r.EPaths {
		n.EPaths = append(n.EPaths, s.mp(cwd, p))
	}

	if c.Op == "Getwd" && r.Kind == "ok" {
		n.Val = s.mp(cwd, r.Val)
	}

	return n
}

// foreignCall: an operand of the (model) call names another volume. Through a
// view such a path has no counterpart below dir: it must not reach anything.
func foreignCall(c fsx.Call) bool {
	if noPathOps[c.Op] {
		return false
	}

	return otherVolume(c.A) || (isPairOp[c.Op] && otherVolume(c.B))
}

// unreachable is the path the twin parent is given for a view operand on
// another volume: the same path on a volume that does not exist.
func unreachable(p string) string { return noVolume + p[2:] }

func okClass(kind string) string {
	if kind == "ok" {
		return "ok"
	}

	return "error"
}

// mline turns a VerifDump line of a Windows-typed file system into the model's
// spelling: `C:\p\q\f f ... #C:\p\q\f "ff"` -> `/p/q/f f ... #/p/q/f "ff"`.
func (s *sys) mline(l string) string {
	i := strings.Index(l, " ")
	if i < 0 {
		return s.mp("/", l)
	}

	p, rest := s.mp("/", l[:i]), l[i:]

	if j := strings.Index(rest, " #"); j >= 0 {
		k := strings.Index(rest[j+2:], " ")
		if k < 0 {
			k = len(rest) - j - 2
		}

		rest = rest[:j+2] + s.mp("/", rest[j+2:j+2+k]) + rest[j+2+k:]
	}

	return p + rest
}

// dump is the injected node-graph dump (every volume) in the model's spelling.
func (s *sys) dump(v *memfs.MemFS) []string {
	ls := v.VerifDump()
	if !s.win {
		return ls
	}

	out := make([]string, len(ls))
	for i, l := range ls {
		out[i] = s.mline(l)
	}

	return out
}

// volumeClass probes what the volume names mean inside a view: the default
// volume must be the view's own root ("own"), no other volume may resolve.
// Anything else is spelled out ("C:=parent-root,D:=reachable"; for the view of
// the parent's root, where the two roots are one, "C:=own-root=parent-root,...").
// The probe is Sub (read-only) plus the injected VerifRootIs.
func (s *sys) volumeClass(a *actor) string {
	if !s.win || !a.isView() {
		return "n/a"
	}

	cRoot, dRoot := "unresolved", "unreachable"

	_, _ = fsx.Guard(func() {
		sub, err := a.fs.Sub(s.osp("/"))
		if err != nil {
			return
		}

		switch m := sub.(*memfs.MemFS); {
		case m.VerifRootIs(a.fs) && m.VerifRootIs(s.P):
			cRoot = "own-root=parent-root" // the view of the parent's root
		case m.VerifRootIs(a.fs):
			cRoot = "own-root"
		case m.VerifRootIs(s.P):
			cRoot = "parent-root"
		default:
			cRoot = "other"
		}
	})

	_, _ = fsx.Guard(func() {
		if _, err := a.fs.Sub(s.osp(vol2)); err == nil {
			dRoot = "reachable"
		}
	})

	if strings.HasPrefix(cRoot, "own-root") && dRoot == "unreachable" {
		return "own"
	}

	return winVolume + "=" + cRoot + "," + vol2 + "=" + dRoot
}

// sigOS adds the fields of a Windows-typed system to a signature: ostype, and
// volumes = what the volume names mean in the views involved (the acting one,
// the observer, the victim): "own", or the first class that is not.
func (s *sys) sigOS(sig map[string]string, x *actor) {
	if !s.win {
		return
	}

	sig["ostype"] = "Windows"

	vol := "n/a"

	consider := func(a *actor) {
		if a == nil || !a.isView() {
			return
		}

		if vol == "n/a" || vol == "own" {
			vol = a.vol
		}
	}

	consider(x)

	for _, k := range []string{"observer", "victim"} {
		if kind, ok := sig[k]; ok {
			for _, a := range s.actors {
				if a.kind == kind {
					consider(a)
				}
			}
		}
	}

	sig["volumes"] = vol
}

// winOperands adds the operands that exist on a Windows-typed system only.
func winOperands(specs []actorSpec, core bool) {
	for i := range specs {
		sp := &specs[i]

		sp.abs = spellAll(true, sp.abs)
		sp.rel = spellAll(true, sp.rel)
		sp.src = spellAll(true, sp.src)
		sp.dst = spellAll(true, sp.dst)
		sp.sub = spellAll(true, sp.sub)
		sp.rootDirs = spellAll(true, sp.rootDirs)
		sp.fresh = spellAll(true, sp.fresh)
		sp.tmp = spellAll(true, sp.tmp)

		add := func(abs, src, dst, sub []string) {
			sp.abs = append(sp.abs, abs...)
			sp.src = append(sp.src, src...)
			sp.dst = append(sp.dst, dst...)
			sp.sub = append(sp.sub, sub...)
		}

		switch sp.name + map[bool]string{true: "/core", false: ""}[core] {
		case "V1/core":
			add([]string{`\q\f`, `D:\v\w`}, nil, []string{`D:\new`}, []string{`\p`})
		case "V2/core":
			add([]string{`\f`, `D:\v\w`}, nil, nil, []string{`\q`})
		case "parent":
			add([]string{`\p\q\f`, `D:\v`, `D:\v\w`, `D:\new`}, []string{`D:\v\w`}, []string{`D:\new`}, nil)
		case "V1":
			add([]string{`\`, `\q\f`, `\..\o\h`, `C:/q/f`, `D:\`, `D:\v\w`, `D:\q\f`, `D:\new`},
				[]string{`\q\f`, `D:\v\w`}, []string{`\new`, `D:\new`}, []string{`\p`})
		case "V2":
			add([]string{`\f`, `\..\g`, `D:\v\w`, `D:\f`, `D:\new`},
				[]string{`\f`, `D:\v\w`}, []string{`\new`, `D:\new`}, []string{`\q`, `D:\v`})
		case "V3":
			add([]string{`\new`, `D:\new`}, nil, nil, []string{`\p\e`})
		case "V0":
			add([]string{`\p\q\f`, `D:\v\w`, `D:\new`}, []string{`D:\v\w`}, []string{`D:\new`}, []string{`\`})
		}
	}
}
