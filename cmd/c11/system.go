package main

import (
	"crypto/sha256"
	"encoding/hex"
	"encoding/json"
	"fmt"
	"io/fs"
	"os"
	"path"
	"strings"

	"github.com/avfs/avfs"
	"github.com/avfs/avfs/idm/memidm"
	"github.com/avfs/avfs/vfs/memfs"

	"verif/lib/bfs"
	"verif/lib/fsx"
)

// actor is the parent or one view, plus the harness' model of its per-view
// state (what User / UMask / Getwd must answer) and where its root node lives.
type actor struct {
	actorSpec
	fs *memfs.MemFS

	user      string // expected User().Name()
	umask     uint32 // expected UMask()
	cwd       string // expected Getwd() (in the actor's own namespace)
	chdirDone bool   // a Chdir through this actor has succeeded

	loc     string // path in the parent where the view's root node is linked now
	located bool   // false: the root node is not reachable from the parent's root

	vol string // Windows-typed systems: what the volume names mean inside the view (volumeClass)
}

func (a *actor) isView() bool { return a.kind != "parent" }

// attached: the view still is "the file system obtained with Sub(dir)".
func (a *actor) attached() bool { return !a.isView() || (a.located && a.loc == a.dir) }

// sys is one system: parent + views on the real side, one twin parent.
//
// Variants (name = "<users>@<cwd at Sub time>"):
//
//	admin@/    every actor is the administrator, umask 022; views created while the parent's cwd is "/"
//	users@/    V1 acts as u1 (umask 027), V2 as u2 (umask 077), V3 as u1 (umask 077), set through the views during setup
//	admin@/p/q views created while the parent's cwd is "/p/q" (inherited by value), parent then back to "/"
//	core-...   the same with the reduced "core" alphabet, explored one level deeper
//	Windows:...  the same on Windows-typed file systems (ostype.go); the parent holds a second volume D:
type sys struct {
	variant string
	win     bool // the file systems emulate Windows
	tier    string
	specs   []actorSpec
	ops     []op

	P, T          *memfs.MemFS
	users, tusers map[string]avfs.UserReader
	actors        []*actor

	lastDump []string // VerifDump of the parent after the last step
	lastKey  string
	pending  []bfs.Viol // violations found during setup, emitted by the first step
	trace    func(string)
}

func newSys(variant, tier string) *sys {
	s := &sys{variant: variant, tier: tier, win: isWin(variant)}
	s.specs = actorSpecs(tier, isCore(variant), s.win)
	s.ops = buildOps(s.specs)

	return s
}

func isCore(variant string) bool { return strings.HasPrefix(baseVariant(variant), "core-") }

func (s *sys) NumOps() int { return len(s.ops) }
func (s *sys) Close()      {}
func (s *sys) Key() string { return s.lastKey }

func (s *sys) OpString(i int) string {
	sp := s.specs[s.ops[i].actor]
	if s.ops[i].c.Op == "Sub" {
		return sp.name + "=" + sp.recv + "." + callString(s.ops[i].c)
	}

	return sp.name + "." + callString(s.ops[i].c)
}

func newParent(win bool) (*memfs.MemFS, map[string]avfs.UserReader, error) {
	sp := func(p string) string { return spell(win, p) }

	idm := memidm.New()

	if _, err := idm.AddGroup("grp"); err != nil {
		return nil, nil, err
	}

	users := map[string]avfs.UserReader{"root": idm.AdminUser()}

	for _, n := range []string{"u1", "u2"} {
		u, err := idm.AddUser(n, "grp")
		if err != nil {
			return nil, nil, err
		}

		users[n] = u
	}

	opts := &memfs.Options{Idm: idm, SystemDirs: []avfs.DirInfo{{Path: sp("/tmp"), Perm: 0o777}}}
	if win {
		opts.OSType = avfs.OsWindows
	}

	v := memfs.NewWithOptions(opts)

	if win && v.OSType() != avfs.OsWindows {
		return nil, nil, fmt.Errorf("constructor produced OS type %v: the driver must be built with the tag avfs_setostype (see the TAGS case of ./check)", v.OSType())
	}

	steps := []func() error{
		func() error { return v.SetUMask(0) },
		func() error { return v.Chdir(sp("/")) },
		func() error { return v.MkdirAll(sp("/p/q"), 0o777) },
		func() error { return v.WriteFile(sp("/p/q/f"), []byte("ff"), 0o666) },
		func() error { return v.WriteFile(sp("/p/g"), []byte("gg"), 0o666) },
		func() error { return v.Mkdir(sp(freshDir), 0o777) }, // never populated (ops.go: freshDir)
		func() error { return v.MkdirAll(sp("/o"), 0o777) },
		func() error { return v.WriteFile(sp("/o/h"), []byte("hh"), 0o666) },
	}

	if win {
		// a second volume with a directory and a file
		steps = append(steps,
			func() error { return v.VolumeAdd(vol2) },
			func() error { return v.Mkdir(vol2+`\v`, 0o777) },
			func() error { return v.WriteFile(vol2+`\v\w`, []byte("ww"), 0o666) },
		)
	}

	steps = append(steps, func() error { return v.SetUMask(0o022) })

	for i, f := range steps {
		if err := f(); err != nil {
			return nil, nil, fmt.Errorf("setup step %d: %v", i, err)
		}
	}

	return v, users, nil
}

func (s *sys) Reset() (err error) {
	k, msg := fsx.Guard(func() { err = s.reset() })
	if k != "" {
		return fmt.Errorf("setup %s: %s", k, msg)
	}

	return err
}

func (s *sys) reset() error {
	var err error

	if s.P, s.users, err = newParent(s.win); err != nil {
		return err
	}

	if s.T, s.tusers, err = newParent(s.win); err != nil {
		return err
	}

	for n, u := range s.users {
		if t := s.tusers[n]; t.Uid() != u.Uid() || t.Gid() != u.Gid() || t.IsAdmin() != u.IsAdmin() {
			return fmt.Errorf("twin identity manager assigned different ids to %s", n)
		}
	}

	if s.users["root"].Name() != "root" {
		return fmt.Errorf("administrator is not called root")
	}

	vs := strings.SplitN(strings.TrimPrefix(baseVariant(s.variant), "core-"), "@", 2)
	if len(vs) != 2 {
		return fmt.Errorf("bad system name %q", s.variant)
	}

	subCwd := vs[1]
	if subCwd != "/" {
		if err := s.P.Chdir(s.osp(subCwd)); err != nil {
			return err
		}
	}

	s.actors = s.actors[:0]
	byName := map[string]*actor{}

	var nestedErr result // outcome of V1.Sub("/q") when it failed

	for _, sp := range s.specs {
		a := &actor{actorSpec: sp, user: "root", umask: 0o022, cwd: subCwd, located: true, loc: sp.dir}

		switch sp.name {
		case "parent":
			a.fs = s.P
			a.cwd = "/"
			a.chdirDone = true
		case "V1", "V0", "V3":
			v, err := s.P.Sub(s.osp(sp.dir))
			if err != nil {
				return fmt.Errorf("Sub(%q): %v", sp.dir, err)
			}

			a.fs = v.(*memfs.MemFS)
		case "V2": // nested: Sub of a view
			v, err := byName["V1"].fs.Sub(s.osp("/q"))
			if err != nil {
				// V1 does not show the directory the parent calls /p/q: that is the
				// property itself, not a harness error. The exploration goes on with
				// a stand-in for V2 made by the parent.
				nestedErr = errResult(err)

				if v, err = s.P.Sub(s.osp(sp.dir)); err != nil {
					return fmt.Errorf("V1.Sub(/q): %s, and parent.Sub(%s): %v", nestedErr.Msg, sp.dir, err)
				}
			}

			a.fs = v.(*memfs.MemFS)
		}

		byName[sp.name] = a
		s.actors = append(s.actors, a)
	}

	if subCwd != "/" {
		if err := s.P.Chdir(s.osp("/")); err != nil {
			return err
		}
	}

	s.pending = nil

	if vs[0] == "users" {
		for _, st := range []struct {
			actor, user string
			umask       uint32
		}{{"V1", "u1", 0o027}, {"V2", "u2", 0o077}, {"V3", "u1", 0o077}} {
			a := byName[st.actor]
			if a == nil {
				continue // the core alphabet has no V3
			}

			_ = a.fs.SetUser(s.users[st.user])
			_ = a.fs.SetUMask(fs.FileMode(st.umask))
			a.user, a.umask = st.user, st.umask

			for _, l := range s.stateMismatches() {
				sig := map[string]string{
					"actor": a.kind, "call": "setup:SetUser+SetUMask", "path": "none", "phase": "before-chdir",
					"kind": "setter-leak", "want": l.want, "got": l.got, "user": "non-admin",
				}

				s.sigOS(sig, a)

				s.pending = append(s.pending, bfs.Viol{Sig: sig, Detail: `{"note":"found during setup of the users@/ variant"}`})
			}
		}
	}

	s.lastDump = s.dump(s.P)

	if !equalLines(s.lastDump, s.dump(s.T)) {
		return fmt.Errorf("twin does not start with the same tree")
	}

	for _, a := range s.actors {
		a.vol = s.volumeClass(a)
	}

	if nestedErr.Kind != "" {
		sig := map[string]string{
			"actor": "view", "call": "setup:Sub", "path": "abs-clean", "phase": "before-chdir",
			"kind": "outcome", "want": "ok", "got": nestedErr.Kind, "user": "admin", "viewroot": "searchable",
		}

		s.sigOS(sig, byName["V1"])

		s.pending = append(s.pending, bfs.Viol{
			Sig:    sig,
			Detail: fmt.Sprintf(`{"note":"setup: V1 = parent.Sub(/p); V1.Sub(/q) failed (%s) although the parent holds the directory /p/q; the exploration continues with parent.Sub(/p/q) in the place of the nested view"}`, strings.ReplaceAll(nestedErr.Msg, `\`, `\\`)),
		})
	}

	for _, a := range s.actors {
		s.locate(a)
		s.checkVolumes(a, "setup:Sub", "before-chdir", "admin", "abs-clean", `{"note":"found during setup"}`)

		if !a.attached() {
			// Sub(dir) did not return a view of dir: that is the property itself
			got := "a directory the parent cannot reach"
			if a.located {
				got = "rooted at " + a.loc
			}

			sig := map[string]string{
				"actor": a.kind, "call": "setup:Sub", "path": "abs-clean", "phase": "before-chdir",
				"kind": "tree", "want": "rooted at " + a.dir, "got": got, "user": "admin", "viewroot": "n/a",
			}

			s.sigOS(sig, a)

			s.pending = append(s.pending, bfs.Viol{
				Sig:    sig,
				Detail: `{"note":"the root node of the view returned by Sub is not the directory the parent calls dir (checked with the injected VerifRootIs hook)"}`,
			})
		}
	}

	s.lastKey = s.key("")

	return nil
}

// rootAt reports whether the view's root node is the directory the parent
// calls p (injected read-only hook VerifRootIs).
func (s *sys) rootAt(a *actor, p string) (ok bool) {
	_, _ = fsx.Guard(func() {
		sub, err := s.P.Sub(s.osp(p))
		if err != nil {
			return
		}

		ok = sub.(*memfs.MemFS).VerifRootIs(a.fs)
	})

	return ok
}

func (s *sys) locate(a *actor) {
	if !a.isView() {
		return
	}

	if s.rootAt(a, a.dir) {
		a.loc, a.located = a.dir, true

		return
	}

	for _, l := range s.lastDump {
		if !strings.Contains(l, "/ d ") || strings.Contains(l, "!cycle") {
			continue
		}

		if p := pathOf(l); s.rootAt(a, p) {
			a.loc, a.located = p, true

			return
		}
	}

	a.loc, a.located = "", false
}

func (s *sys) key(extra string) string {
	var b strings.Builder

	b.WriteString(strings.Join(s.lastDump, "\n"))

	for _, a := range s.actors {
		u, m, c := s.actual(a)
		fmt.Fprintf(&b, "\n%s dir=%s user=%s umask=%o cwd=%s chdir=%v loc=%s/%v", a.name, a.dir, u, m, c, a.chdirDone, a.loc, a.located)
	}

	b.WriteString(extra)

	if s.trace != nil {
		return b.String()
	}

	// the search only needs identity: ship a digest instead of a kilobyte per transition
	h := sha256.Sum256([]byte(b.String()))

	return hex.EncodeToString(h[:16])
}

func (s *sys) actual(a *actor) (user string, umask uint32, cwd string) {
	_, _ = fsx.Guard(func() {
		user = "<nil>"
		if u := a.fs.User(); u != nil {
			user = u.Name()
		}

		umask = uint32(a.fs.UMask())
		cwd, _ = a.fs.Getwd()
	})

	return user, umask, s.mp("/", cwd)
}

type mismatch struct {
	actor     *actor
	want, got string
}

// stateMismatches compares User/UMask/Getwd of every actor with the model.
func (s *sys) stateMismatches() []mismatch {
	var out []mismatch

	for _, a := range s.actors {
		u, m, c := s.actual(a)

		if u != a.user {
			out = append(out, mismatch{a, a.kind + ".user=" + a.user, a.kind + ".user=" + u})
		}

		if m != a.umask {
			out = append(out, mismatch{a, fmt.Sprintf("%s.umask=%03o", a.kind, a.umask), fmt.Sprintf("%s.umask=%03o", a.kind, m)})
		}

		if c != a.cwd {
			out = append(out, mismatch{a, a.kind + ".cwd=" + a.cwd, a.kind + ".cwd=" + c})
		}
	}

	return out
}

// base is the directory of the parent namespace the actor's "/" denotes now.
func (a *actor) base() string {
	if !a.isView() {
		return "/"
	}

	if a.located {
		return a.loc
	}

	return a.dir
}

// mirror loads the actor's user, umask and working directory into the twin.
func (s *sys) mirror(a *actor) {
	_ = s.T.SetUser(s.tusers[a.user])
	_ = s.T.SetUMask(fs.FileMode(a.umask))

	if a.isView() {
		_ = s.T.SetCurDir(s.osp(joinDir(a.base(), path.Clean("/"+a.cwd))))
	} else {
		_ = s.T.SetCurDir(s.osp(a.cwd))
	}
}

// twinCall translates a call through actor a into the call on the twin parent:
// every path operand p becomes Join(dir, Clean("/"+p)) (relative operands are
// first joined to the actor's working directory); the parent's own calls are
// passed verbatim.
func (s *sys) twinCall(a *actor, c fsx.Call) fsx.Call {
	if !a.isView() || noPathOps[c.Op] {
		return c
	}

	tp := func(p string) string {
		if otherVolume(p) {
			// another volume has no counterpart below dir (Windows-typed systems)
			return unreachable(p)
		}

		return joinDir(a.base(), viewAbs(a.cwd, p))
	}

	t := c
	t.A = tp(c.A)

	if isPairOp[c.Op] {
		t.B = tp(c.B)
	}

	return t
}

// escapedCall is the call a view call would be if ".." were NOT clamped at the
// view's root (used to recognise reads that reached outside).
func (s *sys) escapedCall(a *actor, c fsx.Call) (fsx.Call, bool) {
	full := c.A
	if !isAbs(full) {
		full = a.cwd + "/" + full
	}

	t := c
	t.A = path.Clean(a.base() + "/" + full)

	return t, !under(t.A, a.base())
}

// isRelative: an operand of the call (as it is made) depends on the working
// directory. On a Windows-typed system that includes a rooted path without
// volume (`\q\f` is not an absolute path there).
func (s *sys) isRelative(c fsx.Call) bool {
	if noPathOps[c.Op] {
		return false
	}

	return !s.qualified(c.A) || (isPairOp[c.Op] && !s.qualified(c.B))
}

// classOfCall classifies the operands for signatures (c: the call as made,
// mc: in the model's spelling).
func (s *sys) classOfCall(a *actor, c, mc fsx.Call) string {
	switch {
	case noPathOps[c.Op]:
		return "none"
	case isPairOp[c.Op]:
		return s.pathClass(a, c.A, mc.A) + "," + s.pathClass(a, c.B, mc.B)
	}

	return s.pathClass(a, c.A, mc.A)
}

// pathClass is the class of one operand; the forms a Windows-typed system adds
// are other-volume and rooted:<class of the path the rooted one stands for>.
func (s *sys) pathClass(a *actor, osPath, mPath string) string {
	switch {
	case otherVolume(mPath):
		return "other-volume"
	case s.rooted(osPath):
		return "rooted:" + pathClass(a, mPath)
	}

	return pathClass(a, mPath)
}

// reachedVolume: a read-only view call on a path of another volume answered
// what the parent answers for that very path.
func (s *sys) reachedVolume(a *actor, c fsx.Call, rr result) bool {
	if !readOnly[c.Op] || rr.Kind != "ok" {
		return false
	}

	s.mirror(a)
	er := exec(s.T, c, s.tusers)

	return er.Kind == "ok" && er.Val == rr.Val
}

// checkVolumes reports a view in which the volume names do not mean "the
// view's own root, and nothing else" (Windows-typed systems).
func (s *sys) checkVolumes(a *actor, call, phase, userClass, pclass, det string) {
	if !s.win || !a.isView() || a.vol == "own" {
		return
	}

	sig := map[string]string{
		"actor": a.kind, "call": call, "path": pclass, "phase": phase, "kind": "volume-table",
		"want": winVolume + "=own-root," + vol2 + "=unreachable", "got": a.vol, "user": userClass, "viewroot": "n/a",
	}

	s.sigOS(sig, a)

	s.pending = append(s.pending, bfs.Viol{Sig: sig, Detail: det})
}

// normalise the results of both sides into the actor's namespace.
func (s *sys) normReal(a *actor, c fsx.Call, r result) result {
	if !a.isView() {
		return r
	}

	n := r
	n.EPaths = nil

	for _, p := range r.EPaths {
		n.EPaths = append(n.EPaths, viewAbs(a.cwd, p))
	}

	if (c.Op == "Stat" || c.Op == "Lstat") && viewAbs(a.cwd, c.A) == "/" {
		n.Name = "<root>"
	}

	return n
}

func (s *sys) normTwin(a *actor, c fsx.Call, r result) result {
	if !a.isView() {
		return r
	}

	n := r
	n.EPaths = nil

	for _, p := range r.EPaths {
		n.EPaths = append(n.EPaths, stripDir(a.base(), path.Clean(p)))
	}

	if (c.Op == "Stat" || c.Op == "Lstat") && viewAbs(a.cwd, c.A) == "/" {
		n.Name = "<root>"
	}

	if c.Op == "Getwd" && r.Kind == "ok" {
		n.Val = stripDir(a.base(), r.Val)
	}

	return n
}

// observe reads p through v: Lstat, then the listing or the content. It
// returns the Lstat outcome kind and the full observation.
func observe(v avfs.VFS, p string, maskName bool) (kind, full string) {
	r := exec(v, fsx.Call{Op: "Lstat", A: p}, nil)
	if r.Kind != "ok" {
		return r.Kind, r.Kind
	}

	if maskName {
		r.Name = "<root>"
	}

	out := r.Name + " " + r.Val

	var r2 result

	switch {
	case strings.HasPrefix(r.Val, "l "):
		// a symbolic link (made by the Symlink calls of the alphabet) is read, not
		// followed: paths that resolve through a link are outside the property
		k, msg := fsx.Guard(func() {
			t, err := v.Readlink(p)
			r2 = errResult(err)
			r2.Val = t
		})
		if k != "" {
			r2 = result{Kind: k, Msg: msg}
		}
	case strings.HasPrefix(r.Val, "d"):
		r2 = exec(v, fsx.Call{Op: "ReadDir", A: p}, nil)
	default:
		r2 = exec(v, fsx.Call{Op: "ReadFile", A: p}, nil)
	}

	return "ok", out + " | " + r2.Kind + ":" + r2.Val
}

// outsideChanged lists the dump lines that differ between before and after and
// lie outside region ("" = nothing is inside). A line whose hard-link class has
// a member inside the region may change with it.
func outsideChanged(before, after []string, region string) []string {
	minus, plus := diffSets(before, after)
	if len(minus)+len(plus) == 0 {
		return nil
	}

	inside := func(p string) bool { return region != "" && under(p, region) }
	labels := map[string]bool{}

	for _, set := range [][]string{before, after} {
		for _, l := range set {
			if lb := labelOf(l); lb != "" && inside(pathOf(l)) {
				labels[lb] = true
			}
		}
	}

	// names outside the region that are hard links of a file inside it: their
	// link count, bytes, mode and class label legitimately change with it
	linked := map[string]bool{}

	for _, set := range [][]string{before, after} {
		for _, l := range set {
			if lb := labelOf(l); lb != "" && labels[lb] {
				linked[pathOf(l)] = true
			}
		}
	}

	var out []string

	for _, x := range []struct {
		sign  string
		lines []string
	}{{"-", minus}, {"+", plus}} {
		for _, l := range x.lines {
			if inside(pathOf(l)) {
				continue
			}

			if linked[pathOf(l)] {
				continue
			}

			out = append(out, x.sign+l)
		}
	}

	return out
}

func pathsOfLines(ls []string) string {
	seen := map[string]bool{}

	var ps []string

	for _, l := range ls {
		p := l[:1] + pathOf(l[1:])
		if !seen[p] {
			seen[p] = true
			ps = append(ps, p)
		}
	}

	if len(ps) > 5 {
		ps = append(ps[:5], "...")
	}

	return strings.Join(ps, " ")
}

type detail struct {
	Variant  string   `json:"variant"`
	Actor    string   `json:"actor"`
	Dir      string   `json:"view_dir,omitempty"`
	Phase    string   `json:"phase"`
	User     string   `json:"user"`
	UMask    string   `json:"umask"`
	Cwd      string   `json:"cwd"`
	Call     string   `json:"call"`
	TwinCall string   `json:"twin_call,omitempty"`
	Real     string   `json:"result_real"`
	Twin     string   `json:"result_twin,omitempty"`
	Note     string   `json:"note,omitempty"`
	DumpDiff []string `json:"dump_diff_twin_vs_real,omitempty"`
	Outside  []string `json:"outside_changes,omitempty"`
}

func (d detail) String() string {
	b, _ := json.Marshal(d)

	return string(b)
}

// creates reports whether a successful call of this kind adds an entry.
func creates(c fsx.Call) bool {
	switch c.Op {
	case "Mkdir", "MkdirAll", "WriteFile", "Symlink", "CreateTemp", "MkdirTemp", "Create", "Link", "Rename":
		// (Link, Rename: the new name B)
		return true
	case "OpenFile":
		return c.Flag&os.O_CREATE != 0
	}

	return false
}

// Step applies one operation on the real side and, in lock-step, on the twin.
func (s *sys) Step(i int) bfs.StepResult {
	o := s.ops[i]
	if o.c.Op == "Sub" {
		return s.stepSub(i)
	}

	x := s.actors[o.actor]
	c := o.c            // operands as the call is made (OS spelling)
	mc := s.mcall(x, c) // operands in the model's spelling
	before := s.lastDump

	phase := "after-chdir"

	switch {
	case !x.attached():
		phase = "detached"
	case !x.chdirDone:
		phase = "before-chdir"
	}

	// What is judged:
	//   full     equal behaviour with the twin, equal trees, outside untouched, isolation
	//   outside  only "nothing outside dir is reached or changed" (relative operand
	//            before the view's working directory was set through the view)
	//   detached the view's root was renamed or removed: the property is silent;
	//            only no panic / deadlock and "nothing outside changes"
	//   foreign  (Windows-typed) an operand names another volume: it has no
	//            counterpart below dir and must not reach anything. The call succeeds
	//            or fails as the parent's call on a volume that does not exist (which
	//            error is not compared), the trees stay equal, nothing outside changes
	mode := "full"

	switch {
	case phase == "detached":
		mode = "detached"
	case x.isView() && foreignCall(mc):
		mode = "foreign"
	case x.isView() && phase == "before-chdir" && s.isRelative(c):
		mode = "outside"
	}

	userClass := "admin"
	if x.user != "root" {
		userClass = "non-admin"
	}

	pclass := s.classOfCall(x, c, mc)
	hasTwin := !x.isView() || x.located
	tc := s.twinCall(x, mc) // model spelling
	tcOS := s.oscall(tc)    // as the twin parent is called

	if !x.isView() {
		tcOS = c // the parent's own calls are passed verbatim
	}

	det := detail{
		Variant: s.variant, Actor: x.name, Phase: phase, User: x.user, UMask: fmt.Sprintf("%03o", x.umask), Cwd: x.cwd,
		Call: callString(c),
	}

	if x.isView() {
		det.Dir = x.dir
		if !x.attached() {
			det.Dir += " (root node now at " + x.loc + ")"
			if !x.located {
				det.Dir = x.dir + " (root node unreachable from the parent)"
			}
		}
	}

	var viols []bfs.Viol

	viols, s.pending = s.pending, nil

	report := func(kind, want, got, note string, extra ...string) {
		d := det
		d.Note = note

		sig := map[string]string{
			"actor": x.kind, "call": c.Op, "path": pclass, "phase": phase, "kind": kind,
			"want": clip(want), "got": clip(got), "user": userClass, "viewroot": s.viewrootClass(x, mc, before),
		}

		for i := 0; i+1 < len(extra); i += 2 {
			sig[extra[i]] = extra[i+1]
		}

		s.sigOS(sig, x)

		viols = append(viols, bfs.Viol{Sig: sig, Detail: d.String()})
	}

	// ---- execute
	// (does the name exist already? MkdirAll and a non-exclusive open succeed on
	// an existing name without creating anything)
	existed := false

	if creates(c) && !isTmpOp[c.Op] { // (CreateTemp, MkdirTemp: A is the directory, the name is always new)
		name := c.A
		if isPairOp[c.Op] {
			name = c.B
		}

		fsx.Guard(func() { _, err := x.fs.Lstat(name); existed = err == nil })
	}

	rr := exec(x.fs, c, s.users)

	var tr result

	if hasTwin {
		s.mirror(x)
		tr = exec(s.T, tcOS, s.tusers)
		det.TwinCall = callString(tcOS)
		det.Twin = tr.String()
	}

	det.Real = rr.String()

	if s.trace != nil {
		s.trace(fmt.Sprintf("%-44s real=%s | twin %s = %s", s.OpString(i), rr, callString(tcOS), tr))
	}

	var after, tafter []string

	dk, dmsg := fsx.Guard(func() { after = s.dump(s.P); tafter = s.dump(s.T) })
	if dk != "" {
		report("panic", "dump", "dump-"+dk, dmsg)

		return bfs.StepResult{Changed: true, Key: "broken:" + s.OpString(i), Broken: true, Rebuild: true, Outcome: x.kind + "/" + c.Op + "/dump-" + dk, Viols: viols}
	}

	treesEqual := equalLines(after, tafter)

	if treesEqual {
		// the node-graph dumps agree; also compare what the public API shows
		// (hard-link classes are computed with SameFile there, i.e. from file ids)
		if pa, ta := s.apiDump(s.P, s.users), s.apiDump(s.T, s.tusers); !equalLines(pa, ta) {
			treesEqual = false
			ot, or := diffSets(ta, pa)

			for _, l := range ot {
				det.DumpDiff = append(det.DumpDiff, "twin only (public API walk): "+l)
			}

			for _, l := range or {
				det.DumpDiff = append(det.DumpDiff, "real only (public API walk): "+l)
			}
		}
	} else {
		ot, or := diffSets(tafter, after)
		for _, l := range ot {
			det.DumpDiff = append(det.DumpDiff, "twin only: "+l)
		}

		for _, l := range or {
			det.DumpDiff = append(det.DumpDiff, "real only: "+l)
		}
	}

	// (the twin of a view is called on absolute paths; the parent's twin gets the parent's own operands)
	tcwd := "/"
	if !x.isView() {
		tcwd = x.cwd
	}

	nr, nt := s.normReal(x, mc, s.mres(x.cwd, c, rr)), s.normTwin(x, mc, s.mres(tcwd, c, tr))
	poisoned := rr.poisoned() || (hasTwin && tr.poisoned())
	diverged := !treesEqual

	// ---- outcome, value
	// Remove / RemoveAll / Rename whose operand is the view's root act on the
	// directory entry of dir, which lives OUTSIDE dir (the permission to remove
	// it is that of dir's parent): "as the parent on the prefixed path" and
	// "nothing outside dir is reachable" pull in different directions, and a
	// root that refuses to be removed, or is emptied and kept, is as defensible
	// as the parent's removal of the entry. Such calls are judged only on: no
	// panic / deadlock that the parent does not share, nothing outside dir changed.
	rootEntry := x.isView() && mode != "foreign" && (c.Op == "Remove" || c.Op == "RemoveAll" || c.Op == "Rename") &&
		(viewAbs(x.cwd, mc.A) == "/" || (c.Op == "Rename" && viewAbs(x.cwd, mc.B) == "/"))
	lenient := rootEntry && !rr.poisoned()
	kindsEqual := nr.Kind == nt.Kind

	if mode == "foreign" {
		// (a panic or deadlock the parent shares on a volume that does not exist is the parent's defect)
		kindsEqual = okClass(nr.Kind) == okClass(nt.Kind) && (!rr.poisoned() || nr.Kind == nt.Kind)
	}

	switch mode {
	case "full":
		switch {
		case lenient && hasTwin && c.Op == "Rename" && viewAbs(x.cwd, mc.A) == "/" && viewAbs(x.cwd, mc.B) != "/" &&
			nr.Kind == "ok" && nt.Kind != "ok":
			// (round 12) The leniency has two sides - the parent's behaviour, or a root
			// that refuses - and a success is on neither when the parent refuses: every
			// name a view can give as destination lies below its own root, and a
			// directory is never moved below itself (the parent answers EINVAL, or the
			// error of the destination's directory). A view that reports success has
			// tied its root into its own subtree.
			report("outcome", nt.Kind, nr.Kind, "the root of the view was renamed to a name below itself, which the parent refuses on the prefixed paths")

			diverged = true
		case lenient:
		case !kindsEqual:
			kind, want, got := "outcome", nt.Kind, nr.Kind

			switch nr.Kind {
			case "PANIC":
				kind, want, got = "panic", "no-panic", panicClass(rr.Msg)
			case "DEADLOCK":
				kind, want = "deadlock", "no-deadlock"
			}

			if s.reachedOutside(x, mc, nr, nt) {
				kind = "outside-read"
			}

			report(kind, want, got, "the view call and the parent call on the prefixed path end differently")

			if !readOnly[c.Op] && c.Op != "Getwd" {
				diverged = true
			}
		case nr.Name != nt.Name || nr.Val != nt.Val:
			kind := "value"
			if s.reachedOutside(x, mc, nr, nt) {
				kind = "outside-read"
			}

			report(kind, strings.TrimSpace(nt.Name+" "+nt.Val), strings.TrimSpace(nr.Name+" "+nr.Val), "returned value differs")
		case strings.Join(nr.EPaths, ",") != strings.Join(nt.EPaths, ","):
			report("value", "errpath="+strings.Join(nt.EPaths, ","), "errpath="+strings.Join(nr.EPaths, ","),
				"path carried by the error differs after stripping dir")
		}
	case "outside":
		if s.reachedOutside(x, mc, nr, nt) {
			report("outside-read", nt.String(), nr.String(), "answer equals what the parent gives for the path OUTSIDE dir")
		}
	case "foreign":
		if !kindsEqual {
			kind, want, got := "outcome", okClass(nt.Kind), nr.Kind

			switch {
			case nr.Kind == "PANIC":
				kind, want, got = "panic", "no-panic", panicClass(rr.Msg)
			case nr.Kind == "DEADLOCK":
				kind, want = "deadlock", "no-deadlock"
			case s.reachedVolume(x, c, rr):
				kind = "outside-read"
			}

			report(kind, want, got, "an operand names another volume, which has no counterpart below dir: the call must succeed or fail as the parent's call on a volume that does not exist")

			if !readOnly[c.Op] {
				diverged = true
			}
		}
	case "detached":
		if rr.poisoned() && !(hasTwin && tr.Kind == rr.Kind) {
			kind, want, got := "panic", "no-panic", panicClass(rr.Msg)
			if rr.Kind == "DEADLOCK" {
				kind, want, got = "deadlock", "no-deadlock", "DEADLOCK"
			}

			report(kind, want, got, "call through a view whose root directory was renamed or removed")
		}

		// a removed directory accepts no new entry: when the view's root is no
		// longer reachable from the parent's root (removed, or below a removed
		// directory - a renamed root is still located), nothing can be created
		// through the view; what would be created is visible to nobody else
		if !x.located && rr.Kind == "ok" && creates(c) && !existed {
			report("created-in-removed-directory", "error", "ok", "creation through a view whose root directory was removed through the parent")
		}
	}

	// ---- model update (from the twin when judged, from the real side otherwise)
	twinOK := hasTwin && tr.Kind == "ok"

	switch c.Op {
	case "SetUser":
		if mode == "full" && twinOK {
			x.user = c.A
		} else if rr.Kind == "ok" {
			x.user = c.A
		}
	case "SetUMask":
		if mode == "full" && twinOK {
			x.umask = c.Perm
		} else if rr.Kind == "ok" {
			x.umask = c.Perm
		}
	case "Chdir":
		if mode == "full" || mode == "foreign" {
			if twinOK {
				x.cwd = stripDir(x.base(), s.mp("/", s.T.CurDir()))
				x.chdirDone = true
			}
		} else if rr.Kind == "ok" {
			_, _, x.cwd = s.actual(x)
			x.chdirDone = true
		}
	}

	// ---- isolation / own state
	for _, m := range s.stateMismatches() {
		switch {
		case m.actor != x:
			report("setter-leak", m.want, m.got, "state of another actor changed", "victim", m.actor.kind)

			diverged = true
		case mode == "full" || mode == "foreign":
			if kindsEqual { // otherwise already reported as outcome
				report("value", m.want, m.got, "the actor's own User/UMask/Getwd after the call is not what the parent's would be")
			}

			diverged = true
		}
		// resynchronise so that the model follows the implementation
		m.actor.user, m.actor.umask, m.actor.cwd = s.actual(m.actor)
	}

	// ---- tree equality
	// (when the outcomes already differ the tree difference is its consequence)
	if (mode == "full" || mode == "foreign") && !treesEqual && kindsEqual && !lenient {
		report("tree", "equal", treeClass(tafter, after), "same outcome, but the parent tree differs from the twin's after the call")
	}

	// ---- nothing outside dir changes
	if x.isView() {
		region := ""
		if x.located {
			region = x.loc
		}

		if oc := outsideChanged(before, after, region); len(oc) > 0 {
			d := det
			det.Outside = oc
			report("outside-changed", "unchanged", pathsOfLines(oc), "entries of the parent outside the view's directory changed")
			det = d
		}
	}

	// ---- where do the views' roots live now
	changed := !equalLines(before, after)
	s.lastDump = after

	if changed && !poisoned {
		for _, a := range s.actors {
			s.locate(a)
		}
	}

	// ---- visibility through the other actors
	if mode == "full" && changed && treesEqual && !poisoned {
		s.visibility(x, mc, tc, report)
	}

	key := s.key("")
	if diverged {
		key += "\n!diverged"
	}

	// A call that succeeds through a view whose root node nobody else can reach
	// changes something no dump shows (the mode of the removed directory, an entry
	// in it): the state key stays what it was, and the calls tried next from this
	// state would meet what this one left behind. The instance is rebuilt.
	hidden := x.isView() && !x.located && rr.Kind == "ok" && !readOnly[c.Op] && !isSetter[c.Op] && c.Op != "Getwd"

	res := bfs.StepResult{
		Changed: key != s.lastKey, Key: key, Broken: diverged || poisoned, Rebuild: diverged || poisoned || hidden,
		Outcome: x.kind + "/" + c.Op + "/" + twinKind(hasTwin, tr), Viols: viols,
	}

	s.lastKey = key

	return res
}

func twinKind(has bool, tr result) string {
	if !has {
		return "no-reference"
	}

	return tr.Kind
}

// reachedOutside: a read-only view call on an operand that lexically climbs
// above the view's root answered exactly what the parent answers for the
// unclamped path, and that differs from the answer for the clamped path.
func (s *sys) reachedOutside(a *actor, c fsx.Call, nr, nt result) bool {
	if !a.isView() || !readOnly[c.Op] {
		return false
	}

	if esc, _ := escapes(a.cwd, c.A); !esc {
		return false
	}

	// with an unsearchable root the answer for the clamped path is a refusal and
	// any other answer would "look like" the outside one: not decidable this way
	if s.rootSearchable(a, s.lastDump) != "searchable" {
		return false
	}

	ec, outside := s.escapedCall(a, c)
	if !outside {
		return false
	}

	s.mirror(a)
	er := exec(s.T, s.oscall(ec), s.tusers)

	same := func(p, q result) bool { return p.Kind == q.Kind && p.Val == q.Val }

	return er.Kind == "ok" && same(nr, er) && !same(nt, er)
}

// visibility: after a change through x, every other attached actor that can
// name a touched path must see there what the twin parent shows.
func (s *sys) visibility(x *actor, c, tc fsx.Call, report func(kind, want, got, note string, extra ...string)) {
	var touched []string

	abs := func(p string) string {
		if x.isView() || otherVolume(p) {
			return p // tc operands are absolute in the parent namespace already
		}

		return viewAbs(x.cwd, p)
	}

	if !noPathOps[c.Op] {
		touched = append(touched, abs(tc.A))

		if isPairOp[c.Op] {
			touched = append(touched, abs(tc.B))
		}
	}

	for _, tp := range touched {
		if otherVolume(tp) {
			continue // another volume is below no view
		}

		for _, y := range s.actors {
			if y == x || !y.attached() || !under(tp, y.dir) {
				continue
			}

			// An observer that lacks search permission on its own root (or above)
			// is refused by the parent on every prefixed path: whether it "sees the
			// change" cannot be read off the twin then; the permission difference
			// itself is judged on the observer's own calls (kind outcome).
			if s.rootSearchable(y, s.lastDump) != "searchable" {
				continue
			}

			py := stripDir(y.dir, tp)

			s.mirror(y)

			wk, want := observe(s.T, s.osp(tp), y.isView() && py == "/")
			gk, got := observe(y.fs, s.osp(py), y.isView() && py == "/")

			if want != got {
				cw, cg := "Lstat:"+wk, "Lstat:"+gk
				if wk == gk {
					cw, cg = "same-attributes-and-content", "different-attributes-or-content"
				}

				report("visibility", cw, cg,
					fmt.Sprintf("%s reads %q after the change and sees %q; the twin parent (as %s) reads %q and sees %q", y.name, py, got, y.user, tp, want),
					"observer", y.kind)
			}
		}
	}
}

// rootSearchable classifies whether the acting user has search permission on
// the view's root directory and on the directories above it (the parent checks
// them while walking the prefixed path): searchable | root-unsearchable |
// ancestor-unsearchable | n/a (parent actor, unreachable root).
func (s *sys) rootSearchable(a *actor, dump []string) string {
	rootBad, ancBad, ok := s.unsearchable(a, dump)

	switch {
	case !ok:
		return "n/a"
	case rootBad:
		return "root-unsearchable"
	case ancBad:
		return "ancestor-unsearchable"
	}

	return "searchable"
}

// viewrootClass is rootSearchable for the signature of a call. The walk of the
// prefixed path searches the directories ABOVE its last element only: when
// every operand of the call resolves to the view's root itself ('/', '/.',
// '/q/..', '..'), the parent never asks for search permission on that
// directory in order to reach it - what it demands there is the permission the
// call needs on its TARGET (x for Chdir, r for ReadDir ...), and a view that
// answers differently does so for another reason than "a view never checks
// search permission on the directory it starts from". Such calls get the
// class root-unsearchable-operand instead of root-unsearchable.
func (s *sys) viewrootClass(a *actor, c fsx.Call, dump []string) string {
	rootBad, ancBad, ok := s.unsearchable(a, dump)

	rootIsOperand := !noPathOps[c.Op] && viewAbs(a.cwd, c.A) == "/" && (!isPairOp[c.Op] || viewAbs(a.cwd, c.B) == "/")

	switch {
	case !ok:
		return "n/a"
	case rootBad && !rootIsOperand:
		return "root-unsearchable"
	case ancBad:
		return "ancestor-unsearchable"
	case rootBad:
		return "root-unsearchable-operand"
	}

	return "searchable"
}

// unsearchable: does the acting user lack search permission on the view's root
// directory (rootBad), on a directory above it (ancBad)? ok is false for the
// parent actor and for a view whose root the parent cannot reach.
func (s *sys) unsearchable(a *actor, dump []string) (rootBad, ancBad, ok bool) {
	if !a.isView() || !a.located {
		return false, false, false
	}

	u := s.users[a.user]
	if u == nil || u.IsAdmin() {
		return false, false, true
	}

	base := a.base()

	for _, l := range dump {
		f := strings.Fields(l)
		if len(f) < 4 || f[1] != "d" {
			continue
		}

		p := pathOf(l)
		if !under(base, p) {
			continue
		}

		// "/" included: a walk searches the directory it starts from like any other

		var mode, uid, gid int

		if _, err := fmt.Sscanf(f[2], "%o", &mode); err != nil {
			continue
		}

		if _, err := fmt.Sscanf(f[3], "%d:%d", &uid, &gid); err != nil {
			continue
		}

		switch {
		case uid == u.Uid():
			mode >>= 6
		case gid == u.Gid():
			mode >>= 3
		}

		if mode&1 == 0 {
			if p == base {
				rootBad = true
			} else {
				ancBad = true
			}
		}
	}

	return rootBad, ancBad, true
}

// apiDump walks the whole tree of a parent through the public API as the
// administrator (Lstat, ReadDir, ReadFile, SameFile) and restores the
// parent's current user afterwards.
func (s *sys) apiDump(v *memfs.MemFS, users map[string]avfs.UserReader) []string {
	cur := v.User()
	_ = v.SetUser(users["root"])

	var out []string

	roots := []string{"/"}
	if s.win {
		roots = []string{s.osp("/"), s.osp(vol2)}
	}

	if k, msg := fsx.Guard(func() {
		for _, r := range roots {
			out = append(out, fsx.Dump(v, r, fsx.DumpOpts{})...)
		}
	}); k != "" {
		out = []string{"!dump " + k + " " + msg}
	}

	_ = v.SetUser(cur)

	return out
}

func (s *sys) actorByName(n string) *actor {
	for _, a := range s.actors {
		if a.name == n {
			return a
		}
	}

	return nil
}

// execSub calls v.Sub(p); panics and decided deadlocks become outcomes.
func execSub(v *memfs.MemFS, p string) (res result, nv *memfs.MemFS) {
	k, msg := fsx.Guard(func() {
		sub, err := v.Sub(p)
		res = errResult(err)

		if err == nil {
			nv, _ = sub.(*memfs.MemFS)
			if nv == nil {
				res = result{Kind: "NOT-A-MEMFS", Msg: fmt.Sprintf("Sub returned a %T", sub)}
			}
		}
	})
	if k != "" {
		return result{Kind: k, Msg: msg}, nil
	}

	return res, nv
}

// stepSub is the operation "x = R.Sub(spelling)": the view of actor x is
// created anew by its receiver R, in the state R has now.
//
// Judged: same outcome as the twin parent's Sub on the prefixed path; the new
// view is rooted at the directory R resolves the spelling to (from R's working
// directory when it is relative); it starts with R's user, umask and working
// directory; the tree is untouched; and (independence) no per-view setter
// applied to the new view shows in any other actor, nor one applied to R in
// the new view. The independence probe runs at creation because a view that
// shares its state with its receiver is in every other respect - tree, user,
// umask, working directory - indistinguishable from a correct one, i.e. the
// sharing is not part of the state key.
//
// Not judged (the operation is a no-op then): R is a view whose root was
// renamed or removed (the property is silent), or the spelling is relative and
// R is a view whose working directory was not yet set through it.
func (s *sys) stepSub(i int) bfs.StepResult {
	o := s.ops[i]
	x := s.actors[o.actor]
	r := s.actorByName(x.recv)
	c := o.c // the spelling as given to Sub
	before := s.lastDump

	var viols []bfs.Viol

	viols, s.pending = s.pending, nil

	if r == nil || !r.attached() || (r.isView() && !r.chdirDone && !s.qualified(c.A)) {
		return bfs.StepResult{Key: s.lastKey, Outcome: x.recv + "/Sub/not-judged", Viols: viols}
	}

	mc := s.mcall(r, c) // in the model's spelling
	foreign := r.isView() && foreignCall(mc)

	phase := "after-chdir"
	if !r.chdirDone {
		phase = "before-chdir"
	}

	userClass := "admin"
	if r.user != "root" {
		userClass = "non-admin"
	}

	pclass := s.pathClass(r, c.A, mc.A)
	tc := s.twinCall(r, mc)
	tcOS := s.oscall(tc)

	if !r.isView() {
		tcOS = c
	}

	tdir := joinDir(r.base(), viewAbs(r.cwd, mc.A)) // where the parent sees the new view's root
	if otherVolume(mc.A) {
		tdir = mc.A
	}

	det := detail{
		Variant: s.variant, Actor: r.name, Phase: phase, User: r.user, UMask: fmt.Sprintf("%03o", r.umask), Cwd: r.cwd,
		Call: x.name + " = " + r.name + "." + c.String(), TwinCall: tcOS.String(),
	}

	if r.isView() {
		det.Dir = r.dir
	}

	newVol := "" // what the volume names mean in the view this step creates (Windows-typed systems)

	report := func(kind, want, got, note string, extra ...string) {
		d := det
		d.Note = note

		sig := map[string]string{
			"actor": r.kind, "call": c.Op, "path": pclass, "phase": phase, "kind": kind,
			"want": clip(want), "got": clip(got), "user": userClass, "viewroot": s.viewrootClass(r, mc, before),
		}

		for i := 0; i+1 < len(extra); i += 2 {
			sig[extra[i]] = extra[i+1]
		}

		s.sigOS(sig, r)

		if newVol != "" && newVol != "own" && (sig["volumes"] == "own" || sig["volumes"] == "n/a") {
			sig["volumes"] = newVol // the view just created
		}

		viols = append(viols, bfs.Viol{Sig: sig, Detail: d.String()})
	}

	rr, nv := execSub(r.fs, c.A)

	s.mirror(r)

	tr, _ := execSub(s.T, tcOS.A)

	det.Real, det.Twin = rr.String(), tr.String()

	if s.trace != nil {
		s.trace(fmt.Sprintf("%-44s real=%s | twin %s = %s", s.OpString(i), rr, tcOS.String(), tr))
	}

	tcwd := "/"
	if !r.isView() {
		tcwd = r.cwd
	}

	nr, nt := s.normReal(r, mc, s.mres(r.cwd, c, rr)), s.normTwin(r, mc, s.mres(tcwd, c, tr))
	diverged := false

	switch {
	case foreign:
		// the directory is on another volume, which has no counterpart below the
		// receiver's dir: Sub fails as the parent's Sub on a volume that does not exist
		if okClass(nr.Kind) != okClass(nt.Kind) || (rr.poisoned() && nr.Kind != nt.Kind) {
			kind, want, got := "outcome", okClass(nt.Kind), nr.Kind

			switch nr.Kind {
			case "PANIC":
				kind, want, got = "panic", "no-panic", panicClass(rr.Msg)
			case "DEADLOCK":
				kind, want = "deadlock", "no-deadlock"
			}

			report(kind, want, got, "Sub of a directory of another volume through a view")

			diverged = true
		}
	case nr.Kind != nt.Kind:
		kind, want, got := "outcome", nt.Kind, nr.Kind

		switch nr.Kind {
		case "PANIC":
			kind, want, got = "panic", "no-panic", panicClass(rr.Msg)
		case "DEADLOCK":
			kind, want = "deadlock", "no-deadlock"
		}

		report(kind, want, got, "Sub through the actor and Sub of the parent on the prefixed path end differently")

		diverged = true
	case strings.Join(nr.EPaths, ",") != strings.Join(nt.EPaths, ","):
		report("value", "errpath="+strings.Join(nt.EPaths, ","), "errpath="+strings.Join(nr.EPaths, ","),
			"path carried by the error differs after stripping dir")
	}

	var after, tafter []string

	dk, dmsg := fsx.Guard(func() { after = s.dump(s.P); tafter = s.dump(s.T) })
	if dk != "" {
		report("panic", "dump", "dump-"+dk, dmsg)

		return bfs.StepResult{Changed: true, Key: "broken:" + s.OpString(i), Broken: true, Rebuild: true, Outcome: r.kind + "/Sub/dump-" + dk, Viols: viols}
	}

	if !equalLines(after, tafter) {
		report("tree", "equal", treeClass(tafter, after), "Sub changed the tree of the parent, or of the twin")

		diverged = true
	}

	s.lastDump = after

	if nv != nil {
		// the actor is the new view from now on
		x.fs, x.dir = nv, tdir
		x.user, x.umask, x.cwd, x.chdirDone = r.user, r.umask, r.cwd, false
		x.vol = s.volumeClass(x)
		newVol = x.vol

		s.locate(x)

		if x.vol != "own" && s.win {
			report("volume-table", winVolume+"=own-root,"+vol2+"=unreachable", x.vol,
				"inside the view just created the default volume is not the view's own root, or another volume resolves (probe: Sub of the volume roots through the new view, injected VerifRootIs)")

			diverged = true
		}

		if !x.attached() {
			got := "a directory the parent cannot reach"
			if x.located {
				got = "rooted at " + x.loc
			}

			report("tree", "rooted at "+tdir, got, "the root node of the view returned by Sub is not the directory the parent calls dir (checked with the injected VerifRootIs hook)")

			diverged = true
		}

		for _, m := range s.stateMismatches() {
			if m.actor == x {
				report("value", m.want, m.got, "a new view starts with the user, umask and working directory its receiver has when Sub is called")
			} else {
				report("setter-leak", m.want, m.got, "Sub changed the state of another actor", "victim", m.actor.kind)
			}

			m.actor.user, m.actor.umask, m.actor.cwd = s.actual(m.actor)
			diverged = true
		}

		leak := func(setter string, m mismatch) {
			report("setter-leak", m.want, m.got, "independence probe on the view just created: "+setter, "victim", m.actor.kind, "setter", setter)

			diverged = true
		}

		s.probeIndependence(x, "new-view", leak)
		s.probeIndependence(r, "receiver", leak)
	}

	key := s.key("")
	if diverged {
		key += "\n!diverged"
	}

	// the actor's file system object was replaced: the instance is always rebuilt
	res := bfs.StepResult{
		Changed: key != s.lastKey, Key: key, Broken: diverged, Rebuild: true,
		Outcome: r.kind + "/Sub/" + tr.Kind, Viols: viols,
	}

	s.lastKey = key

	return res
}

// probeIndependence is the independence clause of the property, checked by
// doing it: each of the three per-view setters (SetUMask, SetUser, Chdir) is
// applied to actor a with a value that differs from the current one, User /
// UMask / Getwd of every OTHER actor are compared with the model, and a's
// state is put back. leak is called for every other actor that moved.
func (s *sys) probeIndependence(a *actor, role string, leak func(setter string, m mismatch)) {
	check := func(setter string) {
		for _, m := range s.stateMismatches() {
			if m.actor != a {
				leak(setter+"@"+role, m)
			}
		}
	}

	_, _ = fsx.Guard(func() {
		// umask
		old := a.umask
		nm := uint32(0o055)

		if old == nm {
			nm = 0o033
		}

		if a.fs.SetUMask(fs.FileMode(nm)) == nil {
			a.umask = nm
			check("SetUMask")
		}

		_ = a.fs.SetUMask(fs.FileMode(old))
		a.umask = old

		// user
		oldUser := a.user
		nu := "u2"

		if oldUser == nu {
			nu = "u1"
		}

		if a.fs.SetUser(s.users[nu]) == nil {
			a.user = nu
			check("SetUser")
		}

		_ = a.fs.SetUser(s.users[oldUser])
		a.user = oldUser

		// working directory: "/" or, when that is the current one, the first
		// directory listed in "/"
		oldCwd := a.cwd
		target := "/"

		if oldCwd == "/" {
			target = ""

			es, _ := a.fs.ReadDir(s.osp("/"))
			for _, e := range es {
				if e.IsDir() {
					target = "/" + e.Name()

					break
				}
			}
		}

		if target != "" && a.fs.Chdir(s.osp(target)) == nil {
			a.cwd = target
			check("Chdir")
		}

		_ = a.fs.SetCurDir(s.osp(oldCwd))
		a.cwd = oldCwd
	})
}
