package main

import (
	"fmt"
	"io/fs"
	"os"
	"path"
	"regexp"
	"strings"

	"github.com/avfs/avfs"

	"verif/lib/fsx"
)

// op is one letter of the alphabet: a call issued through one actor.
type op struct {
	actor int
	c     fsx.Call
}

// result is the outcome of one call: Kind as fsx.ErrKind (+ PANIC / DEADLOCK),
// the returned value, and the path fields of the returned error (raw).
type result struct {
	Kind   string   `json:"kind"`
	Name   string   `json:"name,omitempty"` // FileInfo.Name() of Stat/Lstat
	Val    string   `json:"val,omitempty"`
	EPaths []string `json:"err_paths,omitempty"`
	Msg    string   `json:"msg,omitempty"`
}

func (r result) String() string {
	s := r.Kind
	if r.Name != "" || r.Val != "" {
		s += ":" + r.Name + " " + r.Val
	}

	if len(r.EPaths) > 0 {
		s += " errpath=" + strings.Join(r.EPaths, ",")
	}

	return s
}

func (r result) poisoned() bool { return r.Kind == "PANIC" || r.Kind == "DEADLOCK" }

func errResult(err error) result {
	r := result{Kind: fsx.ErrKind(err)}
	if err == nil {
		return r
	}

	r.Msg = err.Error()

	switch e := err.(type) {
	case *fs.PathError:
		r.EPaths = []string{e.Path}
	case *os.LinkError:
		r.EPaths = []string{e.Old, e.New}
	}

	return r
}

// pathOps take one path operand (A); pairOps take two (A, B).
var (
	pathOps = []string{
		"Mkdir", "MkdirAll", "WriteFile", "OpenFile", "Remove", "RemoveAll", "Truncate", "Chmod",
		"Stat", "Lstat", "ReadDir", "ReadFile", "Chdir",
	}
	pairOps = []string{"Rename", "Link"}
	// newOps are the calls of the API that make a new entry and are not among
	// pathOps; they are issued on the operands actorSpec.fresh (Symlink, Create)
	// and actorSpec.tmp (CreateTemp, MkdirTemp). Their path operand is A like
	// that of every pathOp; the second argument (the target of Symlink, the
	// pattern of CreateTemp / MkdirTemp), which is no path of the namespace, is
	// carried in Data (callString prints the call in the order of the API).
	newOps    = []string{"Symlink", "Create"}
	tmpOps    = []string{"CreateTemp", "MkdirTemp"}
	isTmpOp   = map[string]bool{"CreateTemp": true, "MkdirTemp": true}
	isNewOp   = map[string]bool{"Symlink": true, "Create": true, "CreateTemp": true, "MkdirTemp": true}
	readOnly  = map[string]bool{"Stat": true, "Lstat": true, "ReadDir": true, "ReadFile": true}
	isSetter  = map[string]bool{"SetUser": true, "SetUMask": true, "Chdir": true}
	isPairOp  = map[string]bool{"Rename": true, "Link": true}
	noPathOps = map[string]bool{"Getwd": true, "SetUser": true, "SetUMask": true}
)

// exec applies c to v; panics and decided deadlocks become outcomes.
func exec(v avfs.VFS, c fsx.Call, users map[string]avfs.UserReader) (res result) {
	k, msg := fsx.Guard(func() { res = exec1(v, c, users) })
	if k != "" {
		return result{Kind: k, Msg: msg}
	}

	return res
}

func exec1(v avfs.VFS, c fsx.Call, users map[string]avfs.UserReader) result {
	perm := fsx.UnixMode(c.Perm)

	switch c.Op {
	case "Mkdir":
		return errResult(v.Mkdir(c.A, perm))
	case "MkdirAll":
		return errResult(v.MkdirAll(c.A, perm))
	case "WriteFile":
		data := []byte(c.Data)
		err := v.WriteFile(c.A, data, perm)
		fsx.Scribble(data)

		return errResult(err)
	case "OpenFile":
		f, err := v.OpenFile(c.A, c.Flag, perm)
		if err == nil {
			_ = f.Close()
		}

		return errResult(err)
	case "Symlink":
		// A: the new name, Data: the target, written as it is (no path of the call)
		err := v.Symlink(c.Data, c.A)
		r := errResult(err)

		if e, ok := err.(*os.LinkError); ok {
			// only New is a path of the namespace; Old must come back as it was given
			r.EPaths = []string{e.New}
			r.Val = "old=" + e.Old
		}

		return r
	case "Create":
		f, err := v.Create(c.A)
		if err == nil {
			_ = f.Close()
		}

		return errResult(err)
	case "CreateTemp", "MkdirTemp":
		// A: the directory, Data: the pattern. The name is random: the entry is
		// removed again at once through the same actor, so that trees and state
		// keys stay deterministic; the name the call returned is compared with
		// its digits masked, as a path of the actor's namespace (EPaths).
		var (
			name string
			err  error
		)

		if c.Op == "MkdirTemp" {
			name, err = v.MkdirTemp(c.A, c.Data)
		} else {
			var f avfs.File

			f, err = v.CreateTemp(c.A, c.Data)
			if err == nil {
				name = f.Name()
				_ = f.Close()
			}
		}

		r := errResult(err)
		if err == nil {
			r.EPaths = []string{name}
			if cerr := v.Remove(name); cerr != nil {
				r.Val = "cleanup=" + fsx.ErrKind(cerr)
			}
		}

		for i, p := range r.EPaths {
			r.EPaths[i] = reNum.ReplaceAllString(p, "N")
		}

		return r
	case "Remove":
		return errResult(v.Remove(c.A))
	case "RemoveAll":
		return errResult(v.RemoveAll(c.A))
	case "Truncate":
		return errResult(v.Truncate(c.A, c.N))
	case "Chmod":
		return errResult(v.Chmod(c.A, perm))
	case "Rename":
		return errResult(v.Rename(c.A, c.B))
	case "Link":
		return errResult(v.Link(c.A, c.B))
	case "Chdir":
		return errResult(v.Chdir(c.A))
	case "Getwd":
		d, err := v.Getwd()
		r := errResult(err)
		r.Val = d

		return r
	case "Stat", "Lstat":
		var (
			fi  fs.FileInfo
			err error
		)

		if c.Op == "Stat" {
			fi, err = v.Stat(c.A)
		} else {
			fi, err = v.Lstat(c.A)
		}

		r := errResult(err)
		if err == nil {
			r.Name = fi.Name()
			r.Val = fsx.InfoString(v, fi)
		}

		return r
	case "ReadDir":
		es, err := v.ReadDir(c.A)
		r := errResult(err)

		names := make([]string, 0, len(es))
		for _, e := range es {
			names = append(names, e.Name()+fsx.TypeChar(e.Type()))
		}

		r.Val = strings.Join(names, ",")

		return r
	case "ReadFile":
		b, err := v.ReadFile(c.A)
		r := errResult(err)
		r.Val = fmt.Sprintf("%q", b)
		fsx.Scribble(b) // a returned slice is the caller's: no file may change with it

		return r
	case "SetUser":
		u, ok := users[c.A]
		if !ok {
			panic("c11: unknown user " + c.A)
		}

		return errResult(v.SetUser(u))
	case "SetUMask":
		return errResult(v.SetUMask(perm))
	}

	panic("c11: unknown op " + c.Op)
}

var (
	reHex  = regexp.MustCompile(`0x[0-9a-fA-F]+`)
	reNum  = regexp.MustCompile(`[0-9]+`)
	reArgs = regexp.MustCompile(`\((0x|\{0x|\.\.\.).*$`)
)

// callString prints a call; the calls whose second argument travels in Data
// (newOps, tmpOps) are printed in the order of the API.
func callString(c fsx.Call) string {
	switch {
	case c.Op == "Symlink":
		return fmt.Sprintf("Symlink(%q,%q)", c.Data, c.A)
	case isTmpOp[c.Op]:
		return fmt.Sprintf("%s(%q,%q)+Remove", c.Op, c.A, c.Data)
	}

	return c.String()
}

// panicClass removes pointer values and numbers from a panic message.
func panicClass(msg string) string {
	msg = reArgs.ReplaceAllString(msg, "")
	msg = reHex.ReplaceAllString(msg, "X")
	msg = reNum.ReplaceAllString(msg, "N")

	if len(msg) > 200 {
		msg = msg[:200]
	}

	return msg
}

// ---------------------------------------------------------------------------
// alphabet

type actorSpec struct {
	name, kind, dir string
	abs, rel        []string
	src, dst        []string // operands of Rename / Link
	ops             []string // single-path calls (default pathOps)
	users           []string // SetUser arguments
	umasks          []uint32 // SetUMask arguments

	// Views are not only part of the start state: "<name> = <recv>.Sub(spelling)"
	// is a call of the alphabet that creates the view anew, in whatever state
	// (user, umask, working directory) the receiver has by then.
	//
	// General lesson: a function that takes a directory compares, cleans or
	// short-cuts on the STRING it was given ("." means 'nothing to do', "/" means
	// 'the root'). The directory of a view is therefore spelled in every way a
	// caller can spell it - absolute clean, absolute with "." and "..", relative
	// to the receiver's working directory ("." / ".." / a name) - from the parent
	// and from a view (nested), and the independence of user, umask and working
	// directory is probed on every view that comes out, however it was spelled.
	recv string   // name of the actor Sub is called on
	sub  []string // spellings of the directory

	// Every call that makes a new entry, not only the common ones.
	//
	// General lesson: a rule such as "a removed directory accepts no new entry",
	// "search permission on the way", "the view's root is an ordinary directory"
	// is implemented once PER creating call (each locks the directory of the new
	// name and tests it by itself), so it can be right in Mkdir and OpenFile and
	// wrong in the one call nobody tried: Symlink, Link, Rename (destination),
	// Create, CreateTemp, MkdirTemp, WriteFile, OpenFile(O_CREATE), Mkdir,
	// MkdirAll ALL belong to the alphabet of an actor, on new names in its root
	// and below it. (The statement keeps PATHS that resolve through a symbolic
	// link out of the comparison with the parent, not the CALL Symlink: the link
	// is made with a plain relative name as target on a name that is no operand
	// of any other call, and nothing is read through it.)
	fresh []string // names that do not exist: operands of newOps (Symlink, Create)
	tmp   []string // directories: operands of tmpOps (CreateTemp, MkdirTemp)

	// Directories (in the actor's namespace) that are the root of a view: Chmod
	// is issued on them with every mode of rootModes as well.
	//
	// General lesson: the directory a view is rooted at is an ordinary directory
	// of the parent, with an owner and a mode of its own; "the root needs no
	// permission check" is true of a real root (0755, owned by the administrator)
	// and false of a view's. Every call whose operand resolves to the view's root
	// ('/', '/.', '/q/..', '..' ...) is therefore also made while that directory
	// refuses search, or write, or read to the view's user.
	rootDirs []string
}

// freshDir is a directory of the start state that NEVER had an entry, and the
// root of the view V3 (full alphabet, both tiers, both OS types).
//
// General lesson: containers are allocated lazily and released by shortcuts
// ("nothing in it: nothing to do"). A directory that never held an entry is
// internally another object than one that was populated and emptied again (no
// table of children yet), although no call of the public API tells them apart,
// and code that runs when a directory is removed, listed or given its first
// entry takes another path for it. Every other directory a view is rooted at
// in this driver contains something, or did once. So the start state also
// holds a directory nothing was ever created in, with a view on it, and the
// whole history alphabet applies to it: the parent (and the view of "/")
// removes it with Remove / RemoveAll, directly or by removing the directory
// above it, renames it, chmods it, gives it its first entry; the view creates
// in it, before and after. The rules are the ones of every other view: the
// twin comparison while the view is attached, and "nothing is created through
// a view whose root directory was removed" afterwards.
const freshDir = "/p/e"

// symlinkTarget is what the links made by Symlink point to: a plain relative
// name, written into the link as it is by the view and by the parent alike.
const symlinkTarget = "g"

// rootModes: one of x, w, r missing for group and others (the view roots of
// the start state belong to the administrator: the non-admin users are
// "others" there); the plain Chmod of the alphabet (0700) removes all three.
// The core alphabet, explored one level deeper, keeps to 0700.
var rootModes = []uint32{0o766, 0o755, 0o733}

// actorSpecs returns the actors and their alphabets. The core alphabet is a
// subset (fewer operands, fewer calls) explored one level deeper.
//
// win: the operands are spelled for a Windows-typed system and the operands
// that exist there only are added (ostype.go: winOperands).
func actorSpecs(tier string, core, win bool) []actorSpec {
	specs := linuxSpecs(tier, core)
	if win {
		winOperands(specs, core)
	}

	return specs
}

func linuxSpecs(tier string, core bool) []actorSpec {
	if core {
		ops := []string{"Mkdir", "WriteFile", "Remove", "RemoveAll", "Chmod", "Stat", "ReadDir", "ReadFile", "Chdir", "Symlink"}

		return []actorSpec{
			{
				name: "parent", kind: "parent", dir: "/", ops: ops,
				abs: []string{"/p", "/p/q", "/p/q/f", "/p/new"},
				src: []string{"/p", "/p/q", "/p/q/f"}, dst: []string{"/new", "/p/new"},
			},
			{
				name: "V1", kind: "view", dir: "/p", ops: ops,
				abs: []string{"/", "/q", "/q/f", "/new", "/../o/h", "/q/../.."},
				rel: []string{"f", "..", "new"},
				src: []string{"/q/f", "/q"}, dst: []string{"/new", "/../new"},
				users: []string{"u1", "root"}, umasks: []uint32{0o077},
				recv: "parent", sub: []string{"/p", "."},
				fresh: []string{"/sl"},
			},
			{
				name: "V2", kind: "nested", dir: "/p/q", ops: ops,
				abs: []string{"/", "/f", "/new", "/../g"},
				rel: []string{"f", ".."},
				src: []string{"/f"}, dst: []string{"/new", "/../new"},
				users: []string{"u2", "root"}, umasks: []uint32{0o027},
				recv: "V1", sub: []string{"/q", "."},
				fresh: []string{"/sl"},
			},
		}
	}

	parentAbs := []string{"/", "/p", "/p/q", "/p/q/f", "/p/g", "/p/new", "/p/q/new", "/o", "/o/h", "/new", "/p/q/../.."}
	parentRel := []string{"f", "q/f", "p/g", "..", "new"}
	parentSrc := []string{"/p", "/p/q", "/p/q/f", "/p/g", "/o/h", "/o"}
	rootAbs := append(append([]string{}, parentAbs...), freshDir, "/..", "/../o/h") // operands of the view of "/"
	parentAbs = append(parentAbs, freshDir, freshDir+"/new")
	parentDst := []string{"/new", "/p/new", "/p/q/new", "/o/new", "/p/g", "/p/q"}
	users := []string{"u1", "u2", "root"}
	umasks := []uint32{0, 0o027, 0o077}

	specs := []actorSpec{
		{
			name: "parent", kind: "parent", dir: "/",
			abs: parentAbs, rel: parentRel, src: append(append([]string{}, parentSrc...), freshDir), dst: parentDst,
			rootDirs: []string{"/p", "/p/q"}, // (the modes of freshDir are set through V3)
			fresh:    []string{"/p/sl", "/p/q/sl", freshDir + "/sl"},
		},
		{
			name: "V1", kind: "view", dir: "/p", users: users, umasks: umasks,
			abs:  []string{"/", "/q", "/q/f", "/g", "/new", "/q/new", "/..", "/../o", "/../o/h", "/q/..", "/q/../..", "/q/../../o/h", "/p", "/o"},
			rel:  []string{"f", "q/f", "..", "../..", "../o/h", "new"},
			src:  []string{"/q", "/q/f", "/g", "/", "/../o/h", "f"},
			dst:  []string{"/new", "/q/new", "/../new", "/../o/new", "/g", "/q", "new"},
			recv: "parent", sub: []string{"/p", "/p/.", "/p/q/..", "p", ".", ".."}, rootDirs: []string{"/"},
			fresh: []string{"/sl", "/q/sl"}, tmp: []string{"/", "/q"},
		},
		{
			name: "V2", kind: "nested", dir: "/p/q", users: users, umasks: umasks,
			abs:  []string{"/", "/.", "/f", "/new", "/..", "/../g", "/../../o/h", "/f/../..", "/q", "/p", "/o"},
			rel:  []string{"f", "..", "../..", "../g", "../../o/h", "new"},
			src:  []string{"/f", "/", "/../g", "/../../o/h", "f"},
			dst:  []string{"/new", "/../new", "/../../o/new", "/f", "new"},
			recv: "V1", sub: []string{"/q", "/q/.", "q", ".", ".."}, rootDirs: []string{"/"},
			fresh: []string{"/sl", "sl"}, tmp: []string{"/", "."},
		},
	}

	// the view of "/" is part of both tiers (Sub of the root is a code path of its own)
	{
		specs = append(specs, actorSpec{
			name: "V0", kind: "rootview", dir: "/", users: users, umasks: umasks,
			abs: rootAbs,
			rel: parentRel, src: parentSrc, dst: parentDst,
			recv: "parent", sub: []string{"/", "/p/..", ".", ".."},
			fresh: []string{"/sl", "/p/sl"}, tmp: []string{"/", "/p"},
		})
	}

	// the view of a directory that never had an entry (freshDir)
	specs = append(specs, actorSpec{
		name: "V3", kind: "view", dir: freshDir,
		ops: []string{"Mkdir", "MkdirAll", "WriteFile", "OpenFile", "Remove", "RemoveAll", "Stat", "ReadDir", "Chdir", "Symlink", "Create", "CreateTemp", "MkdirTemp"},
		abs: []string{"/", "/new", "/new/sub"},
		rel: []string{"new"},
		src: []string{"/new"}, dst: []string{"/new2", "/../new"},
		users: []string{"u1", "root"}, umasks: []uint32{0o077},
		recv: "parent", sub: []string{freshDir, path.Base(freshDir)}, rootDirs: []string{"/"},
		fresh: []string{"/sl"}, tmp: []string{"/"},
	})

	return specs
}

func buildOps(specs []actorSpec) []op {
	var ops []op

	for ai, sp := range specs {
		add := func(c fsx.Call) { ops = append(ops, op{actor: ai, c: c}) }

		single := sp.ops
		if single == nil {
			single = pathOps
		}

		for _, p := range append(append([]string{}, sp.abs...), sp.rel...) {
			for _, o := range single {
				if isNewOp[o] {
					continue // on the operands fresh / tmp, below
				}

				if o == "Chdir" && sp.kind == "parent" && hasVolume(p) && !strings.HasPrefix(p, winVolume) {
					// the parent's working directory stays on the default volume
					// (Windows-typed systems: a view is never rooted on another one)
					continue
				}

				c := fsx.Call{Op: o, A: p}

				switch o {
				case "Mkdir", "MkdirAll":
					c.Perm = 0o777
				case "WriteFile":
					c.Perm, c.Data = 0o666, "w"
				case "OpenFile":
					c.Perm, c.Flag = 0o666, os.O_RDWR|os.O_CREATE|os.O_EXCL
				case "Truncate":
					c.N = 1
				case "Chmod":
					c.Perm = 0o700
				}

				add(c)
			}
		}

		// (an actor with a call list of its own makes the ones it lists)
		listed := func(o string) bool {
			if sp.ops == nil {
				return true
			}

			for _, l := range sp.ops {
				if l == o {
					return true
				}
			}

			return false
		}

		for _, p := range sp.fresh {
			for _, o := range newOps {
				if !listed(o) {
					continue
				}

				c := fsx.Call{Op: o, A: p}
				if o == "Symlink" {
					c.Data = symlinkTarget
				}

				add(c)
			}
		}

		for _, p := range sp.tmp {
			for _, o := range tmpOps {
				if !listed(o) {
					continue
				}

				add(fsx.Call{Op: o, A: p, Data: "t*"})
			}
		}

		for _, a := range sp.src {
			for _, b := range sp.dst {
				for _, o := range pairOps {
					add(fsx.Call{Op: o, A: a, B: b})
				}
			}
		}

		for _, p := range sp.rootDirs {
			for _, m := range rootModes {
				add(fsx.Call{Op: "Chmod", A: p, Perm: m})
			}
		}

		for _, p := range sp.sub {
			add(fsx.Call{Op: "Sub", A: p})
		}

		add(fsx.Call{Op: "Getwd"})

		for _, u := range sp.users {
			add(fsx.Call{Op: "SetUser", A: u})
		}

		for _, m := range sp.umasks {
			add(fsx.Call{Op: "SetUMask", Perm: m})
		}
	}

	return ops
}

// ---------------------------------------------------------------------------
// path helpers on the model's spelling: '/'-separated, which is the spelling of
// the calls on a Linux-typed system; the calls of a Windows-typed system are
// translated first (ostype.go: mp, osp)

func isAbs(p string) bool { return strings.HasPrefix(p, "/") }

// joinDir prefixes the view-absolute clean path v with base.
func joinDir(base, v string) string {
	switch {
	case base == "/" || base == "":
		return v
	case v == "/":
		return base
	}

	return base + v
}

// stripDir removes base from the absolute path p; a path outside base is
// returned with a marker so that it can never compare equal by accident.
func stripDir(base, p string) string {
	switch {
	case base == "/" || base == "":
		return p
	case p == base:
		return "/"
	case strings.HasPrefix(p, base+"/"):
		return p[len(base):]
	}

	return "!outside:" + p
}

func under(p, root string) bool {
	if root == "/" || p == root {
		return true
	}

	return strings.HasPrefix(p, root+"/")
}

// viewAbs is the path p means inside an actor whose working directory is cwd:
// absolute, lexically clean, with ".." clamped at the root (path.Clean rule 4).
func viewAbs(cwd, p string) string {
	if isAbs(p) {
		return path.Clean(p)
	}

	return path.Clean(cwd + "/" + p)
}

// escapes reports whether resolving p lexically from cwd climbs above the root.
func escapes(cwd, p string) (esc, dotdot bool) {
	full := p
	if !isAbs(p) {
		full = cwd + "/" + p
	}

	depth := 0

	for _, seg := range strings.Split(full, "/") {
		switch seg {
		case "", ".":
		case "..":
			depth--
			if depth < 0 {
				esc = true
				depth = 0
			}
		default:
			depth++
		}
	}

	return esc, strings.Contains("/"+p+"/", "/../")
}

// pathClass classifies an operand for signatures.
func pathClass(a *actor, p string) string {
	esc, dd := escapes(a.cwd, p)

	switch {
	case !isAbs(p) && esc:
		return "rel-dotdot-escape"
	case !isAbs(p):
		return "rel"
	case esc:
		return "abs-dotdot-escape"
	case dd:
		return "abs-dotdot-inside"
	case path.Clean(p) == "/":
		return "view-root"
	case a.isView() && a.dir != "/" && (under(path.Clean(p), "/p") || under(path.Clean(p), "/o")):
		return "outside-name"
	}

	return "abs-clean"
}

// pathOf extracts the path of a VerifDump line.
func pathOf(line string) string {
	i := strings.Index(line, " ")
	if i < 0 {
		return line
	}

	p := line[:i]
	if len(p) > 1 {
		p = strings.TrimSuffix(p, "/")
	}

	return p
}

// labelOf extracts the hard-link class label of a VerifDump file line.
func labelOf(line string) string {
	i := strings.Index(line, " #")
	if i < 0 {
		return ""
	}

	j := strings.Index(line[i+2:], " ")
	if j < 0 {
		return line[i+2:]
	}

	return line[i+2 : i+2+j]
}

func diffSets(a, b []string) (onlyA, onlyB []string) {
	am := make(map[string]bool, len(a))
	for _, l := range a {
		am[l] = true
	}

	bm := make(map[string]bool, len(b))
	for _, l := range b {
		bm[l] = true
	}

	for _, l := range a {
		if !bm[l] {
			onlyA = append(onlyA, l)
		}
	}

	for _, l := range b {
		if !am[l] {
			onlyB = append(onlyB, l)
		}
	}

	return
}

func equalLines(a, b []string) bool {
	if len(a) != len(b) {
		return false
	}

	for i := range a {
		if a[i] != b[i] {
			return false
		}
	}

	return true
}

// treeClass summarises a dump difference as the kinds of difference present:
// missing (reference only), extra (observed only), attr (both, different
// attributes), cycle (the observed tree contains a directory cycle).
func treeClass(want, got []string) string {
	ow, og := diffSets(want, got)
	wp := map[string]bool{}

	for _, l := range ow {
		wp[pathOf(l)] = true
	}

	kinds := map[string]bool{}
	gp := map[string]bool{}

	for _, l := range og {
		p := pathOf(l)
		gp[p] = true

		switch {
		case strings.Contains(l, "!cycle"):
			kinds["cycle"] = true
		case wp[p]:
			kinds["attr"] = true
		default:
			kinds["extra"] = true
		}
	}

	for _, l := range ow {
		if p := pathOf(l); !gp[p] {
			kinds["missing"] = true
		}
	}

	var tags []string

	for _, k := range []string{"attr", "extra", "missing", "cycle"} {
		if kinds[k] {
			tags = append(tags, k)
		}
	}

	return strings.Join(tags, "+")
}

func clip(s string) string {
	if len(s) > 160 {
		return s[:160] + "..."
	}

	return s
}
