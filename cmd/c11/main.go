// c11: a MemFS.Sub view shows exactly its subtree and keeps its own user,
// umask and working directory.
//
// Engine A (lib/bfs): every history up to a bound over an alphabet of calls
// issued through a parent MemFS, a view V1 = parent.Sub("/p"), a nested view
// V2 = V1.Sub("/q") (thorough: and V0 = parent.Sub("/")) is executed on the
// real MemFS and, in lock-step, on a twin parent instance driven with
// prefixed paths by the same user/umask. Oracle per transition: same outcome
// and value, equal trees, nothing outside the view's directory read or
// changed, changes visible through every other actor, per-view setters do not
// leak into other actors.
//
// Views are also created DURING a history: "V = receiver.Sub(spelling)" is a
// call of the alphabet (receiver = parent or a view; spelling = absolute clean,
// absolute with "." / "..", relative to the receiver's working directory), and
// every view that comes out is probed for independence of user, umask and
// working directory (system.go: stepSub, probeIndependence). The directories
// views are rooted at get, besides 0700, modes that refuse exactly one of
// search, write, read to the view's user, and the operands of every view
// include several spellings of the view's own root (ops.go: actorSpec).
//
// One view of the start state (V3, full alphabet) is rooted at a directory
// that never had an entry (ops.go: freshDir): a container that was never used
// is internally another object than one that was emptied.
//
// The same alphabet is explored on Windows-typed file systems (systems
// "Windows:<variant>", build tag avfs_setostype, ostype.go): paths with volume,
// rooted paths without volume, relative paths after a Chdir through the view
// and the paths of a second volume that the parent holds, which have no
// counterpart below a view's directory and must not reach anything.
package main

import (
	"encoding/json"
	"flag"
	"fmt"
	"os"
	"path/filepath"
	"sort"
	"strconv"
	"strings"
	"time"

	"github.com/avfs/avfs/verifrt"

	"verif/lib/bfs"
	"verif/lib/ev"
	"verif/lib/kf"
)

func factory(tier string) func(string) bfs.System {
	return func(name string) bfs.System {
		verifrt.SetMode(verifrt.ModeSeq)

		return newSys(name, tier)
	}
}

type replayObj struct {
	System  string          `json:"system"`
	Tier    string          `json:"tier"`
	History []string        `json:"history"`
	Op      string          `json:"op"`
	Detail  json.RawMessage `json:"detail"`
}

func runReplay(file string) int {
	b, err := os.ReadFile(file)
	if err != nil {
		fmt.Fprintln(os.Stderr, err)

		return 2
	}

	var doc struct {
		Signature map[string]string `json:"signature"`
		Replay    replayObj         `json:"replay"`
	}

	if err := json.Unmarshal(b, &doc); err != nil {
		fmt.Fprintln(os.Stderr, "replay:", err)

		return 2
	}

	verifrt.SetMode(verifrt.ModeSeq)

	s := newSys(doc.Replay.System, doc.Replay.Tier)
	s.trace = func(l string) { fmt.Println("  " + l) }

	idx := map[string]int{}
	for i := range s.ops {
		idx[s.OpString(i)] = i
	}

	if err := s.Reset(); err != nil {
		fmt.Fprintln(os.Stderr, "replay: setup:", err)

		return 2
	}

	fmt.Printf("replay of %s on system %s (tier %s)\nsignature: %s\n", file, doc.Replay.System, doc.Replay.Tier, kf.Sig(doc.Signature))

	code := 0

	for n, o := range append(append([]string{}, doc.Replay.History...), doc.Replay.Op) {
		i, ok := idx[o]
		if !ok {
			fmt.Fprintf(os.Stderr, "replay: operation %q is not in the alphabet\n", o)

			return 2
		}

		sr := s.Step(i)

		for _, v := range sr.Viols {
			code = 1

			fmt.Printf("  step %d: violation %s\n           %s\n", n+1, kf.Sig(v.Sig), v.Detail)
		}
	}

	if code == 0 {
		fmt.Println("replay: no violation reproduced")
	}

	return code
}

func countWin(names []string) int {
	n := 0

	for _, sn := range names {
		if isWin(sn) {
			n++
		}
	}

	return n
}

func main() {
	id := flag.String("id", "C11", "")
	tier := flag.String("tier", "quick", "")
	depth := flag.Int("depth", 0, "history bound (default 2 quick / 3 thorough)")
	systems := flag.String("systems", "", "comma-separated system variants")
	replay := flag.String("replay", "", "re-execute a replay file and print every step")

	var wflag string

	flag.StringVar(&wflag, "bfsworker", "", "")
	flag.Parse()

	bfs.MaybeWorker(factory(*tier))

	if *replay != "" {
		os.Exit(runReplay(*replay))
	}

	verifDir := os.Getenv("VERIF_DIR")
	if verifDir == "" {
		verifDir = "."
	}

	rep, err := kf.NewReporter(*id, filepath.Join(verifDir, "known_findings.txt"), filepath.Join(verifDir, "replays"))
	if err != nil {
		fmt.Fprintln(os.Stderr, err)
		os.Exit(2)
	}

	rep.Discover = os.Getenv("VERIF_DISCOVER") != ""

	// the core alphabet one level deeper than the bound (cheap, runs first so that a
	// tight budget is spent on it completely), then the full alphabet to the bound
	// Windows:<variant>: the same on Windows-typed file systems (ostype.go); there the core
	// alphabet goes as deep as on the Linux type and the full alphabet one level less deep
	sysNames := []string{
		"core-admin@/", "core-users@/", "admin@/", "users@/", "admin@/p/q",
		"Windows:core-admin@/", "Windows:admin@/", "Windows:users@/", "Windows:admin@/p/q",
	}
	if *systems != "" {
		sysNames = strings.Split(*systems, ",")
	}

	d := *depth
	if d == 0 {
		d = 2
		if *tier == "thorough" {
			d = 3
		}
	}

	budget := 0
	if b, err := strconv.Atoi(os.Getenv("VERIF_BUDGET_S")); err == nil {
		budget = b
	} else if *tier == "thorough" {
		budget = 1200
	}

	start := time.Now()
	alpha := map[string]int{}

	var (
		all        []bfs.Stats
		harnessErr string
		numOps     int
		bounds     []string
	)

	for si, sn := range sysNames {
		probe := newSys(sn, *tier)
		numOps = probe.NumOps()
		alpha[sn] = numOps

		sd := d
		switch {
		case isCore(sn):
			sd = d + 1
		case isWin(sn) && *depth == 0:
			sd = d - 1
		}

		bounds = append(bounds, fmt.Sprintf("%s<=%d", sn, sd))

		cfg := bfs.Config{
			System: sn, MaxDepth: sd,
			Report: func(system string, hist []string, op string, v bfs.Viol) {
				var det json.RawMessage
				if json.Valid([]byte(v.Detail)) {
					det = json.RawMessage(v.Detail)
				} else {
					b, _ := json.Marshal(v.Detail)
					det = b
				}

				rep.Report(kf.Sig(v.Sig), replayObj{System: system, Tier: *tier, History: hist, Op: op, Detail: det})
			},
		}

		if budget > 0 {
			// what is left of the budget (minus bookkeeping) is shared by the systems still to run;
			// a twentieth is kept for the Windows-typed systems, which run last
			left := time.Duration(budget)*time.Second - time.Since(start) - 10*time.Second
			togo := len(sysNames) - si

			if nw := countWin(sysNames[si:]); nw > 0 && nw < togo {
				left -= time.Duration(budget) * time.Second / 20
				togo -= nw
			}

			if left < time.Second {
				left = time.Second
			}

			cfg.Deadline = time.Now().Add(left / time.Duration(togo))
		}

		st := bfs.Run(cfg, probe.OpString)
		all = append(all, st)

		if st.HarnessErr != "" {
			harnessErr = sn + ": " + st.HarnessErr
		}

		bounds[len(bounds)-1] += fmt.Sprintf(" (completed %d)", st.DepthDone)

		fmt.Printf("%s %s: ops=%d states=%d transitions=%d depth_completed=%d/%d exhaustive=%v worker_crashes=%d\n",
			*id, sn, probe.NumOps(), st.States, st.Transitions, st.DepthDone, sd, st.Exhaustive, st.WorkerCrashes)
	}

	states, trans := 0, 0
	wstates, wtrans := 0, 0
	outcomes := map[string]int{}
	exh := true

	var samples []any

	for _, st := range all {
		states += st.States
		trans += st.Transitions

		if isWin(st.System) {
			wstates += st.States
			wtrans += st.Transitions
		}

		for k, n := range st.Outcomes {
			outcomes[k] += n
		}

		if !st.Exhaustive {
			exh = false
		}

		for i, s := range st.Samples {
			if i < 3 {
				samples = append(samples, map[string]any{"system": st.System, "history": s})
			}
		}
	}

	if len(samples) == 0 {
		samples = append(samples, "no successor state found")
	}

	// outcome classes, for the reader of the evidence file
	var oc []string
	for k := range outcomes {
		oc = append(oc, k)
	}

	sort.Strings(oc)

	if len(oc) > 12 {
		step := len(oc) / 12
		var pick []string

		for i := 0; i < len(oc); i += step {
			pick = append(pick, fmt.Sprintf("%s x%d", oc[i], outcomes[oc[i]]))
		}

		oc = pick
	}

	code := rep.Finish()

	matched := rep.KnownMatched()
	if matched == nil {
		matched = []string{}
	}
	if harnessErr != "" {
		fmt.Fprintln(os.Stderr, "harness error:", harnessErr)

		code = 2
	}

	fmt.Printf("%s summary: tier=%s systems=%d states=%d transitions=%d bounds=[%s] exhaustive=%v distinct_outcome_classes=%d violation_instances=%d new_signatures=%d wall=%.1fs\n",
		*id, *tier, len(all), states, trans, strings.Join(bounds, "; "), exh, len(outcomes), rep.Total, rep.NewCount(), time.Since(start).Seconds())

	e := ev.Evidence{
		PropertyID: *id, Tier: *tier, Seed: ev.Seed(), Level: "model_checking",
		Coverage: map[string]any{
			"states": states, "transitions": trans, "traces_validated_against_impl": trans,
			"evaluations": trans, "distinct_nontrivial": len(outcomes),
			"rule": "breadth-first enumeration of every history of length <= bound over the alphabet (calls through parent, view /p, nested view /p/q" +
				map[bool]string{true: ", view /", false: ""}[*tier == "thorough"] +
				"; absolute, dot-dot and relative operands, the view's own root spelled '/', '/.', '/q/..', '/..', '..'; SetUser/SetUMask/Chdir per view; parent-side rename/removal of view roots; " +
				"Chmod of the directories views are rooted at to 0700 and (full alphabet) 0766/0755/0733, through the parent and through the view; " +
				"re-creation of every view by 'V = receiver.Sub(spelling)' from the parent and from a view, spellings absolute clean, absolute with '.' and '..', and '.', '..', name relative to the receiver's working directory, " +
				"followed by an independence probe: SetUMask, SetUser and Chdir applied to the new view and to its receiver, User/UMask/Getwd of all other actors compared; " +
				"every creating call of the API besides Mkdir, MkdirAll, WriteFile, OpenFile(O_CREATE|O_EXCL), Rename and Link: Symlink(plain relative target 'g', new name) and Create(new name) on new names in the actor's root and below it (core alphabet: Symlink on '/sl' through both views; full alphabet: '/sl', '/q/sl', 'sl', '/p/sl' through every view and, through the parent, inside every directory a view is rooted at), " +
				"full alphabet also CreateTemp(dir,'t*') and MkdirTemp(dir,'t*') through every view on its root and a directory below it, each followed at once by Remove of the returned name through the same actor (the name is random), the returned name compared with its digits masked as a path of the actor's namespace; " +
				"full alphabet: the start state holds a directory that NEVER had an entry (" + freshDir + ") with a view V3 on it - creations, removals, Chdir and reads through V3 on '/', '/new', '/new/sub', 'new', Rename/Link inside it and to '/../new', chmod of its root to the modes above, SetUser/SetUMask, 'V3 = parent.Sub' spelled absolute and relative; " +
				"the parent removes (Remove, RemoveAll, directly or through RemoveAll of the directory above), renames, chmods (0700) and populates that directory, the view of '/' removes and chmods it), each executed on the real MemFS and in lock-step on a twin parent with prefixed paths; " +
				"systems Windows:<variant>: the same alphabet spelled for Windows-typed file systems (volume C:, backslashes; the parent holds a second volume D: with directory v and file v\\w) plus the operands that exist there only, as operands of every call, of Rename/Link and of Sub, through parent, view, nested view and the view of the root: " +
				"rooted paths without volume (`\\`, `\\q\\f`, `\\..\\o\\h`, `\\new`), '/' as separator (`C:/q/f`), paths of the other volume (`D:\\`, `D:\\v`, `D:\\v\\w`, `D:\\new`, and `D:\\q\\f`, `D:\\f` whose remainder exists below the view's root); every view is probed at creation for what the volume names mean inside it (signature field volumes); " +
				"distinct_nontrivial = distinct (actor kind, call, twin outcome kind) classes observed on transitions",
			"samples": samples, "outcome_class_samples": oc,
			"exhaustive": exh, "bound": "histories of length: " + strings.Join(bounds, "; "),
			"alphabet_sizes": alpha, "systems": all, "known_findings_matched": matched,
			"violation_instances":    rep.Total,
			"of_which_windows_typed": map[string]int{"states": wstates, "transitions": wtrans},
		},
		Assumptions: []string{
			"reference = the parent's own behaviour on a twin instance (same tree, same user and umask, path = Join(dir, Clean(\"/\"+p))); defects that parent and view share are not flagged",
			"\"..\" is clamped at the view's root (chroot semantics, as the statement's 'nothing outside dir is reachable' requires)",
			"relative operands before the first successful Chdir through the view are judged only on 'nothing outside dir is read or changed'",
			"after the view's root directory has been renamed or removed (through any actor) the property is silent: only no panic/deadlock and no change outside the directory that now holds the view's root node are required; in addition, once the root node is no longer reachable from the parent's root (removed, or below a removed directory) nothing new can be created through the view (a removed directory accepts no entry)",
			"Remove/RemoveAll/Rename whose operand resolves to the view's own root act on dir's entry in dir's parent, i.e. outside dir; both the parent's behaviour and a root that refuses or is emptied and kept are accepted there: only no panic/deadlock and no change outside dir are required",
			"signature field viewroot tells whether the acting (or observing) non-admin user has search permission on the view's root directory and on the directories above it, which the parent checks while walking the prefixed path and a view never does; when every operand of the call resolves to the view's root itself the parent does not search that directory to reach it (it checks the permission the call needs on its target): the class is root-unsearchable-operand then, which no known finding covers",
			"'V = receiver.Sub(spelling)' is judged against Sub of the twin parent on the prefixed path (outcome, error path), on where the new root is (injected VerifRootIs), on the new view starting with the receiver's user, umask and working directory (copied by value, as the anchors describe), and on the independence probe; it is a no-op when the receiver is a view whose root was renamed or removed, and when the spelling is relative and the receiver is a view whose working directory was not yet set through it",
			"the independence probe uses the public setters and puts the previous values back (SetUMask, SetUser, SetCurDir); Chdir is probed with '/' or, when that is the current directory, with the first directory listed in '/' (not probed when there is none or Chdir is refused)",
			"the modes enumerated for a view's root differ from 0777 in the group and others classes only (the view roots of the start state belong to the administrator, the non-admin users u1 and u2 are 'others' there); a refusal to the owner class arises only where a history lets a non-admin user create the directory a view is then rooted at",
			"FileInfo.Name() of the view's root is not compared (a root has no name inside its own namespace); mtimes and file ids are not compared",
			"state key = injected node-graph dump of the parent (VerifDump: names, types, modes, owners, link classes, bytes) + User/UMask/Getwd of every actor + chdir-done flag + directory and location of every view root; a Sub step always rebuilds the instance",
			"the directory " + freshDir + " of the start state is created by one Mkdir and nothing is ever created in it before the history starts (the probes run on the views at creation only read): every other directory a view is rooted at contains an entry or did once. The state key does not tell a directory that never had an entry from one that was emptied again (no public call does); the search keeps the shortest history of a state, so the start state and the states reached by removing, renaming or chmod-ing that directory are explored with the never populated one. The core alphabet (one level deeper) has no operand in that directory; in the users@/ systems V3 acts as u1 with umask 077",
			"a call that succeeds through a view whose root node is unreachable from the parent's root and is not read-only changes something no dump shows: the instance is rebuilt after it, so that the next call tried from the same state does not meet what it left behind",
			"paths that resolve through a symbolic link are outside the property: the links the Symlink calls of the alphabet make have a plain relative target, sit on names ('sl') that are no operand of any other call, and are read with Lstat/Readlink only (never followed) by the visibility check; the CALL Symlink is judged like every other creating call (outcome, error paths - New after stripping dir, Old verbatim -, equal trees, visibility, nothing outside changes)",
			"the rule 'nothing is created through a view whose root node is unreachable' covers every call that can make an entry: Mkdir, MkdirAll, WriteFile, OpenFile(O_CREATE), Create, Symlink, CreateTemp, MkdirTemp, and Link / Rename on a destination that did not exist; for MkdirAll, WriteFile, Create, OpenFile, Link, Rename a success on a name that existed before (Lstat through the view) creates nothing and is accepted",
			"CreateTemp / MkdirTemp draw a random name: the step is the composite 'create, then Remove the returned name through the same actor' so that trees and state keys are deterministic; a failing Remove shows in the compared value (cleanup=<errno>); digits are masked in the paths these two calls return or carry in errors",
			"Windows-typed systems are the library's own emulation (memfs.Options.OSType = avfs.OsWindows, build tag avfs_setostype) on a Linux host with a Linux-typed MemIdm (users root, u1, u2 as on the Linux type); the harness keeps its model (working directories, view roots, dump lines, twin paths) in slash form on the default volume for both OS types and translates at the call boundary; the Linux-typed systems are untouched by this (same alphabet, same counts)",
			"Windows-typed: a view path with the default volume (`C:\\x`) corresponds to the parent path dir+`\\x`; the views of the alphabet are rooted on the default volume and the parent's working directory stays there (no Chdir of the parent to D:), because the statement does not say what volume name a view rooted on another volume shows",
			"Windows-typed: an operand that names another volume (`D:\\...`) has no counterpart below dir. Judged: the call succeeds or fails as the twin parent's call on the same path of a volume that does not exist (`Q:\\...`); WHICH error is not compared, and a panic the parent shares there (MkdirAll) is the parent's defect, not the view's; the trees stay equal, nothing outside dir changes, the view's own state does not move; a read-only call that answers what the parent answers for that very path is reported as outside-read. Also judged through a view whose root was renamed or removed as far as 'nothing outside changes' goes",
			"Windows-typed: a rooted path without volume (`\\q\\f`) is made absolute by the library's own lexical avfs.Abs on the actor's model working directory before it is prefixed (what such a string means relative to a working directory belongs to the lexical functions, property C13; parent and view share it); it is not an absolute path of the emulated OS, so it is judged like a relative operand: in full only after a Chdir through the view",
			"Windows-typed: signatures carry ostype=Windows and volumes = result of a probe run on every view when it is created (setup and 'V = receiver.Sub'): view.Sub(`C:\\`) must be rooted at the view's own root (injected VerifRootIs) and view.Sub(`D:\\`) must fail -> 'own'; anything else is spelled out (C:=parent-root,D:=reachable) and reported once as kind volume-table; for a report that involves an observer or victim the first class that is not 'own' is taken. Signatures of Linux-typed systems carry neither field",
			"Windows-typed: if V1.Sub(`C:\\q`) fails during setup this is reported as a violation (setup:Sub, outcome) and the exploration continues with parent.Sub(`C:\\p\\q`) in the place of the nested view",
			"the Windows-typed systems run after the Linux-typed ones; their full alphabet is explored one level less deep than on the Linux type (quick: every single call of the full alphabet in the three start states; the core alphabet as deep as on the Linux type); under a time budget a twentieth of it is kept for them",
		},
		Violations: rep.NewCount(),
	}

	if code != 2 {
		_ = ev.Write(filepath.Join(verifDir, "evidence", *id+".json"), e)
	}

	os.Exit(code)
}
